/-
  C07 hand-written model: the skeleton of `ALMSolver<InnerSolverT>::operator()` (alm.tpp).

  Everything the loop *computes* is in `Alpaqa/Gen/C07.lean`, regenerated from the C++ on every
  run (`almInit`, `almPreCall`, `almInnerOpts`, `almIter`, `almM0`, `almMaxIter0`, the helpers).
  What is hand-written here — and tied by the scripted-inner-solver correspondence run of
  `checks/c07.py` — is only the control skeleton: the two early paths (`max_iter == 0`, `m == 0`),
  the order "project multipliers → build options → call the inner solver → post-processing", what
  is passed to / taken from the inner solver, and the loop-carried data flow.

  The inner solver is an arbitrary function `InnerCall → InnerResult` (an adaptive adversary: it
  sees everything it is called with, including `outer_iter`, so every *sequence* of outcomes is
  one such function).  The clock is an oracle bit in `InnerResult` (`outOfTime` = the value of
  `time_elapsed > params.max_time` read after that inner solve).  So is ALM's own stop flag
  (`AtomicStopSignal stop_signal`, set by `ALMSolver::stop()` — which also forwards to the inner
  solver — and by nothing else, never cleared): `stopSeen` = the value `stop_signal.stop_requested()`
  has when the loop body reads it, once, right after that inner solve.  Being part of what the
  adversary returns, it may depend on everything the inner solve was called with (`outer_iter`
  included) and on the inner outcome: "stop() landed before / during / not until after inner solve k"
  are all such functions.  The inner solver's *own* flag is not modelled here: whether it reports
  `Interrupted` is part of its arbitrary `status`.
-/
import Alpaqa.Model.Vec
import Alpaqa.Model.C15
import Alpaqa.Gen.C07

namespace Alpaqa.C07
open Alpaqa Alpaqa.Gen

/-- What ALM needs from the (BoxConstrProblem-like) problem. -/
structure Problem (α : Type) where
  m : Nat
  /-- `D.lowerbound(i) == -inf` -/
  lbInf : List Bool
  /-- `D.upperbound(i) == +inf` -/
  ubInf : List Bool
  /-- `penalty_alm_split` -/
  split : Nat
  /-- `f(x₀)`, `g(x₀)`: read by `initialize_penalty` only -/
  f0 : α
  g0 : Vec α

/-- What the inner solver is called with. -/
structure InnerCall (α : Type) where
  x : Vec α
  /-- multipliers *after* `eval_proj_multipliers` -/
  y : Vec α
  sigma : Vec α
  /-- contents of the `err_z` buffer on entry (the inner solver overwrites it) -/
  errBuf : Vec α
  opts : InnerSolveOptions α

/-- What the inner solver hands back (`x`, `y`, `err_z` are written in place in the C++). -/
structure InnerResult (α S : Type) where
  status : SolverStatus
  eps : α
  x : Vec α
  y : Vec α
  errz : Vec α
  stats : S
  /-- clock oracle: `time_elapsed > params.max_time`, read right after this inner solve -/
  outOfTime : Bool
  /-- stop oracle: `stop_signal.stop_requested()` (ALM's own flag), read right after this inner solve
      (not read on the `m == 0` path) -/
  stopSeen : Bool

/-- One pass through the loop body. -/
structure Step (α A S : Type) where
  i : Nat
  /-- loop-carried variables at the loop head -/
  st : LoopState α A
  call : InnerCall α
  res : InnerResult α S
  out : IterOut α A

structure Result (α A S : Type) where
  stats : ALMStats α A
  x : Vec α
  y : Vec α
  /-- the caller's `std::optional<rvec> Σ` buffer after the call (`none` if none was passed) -/
  sigmaOut : Option (Vec α)
  /-- inner solves, in order -/
  history : List (InnerCall α × InnerResult α S)
  /-- loop passes (empty on the `max_iter == 0` and `m == 0` paths) -/
  steps : List (Step α A S)
  /-- `throw std::logic_error("[ALM]   loop error")` reached -/
  logicError : Bool

section
variable {α A S : Type} [Add α] [Sub α] [Mul α] [Div α] [Neg α] [LT α] [LE α] [DecidableLT α]
  [DecidableLE α] [BEq α] [RealLike α] [NatCast α] [OfScientific α] [OfNat α 0] [OfNat α 1]

/-- `p.eval_proj_multipliers(y, M)` of a `BoxConstrProblem` (model and theorems: C15). -/
def projMult (prob : Problem α) (y : Vec α) (M : α) : Vec α :=
  C15.projMultipliers prob.lbInf prob.ubInf prob.split M y

/-- Loop body: projection, options, inner solve, generated post-processing. -/
def mkStep (P : ALMParams α) (prob : Problem α) (accAdd : A → S → A) (hasSig : Bool) (SigU : Vec α)
    (inner : InnerCall α → InnerResult α S) (i : Nat) (st : LoopState α A) (x y : Vec α) :
    Step α A S :=
  let pc := almPreCall P (projMult prob) i y
  let call : InnerCall α := ⟨x, pc.1, st.Sig_curr, st.error, almInnerOpts st.eps i⟩
  let r := inner call
  -- the inner solver wrote `err_z` into `error`
  let out := almIter P accAdd prob.m i hasSig SigU pc.2 r.outOfTime r.stopSeen r.status r.eps r.stats
    st.Sig_curr r.errz st.error_old st.norm_e st.norm_e_old st.s st.eps
  ⟨i, st, call, r, out⟩

/-- `for (unsigned i = 0; i < params.max_iter; ++i) { … }  throw std::logic_error(…)`;
    `fuel` = remaining admissible values of `i` (tie to the header: `Props.C07.loop_header_tie`). -/
def loop (P : ALMParams α) (prob : Problem α) (accAdd : A → S → A) (hasSig : Bool) (SigU : Vec α)
    (inner : InnerCall α → InnerResult α S) :
    Nat → Nat → LoopState α A → Vec α → Vec α → Result α A S
  | 0, _, st, x, y =>
    { stats := st.s, x := x, y := y, sigmaOut := if hasSig then some SigU else none, history := [],
      steps := [], logicError := true }
  | fuel + 1, i, st, x, y =>
    let s := mkStep P prob accAdd hasSig SigU inner i st x y
    match s.out with
    | .done stats Sg =>
      { stats := stats, x := s.res.x, y := s.res.y, sigmaOut := if hasSig then some Sg else none,
        history := [(s.call, s.res)], steps := [s], logicError := false }
    | .cont st' =>
      let r := loop P prob accAdd hasSig SigU inner fuel (almLoopStep i) st' s.res.x s.res.y
      { r with history := (s.call, s.res) :: r.history, steps := s :: r.steps }

/-- `ALMSolver::operator()(p, x, y, Σ)`.  `nan`, `inf`: the IEEE specials the C++ initialises
    buffers / default statistics with (arbitrary values in the theorems). -/
def run (nan inf : α) (acc0 : A) (accAdd : A → S → A) (P : ALMParams α) (prob : Problem α)
    (x y : Vec α) (Sig0 : Option (Vec α)) (inner : InnerCall α → InnerResult α S) : Result α A S :=
  if almMaxIter0Cond P then
    { stats := almMaxIter0 inf acc0, x := x, y := y, sigmaOut := Sig0, history := [], steps := [],
      logicError := false }
  else if prob.m == 0 then
    -- `vec Σ_curr(0), error(0);` — a single inner solve, no projection, no time check
    let call : InnerCall α := ⟨x, y, [], [], almInnerOptsM0 P⟩
    let r := inner call
    { stats := almM0 accAdd r.status r.eps r.stats (ALMStats.default inf acc0), x := r.x, y := r.y,
      sigmaOut := Sig0, history := [(call, r)], steps := [], logicError := false }
  else
    let hasSig := Sig0.isSome
    let SigU := Sig0.getD []
    let st := almInit P nan inf acc0 prob.m hasSig SigU prob.f0 prob.g0
    loop P prob accAdd hasSig SigU inner P.max_iter almLoopInit st x y

end
end Alpaqa.C07
