/-
  C09 prelude for the generated file `Alpaqa/Gen/C09.lean` (core Lean only):
  what `lbfgs.tpp` takes from libm / IEEE beyond `RealLike`, and the `for`-loop combinator the
  translator maps the loops of `foreach_fwd` / `foreach_rev` onto.
-/
import Alpaqa.Model.Vec

namespace Alpaqa

/-- `std::pow` (libm).  No theorem looks inside it. -/
class PowLike (α : Type) where
  pow : α → α → α

instance : PowLike Float := ⟨Float.pow⟩

/-- `alpaqa::NaN<config_t>` (quiet NaN), the marker `apply_masked` writes into `ρ(i)`. -/
class HasNaN (α : Type) where
  nan : α

instance : HasNaN Float := ⟨0.0 / 0.0⟩

namespace C09

/-- A C `for (index_t i = init; cond; step) fun(i);` whose condition may itself modify `i`
    (`i-- > 0`): `test i = (continue?, value of i seen by the body)`, `step` = the third clause.
    Returns the list of values `fun` is called with.  `fuel` bounds the trip count (the
    generator passes `history + 2`; every loop of `lbfgs.hpp` makes at most `history` trips).
    Indices are `Nat`: faithful to the signed `index_t` as long as no visited value is negative
    (true for `history ≥ 1`, `0 ≤ idx < history`; the closed-form lemmas in `Props/C09.lean`
    pin the visited values). -/
def forIdx (test : Nat → Bool × Nat) (step : Nat → Nat) : Nat → Nat → List Nat
  | 0, _ => []
  | fuel + 1, i =>
    if (test i).1 then (test i).2 :: forIdx test step fuel (step (test i).2) else []

end C09
end Alpaqa
