/-
  `XR α`: reals extended by `+inf`, `-inf`, `nan` with IEEE-754 comparison semantics, used to
  state facts about non-finite residuals at decision points (status chain, acceptance tests).
-/
import Alpaqa.Model.Scalar

namespace Alpaqa

inductive XR (α : Type) where
  | fin (a : α)
  | pinf
  | ninf
  | nan
  deriving DecidableEq, Repr

namespace XR
variable {α : Type}

/-- IEEE `<`: false whenever a NaN is involved. -/
def ltb [LT α] [DecidableLT α] : XR α → XR α → Bool
  | fin a, fin b => decide (a < b)
  | fin _, pinf => true
  | ninf, fin _ => true
  | ninf, pinf => true
  | _, _ => false

/-- IEEE `<=`: false whenever a NaN is involved. -/
def leb [LE α] [DecidableLE α] : XR α → XR α → Bool
  | fin a, fin b => decide (a ≤ b)
  | fin _, pinf => true
  | ninf, fin _ => true
  | ninf, ninf => true
  | ninf, pinf => true
  | pinf, pinf => true
  | _, _ => false

instance [LT α] [DecidableLT α] : LT (XR α) := ⟨fun x y => ltb x y = true⟩
instance [LE α] [DecidableLE α] : LE (XR α) := ⟨fun x y => leb x y = true⟩
instance [LT α] [DecidableLT α] : DecidableLT (XR α) := fun x y => inferInstanceAs (Decidable (ltb x y = true))
instance [LE α] [DecidableLE α] : DecidableLE (XR α) := fun x y => inferInstanceAs (Decidable (leb x y = true))

def isFiniteX : XR α → Bool
  | fin _ => true
  | _ => false

instance [OfNat α n] : OfNat (XR α) n := ⟨fin (OfNat.ofNat n)⟩
instance [OfScientific α] : OfScientific (XR α) := ⟨fun m s e => fin (OfScientific.ofScientific m s e)⟩

/-- `sqrt` is not needed at decision points; `isNaN`/`isFinite` are the IEEE classifications. -/
instance : RealLike (XR α) where
  sqrt x := x
  isNaN x := match x with | nan => true | _ => false
  isFinite := isFiniteX

end XR
end Alpaqa
