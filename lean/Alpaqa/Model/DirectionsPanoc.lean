/-
  The four shipped direction providers (`Alpaqa/Model/Directions.lean`) as instances of the
  direction-provider interface of the PANOC loop model (`Panoc.Direction`, `Model/Panoc.lean`,
  imported read-only).  With these, `Panoc.run` is an executable model of the whole
  PANOC-with-direction stack with no direction oracle left (core Lean only).

  `Panoc.Direction` has no channel for exceptions; the adapter latches a thrown exception in the
  state (`Latch.threw`; the provider state is left as it was, `apply` reports failure).  The
  replay driver reports a latched exception as a mismatch; no run of the shipped solver harness
  throws (memory ≥ 1, CBFGS off).
-/
import Alpaqa.Model.Directions
import Alpaqa.Model.Panoc

namespace Alpaqa.Directions
open Alpaqa Alpaqa.Gen

/-- Provider state plus "an operation threw". -/
structure Latch (σ : Type) where
  st : σ
  threw : Bool := false

section
variable {α : Type} [Add α] [Sub α] [Mul α] [Div α] [Neg α] [LT α] [LE α] [DecidableLT α]
  [DecidableLE α] [BEq α] [RealLike α] [PowLike α] [HasNaN α] [NatCast α] [OfScientific α]
  [OfNat α 0] [OfNat α 1] [OfNat α 2]

def latchApply {σ : Type} (d : Latch σ) (q0 : Vec α) : ApplyRes σ α → Latch σ × Bool × Vec α
  | .done st ok q => ({ d with st := st }, ok, q)
  | .threw => ({ d with threw := true }, false, q0)

def latchRes {σ : Type} (d : Latch σ) : Res σ → Latch σ
  | .ok st => { d with st := st }
  | .threw => { d with threw := true }

/-- `NoopDirection` -/
def noopDir : Panoc.Direction (Latch Noop.State) α where
  init d _ _ _ _ _ := { d with st := Noop.init d.st }
  hasInitial d := Noop.hasInitial d.st
  apply d γ x xh p g q := latchApply d q (Noop.apply d.st γ x xh p g q)
  update d γk γn xk xn pk pn gk gn :=
    let r := Noop.update d.st γk γn xk xn pk pn gk gn
    ({ d with st := r.1 }, r.2)
  changedGamma d γ old := { d with st := Noop.changedGamma d.st γ old }
  reset d := { d with st := Noop.reset d.st }

/-- `LBFGSDirection` on a problem of dimension `n` -/
def lbfgsDir (c : LbfgsCfg α) (n : Nat) : Panoc.Direction (Latch (Lbfgs.State α)) α where
  init d _ _ _ _ _ := latchRes d (Lbfgs.init c n d.st)
  hasInitial d := Lbfgs.hasInitial d.st
  apply d γ x xh p g q := latchApply d q (Lbfgs.apply c d.st γ x xh p g q)
  update d γk γn xk xn pk pn gk gn :=
    let r := Lbfgs.update c d.st γk γn xk xn pk pn gk gn
    ({ d with st := r.1 }, r.2)
  changedGamma d γ old := { d with st := Lbfgs.changedGamma c d.st γ old }
  reset d := { d with st := Lbfgs.reset d.st }

/-- `AndersonDirection` on a problem of dimension `n` (`y`, `Σ` are passed to `initialize` and
    ignored by it) -/
def andersonDir (c : AndersonCfg α) (n : Nat) (y Sig : Vec α) :
    Panoc.Direction (Latch (Anderson.State α)) α where
  init d γ x xh p g := { d with st := Anderson.init c n d.st y Sig γ x xh p g }
  hasInitial d := Anderson.hasInitial d.st
  apply d γ x xh p g q := latchApply d q (Anderson.apply c d.st γ x xh p g q)
  update d γk γn xk xn pk pn gk gn :=
    let r := Anderson.update d.st γk γn xk xn pk pn gk gn
    ({ d with st := r.1 }, r.2)
  changedGamma d γ old := { d with st := Anderson.changedGamma c d.st γ old }
  reset d := { d with st := Anderson.reset c d.st }

/-- `StructuredLBFGSDirection` on the problem `P` -/
def slbfgsDir (P : SProblem α) (c : SCfg α) : Panoc.Direction (Latch (SLbfgs.State α)) α where
  init d _ _ _ _ _ := latchRes d (SLbfgs.init P c d.st)
  hasInitial d := SLbfgs.hasInitial d.st
  apply d γ x xh p g q := latchApply d q (SLbfgs.apply P c d.st γ x xh p g q)
  update d γk γn xk xn pk pn gk gn :=
    let r := SLbfgs.update c d.st γk γn xk xn pk pn gk gn
    ({ d with st := r.1 }, r.2)
  changedGamma d γ old := { d with st := SLbfgs.changedGamma d.st γ old }
  reset d := { d with st := SLbfgs.reset d.st }

end
end Alpaqa.Directions
