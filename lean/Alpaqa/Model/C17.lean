/-
  C17 — executable model of alpaqa's CSV reader (`csv.tpp`) and of the printers' framing
  (`print.tpp`), core Lean only.

  * `IStream` models the part of `std::istream` (libstdc++ semantics, `istream.tcc`) the reader
    uses: the unread characters, `eofbit`, `failbit`; `sentry`, `peek`, `get()`, `get(s,n,delim)`,
    `ignore(max,delim)`, `clear`.
  * `Reader` is `CSVReader`: `s` holds the valid characters of the 64-byte window, `bufidx` and
    `keep_reading` are the C++ members.  The window the parser sees is `s.take bufidx`.
  * Every constant and every decision / update expression is taken from `Alpaqa.Gen.C17`
    (regenerated from csv.tpp on every run); the control skeleton is hand-written to the shape
    that `Props/C17.lean` decides equal to the regenerated `skel_*` lists.
  * Number parsing is an oracle `P : List Char → Option (V × Nat)` (`std::from_chars`: value and
    number of characters consumed, `none` = `ec ≠ errc{}`); printing an oracle giving the token
    of each element.
-/
import Alpaqa.Gen.C17

namespace Alpaqa.C17
open Alpaqa.Gen.C17

/-! ### std::istream -/

structure IStream where
  rest : List Char
  eof : Bool := false
  fail : Bool := false
deriving Repr, DecidableEq

namespace IStream

def good (is : IStream) : Bool := !is.eof && !is.fail
/-- `(bool) is` / `!is`: `!fail()`. -/
def ok (is : IStream) : Bool := !is.fail

/-- `sentry(is, noskipws = true)`: not good ⇒ sets failbit. -/
def sentry (is : IStream) : Bool × IStream :=
  if is.good then (true, is) else (false, { is with fail := true })

/-- `is.peek()`; `none` is `Traits::eof()`. -/
def peek (is : IStream) : Option Char × IStream :=
  if is.good then
    match is.rest with
    | [] => (none, { is with eof := true })
    | c :: _ => (some c, is)
  else (none, { is with fail := true })

/-- `is.get()` (one character). -/
def get1 (is : IStream) : Option Char × IStream :=
  if is.good then
    match is.rest with
    | [] => (none, { is with eof := true, fail := true })
    | c :: r => (some c, { is with rest := r })
  else (none, { is with fail := true })

/-- Characters of the current line (up to, not including, the delimiter). -/
def line (delim : Char) (l : List Char) : List Char := l.takeWhile (· != delim)

/-- `is.get(buf, n, delim)`: stores at most `n-1` characters, stops before `delim`; eofbit when
    the next character is EOF, failbit when nothing was stored. Returns the stored characters. -/
def getN (is : IStream) (n : Nat) (delim : Char) : List Char × IStream :=
  if is.good then
    let g := (line delim is.rest).take (n - 1)
    let r := is.rest.drop g.length
    (g, { rest := r, eof := r.isEmpty, fail := g.isEmpty })
  else ([], { is with fail := true })

/-- `is.ignore(numeric_limits<streamsize>::max(), delim)`. -/
def ignoreLine (is : IStream) (delim : Char) : IStream :=
  if is.good then
    match is.rest.drop (line delim is.rest).length with
    | [] => { is with rest := [], eof := true }
    | _ :: r => { is with rest := r }
  else { is with fail := true }

def clear (is : IStream) : IStream := { is with eof := false, fail := false }

end IStream

/-! ### CSVReader -/

structure Reader where
  s : List Char := []
  bufidx : Nat := bufidxInit
  keep : Bool := keepReadingInit
deriving Repr, DecidableEq

def Reader.window (r : Reader) : List Char := r.s.take r.bufidx

/-- `bufidx = n` for `n ≤ bufidx` (the C++ leaves the bytes of `s` in place; the model keeps in `s`
    only the characters that are still valid, so that `s.length = bufidx` is an invariant). -/
def Reader.setBufidx (r : Reader) (n : Nat) : Reader := { r with s := r.s.take n, bufidx := n }

/-- Which `read_error` was thrown (`fuel` is never produced by the C++; it marks exhaustion of
    the recursion bound of the two loops, proved unreachable where it matters). -/
inductive Err | sep | conv | inv | ext | line | long | fuel
deriving Repr, DecidableEq

abbrev Res (α : Type) := Except Err α

/-- `read_chunk` -/
def readChunk (r : Reader) (is : IStream) : Res Unit × Reader × IStream :=
  if chunkInvalid is.ok then (.error .inv, r, is)
  else if chunkFull r.bufidx then (.ok (), r, is)
  else
    let (g, is1) := is.getN (chunkGetCount r.bufidx) chunkGetDelim
    if chunkGetFailed is1.ok then (.error .ext, r, is1)
    else
      let s' := r.s.take (chunkGetPos r.bufidx) ++ g
      let bufidx' := chunkBufidx r.bufidx g.length
      let (c, is2) := if chunkKeepEvalsPeek then is1.peek else (none, is1)
      (.ok (), { s := s', bufidx := bufidx', keep := chunkKeep c is2.eof }, is2)

/-- `read_single` on the window `[begin, bufend)` of `s`; offsets are relative to `s.data()`.
    `rej`: the statement `if (bufbegin != bufend && *bufbegin == '-') throw read_error(…)` after the skipped
    `+` is present (the translator checks the exact statement and reports it as `singleRejectsPlusMinus`). -/
def readSingleG {V : Type} (rej : Bool) (P : List Char → Option (V × Nat)) (s : List Char)
    (bufbegin bufend : Nat) : Option (V × Nat) :=
  let skip := singleSkipPlus bufbegin bufend (s.getD bufbegin ' ')
  let b := if skip then bufbegin + 1 else bufbegin
  if skip && (rej && (b != bufend && s.getD b ' ' == '-')) then none
  else
    let r := P ((s.take bufend).drop b)
    if singleFails r.isSome then none else r.map fun (v, n) => (v, b + n)

/-- `read_single` as csv.tpp has it now -/
def readSingle {V : Type} (P : List Char → Option (V × Nat)) (s : List Char) (bufbegin bufend : Nat) :
    Option (V × Nat) :=
  readSingleG singleRejectsPlusMinus P s bufbegin bufend

/-- second half of `read`: parse one number from the window, check the separator, shift. -/
def readParse {V : Type} (P : List Char → Option (V × Nat)) (r1 : Reader) (sep : Char) :
    Res V × Reader :=
  let bufend := readBufend r1.bufidx
  match readSingle P r1.s readSingleBegin bufend with
  | none => (.error .conv, r1)
  | some (v, ptr) =>
    if readSepBad ptr bufend (r1.s.getD ptr ' ') sep then (.error .sep, r1)
    else if readLong ptr bufend r1.keep then (.error .long, r1)
    else if readShift ptr bufend then
      let moved := (r1.s.take (readCopyTo bufend)).drop (readCopyFrom ptr)
      (.ok v, { r1 with s := r1.s.take readCopyDest ++ moved, bufidx := readBufidxShift r1.bufidx ptr })
    else (.ok v, r1.setBufidx readBufidxElse)

/-- first half of `read`: `if (keep_reading) read_chunk(is);` -/
def chunkPhase (r : Reader) (is : IStream) : Res Unit × Reader × IStream :=
  if readCallsChunk r.keep then readChunk r is else (.ok (), r, is)

/-- `read` -/
def read {V : Type} (P : List Char → Option (V × Nat)) (r : Reader) (is : IStream) (sep : Char) :
    Res V × Reader × IStream :=
  match chunkPhase r is with
  | (.error e, r1, is1) => (.error e, r1, is1)
  | (.ok (), r1, is1) =>
    let (res, r2) := readParse P r1 sep
    (res, r2, is1)

/-- `next_line` -/
def nextLine (r : Reader) (is : IStream) : Res Unit × IStream :=
  let eof0 := is.eof
  let (c, is1) := if nextLineThrowsEvalsGetc r.bufidx eof0 then is.get1 else (none, is)
  if nextLineThrows r.bufidx eof0 c then (.error .line, is1) else (.ok (), is1)

/-- `done` -/
def done (r : Reader) (is : IStream) : Bool × IStream :=
  let (c, is1) := if doneKeepEvalsPeek then is.peek else (none, is)
  (doneRet r.bufidx (doneKeep c is1.eof), is1)

/-- inner loop of `skip_comments`: `while (keep_reading) { bufidx = 0; read_chunk(is); }` -/
def skipInnerLoop : Nat → Reader → IStream → Res Unit × Reader × IStream
  | 0, r, is => (.error .fuel, r, is)
  | f + 1, r, is =>
    if skipInner r.keep then
      match readChunk (r.setBufidx skipInnerBufidx) is with
      | (.error e, r1, is1) => (.error e, r1, is1)
      | (.ok (), r1, is1) => skipInnerLoop f r1 is1
    else (.ok (), r, is)

/-- outer loop of `skip_comments` -/
def skipOuterLoop : Nat → Reader → IStream → Res Unit × Reader × IStream
  | 0, r, is => (.error .fuel, r, is)
  | f + 1, r, is =>
    if skipLoop is.eof then
      match readChunk r is with
      | (.error e, r1, is1) => (.error e, r1, is1)
      | (.ok (), r1, is1) =>
        if skipBreak r1.bufidx (r1.s.getD 0 ' ') then (.ok (), r1, is1)
        else
          match skipInnerLoop (is1.rest.length + 1) r1 is1 with
          | (.error e, r2, is2) => (.error e, r2, is2)
          | (.ok (), r2, is2) =>
            let r3 := r2.setBufidx skipAfterBufidx
            match nextLine r3 is2 with
            | (.error e, is3) => (.error e, r3, is3)
            | (.ok (), is3) =>
              let eof0 := is3.eof
              let (c, is4) := if skipAgainEvalsPeek eof0 then is3.peek else (none, is3)
              if skipAgain eof0 c then (.ok (), r3, is4)
              else skipOuterLoop f r3 is4
    else (.ok (), r, is)

/-- `skip_comments` -/
def skipComments (r : Reader) (is : IStream) : Res Unit × Reader × IStream :=
  let eof0 := is.eof
  let (c, is1) := if skipEarlyEvalsPeek eof0 then is.peek else (none, is)
  if skipEarly eof0 c then (.ok (), r, is1)
  else skipOuterLoop (is1.rest.length + 1) r is1

/-- `for (auto &vv : v) vv = reader.read(is, sep);` -/
def readFields {V : Type} (P : List Char → Option (V × Nat)) :
    Nat → Reader → IStream → Char → Res (List V) × Reader × IStream
  | 0, r, is, _ => (.ok [], r, is)
  | n + 1, r, is, sep =>
    match read P r is sep with
    | (.error e, r1, is1) => (.error e, r1, is1)
    | (.ok v, r1, is1) =>
      match readFields P n r1 is1 sep with
      | (.error e, r2, is2) => (.error e, r2, is2)
      | (.ok vs, r2, is2) => (.ok (v :: vs), r2, is2)

/-- body of `read_row_impl` (a fresh reader per row, as in the C++) without any error handler -/
def readRowCore {V : Type} (P : List Char → Option (V × Nat)) (n : Nat) (sep : Char) (is : IStream) :
    Res (List V) × IStream :=
  match skipComments {} is with
  | (.error e, _, is1) => (.error e, is1)
  | (.ok (), r1, is1) =>
    match readFields P n r1 is1 sep with
    | (.error e, _, is2) => (.error e, is2)
    | (.ok vs, r2, is2) =>
      match nextLine r2 is2 with
      | (.error e, is3) => (.error e, is3)
      | (.ok (), is3) => (.ok vs, is3)

/-- `discard_line` (error recovery; exists in csv.tpp iff `rowImplResyncs`): `is.clear(); is.ignore(max, end)`.
    The reader object is destroyed right after, so its `bufidx = 0` is not observable; `is.bad()` is
    not modelled (`IStream` has no badbit). -/
def discardLine (is : IStream) : IStream := (is.clear).ignoreLine endCh

/-- the handler `catch (read_error &) { if (resync) reader.discard_line(is); throw; }` of the row
    functions, `resync = !is.fail()` evaluated at entry.  `handler = false`: the code has no handler. -/
def onRowError (handler entryFail : Bool) (is : IStream) : IStream :=
  if handler && !entryFail then discardLine is else is

/-- `read_row_impl`, with (`handler = true`) or without the error handler -/
def readRowImplG {V : Type} (handler : Bool) (P : List Char → Option (V × Nat)) (n : Nat) (sep : Char)
    (is : IStream) : Res (List V) × IStream :=
  match readRowCore P n sep is with
  | (.error e, is1) => (.error e, onRowError handler is.fail is1)
  | (.ok vs, is1) => (.ok vs, is1)

/-- `read_row_impl` as csv.tpp has it now (the translator reports whether the handler is there) -/
def readRowImpl {V : Type} (P : List Char → Option (V × Nat)) (n : Nat) (sep : Char) (is : IStream) :
    Res (List V) × IStream :=
  readRowImplG rowImplResyncs P n sep is

/-- `while (!reader.done(is)) v.push_back(reader.read(is, sep));` -/
def readAll {V : Type} (P : List Char → Option (V × Nat)) :
    Nat → Reader → IStream → Char → Res (List V) × Reader × IStream
  | 0, r, is, _ => (.error .fuel, r, is)
  | f + 1, r, is, sep =>
    let (d, is0) := done r is
    if d then (.ok [], r, is0)
    else
      match read P r is0 sep with
      | (.error e, r1, is1) => (.error e, r1, is1)
      | (.ok v, r1, is1) =>
        match readAll P f r1 is1 sep with
        | (.error e, r2, is2) => (.error e, r2, is2)
        | (.ok vs, r2, is2) => (.ok (v :: vs), r2, is2)

/-- body of `read_row_std_vector` without any error handler -/
def readVecCore {V : Type} (P : List Char → Option (V × Nat)) (sep : Char) (is : IStream) :
    Res (List V) × IStream :=
  match skipComments {} is with
  | (.error e, _, is1) => (.error e, is1)
  | (.ok (), r1, is1) =>
    match readAll P (is1.rest.length + r1.bufidx + 2) r1 is1 sep with
    | (.error e, _, is2) => (.error e, is2)
    | (.ok vs, r2, is2) =>
      match nextLine r2 is2 with
      | (.error e, is3) => (.error e, is3)
      | (.ok (), is3) => (.ok vs, is3)

/-- `read_row_std_vector`, with or without the error handler -/
def readRowStdVectorG {V : Type} (handler : Bool) (P : List Char → Option (V × Nat)) (sep : Char)
    (is : IStream) : Res (List V) × IStream :=
  match readVecCore P sep is with
  | (.error e, is1) => (.error e, onRowError handler is.fail is1)
  | (.ok vs, is1) => (.ok vs, is1)

/-- `read_row_std_vector` as csv.tpp has it now -/
def readRowStdVector {V : Type} (P : List Char → Option (V × Nat)) (sep : Char) (is : IStream) :
    Res (List V) × IStream :=
  readRowStdVectorG rowVecResyncs P sep is

/-! ### Printers' framing (`print.tpp`), over the element tokens -/

/-- `a sep b sep c` -/
def joinSep (sep : List Char) : List (List Char) → List Char
  | [] => []
  | [x] => x
  | x :: y :: r => x ++ sep ++ joinSep sep (y :: r)

def rowToks (n : Nat) (f : Nat → List Char) : List (List Char) := (List.range n).map f

/-- `detail::print_csv_impl(os, M, sep, begin, end)`; `el r c` is the token of `M(r,c)`. -/
def printCsvImpl (rows cols : Nat) (el : Nat → Nat → List Char) (sep bg en : List Char) : List Char :=
  if cols == 1 then bg ++ joinSep sep (rowToks rows fun r => el r 0) ++ en
  else ((List.range rows).map fun r => bg ++ joinSep sep (rowToks cols (el r)) ++ en).flatten

def lit (l : List String) (i : Nat) : List Char := (l.getD i "").toList

/-- `print_csv(os, M)` with the header's default arguments. -/
def printCsv (rows cols : Nat) (el : Nat → Nat → List Char) : List Char :=
  printCsvImpl rows cols el (lit csvDefaults 0) (lit csvDefaults 1) (lit csvDefaults 2)

/-- `detail::print_matlab_impl` -/
def printMatlabImpl (rows cols : Nat) (el : Nat → Nat → List Char) (en : List Char) : List Char :=
  let L := lits_print_matlab_impl
  if cols == 1 then printCsvImpl rows cols el (lit L 0) (lit L 1) (lit L 2) ++ en
  else lit L 3 ++ joinSep (lit L 5) ((List.range rows).map fun r => joinSep (lit L 4) (rowToks cols (el r)))
        ++ lit L 6 ++ en

/-- `detail::print_python_impl` -/
def printPythonImpl (rows cols : Nat) (el : Nat → Nat → List Char) (en : List Char) : List Char :=
  let L := lits_print_python_impl
  if cols == 1 then printCsvImpl rows cols el (lit L 0) (lit L 1) (lit L 2) ++ en
  else lit L 3 ++ joinSep (lit L 5) ((List.range rows).map fun r => joinSep (lit L 4) (rowToks cols (el r)))
        ++ lit L 6 ++ en

end Alpaqa.C17
