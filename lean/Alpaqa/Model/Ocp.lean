/-
  Loop model of `PANOCOCPSolver::operator()` (panoc-ocp.tpp), statement by statement.

  ORACLES (arbitrary functions / an arbitrary state machine in the model, replayed from the recorded
  trace by `Driver/LoopOcp.lean`):
  * `Oracles.fwd`  — `OCPEvaluator::forward`  (ψ(u) and the storage with x, h, c filled in),
    `Oracles.fsim` — `OCPEvaluator::forward_simulate`, `Oracles.bwd` — `OCPEvaluator::backward` (∇ψ);
    these belong to property C12.  Their frame condition "x₀ and the inputs u in the storage are left
    untouched" is built into the representation of a storage vector as the pair
    (`u` = the input segments, `traj` = the storage as last written by forward) and is checked by the
    harness on every call;
  * `Dir.lqr` — the Gauss-Newton block after the index sets are known (Jacobians, `factor_masked`,
    `solve_masked` → q, `min_rcond`), `Dir.applyMasked / update / reset` — the masked L-BFGS object.
  * `stop : Nat → Bool` — the stop flag as a function of the tick (number of problem calls, L-BFGS
    calls and progress callbacks so far); `oot` — the time limit.

  MODELLED (computed here, compared bit for bit with the real solver): the projected-gradient step
  (`eval_prox_impl`), γ, L, τ, φγ (`Gen.ocp_fbe`), the quadratic-upper-bound and line-search decisions
  (`Gen.ocp_qubViolated`, `Gen.ocp_linesearchViolated`), ε (`Gen.calcErrorStopCritOcp`) including its use
  of the spare iterate as workspace, the status (`Gen.statusChainOcp`), the active-set tests that fix
  entries of q and choose J, the Gauss-Newton / L-BFGS scheduling (`gn_interval`, `gn_sticky`), L-BFGS
  reset / update decisions, which iterate is current, `no_progress`, the statistics, the tick count,
  and `write_solution` (e, y from the stored constraint values of x̂u; u from x̂u).

  Executed at `Float` by the driver; theorems in `Proofs/OcpInv.lean`, `Props/C03_Ocp.lean`,
  `Props/C05_Ocp.lean`, `Props/C06_Ocp.lean`, `Props/C19_Ocp.lean`, `Props/C13.lean`.
-/
import Alpaqa.Model.Vec
import Alpaqa.Gen.C05
import Alpaqa.Gen.C06

namespace Alpaqa.Ocp
open Alpaqa Alpaqa.Gen

/-- Evaluator oracles (y, μ, D, D_N, x_init closed over). A storage vector is split into the input
    segments `u` (flat, `N·nu`) and `traj`, the whole vector as the last `forward` left it. -/
structure Oracles (α : Type) where
  /-- `eval.forward(storage, D, D_N, μ, y)` ↦ (ψ, storage afterwards) -/
  fwd : Vec α → α × Vec α
  /-- `eval.forward_simulate(storage)` ↦ storage afterwards -/
  fsim : Vec α → Vec α
  /-- `eval.backward(storage, grad, …)` ↦ grad; arguments: inputs `u`, storage `traj` -/
  bwd : Vec α → Vec α → Vec α

/-- Direction oracles as a state machine over an arbitrary state `D`. -/
structure Dir (D α : Type) where
  /-- Gauss-Newton block: storage `xu`, inactive-index mask, the entries of `q` fixed by the solver
      (0 at inactive positions) ↦ (state, q after `solve_masked`, `lqr.min_rcond`). -/
  lqr : D → Vec α → List Bool → Vec α → D × Vec α × α
  /-- `lbfgs.apply_masked(q, γ, J)` ↦ (state, success, q afterwards) -/
  applyMasked : D → Vec α → α → List Nat → D × Bool × Vec α
  /-- `lbfgs.update(uₖ, uₙ, ∇ψₖ, ∇ψₙ, Positive, force)` ↦ (state, accepted) -/
  update : D → Vec α → Vec α → Vec α → Vec α → D × Bool
  reset : D → D

/-- Problem constants the loop itself reads. -/
structure Prob (α : Type) where
  N : Nat
  nx : Nat
  nu : Nat
  nh : Nat
  nc : Nat
  nhN : Nat
  ncN : Nat
  Ulb : Vec α
  Uub : Vec α
  Dlb : Vec α
  Dub : Vec α
  DNlb : Vec α
  DNub : Vec α

structure Params (α : Type) where
  L0 : α
  lipEps : α
  lipDelta : α
  LgammaFactor : α
  maxIter : Nat
  minLsCoef : α
  lsStrictness : α
  Lmin : α
  Lmax : α
  stopCrit : PANOCStopCrit
  maxNoProgress : Nat
  qubTol : α
  lsTol : α
  gnInterval : Nat
  gnSticky : Bool
  resetLbfgsOnGn : Bool
  disableAccel : Bool
  /-- `InnerSolveOptions` -/
  alwaysOverwrite : Bool
  tolerance : α
  /-- fuel for the inner `while` loops (the C++ loops have none) -/
  lsFuel : Nat := 4096

/-- `bool enable_lbfgs = params.gn_interval != 1;` -/
def Params.enableLbfgs {α : Type} (pr : Params α) : Bool := pr.gnInterval != 1

/-- `struct Iterate` of panoc-ocp.tpp; `xu` ↦ (`u`, `traj`), `xû` ↦ (`uhat`, `trajHat`). -/
structure Iterate (α : Type) where
  u : Vec α
  traj : Vec α
  uhat : Vec α
  trajHat : Vec α
  gradPsi : Vec α
  p : Vec α
  /-- `Iterate::u` (inputs without states, L-BFGS only) -/
  ul : Vec α
  psiu : α
  psiuhat : α
  gamma : α
  L : α
  pTp : α
  gradPsiTp : α

structure Stats (α : Type) where
  status : SolverStatus := .Busy
  eps : α
  iterations : Nat := 0
  lsFailures : Nat := 0
  lsBacktracks : Nat := 0
  stepsizeBacktracks : Nat := 0
  lbfgsFailures : Nat := 0
  lbfgsRejected : Nat := 0
  tau1Accepted : Nat := 0
  countTau : Nat := 0
  sumTau : α
  finalGamma : α
  finalPsi : α
  finalH : α
  finalFbe : α

/-- What the progress callback is handed. -/
structure Callback (α : Type) where
  k : Nat
  status : SolverStatus
  it : Iterate α
  fbe : α
  q : Vec α
  gn : Bool
  nJ : Int
  rcond : α
  tau : α
  eps : α

/-- How a solve ended other than by `return s`. -/
inductive Exc where
  | none
  /-- `throw std::invalid_argument("Unsupported stopping criterion")` -/
  | invalidArgument
  /-- `throw std::logic_error("enable_lbfgs")` -/
  | logicError
  deriving DecidableEq, Repr, Inhabited

structure Result (α D : Type) where
  stats : Stats α
  dfinal : D
  u : Vec α
  y : Vec α
  errz : Vec α
  /-- were u, y, err_z overwritten (`write_solution` ran)? -/
  wrote : Bool
  callbacks : List (Callback α)
  ticks : Nat
  /-- the iterate that was current at exit, the workspace iterate -/
  final : Option (Iterate α)
  /-- ε and the stop status evaluated at the last loop head -/
  lastHead : Option (α × SolverStatus × Nat × Nat × Nat)
  exc : Exc := .none
  fuelOut : Bool := false

section
variable {α D : Type} [Add α] [Sub α] [Mul α] [Div α] [Neg α] [LT α] [LE α] [DecidableLT α]
  [DecidableLE α] [BEq α] [RealLike α] [NatCast α] [OfScientific α]
  [OfNat α 0] [OfNat α 1] [OfNat α 2] [OfNat α 100]

/-! ### Storage layout and the numbers of problem calls (ocp-vars.hpp) -/

/-- `vars.ck(v, t)`: start and length of the constraint segment of stage `t` (terminal: `t = N`). -/
def Prob.ckStart (P : Prob α) (t : Nat) : Nat :=
  t * (P.nx + P.nu + P.nh + P.nc) + (if t < P.N then P.nx + P.nu + P.nh else P.nx + P.nhN)
def Prob.ckLen (P : Prob α) (t : Nat) : Nat := if t < P.N then P.nc else P.ncN
def Prob.ck (P : Prob α) (v : Vec α) (t : Nat) : Vec α := (v.drop (P.ckStart t)).take (P.ckLen t)

def b2n (b : Bool) : Nat := if b then 1 else 0

/-- problem calls made by `OCPEvaluator::forward` -/
def Prob.fwdTicks (P : Prob α) : Nat :=
  P.N * (b2n (P.nh > 0) + 1 + b2n (P.nc > 0) + 1) + b2n (P.nhN > 0) + 1 + b2n (P.ncN > 0)
/-- problem calls made by `OCPEvaluator::forward_simulate` -/
def Prob.fsimTicks (P : Prob α) : Nat :=
  P.N * (b2n (P.nh > 0) + b2n (P.nc > 0) + 1) + b2n (P.nhN > 0) + b2n (P.ncN > 0)
/-- problem calls made by `OCPEvaluator::backward` -/
def Prob.bwdTicks (P : Prob α) : Nat := 1 + b2n (P.ncN > 0) + P.N * (2 + b2n (P.nc > 0))
/-- problem calls made by the Gauss-Newton block (`eval_jac_f` ×N, `factor_masked`) -/
def Prob.gnTicks (P : Prob α) : Nat :=
  let c := b2n (P.nc > 0 || P.ncN > 0)
  P.N + (1 + c) + 3 * P.N + (P.N - 1) * (2 + c)

/-- a box of `nu` bounds repeated for every stage -/
def tile (N : Nat) (v : Vec α) : Vec α := (List.replicate N v).flatten

/-! ### Projected-gradient step (`eval_proj_grad_step_box`, `eval_prox_impl`) -/

/-- `fmin(fmax(-γ·g, lb - x), ub - x)` -/
def projStep1 (γ g x lb ub : α) : α := fminS (fmaxS (-γ * g) (lb - x)) (ub - x)

def projStepV (γ : α) : Vec α → Vec α → Vec α → Vec α → Vec α
  | x :: xs, g :: gs, l :: ls, h :: hs => projStep1 γ g x l h :: projStepV γ xs gs ls hs
  | _, _, _, _ => []

/-- the stages of a flat `N·nu` vector -/
def stages (N nu : Nat) (v : Vec α) : List (Vec α) :=
  (List.range N).map fun t => (v.drop (t * nu)).take nu

/-- `eval_prox_impl(γ, xu, grad_ψ, x̂u, p)` ↦ (û, p, pᵀp, ∇ψᵀp); the two scalars are accumulated stage
    by stage, starting from 0, exactly as the C++ does. -/
def evalProxImpl (P : Prob α) (γ : α) (u g : Vec α) : Vec α × Vec α × α × α :=
  let p := projStepV γ u g (tile P.N P.Ulb) (tile P.N P.Uub)
  let ps := stages P.N P.nu p
  let gs := stages P.N P.nu g
  let pTp := ps.foldl (fun acc pt => acc + sqNorm pt) 0
  let gTp := (List.zip gs ps).foldl (fun acc gp => acc + dot gp.1 gp.2) 0
  (vadd u p, p, pTp, gTp)

def Iterate.fbe (i : Iterate α) : α := ocp_fbe i.psiu i.pTp i.gamma i.gradPsiTp

def qubViolated (pr : Params α) (i : Iterate α) : Bool :=
  ocp_qubViolated pr.qubTol i.psiu i.psiuhat i.gradPsiTp i.L i.pTp

def linesearchViolated (pr : Params α) (c n : Iterate α) : Bool :=
  ocp_linesearchViolated false pr.lsStrictness pr.lsTol
    c.psiu c.pTp c.gamma c.gradPsiTp c.L n.psiu n.pTp n.gamma n.gradPsiTp

/-- `eval_prox(i)` -/
def evalProx (P : Prob α) (i : Iterate α) : Iterate α :=
  let r := evalProxImpl P i.gamma i.u i.gradPsi
  { i with uhat := r.1, p := r.2.1, pTp := r.2.2.1, gradPsiTp := r.2.2.2 }

/-- `eval_forward(i)` -/
def evalForward (O : Oracles α) (i : Iterate α) : Iterate α :=
  let r := O.fwd i.u
  { i with psiu := r.1, traj := r.2 }

/-- `eval_forward_hat(i)` -/
def evalForwardHat (O : Oracles α) (i : Iterate α) : Iterate α :=
  let r := O.fwd i.uhat
  { i with psiuhat := r.1, trajHat := r.2 }

/-- `eval_backward(i)` -/
def evalBackward (O : Oracles α) (i : Iterate α) : Iterate α :=
  { i with gradPsi := O.bwd i.u i.traj }

/-- `eval_prox(i); eval_forward_hat(i);` -/
def evalStep (O : Oracles α) (P : Prob α) (i : Iterate α) : Iterate α :=
  evalForwardHat O (evalProx P i)

/-! ### `write_solution` -/

/-- One stage of `write_solution`: `ζ = c + μ⁻¹y; e = (ζ − Π_D ζ) − μ⁻¹y; y += μ·e`. Returns (e, y). -/
def writeStage : Vec α → Vec α → Vec α → Vec α → Vec α → Vec α × Vec α
  | c :: cs, y :: ys, m :: ms, l :: ls, h :: hs =>
    let zeta := c + (1 / m) * y
    let e := (zeta - emin (emax zeta l) h) - (1 / m) * y
    let r := writeStage cs ys ms ls hs
    (e :: r.1, (y + m * e) :: r.2)
  | _, _, _, _, _ => ([], [])

/-- `write_solution(it)` with `it.xû = (uhat, trajHat)`: (u, y, err_z) after the call. -/
def writeSolution (P : Prob α) (uhat trajHat : Vec α) (y mu errz0 : Vec α) : Vec α × Vec α × Vec α :=
  if P.nc > 0 || P.ncN > 0 then
    let st := (List.range P.N).map fun t =>
      writeStage (P.ck trajHat t) ((y.drop (P.nc * t)).take P.nc) ((mu.drop (P.nc * t)).take P.nc)
        P.Dlb P.Dub
    let tN := writeStage (P.ck trajHat P.N) ((y.drop (P.nc * P.N)).take P.ncN)
        ((mu.drop (P.nc * P.N)).take P.ncN) P.DNlb P.DNub
    (uhat, (st.map (·.2)).flatten ++ tN.2, (st.map (·.1)).flatten ++ tN.1)
  else (uhat, y, errz0)

/-! ### Initialisation -/

/-- `initial_lipschitz_estimate(curr, ε, δ, L_min, L_max, next->xu, next->grad_ψ)`:
    returns (curr, next) with `curr.L` set, the workspace writes to `next` modelled. -/
def initialLipschitz (O : Oracles α) (pr : Params α) (c n : Iterate α) : Iterate α × Iterate α :=
  let c := evalBackward O (evalForward O c)
  let h := c.gradPsi.map fun g =>
    if g > 0 then emax (g * pr.lipEps) pr.lipDelta else emin (g * pr.lipEps) (-pr.lipDelta)
  let normh := norm2 h
  let wu := vsub c.u h
  let wtraj := O.fsim wu
  let wg := O.bwd wu wtraj
  let L := norm2 (vsub wg c.gradPsi) / normh
  ({ c with L := eclamp L pr.Lmin pr.Lmax }, { n with u := wu, traj := wtraj, gradPsi := wg })

/-- State threaded through one solve. -/
structure St (α D : Type) where
  curr : Iterate α
  next : Iterate α
  q : Vec α
  /-- has `q` been completely written yet (before that it is uninitialised storage) -/
  qValid : Bool := false
  d : D
  tick : Nat
  stats : Stats α
  k : Nat
  noProgress : Nat
  doGnStep : Bool
  nJ : Int
  rcond : α
  cbs : List (Callback α)
  fuelOut : Bool := false

/-- Line-search working state (`curr` is not written during the line search). -/
structure LS (α D : Type) where
  next : Iterate α
  d : D
  tick : Nat
  tau : α
  tauPrev : α
  doGnStep : Bool
  lsBacktracks : Nat
  stepsizeBacktracks : Nat
  fuelOut : Bool := false

/-- `take_safe_step`: `next->xu = curr->xû; next->ψu = curr->ψû; eval_backward(*next);` -/
def takeSafeStep (O : Oracles α) (c n : Iterate α) : Iterate α :=
  evalBackward O { n with u := c.uhat, traj := c.trajHat, psiu := c.psiuhat }

/-- `take_accelerated_step(τ)` (the write to `do_gn_step` is in `lsRecompute`) -/
def takeAcceleratedStep (O : Oracles α) (c n : Iterate α) (q : Vec α) (tau : α) : Iterate α :=
  let u := if tau == 1 then vadd c.u q
           else vadd (vadd c.u (smul (1 - tau) c.p)) (smul tau q)
  evalBackward O (evalForward O { n with u := u })

inductive Pass (α D : Type) where
  /-- `break` -/
  | done (s : LS α D)
  /-- `continue` -/
  | again (s : LS α D)

/-- `if (τ != τ_prev) { τ != 0 ? take_accelerated_step(τ) : take_safe_step(); τ_prev = τ; }` -/
def lsRecompute (O : Oracles α) (P : Prob α) (c : Iterate α) (q : Vec α) (doNextGn : Bool)
    (s : LS α D) : LS α D :=
  if s.tau != s.tauPrev then
    if s.tau != 0 then
      { s with next := takeAcceleratedStep O c s.next q s.tau,
               tick := s.tick + P.fwdTicks + P.bwdTicks, tauPrev := s.tau,
               doGnStep := if s.tau == 1 then s.doGnStep else doNextGn }
    else
      { s with next := takeSafeStep O c s.next, tick := s.tick + P.bwdTicks, tauPrev := s.tau }
  else s

/-- One pass through the body of `while (!stop_signal.stop_requested()) { … }`. -/
def lsPass (O : Oracles α) (dir : Dir D α) (P : Prob α) (pr : Params α) (c : Iterate α) (q : Vec α)
    (tauInit : α) (doNextGn : Bool) (s0 : LS α D) : Pass α D :=
  let s := lsRecompute O P c q doNextGn s0
  let fail := decide (s.next.L ≥ pr.Lmax) || !RealLike.isFinite s.next.psiu
  if decide (s.tau > (0 : α)) && fail then
    -- Don't allow a bad accelerated step to destroy the FBS step size; line search failed
    let dt := if pr.enableLbfgs then (dir.reset s.d, s.tick + 1) else (s.d, s.tick)
    .again { s with next := { s.next with L := c.L, gamma := c.gamma }, tau := 0,
                    d := dt.1, tick := dt.2 }
  else
  -- Calculate x̂ₖ₊₁, ψ(x̂ₖ₊₁)
  let s2 : LS α D := { s with next := evalStep O P s.next, tick := s.tick + P.fwdTicks }
  if decide (s2.next.L < pr.Lmax) && qubViolated pr s2.next then
    .again { s2 with next := { s2.next with gamma := s2.next.gamma / 2, L := s2.next.L * 2 },
                     tau := if s2.tau > 0 then tauInit else s2.tau,
                     stepsizeBacktracks := s2.stepsizeBacktracks + 1 }
  else
  if decide (s2.tau > (0 : α)) && linesearchViolated pr c s2.next then
    let tau := s2.tau / 2
    let tau := if tau < pr.minLsCoef then 0 else tau
    .again { s2 with tau := tau, lsBacktracks := s2.lsBacktracks + 1 }
  else .done s2

/-- The inner `while (!stop_signal.stop_requested())` loop. -/
def lineSearch (O : Oracles α) (dir : Dir D α) (P : Prob α) (pr : Params α) (stop : Nat → Bool)
    (c : Iterate α) (q : Vec α) (tauInit : α) (doNextGn : Bool) : Nat → LS α D → LS α D
  | 0, s => { s with fuelOut := true }
  | fuel + 1, s =>
    if stop s.tick then s else
    match lsPass O dir P pr c q tauInit doNextGn s with
    | .done s' => s'
    | .again s' => lineSearch O dir P pr stop c q tauInit doNextGn fuel s'

def statusOf (pr : Params α) (k : Nat) (eps : α) (noProgress : Nat) (oot intr : Bool) : SolverStatus :=
  statusChainOcp pr.tolerance pr.maxIter pr.maxNoProgress k eps noProgress oot intr

/-- `calc_error_stop_crit(curr->γ, curr->xu, curr->grad_ψ, curr->p, curr->pᵀp, next->xû, next->p)`;
    `none` = the solver throws. -/
def epsOf (P : Prob α) (pr : Params α) (c : Iterate α) : Option α :=
  calcErrorStopCritOcp pr.stopCrit
    (fun g x gr => let r := evalProxImpl P g x gr; (r.1, r.2.1, r.2.2.1))
    c.gamma c.u c.gradPsi c.p c.pTp

/-- does the criterion use `next->xû`, `next->p` as workspace? -/
def critUsesWorkspace : PANOCStopCrit → Bool
  | .ProjGradUnitNorm | .ProjGradUnitNorm2 => true
  | _ => false

/-- The spare iterate after `calc_error_stop_crit` borrowed `next->xû` (input segments) and `next->p`. -/
def headWorkspace (P : Prob α) (pr : Params α) (c n : Iterate α) : Iterate α :=
  if critUsesWorkspace pr.stopCrit then
    let r := evalProxImpl P 1 c.u c.gradPsi
    { n with uhat := r.1, p := r.2.1 }
  else n

/-- Exit block at a loop head with a non-`Busy` status. -/
def exitBlock (P : Prob α) (pr : Params α) (s : St α D) (eps : α) (status : SolverStatus)
    (u0 y mu errz0 : Vec α) : Result α D :=
  let cb : Callback α :=
    { k := s.k, status := status, it := s.curr, fbe := s.curr.fbe, q := [], gn := false, nJ := 0,
      rcond := s.rcond, tau := -1, eps := eps }
  let write := status == .Converged || status == .Interrupted || pr.alwaysOverwrite
  let w := if write then writeSolution P s.curr.uhat s.curr.trajHat y mu errz0 else (u0, y, errz0)
  let st : Stats α :=
    { s.stats with iterations := s.k, eps := eps, status := status,
                   finalGamma := s.curr.gamma, finalPsi := s.curr.psiuhat, finalH := 0,
                   finalFbe := s.curr.fbe }
  { stats := st, dfinal := s.d, u := w.1, y := w.2.1, errz := w.2.2, wrote := write,
    callbacks := (cb :: s.cbs).reverse, ticks := s.tick + 1, final := some s.curr,
    lastHead := some (eps, status, s.k, s.noProgress, s.tick), fuelOut := s.fuelOut }

/-- A solve that ends by an exception: nothing is written back. -/
def excResult (s : St α D) (e : Exc) (u0 y errz0 : Vec α) : Result α D :=
  { stats := s.stats, dfinal := s.d, u := u0, y := y, errz := errz0, wrote := false,
    callbacks := s.cbs.reverse, ticks := s.tick, final := none, lastHead := none, exc := e,
    fuelOut := s.fuelOut }

/-- Active-set test of the Gauss-Newton branch: (inactive?, fixed entry of q). -/
def gnActive1 (γ u g lb ub : α) : Bool × α :=
  let gs := u - γ * g
  let activeLb := decide (gs ≤ lb)
  let activeUb := decide (gs ≥ ub)
  if activeUb then (false, ub - u) else if activeLb then (false, lb - u) else (true, 0)

def gnActiveV (γ : α) : Vec α → Vec α → Vec α → Vec α → List (Bool × α)
  | u :: us, g :: gs, l :: ls, h :: hs => gnActive1 γ u g l h :: gnActiveV γ us gs ls hs
  | _, _, _, _ => []

/-- Active-set test of the L-BFGS branch: (inactive?, entry of q). -/
def lbfgsActive1 (γ u g p lb ub : α) : Bool × α :=
  let gs := u - γ * g
  let activeLb := decide (gs ≤ lb)
  let activeUb := decide (gs ≥ ub)
  if activeUb || activeLb then (false, p) else (true, -g)

def lbfgsActiveV (γ : α) : Vec α → Vec α → Vec α → Vec α → Vec α → List (Bool × α)
  | u :: us, g :: gs, p :: ps, l :: ls, h :: hs =>
    lbfgsActive1 γ u g p l h :: lbfgsActiveV γ us gs ps ls hs
  | _, _, _, _, _ => []

def indicesOf (m : List Bool) : List Nat :=
  ((List.range m.length).zip m).filterMap fun ib => if ib.2 then some ib.1 else none

/-- Direction computed by one of the three branches, before the validity check of `q`. -/
structure DirRaw (α D : Type) where
  d : D
  tick : Nat
  q : Vec α
  qValid : Bool
  tauInit : α
  nJ : Int
  rcond : α
  exc : Exc := .none

/-- Outcome of the direction stage. -/
structure DirOut (α D : Type) where
  d : D
  tick : Nat
  q : Vec α
  qValid : Bool
  tauInit : α
  didGn : Bool
  nJ : Int
  rcond : α
  lbfgsFailures : Nat
  exc : Exc := .none

/-- `if (disable_acceleration) … else if (do_gn_step) { Gauss-Newton } else { L-BFGS }` -/
def directionRaw (dir : Dir D α) (P : Prob α) (pr : Params α) (s : St α D) : DirRaw α D :=
  let c := s.curr
  let lbT := tile P.N P.Ulb
  let ubT := tile P.N P.Uub
  if pr.disableAccel then
    { d := s.d, tick := s.tick, q := s.q, qValid := s.qValid, tauInit := 0, nJ := s.nJ, rcond := s.rcond }
  else if s.doGnStep then
    let a := gnActiveV c.gamma c.u c.gradPsi lbT ubT
    let mask := a.map (·.1)
    let o := dir.lqr s.d c.traj mask (a.map (·.2))
    { d := o.1, tick := s.tick + P.gnTicks, q := o.2.1, qValid := true, tauInit := 1,
      nJ := Int.ofNat (mask.filter id).length, rcond := o.2.2 }
  else if !pr.enableLbfgs then
    { d := s.d, tick := s.tick, q := s.q, qValid := s.qValid, tauInit := 1, nJ := s.nJ, rcond := s.rcond,
      exc := .logicError }
  else
    let a := lbfgsActiveV c.gamma c.u c.gradPsi c.p lbT ubT
    let J := indicesOf (a.map (·.1))
    let o := dir.applyMasked s.d (a.map (·.2)) c.gamma J
    { d := o.1, tick := s.tick + 1, q := o.2.2, qValid := true, tauInit := if o.2.1 then 1 else 0,
      nJ := Int.ofNat J.length, rcond := s.rcond }

/-- "Calculate Gauss-Newton step" / the L-BFGS alternative, then the validity check of `q`
    ("Make sure quasi-Newton step is valid") and `s.lbfgs_failures += (τ_init == 0 && k > 0)`. -/
def directionStage (dir : Dir D α) (P : Prob α) (pr : Params α) (s : St α D) : DirOut α D :=
  let r := directionRaw dir P pr s
  let didGn := s.doGnStep
  let fin := vallFinite r.q
  let dt := if !fin && !didGn then (dir.reset r.d, r.tick + 1) else (r.d, r.tick)
  let tauInit := if fin then r.tauInit else 0
  { d := dt.1, tick := dt.2, q := r.q, qValid := r.qValid, tauInit := tauInit, didGn := didGn,
    nJ := r.nJ, rcond := r.rcond,
    lbfgsFailures := if tauInit == 0 && decide (s.k > 0) then 1 else 0, exc := r.exc }

/-- "Update L-BFGS" after an accepted step.
    Returns (next with `u` extracted, direction state, tick, rejected increment). -/
def updateStage (dir : Dir D α) (pr : Params α) (c n : Iterate α) (d : D) (tick : Nat) (didGn : Bool) :
    Iterate α × D × Nat × Nat :=
  if pr.enableLbfgs then
    let n := { n with ul := n.u }
    let resetBecauseGn := didGn && pr.resetLbfgsOnGn
    let dt := if resetBecauseGn || c.gamma != n.gamma then (dir.reset d, tick + 1) else (d, tick)
    if !resetBecauseGn then
      let r := dir.update dt.1 c.ul n.ul c.gradPsi n.gradPsi
      (n, r.1, dt.2 + 1, if r.2 then 0 else 1)
    else (n, dt.1, dt.2, 0)
  else (n, d, tick, 0)

/-- Bookkeeping after a line search that was left through `break` and not interrupted: statistics,
    `no_progress`, L-BFGS update, progress callback, `std::swap(curr, next); ++k`. -/
def acceptStep (dir : Dir D α) (pr : Params α) (s : St α D) (ds : DirOut α D) (ls : LS α D)
    (stats1 : Stats α) (eps : α) : St α D :=
  let tau := ls.tau
  let stats : Stats α :=
    { stats1 with
      lsFailures := stats1.lsFailures + (if tau == 0 && decide (ds.tauInit > 0) then 1 else 0),
      tau1Accepted := stats1.tau1Accepted + (if tau == 1 then 1 else 0),
      countTau := stats1.countTau + (if ds.tauInit > 0 then 1 else 0),
      sumTau := stats1.sumTau + tau }
  -- Check if we made any progress (`curr->xu == next->xu`)
  let same := s.curr.u == ls.next.u && s.curr.traj == ls.next.traj
  let noProgress := noProgressUpdate s.noProgress s.k pr.maxNoProgress same
  -- Update L-BFGS
  let us := updateStage dir pr s.curr ls.next ls.d ls.tick ds.didGn
  let stats : Stats α := { stats with lbfgsRejected := stats.lbfgsRejected + us.2.2.2 }
  -- progress callback, advance
  let cb : Callback α :=
    { k := s.k, status := .Busy, it := s.curr, fbe := s.curr.fbe, q := if ds.qValid then ds.q else [],
      gn := ds.didGn, nJ := ds.nJ, rcond := ds.rcond, tau := tau, eps := eps }
  { curr := us.1, next := s.curr, q := ds.q, qValid := ds.qValid, d := us.2.1, tick := us.2.2.1 + 1,
    stats := stats, k := s.k + 1, noProgress := noProgress, doGnStep := ls.doGnStep, nJ := ds.nJ,
    rcond := ds.rcond, cbs := cb :: s.cbs, fuelOut := s.fuelOut || ls.fuelOut }

/-- One pass of the main loop after a `Busy` status; the second component reports an exception. -/
def iterBody (O : Oracles α) (dir : Dir D α) (P : Prob α) (pr : Params α) (stop : Nat → Bool)
    (s : St α D) (eps : α) : St α D × Exc :=
  let ds := directionStage dir P pr s
  if ds.exc != .none then ({ s with d := ds.d, tick := ds.tick }, ds.exc) else
  let doNextGn := decide (pr.gnInterval > 0) && ((s.k + 1) % pr.gnInterval == 0) && !pr.disableAccel
  let doGnStep := doNextGn || (s.doGnStep && pr.gnSticky)
  let stats0 : Stats α := { s.stats with lbfgsFailures := s.stats.lbfgsFailures + ds.lbfgsFailures }
  -- Line search
  let ls0 : LS α D :=
    { next := { s.next with gamma := s.curr.gamma, L := s.curr.L }, d := ds.d, tick := ds.tick,
      tau := ds.tauInit, tauPrev := -1, doGnStep := doGnStep, lsBacktracks := 0,
      stepsizeBacktracks := 0 }
  let ls := lineSearch O dir P pr stop s.curr ds.q ds.tauInit doNextGn pr.lsFuel ls0
  let stats1 : Stats α :=
    { stats0 with lsBacktracks := stats0.lsBacktracks + ls.lsBacktracks,
                  stepsizeBacktracks := stats0.stepsizeBacktracks + ls.stepsizeBacktracks }
  -- interrupted during the line search: the candidate is discarded
  -- (`if (stop_signal.stop_requested()) continue;`)
  if stop ls.tick then
    ({ s with next := ls.next, q := ds.q, qValid := ds.qValid, d := ls.d, tick := ls.tick,
              stats := stats1, doGnStep := ls.doGnStep, nJ := ds.nJ, rcond := ds.rcond,
              fuelOut := s.fuelOut || ls.fuelOut }, .none)
  else (acceptStep dir pr s ds ls stats1 eps, .none)

/-- Top of the loop: ε (with the workspace writes to the spare iterate) and the stop status. -/
def headStep (P : Prob α) (pr : Params α) (stop : Nat → Bool) (oot : Bool) (s : St α D) :
    St α D × Option (α × SolverStatus) :=
  let s' : St α D := { s with next := headWorkspace P pr s.curr s.next }
  match epsOf P pr s.curr with
  | none => (s', none)
  | some eps => (s', some (eps, statusOf pr s.k eps s.noProgress oot (stop s.tick)))

/-- The main `while (true)` loop (`max_iter + 2` passes suffice, see `Props/C06_Ocp`). -/
def mainLoop (O : Oracles α) (dir : Dir D α) (P : Prob α) (pr : Params α) (stop : Nat → Bool)
    (oot : Bool) (u0 y mu errz0 : Vec α) : Nat → St α D → Result α D
  | 0, s => { (excResult s .none u0 y errz0) with fuelOut := true }
  | fuel + 1, s =>
    match (headStep P pr stop oot s).2 with
    | none => excResult (headStep P pr stop oot s).1 .invalidArgument u0 y errz0
    | some es =>
      if es.2 != .Busy then exitBlock P pr (headStep P pr stop oot s).1 es.1 es.2 u0 y mu errz0
      else if (iterBody O dir P pr stop (headStep P pr stop oot s).1 es.1).2 != .none then
        excResult (iterBody O dir P pr stop (headStep P pr stop oot s).1 es.1).1
          (iterBody O dir P pr stop (headStep P pr stop oot s).1 es.1).2 u0 y errz0
      else mainLoop O dir P pr stop oot u0 y mu errz0 fuel
        (iterBody O dir P pr stop (headStep P pr stop oot s).1 es.1).1

/-- The initial `while (curr->L < L_max && qub_violated(*curr))` loop.
    Returns (iterate, tick, number of backtracks, fuel exhausted). -/
def initQub (O : Oracles α) (P : Prob α) (pr : Params α) (stop : Nat → Bool) :
    Nat → Iterate α → Nat → Nat → Iterate α × Nat × Nat × Bool
  | 0, c, t, b => (c, t, b, true)
  | f + 1, c, t, b =>
    -- `while (!stop_signal.stop_requested() && curr->L < L_max && qub_violated(*curr))`
    if stop t then (c, t, b, false) else
    if decide (c.L < pr.Lmax) && qubViolated pr c then
      initQub O P pr stop f (evalStep O P { c with gamma := c.gamma / 2, L := c.L * 2 }) (t + P.fwdTicks) (b + 1)
    else (c, t, b, false)

def blankIterate (gV : Vec α) (gS : α) : Iterate α :=
  { u := gV, traj := gV, uhat := gV, trajHat := gV, gradPsi := gV, p := gV, ul := gV, psiu := gS,
    psiuhat := gS, gamma := gS, L := gS, pTp := gS, gradPsiTp := gS }

def stats0 (eps0 : α) : Stats α :=
  { eps := eps0, sumTau := 0, finalGamma := 0, finalPsi := 0, finalH := 0, finalFbe := 0 }

/-- Lipschitz estimate / user-supplied `L_0`, ψ(u₀), ∇ψ(u₀): (curr, next, ticks so far). -/
def initIterates (O : Oracles α) (P : Prob α) (pr : Params α) (u0 : Vec α) (gV : Vec α) (gS : α) :
    Iterate α × Iterate α × Nat :=
  let blank := blankIterate gV gS
  let curr := { blank with u := u0, ul := if pr.enableLbfgs then u0 else gV }
  -- get_x_init, get_U, get_D, get_D_N
  let t0 := 4
  if pr.L0 ≤ 0 then
    let r := initialLipschitz O pr curr blank
    (r.1, r.2, t0 + P.fwdTicks + P.bwdTicks + P.fsimTicks + P.bwdTicks)
  else
    (evalBackward O (evalForward O { curr with L := pr.L0 }), blank, t0 + P.fwdTicks + P.bwdTicks)

/-- Everything before the main loop. `Sum.inl ticks` = early `NotFinite` return.
    `gV`/`gS` = content of never-written storage, `gQ` = never-written `q`, `eps0` = `Stats::ε`'s
    default (`inf`). -/
def initState (O : Oracles α) (P : Prob α) (d0 : D) (pr : Params α) (stop : Nat → Bool) (u0 : Vec α)
    (gV gQ : Vec α) (gS eps0 : α) : Nat ⊕ St α D :=
  let cnt := initIterates O P pr u0 gV gS
  if !RealLike.isFinite cnt.1.L then .inl cnt.2.2
  else
  let curr := { cnt.1 with gamma := pr.LgammaFactor / cnt.1.L }
  let r := initQub O P pr stop pr.lsFuel (evalStep O P curr) (cnt.2.2 + P.fwdTicks) 0
  .inr { curr := r.1, next := cnt.2.1, q := gQ, d := d0, tick := r.2.1,
         stats := { stats0 eps0 with stepsizeBacktracks := r.2.2.1 }, k := 0, noProgress := 0,
         doGnStep := decide (pr.gnInterval > 0) && !pr.disableAccel, nJ := -1, rcond := 1,
         cbs := [], fuelOut := r.2.2.2 }

/-- `PANOCOCPSolver::operator()`. -/
def run (O : Oracles α) (dir : Dir D α) (P : Prob α) (d0 : D) (pr : Params α) (stop : Nat → Bool)
    (oot : Bool) (u0 y mu errz0 : Vec α) (gV gQ : Vec α) (gS eps0 : α) : Result α D :=
  match initState O P d0 pr stop u0 gV gQ gS eps0 with
  | .inl ticks =>
    { stats := { stats0 eps0 with status := .NotFinite }, dfinal := d0, u := u0, y := y,
      errz := errz0, wrote := false, callbacks := [], ticks := ticks, final := none, lastHead := none }
  | .inr s => mainLoop O dir P pr stop oot u0 y mu errz0 (pr.maxIter + 2) s

end
end Alpaqa.Ocp
