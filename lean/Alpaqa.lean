import Alpaqa.Model.Scalar
import Alpaqa.Model.Vec
import Alpaqa.Model.Proto
