/- C07 driver: runs the ALM model (`Alpaqa.C07.run`, generated loop body) at `Float` against a
   scripted inner solver (clock bit and stop bit per inner solve, `prestop`); one op line in, one line
   out (same protocol as harness/c07.cpp). -/
import Alpaqa.Model.Proto
import Alpaqa.Model.C07

open Alpaqa Alpaqa.Proto Alpaqa.Gen Alpaqa.C07

structure Entry where
  status : SolverStatus
  eps : Float
  errz : List Float
  dy : List Float
  dx : Float
  iters : Nat
  extra : Nat
  oot : Bool
  /-- `alm.stop()` is called from inside this inner solve -/
  stop : Bool

abbrev AccT := Nat × Nat × Nat
def accAdd (a : AccT) (s : Nat × Nat) : AccT := (a.1 + s.1, a.2.1 + s.2, a.2.2 + 1)

def nanF : Float := 0.0 / 0.0
def infF : Float := 1.0 / 0.0

def entry : P Entry := do
  let si ← nat; let eps ← flt; let errz ← vec; let dy ← vec; let dx ← flt
  let iters ← nat; let extra ← nat; let oot ← bool; let stop ← bool
  pure ⟨SolverStatus.all.getD si .Exception, eps, errz, dy, dx, iters, extra, oot, stop⟩

def entries : Nat → List Entry → P (List Entry)
  | 0, acc => pure acc.reverse
  | k + 1, acc => do let e ← entry; entries k (e :: acc)

/-- default continuation of a script that is shorter than the run: converge with zero error -/
def defaultEntry (m : Nat) : Entry :=
  ⟨.Converged, 0.0, List.replicate m 0.0, List.replicate m 0.0, 0.0, 1, 0, false, false⟩

/-- The stop oracle of the scripted run: ALM's flag is never cleared, so after inner solve `k` it is
    visible iff `alm.stop()` was called before the solve (`prestop`) or from inside one of the inner
    solves `0..k`. -/
def scripted (m : Nat) (prestop : Bool) (script : List Entry) (c : InnerCall Float) :
    InnerResult Float (Nat × Nat) :=
  let e := script.getD c.opts.outer_iter (defaultEntry m)
  { status := e.status, eps := e.eps, x := c.x.map (· + e.dx), y := vadd c.y e.dy, errz := e.errz,
    stats := (e.iters, e.extra), outOfTime := e.oot,
    stopSeen := prestop || (script.take (c.opts.outer_iter + 1)).any (·.stop) }

def statusName (s : SolverStatus) : String := (reprStr s).replace "Alpaqa.Gen.SolverStatus." ""

def b01 (b : Bool) : String := if b then "1" else "0"

def fmtCall (c : InnerCall Float) : String :=
  s!"{fmtV c.sigma} {fmtV c.y} {fmtV c.x} {fmtV c.errBuf} {fmtF c.opts.tolerance} " ++
  s!"{b01 c.opts.always_overwrite_results} {c.opts.outer_iter} {b01 c.opts.check}"

def c07Step (_ : Unit) (line : String) : Unit × String :=
  let out : Option String :=
    match tokens line with
    | "run" :: rest => Proto.run (do
        let tol ← flt; let dtol ← flt; let puf ← flt; let ip ← flt; let ipf ← flt; let itol ← flt
        let tuf ← flt; let theta ← flt; let mm ← flt; let maxp ← flt; let minp ← flt
        let maxIter ← nat; let single ← bool
        let m ← nat; let split ← nat; let lb ← vec; let ub ← vec; let f0 ← flt; let g0 ← vec
        let hasSig ← bool; let sig ← vec
        let x ← vec; let y ← vec
        let prestop ← bool
        let ns ← nat
        let script ← entries ns []
        let P : ALMParams Float := ⟨tol, dtol, puf, ip, ipf, itol, tuf, theta, mm, maxp, minp, maxIter, single⟩
        let prob : Problem Float :=
          ⟨m, lb.map (· == (-1.0/0.0)), ub.map (· == (1.0/0.0)), split, f0, g0⟩
        let res := C07.run nanF infF ((0, 0, 0) : AccT) accAdd P prob x y
          (if hasSig then some sig else none) (scripted m prestop script)
        if res.logicError then pure "logic_error" else
        let s := res.stats
        let sg := match res.sigmaOut with | none => "0" | some v => s!"1 {fmtV v}"
        let head := s!"{statusName s.status} {s.outer_iterations} {s.inner_convergence_failures} " ++
          s!"{fmtF s.eps} {fmtF s.delta} {fmtF s.norm_penalty} {s.inner.1} {s.inner.2.1} {s.inner.2.2} " ++
          s!"{fmtV res.x} {fmtV res.y} {sg} {res.history.length}"
        pure (String.intercalate " " (head :: res.history.map (fun h => fmtCall h.1)))) rest
    | _ => some "bad-op"
  ((), out.getD "parse-error")

def main : IO Unit := mainLoop c07Step ()
