/-
  Trace-replay driver for the solver loop models.

  Input line:  `<op line of harness/solvers_*.cpp> || <EV sections recorded from the real run>`.
  The recorded events are the *oracle answers* (problem evaluations, direction provider calls,
  the tick at which `stop()` was called); everything else — step sizes, acceptance decisions,
  which field is overwritten when, exit status, written-back x / y / err_z, statistics, every
  field handed to the progress callback — is computed by the model and printed, and must equal
  what the real solver produced, bit for bit.
-/
import Driver.ReplayCommon
import Alpaqa.Model.Panoc

open Alpaqa Alpaqa.Proto Alpaqa.Gen Alpaqa.Replay

def mkProblem (t : Table) (n m : Nat) : Panoc.Problem Float where
  psiGradPsi x := match lookup t "psigradpsi" [vTok x] with
    | some [a, b, c] => (fltOfToks a, vecOfToks b, vecOfToks c)
    | _ => (0.0/0.0, nanV n, nanV m)
  psi x := match lookup t "psi" [vTok x] with
    | some [a, b] => (fltOfToks a, vecOfToks b)
    | _ => (0.0/0.0, nanV m)
  gradPsi x := match lookup t "gradpsi" [vTok x] with
    | some [a] => vecOfToks a
    | _ => nanV n
  gradL x y := match lookup t "gradL" [vTok x, vTok y] with
    | some [a] => vecOfToks a
    | _ => nanV n
  prox g x gr := match lookup t "prox" [[fmtF g], vTok x, vTok gr] with
    | some [a, b, c] => (fltOfToks a, vecOfToks b, vecOfToks c)
    | _ => (0.0/0.0, nanV n, nanV n)

def mkDirection (n : Nat) : Panoc.Direction DirSt Float where
  init d g x xh p gr := (popDir d "dinit" "svvvv" "" [[fmtF g], vTok x, vTok xh, vTok p, vTok gr]).1
  hasInitial d := match d.evs with
    | e :: _ => e.name == "dhasinit" && e.toks == ["1"]
    | [] => false
  apply d g x xh p gr _q :=
    -- skip a pending `dhasinit` event (evaluated by the C++ only at k = 0)
    let d := match d.evs with
      | e :: rest => if e.name == "dhasinit" then { d with evs := rest } else d
      | [] => d
    let (d, res) := popDir d "dapply" "svvvv" "bv" [[fmtF g], vTok x, vTok xh, vTok p, vTok gr]
    match res with
    | [b, q] => (d, b == ["1"], vecOfToks q)
    | _ => (d, false, nanV n)
  update d gk gn xk xn pk pn grk grn :=
    let d := match d.evs with
      | e :: rest => if e.name == "dhasinit" then { d with evs := rest } else d
      | [] => d
    let (d, res) := popDir d "dupdate" "ssvvvvvv" "b"
      [[fmtF gk], [fmtF gn], vTok xk, vTok xn, vTok pk, vTok pn, vTok grk, vTok grn]
    (d, res == [["1"]])
  changedGamma d g og :=
    let d := match d.evs with
      | e :: rest => if e.name == "dhasinit" then { d with evs := rest } else d
      | [] => d
    (popDir d "dchanged" "ss" "" [[fmtF g], [fmtF og]]).1
  reset d :=
    let d := match d.evs with
      | e :: rest => if e.name == "dhasinit" then { d with evs := rest } else d
      | [] => d
    (popDir d "dreset" "" "" []).1

def statusStr (s : SolverStatus) : String := (reprStr s).replace "Alpaqa.Gen.SolverStatus." ""

def fmtCb (c : Panoc.Callback Float) : String :=
  let i := c.it
  let gh := if i.haveGradHat then s!"1 {fmtV i.gradPsiHat}" else "0 0"
  s!"CB {c.k} {statusStr c.status} {fmtV i.x} {fmtV i.p} {fmtF i.pTp} {fmtV i.xhat} {fmtV i.yhat} " ++
  s!"{fmtF c.fbe} {fmtF i.psix} {fmtV i.gradPsi} {fmtF i.psixhat} {gh} {fmtV c.q} {fmtF i.L} " ++
  s!"{fmtF i.gamma} {fmtF c.tau} {fmtF c.eps}"

def runPanoc (kv : KV) (evs : List Ev) : String :=
  let n := kvNat kv "n"; let m := kvNat kv "m"
  let tbl := buildTable evs
  let P := mkProblem tbl n m
  let isDir (e : Ev) := e.name.startsWith "d"
  let d0 : DirSt := { evs := evs.filter isDir }
  let crit := (PANOCStopCrit.all[kvNat kv "crit"]?).getD .ApproxKKT
  let eps0 := 10 * 2.220446049250313e-16
  let pr : Panoc.Params Float := {
    L0 := kvFlt kv "L0" 0, lipEps := kvFlt kv "lipeps" 1e-6, lipDelta := kvFlt kv "lipdelta" 1e-12,
    LgammaFactor := kvFlt kv "Lgf" 0.95, maxIter := kvNat kv "maxiter" 100,
    minLsCoef := kvFlt kv "minls" (1.0/256.0), lsUpdateFactor := kvFlt kv "lsupd" 0.5,
    forceLinesearch := kvNat kv "force" != 0, lsStrictness := kvFlt kv "beta" 0.95,
    Lmin := kvFlt kv "Lmin" 1e-5, Lmax := kvFlt kv "Lmax" 1e20, stopCrit := crit,
    maxNoProgress := kvNat kv "maxnp" 10, qubTol := kvFlt kv "qubtol" eps0,
    lsTol := kvFlt kv "lstol" eps0, updateDirInCandidate := kvNat kv "updcand" != 0,
    recomputeLastProx := kvNat kv "recomp" != 0, eagerGradientEval := kvNat kv "eager" != 0,
    alwaysOverwrite := kvNat kv "overwrite" 1 != 0, tolerance := kvFlt kv "tol" 1e-8 }
  -- `lsFuel` keeps its default 4096 (≥ the bound `(n+1)(K+1)` of `Proofs/PanocFuel` for every
  -- parameter set with `(n+1)(K+1) ≤ 4096`, e.g. the defaults: 850); `FUEL-EXHAUSTED` is printed and
  -- counts as a mismatch should it run out.  The last argument `1.0/0.0` is the `+∞` of `Stats::ε`.
  let stopTick := match evs.find? (·.name == "stoptick") with
    | some e => (e.toks.head?.bind String.toNat?).getD 0
    | none => 0
  let stop := fun (t : Nat) => stopTick != 0 && t ≥ stopTick
  let oot := kvNat kv "oot" != 0
  let errz0 := List.replicate m (-12345.0)
  let x0 := kvVec kv "x0"; let y0 := kvVec kv "y0"; let sig := kvVec kv "Sig"
  let r := Panoc.run P (mkDirection n) d0 pr stop oot x0 y0 sig errz0 (nanV n) (0.0/0.0) (1.0/0.0)
  let s := r.stats
  let untouched := fmtV r.x == fmtV x0 && fmtV r.y == fmtV y0
  let sLine := s!"S {statusStr s.status} {s.iterations} {fmtF s.eps} {s.lsFailures} {s.lsBacktracks} " ++
    s!"{s.stepsizeBacktracks} {s.lbfgsFailures} {s.lbfgsRejected} {s.tau1Accepted} {s.countTau} " ++
    s!"{fmtF s.sumTau} {fmtF s.finalGamma} {fmtF s.finalPsi} {fmtF s.finalH} {fmtF s.finalFbe}"
  let oLine := s!"O {if untouched then 1 else 0} {fmtV r.x} {fmtV r.y} {fmtV r.errz}"
  let tLine := s!"T {r.ticks}"
  let extra := (if r.fuelOut then ["FUEL-EXHAUSTED"] else []) ++
    (match r.dfinal.bad with | some b => ["DIRECTION-TRACE-MISMATCH " ++ b] | none => [])
  String.intercalate " ; " ([sLine, oLine, tLine] ++ r.callbacks.map fmtCb ++ extra)

def loopStep (_ : Unit) (line : String) : Unit × String :=
  match line.splitOn " || " with
  | [op, tr] =>
    let kv := parseKV (tokens op)
    let evs := (splitSections tr).filterMap fun ts =>
      match ts with
      | "EV" :: name :: rest => some { name := name, toks := rest : Ev }
      | _ => none
    match kv.get? "solver" with
    | some "panoc" => ((), runPanoc kv evs)
    | _ => ((), "bad-op")
  | _ => ((), "parse-error")

def main : IO Unit := mainLoop loopStep ()
