/-
  Oracle-free PANOC replay.

  Input line:  `<op line of harness/solvers_panoc_full.cpp> || <EV sections recorded from the real run>`.

  Like `Driver/Loop.lean`, but the direction provider is *not* an oracle: the direction is computed
  by the provider models of `Alpaqa/Model/Directions.lean` (through `Model/DirectionsPanoc.lean`).
  Oracles that remain: the problem functions (lookup tables built from the recorded problem events,
  including the calls the structured provider makes inside `apply`, recorded as `EV i…`), the
  parameters, the stop tick.  The recorded direction events (`dinit dhasinit dupdate dapply dchanged
  dreset`) are only a *cross-check*: every call the model makes must be the call the real solver
  made, with bit-identical arguments and results; any difference is reported as
  `DIRECTION-CROSSCHECK …`.  Everything else (S / O / T / CB sections) is compared by the check.
-/
import Driver.DirsCommon
import Alpaqa.Model.DirectionsPanoc

open Alpaqa Alpaqa.Proto Alpaqa.Gen Alpaqa.Replay Alpaqa.Directions Alpaqa.DirsDrv

def mkProblem (t : Table) (n m : Nat) : Panoc.Problem Float where
  psiGradPsi x := match lookup t "psigradpsi" [vTok x] with
    | some [a, b, c] => (fltOfToks a, vecOfToks b, vecOfToks c)
    | _ => (0.0/0.0, nanV n, nanV m)
  psi x := match lookup t "psi" [vTok x] with
    | some [a, b] => (fltOfToks a, vecOfToks b)
    | _ => (0.0/0.0, nanV m)
  gradPsi x := match lookup t "gradpsi" [vTok x] with
    | some [a] => vecOfToks a
    | _ => nanV n
  gradL x y := match lookup t "gradL" [vTok x, vTok y] with
    | some [a] => vecOfToks a
    | _ => nanV n
  prox g x gr := match lookup t "prox" [[fmtF g], vTok x, vTok gr] with
    | some [a, b, c] => (fltOfToks a, vecOfToks b, vecOfToks c)
    | _ => (0.0/0.0, nanV n, nanV n)

/-- Model state of the provider + the recorded direction events still to be matched. -/
structure Cross (σ : Type) where
  m : σ
  chk : DirSt

def b2t (b : Bool) : List String := [if b then "1" else "0"]

/-- Skip a pending `dhasinit` event (the C++ evaluates it only at k = 0), checking its recorded
    answer against the model's. -/
def skipHasInit {σ : Type} (has : σ → Bool) (d : Cross σ) : Cross σ :=
  match d.chk.evs with
  | e :: rest =>
    if e.name == "dhasinit" then
      let bad := if e.toks == b2t (has d.m) then d.chk.bad
        else d.chk.bad <|> some s!"has_initial_direction: model {has d.m}, real {e.toks}"
      { d with chk := { evs := rest, bad := bad } }
    else d
  | [] => d

def note (c : DirSt) (cond : Bool) (msg : String) : DirSt :=
  if cond then c else { c with bad := c.bad <|> some msg }

/-- Wrap a provider model: every call also consumes the recorded event of the real run and
    compares arguments and results. -/
def crossDir {σ : Type} (dir : Panoc.Direction σ Float) : Panoc.Direction (Cross σ) Float where
  init d g x xh p gr :=
    let chk := (popDir d.chk "dinit" "svvvv" "" [[fmtF g], vTok x, vTok xh, vTok p, vTok gr]).1
    { m := dir.init d.m g x xh p gr, chk := chk }
  hasInitial d := dir.hasInitial d.m
  apply d g x xh p gr q :=
    let d := skipHasInit dir.hasInitial d
    let (chk, res) := popDir d.chk "dapply" "svvvv" "bv" [[fmtF g], vTok x, vTok xh, vTok p, vTok gr]
    let r := dir.apply d.m g x xh p gr q
    let chk := match res with
      | [b, qr] =>
        let chk := note chk (b == b2t r.2.1) s!"apply: returned flag differs (model {r.2.1}, real {b})"
        -- `q` that was never written is uninitialised storage in the C++ (garbage = NaN here)
        let garbage := !r.2.1 && r.2.2.all Float.isNaN
        note chk (garbage || qr == vTok r.2.2)
          s!"apply: q differs (model {String.intercalate " " (vTok r.2.2)}, real {String.intercalate " " qr})"
      | _ => chk
    ({ m := r.1, chk := chk }, r.2.1, r.2.2)
  update d gk gn xk xn pk pn grk grn :=
    let d := skipHasInit dir.hasInitial d
    let (chk, res) := popDir d.chk "dupdate" "ssvvvvvv" "b"
      [[fmtF gk], [fmtF gn], vTok xk, vTok xn, vTok pk, vTok pn, vTok grk, vTok grn]
    let r := dir.update d.m gk gn xk xn pk pn grk grn
    let chk := match res with
      | [b] => note chk (b == b2t r.2) s!"update: returned flag differs (model {r.2}, real {b})"
      | _ => chk
    ({ m := r.1, chk := chk }, r.2)
  changedGamma d g og :=
    let d := skipHasInit dir.hasInitial d
    { m := dir.changedGamma d.m g og, chk := (popDir d.chk "dchanged" "ss" "" [[fmtF g], [fmtF og]]).1 }
  reset d :=
    let d := skipHasInit dir.hasInitial d
    { m := dir.reset d.m, chk := (popDir d.chk "dreset" "" "" []).1 }

def statusStr (s : SolverStatus) : String := (reprStr s).replace "Alpaqa.Gen.SolverStatus." ""

def fmtCb (c : Panoc.Callback Float) : String :=
  let i := c.it
  let gh := if i.haveGradHat then s!"1 {fmtV i.gradPsiHat}" else "0 0"
  s!"CB {c.k} {statusStr c.status} {fmtV i.x} {fmtV i.p} {fmtF i.pTp} {fmtV i.xhat} {fmtV i.yhat} " ++
  s!"{fmtF c.fbe} {fmtF i.psix} {fmtV i.gradPsi} {fmtF i.psixhat} {gh} {fmtV c.q} {fmtF i.L} " ++
  s!"{fmtF i.gamma} {fmtF c.tau} {fmtF c.eps}"

structure Setup where
  P : Panoc.Problem Float
  pr : Panoc.Params Float
  stop : Nat → Bool
  oot : Bool
  x0 : List Float
  y0 : List Float
  sig : List Float
  errz0 : List Float
  n : Nat
  devs : List Ev

def setup (kv : KV) (evs : List Ev) : Setup :=
  let n := kvNat kv "n"; let m := kvNat kv "m"
  let crit := (PANOCStopCrit.all[kvNat kv "crit"]?).getD .ApproxKKT
  let eps0 := 10 * 2.220446049250313e-16
  let pr : Panoc.Params Float := {
    L0 := kvFlt kv "L0" 0, lipEps := kvFlt kv "lipeps" 1e-6, lipDelta := kvFlt kv "lipdelta" 1e-12,
    LgammaFactor := kvFlt kv "Lgf" 0.95, maxIter := kvNat kv "maxiter" 100,
    minLsCoef := kvFlt kv "minls" (1.0/256.0), lsUpdateFactor := kvFlt kv "lsupd" 0.5,
    forceLinesearch := kvNat kv "force" != 0, lsStrictness := kvFlt kv "beta" 0.95,
    Lmin := kvFlt kv "Lmin" 1e-5, Lmax := kvFlt kv "Lmax" 1e20, stopCrit := crit,
    maxNoProgress := kvNat kv "maxnp" 10, qubTol := kvFlt kv "qubtol" eps0,
    lsTol := kvFlt kv "lstol" eps0, updateDirInCandidate := kvNat kv "updcand" != 0,
    recomputeLastProx := kvNat kv "recomp" != 0, eagerGradientEval := kvNat kv "eager" != 0,
    alwaysOverwrite := kvNat kv "overwrite" 1 != 0, tolerance := kvFlt kv "tol" 1e-8 }
  let stopTick := match evs.find? (·.name == "stoptick") with
    | some e => (e.toks.head?.bind String.toNat?).getD 0
    | none => 0
  { P := mkProblem (buildTable evs) n m, pr := pr,
    stop := fun t => stopTick != 0 && t ≥ stopTick, oot := kvNat kv "oot" != 0,
    x0 := kvVec kv "x0", y0 := kvVec kv "y0", sig := kvVec kv "Sig",
    errz0 := List.replicate m (-12345.0), n := n,
    devs := evs.filter fun e => e.name.startsWith "d" }

/-- Run PANOC with the provider model `dir` (initial state `d0`) and print the S / O / T / CB
    sections plus the cross-check verdict. -/
def runWith {σ : Type} (su : Setup) (dir : Panoc.Direction (Latch σ) Float) (d0 : σ) : String :=
  let c0 : Cross (Latch σ) := { m := { st := d0 }, chk := { evs := su.devs } }
  let r := Panoc.run su.P (crossDir dir) c0 su.pr su.stop su.oot su.x0 su.y0 su.sig su.errz0
    (nanV su.n) (0.0/0.0) (1.0/0.0)
  let s := r.stats
  let untouched := fmtV r.x == fmtV su.x0 && fmtV r.y == fmtV su.y0
  let sLine := s!"S {statusStr s.status} {s.iterations} {fmtF s.eps} {s.lsFailures} {s.lsBacktracks} " ++
    s!"{s.stepsizeBacktracks} {s.lbfgsFailures} {s.lbfgsRejected} {s.tau1Accepted} {s.countTau} " ++
    s!"{fmtF s.sumTau} {fmtF s.finalGamma} {fmtF s.finalPsi} {fmtF s.finalH} {fmtF s.finalFbe}"
  let oLine := s!"O {if untouched then 1 else 0} {fmtV r.x} {fmtV r.y} {fmtV r.errz}"
  let tLine := s!"T {r.ticks}"
  let left := r.dfinal.chk.evs.filter (·.name != "dhasinit")
  let extra := (if r.fuelOut then ["FUEL-EXHAUSTED"] else []) ++
    (if r.dfinal.m.threw then ["MODEL-THREW"] else []) ++
    (match r.dfinal.chk.bad with | some b => ["DIRECTION-CROSSCHECK " ++ b] | none => []) ++
    (if left.isEmpty then [] else
      [s!"DIRECTION-CROSSCHECK {left.length} recorded direction calls were not made by the model, first: " ++
        (left.head?.map (·.name)).getD ""])
  String.intercalate " ; " ([sLine, oLine, tLine] ++ r.callbacks.map fmtCb ++ extra)

def runFull (kv : KV) (evs : List Ev) : String :=
  let su := setup kv evs
  match kv.get? "dir" with
  | some "noop" => runWith su noopDir ()
  | some "lbfgs" => runWith su (lbfgsDir (lbfgsCfg kv) su.n) Lbfgs.fresh
  | some "anderson" =>
    let c := andersonCfg kv
    runWith su (andersonDir c su.n su.y0 su.sig) (Anderson.fresh c)
  | some "slbfgs" =>
    runWith su (slbfgsDir (mkSProblem kv (buildInner evs)) (slbfgsCfg kv)) SLbfgs.fresh
  | _ => "bad-direction"

def loopStep (_ : Unit) (line : String) : Unit × String :=
  match parseLine line with
  | some (kv, evs) =>
    match kv.get? "solver" with
    | some "panoc" => ((), runFull kv evs)
    | _ => ((), "bad-op")
  | none => ((), "parse-error")

def main : IO Unit := mainLoop loopStep ()
