/- C04 driver: `resolve` / `resolveT` (hand model + generated defaults) at `Float` on the same op
   lines as harness/c04.cpp.  The table-driven basic functions and the "straightforward"
   user-supplied Hessians mirror harness/c04_kernels.hpp operation by operation. -/
import Alpaqa.Model.Proto
import Alpaqa.Model.C04

open Alpaqa Alpaqa.Proto Alpaqa.C04 Alpaqa.Gen.C04

structure Tbl where
  n : Nat
  m : Nat
  x : List Float
  f0 : Float
  gf : List Float
  g : List Float
  J : List Float
  Hf : List Float
  HG : List Float

def nanF : Float := 0.0 / 0.0

def sameX (t : Tbl) (x : List Float) : Bool :=
  (List.range t.n).all fun i => vget x i == vget t.x i

def foldAdd (k : Nat) (f : Nat → Float) : Float := (List.range k).foldl (fun acc j => acc + f j) 0.0

def bF (t : Tbl) (x : List Float) : Float := if sameX t x then t.f0 else nanF
def bGradF (t : Tbl) (x : List Float) : List Float :=
  (List.range t.n).map fun i => if sameX t x then vget t.gf i else nanF
def bG (t : Tbl) (x : List Float) : List Float :=
  (List.range t.m).map fun j => if sameX t x then vget t.g j else nanF
def bGradGProd (t : Tbl) (x y : List Float) : List Float :=
  (List.range t.n).map fun i =>
    let acc := foldAdd t.m fun j => vget t.J (j * t.n + i) * vget y j
    if sameX t x then acc else nanF

def mkBasic (t : Tbl) (D : BoxD Float) : Basic Float where
  n := t.n
  m := t.m
  f := bF t
  grad_f := bGradF t
  g := bG t
  grad_g_prod := bGradGProd t
  proj_diff_g := boxProjDiff D

/-! user-supplied Hessians (any consistent formula would do; these are the generalised Hessians) -/

def hgw (t : Tbl) (w : List Float) (i : Nat) : Float :=
  foldAdd t.m fun j => vget t.HG (j * t.n + i) * vget w j

def uHessLProd (t : Tbl) (x y : List Float) (s : Float) (v : List Float) : List Float :=
  (List.range t.n).map fun i =>
    let acc := foldAdd t.n fun k => vget t.Hf (i * t.n + k) * vget v k
    let r := s * acc + hgw t y i * vget v i
    if sameX t x then r else nanF

def uHessL (t : Tbl) (x y : List Float) (s : Float) : List Float :=
  (List.range (t.n * t.n)).map fun q =>
    let i := q / t.n
    let k := q % t.n
    let r := s * vget t.Hf (i * t.n + k)
    let r := if i == k then r + hgw t y i else r
    if sameX t x then r else nanF

/-- `(ŷ, a)` with `a_j = (d_j ≠ 0) ? Σ_j : 0`. -/
def uActive (B : Basic Float) (x y S : List Float) : List Float × List Float :=
  let g := B.g x
  let d := B.proj_diff_g (zetaV g y S)
  (yhatSpec B.proj_diff_g g y S,
   (List.range y.length).map fun j => if vget d j == 0 then 0.0 else sigmaAt S j)

def uHessPsiProd (t : Tbl) (B : Basic Float) (x y S : List Float) (s : Float) (v : List Float) :
    List Float :=
  let (yh, act) := uActive B x y S
  let o := uHessLProd t x yh s v
  let w := (List.range t.m).map fun j =>
    vget act j * foldAdd t.n fun k => vget t.J (j * t.n + k) * vget v k
  (List.range t.n).map fun i =>
    vget o i + foldAdd t.m fun j => vget t.J (j * t.n + i) * vget w j

def uHessPsi (t : Tbl) (B : Basic Float) (x y S : List Float) (s : Float) : List Float :=
  let (yh, act) := uActive B x y S
  let o := uHessL t x yh s
  (List.range (t.n * t.n)).map fun q =>
    let i := q / t.n
    let k := q % t.n
    vget o q + foldAdd t.m fun j => (vget t.J (j * t.n + i) * vget act j) * vget t.J (j * t.n + k)

def bit (mask k : Nat) : Bool := (mask >>> k) % 2 == 1

def mkProvided (t : Tbl) (B : Basic Float) (mask : Nat) : Provided Float where
  f_grad_f := if bit mask 0 then some (specFGradF B) else none
  f_g := if bit mask 1 then some (specFG B) else none
  grad_f_grad_g_prod := if bit mask 2 then some (specGradFGradGProd B) else none
  grad_L := if bit mask 3 then some (specGradL B) else none
  psi := if bit mask 4 then some (specPsi B) else none
  grad_psi := if bit mask 5 then some (specGradPsi B) else none
  psi_grad_psi := if bit mask 6 then some (specPsiGradPsi B) else none
  hess_L_prod := if bit mask 7 then some (uHessLProd t) else none
  hess_psi_prod := if bit mask 8 then some (uHessPsiProd t B) else none
  hess_L := if bit mask 9 then some (uHessL t) else none
  hess_psi := if bit mask 10 then some (uHessPsi t B) else none

def joinLog (l : List String) : String := if l.isEmpty then "-" else String.intercalate "," l

def b01 (b : Bool) : String := if b then "1" else "0"

def c04Step (_ : Unit) (line : String) : Unit × String :=
  let out : Option String :=
    match tokens line with
    -- `sq0` / `sqn` are the calls of a sequence on one kept problem object in the harness; the model
    -- is pure, so it answers each of them like an independent `ev`
    | "ev" :: fn :: variant :: r | "sq0" :: fn :: variant :: r | "sqn" :: fn :: variant :: r => run (do
        let mask ← nat; let n ← nat; let m ← nat
        let x ← vec; let f0 ← flt
        let gf ← vec; let g ← vec; let J ← vec; let Hf ← vec; let HG ← vec
        let y ← vec; let S ← vec; let lb ← vec; let ub ← vec
        let scale ← flt; let v ← vec
        let t : Tbl := { n, m, x, f0, gf, g, J, Hf, HG }
        let D : BoxD Float := List.zipWith (fun l u => (lbOf l, ubOf u)) lb ub
        let B := mkBasic t D
        let P := mkProvided t B mask
        let vt := resolve B P
        let tv : TraceVT Float := resolveT B P
        let fin := fun (vals : String) (tr : List String) =>
          let tr := if variant == "fun" then tr.filter (· != "proj_diff_g") else tr
          vals ++ " ; " ++ joinLog tr
        let opt := fun (o : Option (List Float)) (tr : List String) =>
          match o with
          | some w => fin (fmtV w) tr
          | none => fin "notimpl" tr
        let yh0 := List.replicate m nanF
        pure (match fn with
          | "psi" =>
            let r := vt.eval_psi x y S yh0
            fin (fmtF r.1 ++ " " ++ fmtV r.2) (tv.eval_psi x y S yh0)
          | "grad_psi" => fin (fmtV (vt.eval_grad_psi x y S)) (tv.eval_grad_psi x y S)
          | "psi_grad_psi" =>
            let r := vt.eval_psi_grad_psi x y S
            fin (fmtF r.1 ++ " " ++ fmtV r.2) (tv.eval_psi_grad_psi x y S)
          | "grad_L" => fin (fmtV (vt.eval_grad_L x y)) (tv.eval_grad_L x y)
          | "f_g" =>
            let r := vt.eval_f_g x
            fin (fmtF r.1 ++ " " ++ fmtV r.2) (tv.eval_f_g x)
          | "f_grad_f" =>
            let r := vt.eval_f_grad_f x
            fin (fmtF r.1 ++ " " ++ fmtV r.2) (tv.eval_f_grad_f x)
          | "gfggp" =>
            let r := vt.eval_grad_f_grad_g_prod x y
            fin (fmtV r.1 ++ " " ++ fmtV r.2) (tv.eval_grad_f_grad_g_prod x y)
          | "calc" =>
            let r := calc_yhat_dTyhat vt g y S
            fin (fmtF r.1 ++ " " ++ fmtV r.2) (calc_yhat_dTyhatT tv vt g y S)
          | "hess_L_prod" => opt (vt.eval_hess_L_prod x y scale v) (tv.eval_hess_L_prod x y scale v)
          | "hess_psi_prod" =>
            opt (vt.eval_hess_psi_prod x y S scale v) (tv.eval_hess_psi_prod x y S scale v)
          | "hess_L" => opt (vt.eval_hess_L x y scale) (tv.eval_hess_L x y scale)
          | "hess_psi" => opt (vt.eval_hess_psi x y S scale) (tv.eval_hess_psi x y S scale)
          | "provides" =>
            fin (String.join ([P.f_grad_f.isSome, P.f_g.isSome, P.grad_f_grad_g_prod.isSome,
                  P.grad_L.isSome, P.psi.isSome, P.grad_psi.isSome, P.psi_grad_psi.isSome,
                  vt.p_eval_hess_L_prod, vt.p_eval_hess_psi_prod, vt.p_eval_hess_L, vt.p_eval_hess_psi,
                  supports_eval_hess_psi_prod vt, supports_eval_hess_psi vt].map b01)) []
          | _ => "bad-fn")) r
    | _ => some "bad-op"
  ((), out.getD "parse-error")

def main : IO Unit := mainLoop c04Step ()
