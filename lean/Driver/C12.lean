/- C12 driver: generated OCP layout / IndexSet loops and the hand models of
   `OCPEvaluator::forward / backward` and `StatefulLQRFactor` executed at `Float`. -/
import Alpaqa.Model.Proto
import Alpaqa.Model.C12
import Alpaqa.Gen.C12

open Alpaqa Alpaqa.Proto Alpaqa.C12 Alpaqa.Gen.C12

namespace C12Drv

/-- The polynomial control problem of `harness/c12.cpp` (`struct Prob`), same loops, same
    operation order. -/
structure Prob where
  N : Nat
  nx : Nat
  nu : Nat
  nh : Nat
  nhN : Nat
  nc : Nat
  ncN : Nat
  A : Array Float
  B : Array Float
  Cb : Array Float
  e : Array Float
  Hm : Array Float
  HN : Array Float
  w : Array Float
  g : Array Float
  d : Array Float
  wN : Array Float
  gN : Array Float
  Cc : Array Float
  cq : Array Float
  ce : Array Float
  CcN : Array Float
  cqN : Array Float
  Dlb : List Float
  Dub : List Float
  DNlb : List Float
  DNub : List Float
  dA : Array Float
  dB : Array Float
  dHm : Array Float
  dw : Array Float
  dCc : Array Float

@[inline] def ga (a : Array Float) (i : Nat) : Float := a.getD i 0
@[inline] def gl (a : List Float) (i : Nat) : Float := a.getD i 0

/-- time-varying coefficients: `A_t = A + t·dA`, … (every stage function depends on its stage index) -/
def Prob.At (p : Prob) (t ij : Nat) : Float := ga p.A ij + Float.ofNat t * ga p.dA ij
def Prob.Bt (p : Prob) (t ik : Nat) : Float := ga p.B ik + Float.ofNat t * ga p.dB ik
def Prob.Hmt (p : Prob) (t ij : Nat) : Float := ga p.Hm ij + Float.ofNat t * ga p.dHm ij
def Prob.wt (p : Prob) (t i : Nat) : Float := ga p.w i + Float.ofNat t * ga p.dw i
def Prob.Cct (p : Prob) (t ij : Nat) : Float := ga p.Cc ij + Float.ofNat t * ga p.dCc ij

def Prob.Acur (p : Prob) (t i j : Nat) (u : List Float) : Float := Id.run do
  let mut a := p.At t (i * p.nx + j)
  for k in [0:p.nu] do
    a := a + ga p.Cb ((i * p.nx + j) * p.nu + k) * gl u k
  return a

def Prob.Bcur (p : Prob) (t i k : Nat) (x : List Float) : Float := Id.run do
  let mut b := p.Bt t (i * p.nu + k)
  for j in [0:p.nx] do
    b := b + ga p.Cb ((i * p.nx + j) * p.nu + k) * gl x j
  return b

def Prob.f (p : Prob) (t : Nat) (x u : List Float) : List Float :=
  (List.range p.nx).map fun i => Id.run do
    let mut acc := Float.ofNat t * ga p.e i
    for j in [0:p.nx] do
      acc := acc + p.At t (i * p.nx + j) * gl x j
    for k in [0:p.nu] do
      acc := acc + p.Bt t (i * p.nu + k) * gl u k
    for j in [0:p.nx] do
      for k in [0:p.nu] do
        acc := acc + (ga p.Cb ((i * p.nx + j) * p.nu + k) * gl x j) * gl u k
    return acc

def Prob.gradFProd (p : Prob) (t : Nat) (x u q : List Float) : List Float :=
  ((List.range p.nx).map fun j => Id.run do
    let mut acc : Float := 0
    for i in [0:p.nx] do
      acc := acc + p.Acur t i j u * gl q i
    return acc) ++
  ((List.range p.nu).map fun k => Id.run do
    let mut acc : Float := 0
    for i in [0:p.nx] do
      acc := acc + p.Bcur t i k x * gl q i
    return acc)

def Prob.h (p : Prob) (t : Nat) (x u : List Float) : List Float :=
  (List.range p.nh).map fun i => Id.run do
    let mut acc : Float := 0
    for j in [0:p.nx] do
      acc := acc + p.Hmt t (i * (p.nx + p.nu) + j) * gl x j
    for k in [0:p.nu] do
      acc := acc + p.Hmt t (i * (p.nx + p.nu) + p.nx + k) * gl u k
    return acc

def Prob.hN (p : Prob) (x : List Float) : List Float :=
  (List.range p.nhN).map fun i => Id.run do
    let mut acc : Float := 0
    for j in [0:p.nx] do
      acc := acc + ga p.HN (i * p.nx + j) * gl x j
    return acc

def Prob.l (p : Prob) (t : Nat) (h : List Float) : Float := Id.run do
  let mut acc : Float := 0
  for i in [0:h.length] do
    acc := acc + (0.5 * ((p.wt t i * gl h i) * gl h i) + (ga p.g i + Float.ofNat t * ga p.d i) * gl h i)
  return acc

def Prob.lN (p : Prob) (h : List Float) : Float := Id.run do
  let mut acc : Float := 0
  for i in [0:h.length] do
    acc := acc + (0.5 * ((ga p.wN i * gl h i) * gl h i) + ga p.gN i * gl h i)
  return acc

def Prob.dl (p : Prob) (t : Nat) (h : List Float) (i : Nat) : Float :=
  p.wt t i * gl h i + (ga p.g i + Float.ofNat t * ga p.d i)
def Prob.dlN (p : Prob) (h : List Float) (i : Nat) : Float := ga p.wN i * gl h i + ga p.gN i

def Prob.qr (p : Prob) (t : Nat) (xu h : List Float) : List Float :=
  (List.range (p.nx + p.nu)).map fun j =>
    if p.nh > 0 then Id.run do
      let mut acc : Float := 0
      for i in [0:p.nh] do
        acc := acc + p.Hmt t (i * (p.nx + p.nu) + j) * p.dl t h i
      return acc
    else p.dl t xu j

def Prob.qN (p : Prob) (x h : List Float) : List Float :=
  (List.range p.nx).map fun j =>
    if p.nhN > 0 then Id.run do
      let mut acc : Float := 0
      for i in [0:p.nhN] do
        acc := acc + ga p.HN (i * p.nx + j) * p.dlN h i
      return acc
    else p.dlN x j

def Prob.c (p : Prob) (t : Nat) (x : List Float) : List Float :=
  (List.range p.nc).map fun i => Id.run do
    let mut acc := Float.ofNat t * ga p.ce i
    for j in [0:p.nx] do
      acc := acc + p.Cct t (i * p.nx + j) * gl x j
    acc := acc + ga p.cq i * (gl x (i % p.nx) * gl x (i % p.nx))
    return acc

def Prob.cN (p : Prob) (x : List Float) : List Float :=
  (List.range p.ncN).map fun i => Id.run do
    let mut acc : Float := 0
    for j in [0:p.nx] do
      acc := acc + ga p.CcN (i * p.nx + j) * gl x j
    acc := acc + ga p.cqN i * (gl x (i % p.nx) * gl x (i % p.nx))
    return acc

def Prob.Jc (p : Prob) (t i j : Nat) (x : List Float) : Float :=
  let v := p.Cct t (i * p.nx + j)
  if j == i % p.nx then v + (2 * ga p.cq i) * gl x j else v
def Prob.JcN (p : Prob) (i j : Nat) (x : List Float) : Float :=
  let v := ga p.CcN (i * p.nx + j)
  if j == i % p.nx then v + (2 * ga p.cqN i) * gl x j else v

def Prob.gradCProd (p : Prob) (t : Nat) (x q : List Float) : List Float :=
  (List.range p.nx).map fun j => Id.run do
    let mut acc : Float := 0
    for i in [0:p.nc] do
      acc := acc + p.Jc t i j x * gl q i
    return acc

def Prob.gradCProdN (p : Prob) (x q : List Float) : List Float :=
  (List.range p.nx).map fun j => Id.run do
    let mut acc : Float := 0
    for i in [0:p.ncN] do
      acc := acc + p.JcN i j x * gl q i
    return acc

def Prob.toOCP (p : Prob) : OCP Float where
  f := p.f
  h := p.h
  hN := p.hN
  l := p.l
  lN := p.lN
  c := p.c
  cN := p.cN
  gradFProd := p.gradFProd
  qr := p.qr
  qN := p.qN
  gradCProd := p.gradCProd
  gradCProdN := p.gradCProdN

def mkBox (lb ub : List Float) : Box Float := List.zipWith (fun l u => (lbOf l, ubOf u)) lb ub

def arr : P (Array Float) := do let v ← vec; pure v.toArray

def readProb : P Prob := do
  let N ← nat; let nx ← nat; let nu ← nat; let nh ← nat; let nhN ← nat; let nc ← nat; let ncN ← nat
  let A ← arr; let B ← arr; let Cb ← arr; let e ← arr; let Hm ← arr; let HN ← arr
  let w ← arr; let g ← arr; let d ← arr; let wN ← arr; let gN ← arr
  let Cc ← arr; let cq ← arr; let ce ← arr; let CcN ← arr; let cqN ← arr
  let Dlb ← vec; let Dub ← vec; let DNlb ← vec; let DNub ← vec
  let dA ← arr; let dB ← arr; let dHm ← arr; let dw ← arr; let dCc ← arr
  pure { N, nx, nu, nh, nhN, nc, ncN, A, B, Cb, e, Hm, HN, w, g, d, wN, gN, Cc, cq, ce, CcN, cqN,
         Dlb, Dub, DNlb, DNub, dA, dB, dHm, dw, dCc }

def fmtN (l : List Nat) : String := String.intercalate " " (toString l.length :: l.map toString)

/-- matrix (row-major token vector) -/
def matP (r c : Nat) : P (Mat Float) := do
  let v ← vec
  pure ((List.range r).map fun i => (List.range c).map fun j => v.getD (i * c + j) 0)

/-- Gaussian elimination with partial pivoting: `X` with `A X = B` (`A` is `n×n`, `B` is `n×m`).
    Stands in for `Eigen::LDLT / PartialPivLU::solve` (contract `R̄X = B`; rounding differs). -/
def gaussSolve (n m : Nat) (A B : Mat Float) : Mat Float := Id.run do
  let mut M : Array (Array Float) := (List.range n).toArray.map fun i =>
    ((List.range n).map fun j => mget A i j).toArray ++ ((List.range m).map fun j => mget B i j).toArray
  for col in [0:n] do
    let mut piv := col
    for r in [col+1:n] do
      if ((M.getD r #[]).getD col 0).abs > ((M.getD piv #[]).getD col 0).abs then piv := r
    let rp := M.getD piv #[]
    let rc := M.getD col #[]
    M := (M.setIfInBounds piv rc).setIfInBounds col rp
    let prow := M.getD col #[]
    let pv := prow.getD col 0
    for r in [col+1:n] do
      let row := M.getD r #[]
      let fct := row.getD col 0 / pv
      M := M.setIfInBounds r ((List.range (n + m)).toArray.map fun j => row.getD j 0 - fct * prow.getD j 0)
  let mut X : Array (Array Float) := Array.replicate n (Array.replicate m 0)
  for ii in [0:n] do
    let i := n - 1 - ii
    let row := M.getD i #[]
    let mut xr : Array Float := Array.replicate m 0
    for j in [0:m] do
      let mut acc := row.getD (n + j) 0
      for k in [i+1:n] do
        acc := acc - row.getD k 0 * (X.getD k #[]).getD j 0
      xr := xr.setIfInBounds j (acc / row.getD i 0)
    X := X.setIfInBounds i xr
  return X.toList.map (·.toList)

def solveM (A B : Mat Float) : Mat Float := gaussSolve A.length ((B.getD 0 []).length) A B
def solveV (A : Mat Float) (b : Vec Float) : Vec Float :=
  (gaussSolve A.length 1 A (b.map fun x => [x])).map fun r => r.getD 0 0

def bitsOf (mask n : Nat) : Nat → Bool := fun c => c < n && (mask >>> c) % 2 == 1

def readNats : Nat → List Nat → P (List Nat)
  | 0, acc => pure acc.reverse
  | k+1, acc => do let m ← nat; readNats k (m :: acc)

def readStages (nx nu : Nat) : Nat → List (LQRStage Float) → P (List (LQRStage Float))
  | 0, acc => pure acc.reverse
  | k+1, acc => do
    let A ← matP nx nx; let B ← matP nx nu; let Q ← matP nx nx; let R ← matP nu nu
    let S ← matP nu nx; let q ← vec; let r ← vec; let u ← vec; let mask ← nat
    let J := buildJ (bitsOf mask nu) nu
    readStages nx nu k ({ A, B, Q, R, S, q, r, u, J, K := computeComplement J nu } :: acc)

/-- one call of an `fbs` sequence -/
inductive Call
  | fwd (i : Nat) | sim (i : Nat) | bwd (i : Nat) | cpy (i j : Nat)

def readCalls : Nat → List Call → P (List Call)
  | 0, acc => pure acc.reverse
  | k+1, acc => do
    let t ← tok
    match t with
    | "F" => do let i ← nat; readCalls k (.fwd i :: acc)
    | "S" => do let i ← nat; readCalls k (.sim i :: acc)
    | "B" => do let i ← nat; readCalls k (.bwd i :: acc)
    | "C" => do let i ← nat; let j ← nat; readCalls k (.cpy i j :: acc)
    | _ => failure

def readVecs : Nat → List (List Float) → P (List (List Float))
  | 0, acc => pure acc.reverse
  | k+1, acc => do let v ← vec; readVecs k (v :: acc)

def step (_ : Unit) (line : String) : Unit × String :=
  let out : Option String :=
    match tokens line with
    | "layout" :: r => run (do
        let N ← nat; let nx ← nat; let nu ← nat; let nh ← nat; let nc ← nat; let nhN ← nat; let ncN ← nat
        let v := OCPVars.ofProblem N nx nu nh nc nhN ncN
        let head := [v.createSize, v.createQrSize, v.createABRows, v.createABCols, v.nx, v.nu, v.nxu,
                     v.nh, v.nc, v.nx_N, v.nh_N, v.nc_N]
        let per := (List.range (N + 1)).map fun k =>
          let a := [v.xkStart k, v.xkLen k, v.hkStart k, v.hkLen k, v.ckStart k, v.ckLen k,
                    v.qkStart k, v.qkLen k]
          let b := if k < N then
            [v.ukStart k, v.ukLen k, v.xukStart k, v.xukLen k, v.rkStart k, v.rkLen k, v.qrkStart k,
             v.qrkLen k, v.AkStart k, v.AkLen k, v.BkStart k, v.BkLen k, v.ABkStart k, v.ABkLen k]
            else []
          " | " ++ String.intercalate " " ((a ++ b).map toString)
        pure (String.intercalate " " (head.map toString) ++ String.join per)) r
    | "iset" :: r => run (do
        let N ← nat; let n ← nat
        let masks ← readNats N []
        let rows := indexSetUpdate (fun t c => bitsOf (masks.getD t 0) n c) N n
        let sto := indexSetStorage rows
        let per := (List.range N).map fun i =>
          " J " ++ fmtN (isetIndicesAt sto N n i) ++ " K " ++ fmtN (isetComplAt sto N n i)
        pure ("sto " ++ fmtN sto ++ String.join per)) r
    | "fb" :: _ :: r => run (do
        let p ← readProb
        let μ ← vec; let y ← vec; let xinit ← vec; let u ← vec
        let v := OCPVars.ofProblem p.N p.nx p.nu p.nh p.nc p.nhN p.ncN
        let D := mkBox p.Dlb p.Dub
        let DN := mkBox p.DNlb p.DNub
        -- storage.setZero(); get_x_init(storage.topRows(nx)); assign_interleave_xu(vars, u, storage)
        let st0 : List Float := List.replicate v.createSize 0
        let st1 := setSeg st0 0 xinit
        let st2 := (List.range p.N).foldl
          (fun st t => setSeg st (v.ukStart t) (getSeg u (t * v.nu) v.nu)) st1
        let P := p.toOCP
        let fw := forward P v D DN μ y st2
        let bw := backward P v D DN μ y fw.1
        pure (fmtF fw.2 ++ " s " ++ fmtV fw.1 ++ " g " ++ fmtV bw.g ++ " qr " ++ fmtV (bw.qrFlat v))) r
    | "fbs" :: _ :: r => run (do
        -- a SEQUENCE of calls on K storages.  The model is a pure function of the storage it is
        -- handed: every call is answered from its arguments alone (the only thing threaded through
        -- is the list of storage vectors, i.e. the data the C++ caller owns).
        let p ← readProb
        let μ ← vec; let y ← vec; let xinit ← vec
        let K ← nat
        let us ← readVecs K []
        let L ← nat
        let calls ← readCalls L []
        let v := OCPVars.ofProblem p.N p.nx p.nu p.nh p.nc p.nhN p.ncN
        let D := mkBox p.Dlb p.Dub
        let DN := mkBox p.DNlb p.DNub
        let P := p.toOCP
        let mk := fun (u : List Float) =>
          let st0 : List Float := List.replicate v.createSize 0
          let st1 := setSeg st0 0 xinit
          (List.range p.N).foldl (fun st t => setSeg st (v.ukStart t) (getSeg u (t * v.nu) v.nu)) st1
        let stos0 : Array (List Float) := (us.map mk).toArray
        let (_, outs) := calls.foldl (fun (acc : Array (List Float) × List String) c =>
          let (stos, outs) := acc
          match c with
          | .fwd i =>
            let fw := forward P v D DN μ y (stos.getD i [])
            (stos.setIfInBounds i fw.1, ("F " ++ fmtF fw.2 ++ " s " ++ fmtV fw.1) :: outs)
          | .sim i =>
            let s := forwardSimulate P v (stos.getD i [])
            (stos.setIfInBounds i s, ("S s " ++ fmtV s) :: outs)
          | .bwd i =>
            let bw := backward P v D DN μ y (stos.getD i [])
            (stos, ("B g " ++ fmtV bw.g ++ " qr " ++ fmtV (bw.qrFlat v)) :: outs)
          | .cpy i j =>
            let s := stos.getD i []
            (stos.setIfInBounds j s, ("C s " ++ fmtV s) :: outs)) (stos0, [])
        pure (String.intercalate " | " outs.reverse)) r
    | "ric" :: r => run (do
        let _chol ← nat
        let N ← nat; let nx ← nat; let nu ← nat
        let stages ← readStages nx nu N []
        let QN ← matP nx nx
        let qN ← vec
        let dflt : LQRStage Float := ⟨[], [], [], [], [], [], [], [], [], []⟩
        let data := fun i => stages.getD i dflt
        let fac := factorMasked N nx nu solveM solveV data QN qN
        let sol := solveMasked nx nu data fac
        pure ("du " ++ fmtV sol.1.flatten ++ " dxN " ++ fmtV (sol.2.getLastD []))) r
    | _ => some "bad-op"
  ((), out.getD "parse-error")

end C12Drv

def main : IO Unit := mainLoop C12Drv.step ()
