/- C02 driver: the Lean-verified certificate checkers of `Model/C02.lean` run at core `Rat`.

   ops (one per line, space-separated tokens; doubles as 16 hex digits, read *exactly* into `Rat`;
   exact rationals as `num/den` or `num`):

     kkt <n> <m> <Q n·n> <c n> <A m·n> <Clb n> <Cub n> <Dlb m> <Dub m> <x* n rat> <y* m rat>
         <mu rat> <k> <B k·n>
        → `ok` | `fail <strong-convexity|mu-positive|x-in-C|Ax-in-D|stationarity|multiplier-sign>`
        (`isSCCert Q μ B`, `0 < μ`, then the four conjuncts of `isExactKKT`)
     bound <n> <m> <x n> <y m> <x* n rat> <y* m rat> <mu rat> <eps rat> <delta rat>
        → `ok` | `viol`     (μ Σ(x−x*)² ≤ ε Σ|x−x*| + δ Σ|y−y*| evaluated at `Rat`)
-/
import Alpaqa.Model.Proto
import Alpaqa.Model.C02

open Alpaqa Alpaqa.Proto Alpaqa.C02

/-- exact value of a finite binary64 -/
def ratOfBits (u : UInt64) : Option (Option Rat × Int) :=   -- (finite value | none, sign of infinity)
  let sgn : Int := if (u >>> 63) == 1 then -1 else 1
  let e := ((u >>> 52) &&& 0x7ff).toNat
  let f := (u &&& 0xfffffffffffff).toNat
  if e == 0x7ff then (if f == 0 then some (none, sgn) else none)
  else
    let mant : Nat := if e == 0 then f else f + 2 ^ 52
    let ex : Int := (if e == 0 then 1 else (e : Int)) - 1075
    let r : Rat := if ex ≥ 0 then ((sgn * (mant * 2 ^ ex.toNat : Nat) : Int) : Rat)
                   else ((sgn * (mant : Int) : Int) : Rat) / ((2 ^ (-ex).toNat : Nat) : Rat)
    some (some r, 0)

/-- finite double → `Rat` (fails on `±inf`, NaN) -/
def dbl : P Rat := do
  let t ← tok
  match parseHex64? t >>= ratOfBits with
  | some (some r, _) => pure r
  | _ => failure

/-- bound: `-inf` (lower) / `+inf` (upper) → `none` -/
def bnd (lower : Bool) : P (Option Rat) := do
  let t ← tok
  match parseHex64? t >>= ratOfBits with
  | some (some r, _) => pure (some r)
  | some (none, s) => if (lower && s == -1) || (!lower && s == 1) then pure none else failure
  | none => failure

def ratTok : P Rat := do
  let t ← tok
  match t.splitOn "/" with
  | [a] => match a.toInt? with | some n => pure (n : Rat) | none => failure
  | [a, b] =>
    match a.toInt?, b.toNat? with
    | some n, some d => if d == 0 then failure else pure ((n : Rat) / ((d : Nat) : Rat))
    | _, _ => failure
  | _ => failure

def many {β} (p : P β) : Nat → P (Array β)
  | 0 => pure #[]
  | k + 1 => do let a ← p; let r ← many p k; pure (#[a] ++ r)

def vecFn {β} (a : Array β) (d : β) (n : Nat) : Fin n → β := fun i => a.getD i.val d
def matFn {β} (a : Array β) (d : β) (rows cols : Nat) : Fin rows → Fin cols → β :=
  fun i j => a.getD (i.val * cols + j.val) d

def rabs (a : Rat) : Rat := if a < 0 then -a else a

def c02Step (_ : Unit) (line : String) : Unit × String :=
  let out : Option String :=
    match tokens line with
    | "kkt" :: r => run (do
        let n ← nat; let m ← nat
        let Q ← many dbl (n * n); let c ← many dbl n; let A ← many dbl (m * n)
        let Clb ← many (bnd true) n; let Cub ← many (bnd false) n
        let Dlb ← many (bnd true) m; let Dub ← many (bnd false) m
        let xs ← many ratTok n; let ys ← many ratTok m
        let mu ← ratTok
        let k ← nat; let B ← many dbl (k * n)
        let Qf := matFn Q 0 n n; let cf := vecFn c 0 n; let Af := matFn A 0 m n
        let Clbf := vecFn Clb none n; let Cubf := vecFn Cub none n
        let Dlbf := vecFn Dlb none m; let Dubf := vecFn Dub none m
        let xf := vecFn xs 0 n; let yf := vecFn ys 0 m
        let Bf := matFn B 0 k n
        if !(isSCCert Qf mu Bf) then pure "fail strong-convexity"
        else if !(decide (0 < mu)) then pure "fail mu-positive"
        else if !(chkXinC Clbf Cubf xf) then pure "fail x-in-C"
        else if !(chkAxInD Af Dlbf Dubf xf) then pure "fail Ax-in-D"
        else if !(chkStat Qf cf Af Clbf Cubf xf yf) then pure "fail stationarity"
        else if !(chkMult Af Dlbf Dubf xf yf) then pure "fail multiplier-sign"
        else if isExactKKT Qf cf Af Clbf Cubf Dlbf Dubf xf yf then pure "ok"
        else pure "fail internal") r
    | "bound" :: r => run (do
        let n ← nat; let m ← nat
        let x ← many dbl n; let y ← many dbl m
        let xs ← many ratTok n; let ys ← many ratTok m
        let mu ← ratTok; let eps ← ratTok; let del ← ratTok
        let xf := vecFn x 0 n; let yf := vecFn y 0 m
        let xsf := vecFn xs 0 n; let ysf := vecFn ys 0 m
        let lhs := mu * fsum n fun i => (xf i - xsf i) * (xf i - xsf i)
        let rhs := eps * (fsum n fun i => rabs (xf i - xsf i)) + del * (fsum m fun j => rabs (yf j - ysf j))
        pure (if lhs ≤ rhs then "ok" else "viol")) r
    | _ => some "bad-op"
  ((), out.getD "parse-error")

def main : IO Unit := mainLoop c02Step ()
