/-
  Helpers shared by the trace-replay drivers (`Driver/Loop*.lean`): `key=value` op lines, recorded
  events, lookup tables for pure problem oracles, the replay state of a stateful oracle.
-/
import Std.Data.HashMap
import Alpaqa.Model.Proto

open Alpaqa Alpaqa.Proto

namespace Alpaqa.Replay

abbrev KV := Std.HashMap String String

def parseKV (ts : List String) : KV :=
  ts.foldl (fun m t =>
    match t.splitOn "=" with
    | [k, v] => m.insert k v
    | [k] => m.insert "_op" k
    | _ => m) {}

def kvNat (m : KV) (k : String) (d : Nat := 0) : Nat := ((m.get? k).bind String.toNat?).getD d
def kvFlt (m : KV) (k : String) (d : Float) : Float := ((m.get? k).bind parseF?).getD d
def kvVec (m : KV) (k : String) : List Float :=
  match m.get? k with
  | none => []
  | some s =>
    match s.splitOn ":" with
    | [n, rest] =>
      if n.toNat?.getD 0 == 0 then [] else
      (rest.splitOn ",").map fun t => if t == "nan" then (0.0/0.0) else (parseF? t).getD (0.0/0.0)
    | _ => []

/-- One recorded event: name and the raw tokens after it. -/
structure Ev where
  name : String
  toks : List String
  deriving Inhabited

def splitSections (s : String) : List (List String) :=
  (s.splitOn " ; ").map tokens |>.filter (· ≠ [])

/-- Split `toks` into (first `k` "items", rest) where an item is a scalar token or a vector
    `n t1 … tn`, according to the shape string: 's' scalar, 'v' vector, 'b' flag. -/
def takeShape : List Char → List String → Option (List (List String) × List String)
  | [], ts => some ([], ts)
  | 'v' :: sh, n :: ts =>
    match n.toNat? with
    | none => none
    | some k =>
      if ts.length < k then none else
      (takeShape sh (ts.drop k)).map fun (r, rest) => ((n :: ts.take k) :: r, rest)
  | _ :: sh, t :: ts => (takeShape sh ts).map fun (r, rest) => ([t] :: r, rest)
  | _, [] => none

def vecOfToks (ts : List String) : List Float :=
  (ts.drop 1).map fun t => if t == "nan" then (0.0/0.0) else (parseF? t).getD (0.0/0.0)
def fltOfToks (ts : List String) : Float :=
  match ts with
  | [t] => if t == "nan" then (0.0/0.0) else (parseF? t).getD (0.0/0.0)
  | _ => 0.0/0.0

def keyOf (name : String) (items : List (List String)) : String :=
  name ++ "|" ++ String.intercalate "|" (items.map (String.intercalate " "))

/-- argument shape / result shape of each problem event -/
def probShapes : String → Option (String × String)
  | "psigradpsi" => some ("v", "svv")
  | "psi" => some ("v", "sv")
  | "gradpsi" => some ("v", "v")
  | "gradL" => some ("vv", "v")
  | "prox" => some ("svv", "svv")
  | _ => none

abbrev Table := Std.HashMap String (List (List String))

def buildTable (evs : List Ev) : Table :=
  evs.foldl (fun m e =>
    match probShapes e.name with
    | none => m
    | some (a, r) =>
      match takeShape a.toList e.toks with
      | none => m
      | some (args, rest) =>
        match takeShape r.toList rest with
        | none => m
        | some (res, _) => m.insert (keyOf e.name args) res) {}

def vTok (v : List Float) : List String := toString v.length :: v.map fmtF

def nanV (n : Nat) : List Float := List.replicate n (0.0/0.0)

def lookup (t : Table) (name : String) (args : List (List String)) : Option (List (List String)) :=
  t.get? (keyOf name args)

/-- Direction replay state: remaining direction events, first mismatch. -/
structure DirSt where
  evs : List Ev
  bad : Option String := none

def popDir (d : DirSt) (name : String) (argShape resShape : String) (args : List (List String)) :
    DirSt × List (List String) :=
  match d.evs with
  | [] => ({ d with bad := d.bad <|> some s!"direction trace exhausted at {name}" }, [])
  | e :: rest =>
    if e.name != name then
      ({ evs := rest, bad := d.bad <|> some s!"model calls {name}, real solver called {e.name}" }, [])
    else
      match takeShape argShape.toList e.toks with
      | none => ({ evs := rest, bad := d.bad <|> some s!"unparsable {name}" }, [])
      | some (a, r) =>
        let bad := if a == args then d.bad else
          d.bad <|> some s!"{name}: arguments differ (model {keyOf "" args} vs real {keyOf "" a})"
        match takeShape resShape.toList r with
        | none => ({ evs := rest, bad := bad }, [])
        | some (res, _) => ({ evs := rest, bad := bad }, res)


/-- Parse `<op> || <EV sections>` into (key=value map, events). -/
def parseLine (line : String) : Option (KV × List Ev) :=
  match line.splitOn " || " with
  | [op, tr] =>
    let kv := parseKV (tokens op)
    let evs := (splitSections tr).filterMap fun ts =>
      match ts with
      | "EV" :: name :: rest => some { name := name, toks := rest : Ev }
      | _ => none
    some (kv, evs)
  | _ => none

end Alpaqa.Replay
