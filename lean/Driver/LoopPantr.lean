/-
  Trace-replay driver for the PANTR loop model (`Alpaqa/Model/Pantr.lean`).

  Input line:  `<op line of harness/solvers_pantr.cpp> || <EV sections recorded from the real run>`.
  The recorded events are the *oracle answers* (problem evaluations, trust-region direction calls,
  the tick at which `stop()` was called); everything else — step sizes, the trust radius, the ratio,
  acceptance decisions, which iterate / buffer is overwritten when, exit status, written-back
  x / y / err_z, statistics, every field handed to the progress callback, the number of events — is
  computed by the model and printed, and must equal what the real solver produced, bit for bit.
  Never-written vector storage is NaN on both sides (the harness fills fresh allocations with 0xFF).

  Fuel: `pr` below leaves `Params.qubFuel` at its default 4096 (the only fuel that can run out: the main
  loop's `max_iter + 1` suffices unconditionally, `Proofs/PantrInv.lean: mainLoop_exit_at_head`); a run
  in which a `backtrack_qub` exhausted it prints `FUEL-EXHAUSTED` and the comparison fails.  Over an
  ordered field `Proofs/PantrFuel.lean: pantr_fuel_suffices` proves that cannot happen when
  `L_max ≤ L_init·2ᴺ`, `N < 4096` (`N = 84` for the extreme parameters `checks/loop_pantr.py` draws:
  `L_min = 1e-5`, `L_max = 1e20`; example at the end of `Props/C03_Pantr.lean`).  The early `NotFinite`
  return reports `ε = co.inf = +inf`, as the C++ `Stats` default, and is compared unmasked.
-/
import Driver.ReplayCommon
import Alpaqa.Model.Pantr

open Alpaqa Alpaqa.Proto Alpaqa.Gen Alpaqa.Replay

namespace LoopPantr

def mkProblem (t : Table) (n m : Nat) : Pantr.Problem Float where
  psiGradPsi x := match lookup t "psigradpsi" [vTok x] with
    | some [a, b, c] => (fltOfToks a, vecOfToks b, vecOfToks c)
    | _ => (0.0/0.0, nanV n, nanV m)
  psi x := match lookup t "psi" [vTok x] with
    | some [a, b] => (fltOfToks a, vecOfToks b)
    | _ => (0.0/0.0, nanV m)
  gradPsi x := match lookup t "gradpsi" [vTok x] with
    | some [a] => vecOfToks a
    | _ => nanV n
  gradL x y := match lookup t "gradL" [vTok x, vTok y] with
    | some [a] => vecOfToks a
    | _ => nanV n
  prox g x gr := match lookup t "prox" [[fmtF g], vTok x, vTok gr] with
    | some [a, b, c] => (fltOfToks a, vecOfToks b, vecOfToks c)
    | _ => (0.0/0.0, nanV n, nanV n)

/-- skip a pending `dhasinit` event (the C++ evaluates it only at k = 0, the model's `hasInitial`
    is a pure peek) -/
def skipHasInit (d : DirSt) : DirSt :=
  match d.evs with
  | e :: rest => if e.name == "dhasinit" then { d with evs := rest } else d
  | [] => d

def mkDirection (n : Nat) : Pantr.Direction DirSt Float where
  init d g x xh p gr := (popDir d "dinit" "svvvv" "" [[fmtF g], vTok x, vTok xh, vTok p, vTok gr]).1
  hasInitial d := match d.evs with
    | e :: _ => e.name == "dhasinit" && e.toks == ["1"]
    | [] => false
  apply d g x xh p gr rad _q :=
    let (d, res) := popDir (skipHasInit d) "dapply" "svvvvs" "sv"
      [[fmtF g], vTok x, vTok xh, vTok p, vTok gr, [fmtF rad]]
    match res with
    | [qm, q] => (d, fltOfToks qm, vecOfToks q)
    | _ => (d, 0.0/0.0, nanV n)
  update d gk gn xk xn pk pn grk grn :=
    let (d, res) := popDir (skipHasInit d) "dupdate" "ssvvvvvv" "b"
      [[fmtF gk], [fmtF gn], vTok xk, vTok xn, vTok pk, vTok pn, vTok grk, vTok grn]
    (d, res == [["1"]])
  changedGamma d g og := (popDir (skipHasInit d) "dchanged" "ss" "" [[fmtF g], [fmtF og]]).1
  reset d := (popDir (skipHasInit d) "dreset" "" "" []).1

def statusStr (s : SolverStatus) : String := (reprStr s).replace "Alpaqa.Gen.SolverStatus." ""

def fmtCb (c : Pantr.Callback Float) : String :=
  let i := c.it
  s!"CB {c.k} {statusStr c.status} {fmtV i.x} {fmtV i.p} {fmtF i.pTp} {fmtV i.xhat} {fmtV i.yhat} " ++
  s!"{fmtF c.fbe} {fmtF i.psix} {fmtV i.gradPsi} {fmtF i.psixhat} {fmtV c.gradPsiHat} {fmtV c.q} " ++
  s!"{fmtF i.L} {fmtF i.gamma} {fmtF c.Delta} {fmtF c.rho} {fmtF c.tau} {fmtF c.eps}"

def runPantr (kv : KV) (evs : List Ev) : String :=
  let n := kvNat kv "n"; let m := kvNat kv "m"
  let tbl := buildTable evs
  let P := mkProblem tbl n m
  let isDir (e : Ev) := e.name.startsWith "d"
  let d0 : DirSt := { evs := evs.filter isDir }
  let crit := (PANOCStopCrit.all[kvNat kv "crit"]?).getD .ApproxKKT
  let eps0 := 10 * 2.220446049250313e-16
  let nan : Float := 0.0/0.0
  let pr : Pantr.Params Float := {
    L0 := kvFlt kv "L0" 0, lipEps := kvFlt kv "lipeps" 1e-6, lipDelta := kvFlt kv "lipdelta" 1e-12,
    LgammaFactor := kvFlt kv "Lgf" 0.95, maxIter := kvNat kv "maxiter" 100,
    Lmin := kvFlt kv "Lmin" 1e-5, Lmax := kvFlt kv "Lmax" 1e20, stopCrit := crit,
    maxNoProgress := kvNat kv "maxnp" 10, qubTol := kvFlt kv "qubtol" eps0,
    trTol := kvFlt kv "trtol" eps0,
    ratioThresholdAcceptable := kvFlt kv "thracc" 0.2, ratioThresholdGood := kvFlt kv "thrgood" 0.8,
    radiusFactorRejected := kvFlt kv "facrej" 0.35, radiusFactorAcceptable := kvFlt kv "facacc" 0.999,
    radiusFactorGood := kvFlt kv "facgood" 2.5,
    initialRadius := (match kv.get? "rad0" with | some "nan" => nan | _ => kvFlt kv "rad0" nan),
    minRadius := (match kv.get? "minrad" with
      | some "nan" => nan | _ => kvFlt kv "minrad" (100 * 2.220446049250313e-16)),
    computeRatioUsingNewStepsize := kvNat kv "rationew" != 0,
    updateDirectionOnProxStep := kvNat kv "updprox" 1 != 0,
    recomputeLastProx := kvNat kv "recomp" != 0, disableAcceleration := kvNat kv "noaccel" != 0,
    ratioApproxFbe := kvNat kv "approx" 1 != 0,
    alwaysOverwrite := kvNat kv "overwrite" 1 != 0, tolerance := kvFlt kv "tol" 1e-8 }
  let stopTick := match evs.find? (·.name == "stoptick") with
    | some e => (e.toks.head?.bind String.toNat?).getD 0
    | none => 0
  let stop := fun (t : Nat) => stopTick != 0 && t ≥ stopTick
  let oot := kvNat kv "oot" != 0
  let errz0 := List.replicate m (-12345.0)
  let x0 := kvVec kv "x0"; let y0 := kvVec kv "y0"; let sig := kvVec kv "Sig"
  let co : Pantr.Consts Float := { inf := 1.0/0.0, nan := nan }
  let r := Pantr.run co P (mkDirection n) d0 pr stop oot x0 y0 sig errz0 (nanV n)
  let s := r.stats
  let untouched := fmtV r.x == fmtV x0 && fmtV r.y == fmtV y0
  let sLine := s!"S {statusStr s.status} {s.iterations} {fmtF s.eps} {s.acceleratedStepRejected} " ++
    s!"{s.stepsizeBacktracks} {s.directionFailures} {s.directionUpdateRejected} " ++
    s!"{fmtF s.finalGamma} {fmtF s.finalPsi} {fmtF s.finalH} {fmtF s.finalFbe}"
  let oLine := s!"O {if untouched then 1 else 0} {fmtV r.x} {fmtV r.y} {fmtV r.errz}"
  let tLine := s!"T {r.ticks}"
  let left := (skipHasInit r.dfinal).evs
  let extra := (if r.fuelOut then ["FUEL-EXHAUSTED"] else []) ++
    (match r.dfinal.bad with | some b => ["DIRECTION-TRACE-MISMATCH " ++ b] | none => []) ++
    (match left with
      | e :: _ => [s!"DIRECTION-EVENTS-LEFT {left.length} first {e.name}"]
      | [] => [])
  String.intercalate " ; " ([sLine, oLine, tLine] ++ r.callbacks.map fmtCb ++ extra)

def loopStep (_ : Unit) (line : String) : Unit × String :=
  match parseLine line with
  | some (kv, evs) =>
    match kv.get? "solver" with
    | some "pantr" => ((), runPantr kv evs)
    | _ => ((), "bad-op")
  | none => ((), "parse-error")

end LoopPantr

def main : IO Unit := mainLoop LoopPantr.loopStep ()
