/- C10 driver: runs the LimitedMemoryQR / AndersonAccel model at `Float` on op lines
   (stateful: one QR object with a save/restore stack, one Anderson object). -/
import Alpaqa.Model.Proto
import Alpaqa.Model.C10

open Alpaqa Alpaqa.Proto Alpaqa.C10 Alpaqa.Gen

def infF : Float := 1.0 / 0.0
def fuelF : Nat := 4096

structure DS where
  qr : Option (LMQR Float) := none
  stack : List (LMQR Float) := []
  aa : Option (AA Float) := none
  astack : List (AA Float) := []

def fn (v : List Float) : Nat → Float := fun i => v.getD i 0.0

def pairs (l : List (Nat × Nat)) : String :=
  String.intercalate " " (toString l.length :: l.map fun p => s!"{p.1} {p.2}")

def dumpQR (s : LMQR Float) : String :=
  let K := lmqrNumColumns s.qIdx s.rStart s.rEnd
  let rE := (List.range K).flatMap fun k => (List.range K).map fun i => s.getR i k
  let qE := (List.range K).flatMap fun k => (List.range s.n).map fun i => s.Q.get i k
  s!"{K} {lmqrRingHead s.qIdx s.rStart s.rEnd} {lmqrRingTail s.qIdx s.rStart s.rEnd} " ++
  s!"{lmqrCurrentHistory s.qIdx s.rStart s.rEnd} {s.reorth} {fmtF s.minEig} {fmtF s.maxEig} " ++
  let nx := (List.range s.m).map (lmqrRingNext s.m) ++ (List.range s.m).map (lmqrRingPrev s.m)
  s!"| {pairs s.ringFwd} | {pairs s.ringRev} | {String.intercalate " " (toString nx.length :: nx.map toString)} " ++
  s!"| {fmtV rE} | {fmtV qE}"

def dumpAA (a : AA Float) : String :=
  let q := a.qr
  let cols := (q.ringFwd.map (·.2)) ++ [lmqrRingTail q.qIdx q.rStart q.rEnd]
  let g := if a.initialized then
      cols.flatMap fun c => (List.range a.n).map fun i => a.G.get i c
    else []
  let rl := if a.initialized then (List.range a.n).map (readV a.rLast) else []
  s!"{if a.initialized then 1 else 0} {q.n} {q.m} | {fmtV g} | {fmtV rl} | {dumpQR q}"

def withQR (ds : DS) (f : LMQR Float → Option (DS × String)) : DS × String :=
  match ds.qr with
  | none => (ds, "no-object")
  | some s => (f s).getD (ds, "parse-error")

def withAA (ds : DS) (f : AA Float → Option (DS × String)) : DS × String :=
  match ds.aa with
  | none => (ds, "no-object")
  | some a => (f a).getD (ds, "parse-error")

def c10Step (ds : DS) (line : String) : DS × String :=
  match tokens line with
  | "new" :: r =>
    match run (do let n ← nat; let m ← nat; pure (n, m)) r with
    | none => (ds, "parse-error")
    | some (n, m) =>
      let s := LMQR.new infF n m
      ({ ds with qr := some s, stack := [] }, dumpQR s)
  | "add" :: r => withQR ds fun s => run (do
      let v ← vec
      let s' := s.addColumn fuelF (fn v)
      pure ({ ds with qr := some s' }, dumpQR s')) r
  | "rem" :: _ => withQR ds fun s =>
      let s' := s.removeColumn givensEigen
      some ({ ds with qr := some s' }, dumpQR s')
  | "scale" :: r => withQR ds fun s => run (do
      let f ← flt
      let s' := s.scaleR f
      pure ({ ds with qr := some s' }, dumpQR s')) r
  | "reset" :: _ => withQR ds fun s =>
      let s' := s.reset infF
      some ({ ds with qr := some s' }, dumpQR s')
  | "solve" :: r => withQR ds fun s => run (do
      let b ← vec; let tol ← flt; let x0 ← vec
      let x := s.solveCol (fn b) (fn x0) tol
      pure (ds, fmtV ((List.range x0.length).map x))) r
  | "push" :: _ => withQR ds fun s =>
      some ({ ds with stack := s :: ds.stack }, s!"ok {ds.stack.length + 1}")
  | "pop" :: _ =>
    match ds.stack with
    | [] => (ds, "empty-stack")
    | s :: rest => ({ ds with qr := some s, stack := rest }, dumpQR s)
  | "anew" :: r =>
    match run (do let n ← nat; let mem ← nat; let mdf ← flt; pure (n, mem, mdf)) r with
    | none => (ds, "parse-error")
    | some (n, mem, mdf) =>
      let a := AA.new infF mem mdf n
      ({ ds with aa := some a, astack := [] }, dumpAA a)
  | "ainit" :: r => withAA ds fun a => run (do
      let g ← vec; let r0 ← vec
      let a' := a.initialize infF (fn g) (fn r0)
      pure ({ ds with aa := some a' }, dumpAA a')) r
  | "acomp" :: r => withAA ds fun a => run (do
      let g ← vec; let rk ← vec
      match a.compute fuelF givensEigen (fn g) (fn rk) with
      | none => pure (ds, "exception")
      | some (a', x) =>
        let xs := (List.range a'.n).map (readV x)
        let gs := (List.range (lmqrNumColumns a'.qr.qIdx a'.qr.rStart a'.qr.rEnd)).map (readV a'.gamLS)
        pure ({ ds with aa := some a' }, s!"{fmtV xs} | {fmtV gs} | {dumpAA a'}")) r
  | "areset" :: _ => withAA ds fun a =>
      let a' := a.reset infF
      some ({ ds with aa := some a' }, dumpAA a')
  | "ascale" :: r => withAA ds fun a => run (do
      let f ← flt
      let a' := a.scaleR f
      pure ({ ds with aa := some a' }, dumpAA a')) r
  | "apush" :: _ => withAA ds fun a =>
      some ({ ds with astack := a :: ds.astack }, s!"ok {ds.astack.length + 1}")
  | "apop" :: _ =>
    match ds.astack with
    | [] => (ds, "empty-stack")
    | a :: rest => ({ ds with aa := some a, astack := rest }, dumpAA a)
  | _ => (ds, "bad-op")

def main : IO Unit := mainLoop c10Step {}
