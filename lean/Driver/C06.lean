/- C06 driver: generated status chain / stopping criteria at `Float`. -/
import Alpaqa.Model.Proto
import Alpaqa.Model.C15
import Alpaqa.Gen.C06

open Alpaqa Alpaqa.Proto Alpaqa.Gen

def critOfNat (i : Nat) : Option PANOCStopCrit := PANOCStopCrit.all[i]?

def c06Step (_ : Unit) (line : String) : Unit × String :=
  let out : Option String :=
    match tokens line with
    | "chain" :: r => run (do
        let tol ← flt; let mi ← nat; let mnp ← nat; let k ← nat; let e ← flt; let np ← nat
        let oot ← bool; let intr ← bool
        pure (reprStr (statusChain tol mi mnp k e np oot intr) |>.replace "Alpaqa.Gen.SolverStatus." "")) r
    | "crit" :: r => run (do
        let ci ← nat; let γ ← flt
        let p ← vec; let x ← vec; let xh ← vec; let yh ← vec; let g ← vec; let gh ← vec
        let lb ← vec; let ub ← vec
        match critOfNat ci with
        | none => pure "exception"
        | some c =>
          let prox := fun (γ : Float) (x g : List Float) =>
            let r := C15.proxGradStep ([] : List Float) γ x g lb ub
            (r.2.1, r.2.2)
          pure (fmtF (calcErrorStopCrit c prox p γ x xh yh g gh))) r
    | "reqgrad" :: r => run (do
        let ci ← nat
        match critOfNat ci with
        | none => pure "exception"
        | some c => pure (if requiresGradHat c then "1" else "0")) r
    | _ => some "bad-op"
  ((), out.getD "parse-error")

def main : IO Unit := mainLoop c06Step ()
