/-
  Shared by `Driver/Dirs.lean` (op-sequence correspondence on the direction providers) and
  `Driver/LoopFull.lean` (oracle-free PANOC replay): provider configuration from a `key=value`
  line, the problem the structured provider sees (inactive set from the box / ℓ1 data of the op
  line, evaluation functions answered from the recorded *inner* events), state dumps.
-/
import Driver.ReplayCommon
import Alpaqa.Model.Directions

open Alpaqa Alpaqa.Proto Alpaqa.Gen Alpaqa.Replay Alpaqa.Directions

namespace Alpaqa.DirsDrv

def epsF : Float := 2.220446049250313e-16
def infF : Float := 1.0 / 0.0
def fuelF : Nat := 4096
/-- `std::cbrt(std::numeric_limits<double>::epsilon())` -/
def cbrtEpsF : Float := Float.cbrt epsF

/-- `LBFGS::Params` from the op line (defaults of lbfgs.hpp). -/
def lbfgsParams (kv : KV) : C09.Params Float :=
  { memory := kvNat kv "mem" 5, minDivFac := kvFlt kv "mdf" epsF,
    minAbsS := kvFlt kv "mas" (epsF * epsF), cbfgsAlpha := kvFlt kv "ca" 1.0,
    cbfgsEps := kvFlt kv "ce" 0.0, forcePosDef := kvNat kv "fpd" 1 != 0,
    curvature := kvNat kv "curv" 1 != 0 }

def lbfgsCfg (kv : KV) : LbfgsCfg Float :=
  { accel := lbfgsParams kv, rescale := kvNat kv "rescale" 0 != 0 }

def andersonCfg (kv : KV) : AndersonCfg Float :=
  { memory := kvNat kv "mem" 5, minDivFac := kvFlt kv "amdf" (100.0 * epsF),
    rescale := kvNat kv "rescale" 0 != 0, inf := infF, fuel := fuelF, giv := C10.givensEigen }

def slbfgsCfg (kv : KV) : SCfg Float :=
  let d : Float × Bool × Bool := slbfgsDefaults
  { accel := lbfgsParams kv, hvf := kvFlt kv "hvf" d.1,
    fd := if kv.contains "hvfd" then kvNat kv "hvfd" != 0 else d.2.1,
    fullAug := if kv.contains "fullaug" then kvNat kv "fullaug" != 0 else d.2.2,
    policy := if kv.contains "fpol" then (FailurePolicy.all[kvNat kv "fpol"]?).getD FailurePolicy.default
              else FailurePolicy.default,
    cbrtEps := cbrtEpsF }

/-! ### inner events -/

def innerShapes : String → Option (String × String)
  | "igradpsi" => some ("v", "v")
  | "ihessL" => some ("vsv", "v")
  | "ihesspsi" => some ("vsv", "v")
  | "ig" => some ("v", "v")
  | "igradgi" => some ("vs", "v")
  | _ => none

def buildInner (evs : List Ev) : Table :=
  evs.foldl (fun m e =>
    match innerShapes e.name with
    | none => m
    | some (a, r) =>
      match takeShape a.toList e.toks with
      | none => m
      | some (args, rest) =>
        match takeShape r.toList rest with
        | none => m
        | some (res, _) => m.insert (keyOf e.name args) res) {}

def look1 (t : Table) (name : String) (args : List (List String)) (n : Nat) : List Float :=
  match lookup t name args with
  | some [a] => vecOfToks a
  | _ => nanV n

/-- The problem as the structured provider sees it: PolyProblem / DirsProblem of the harness. -/
def mkSProblem (kv : KV) (t : Table) : SProblem Float :=
  let n := kvNat kv "n"; let m := kvNat kv "m"
  let one := [fmtF 1.0]
  { n := n, m := m, y := kvVec kv "y0", Sig := kvVec kv "Sig",
    inactive := boxInactive (kvVec kv "l1") (kvVec kv "Clb") (kvVec kv "Cub"),
    gradPsi := fun x => look1 t "igradpsi" [vTok x] n,
    hessLProd := fun x v => look1 t "ihessL" [vTok x, one, vTok v] n,
    hessPsiProd := fun x v => look1 t "ihesspsi" [vTok x, one, vTok v] n,
    g := fun x => look1 t "ig" [vTok x] m,
    gradGi := fun x i => look1 t "igradgi" [vTok x, [toString i]] n,
    Dlb := kvVec kv "Dlb", Dub := kvVec kv "Dub",
    provInactive := true, provHessL := kvNat kv "hess" 0 != 0,
    provHessPsi := kvNat kv "provhpsi" 0 != 0, provBoxD := true,
    provGradGi := kvNat kv "provgi" 0 != 0 }

/-! ### dumps (same layout as harness/dirs_common.hpp) -/

def natsStr (l : List Nat) : String := String.intercalate " " (l.map toString)

def dumpLbfgs (st : C09.State Float) : String :=
  if st.history == 0 then "L 0 0 0 0" else
  let f := st.fwdIdx
  let r := st.revIdx
  let body := f.map fun i =>
    let c := st.slot i
    s!"{fmtV c.s} {fmtV c.y} {fmtF c.rho}"
  String.intercalate " "
    ([s!"L {st.n} {st.history} {st.currentHistory} {f.length}"] ++ f.map toString ++ r.map toString ++ body)

def dumpAA (a : C10.AA Float) : String :=
  let q := a.qr
  let head := s!"A {if a.initialized then 1 else 0} {q.n} {q.m}"
  if !a.initialized then head else
  let K := lmqrNumColumns q.qIdx q.rStart q.rEnd
  let tail := lmqrRingTail q.qIdx q.rStart q.rEnd
  let cols := (q.ringFwd.map (·.2)) ++ [tail]
  let g := cols.flatMap fun c => (List.range a.n).map fun i => a.G.get i c
  let rl := (List.range a.n).map (C10.readV a.rLast)
  let rE := (List.range K).flatMap fun k => (List.range K).map fun i => q.getR i k
  let qE := (List.range K).flatMap fun k => (List.range q.n).map fun i => q.Q.get i k
  s!"{head} {K} {lmqrRingHead q.qIdx q.rStart q.rEnd} {tail} {fmtF q.minEig} {fmtF q.maxEig}" ++
  s!" | {fmtV g} | {fmtV rl} | {fmtV ((List.range K).map (C10.readV a.gamLS))} | {fmtV rE} | {fmtV qE}"

end Alpaqa.DirsDrv
