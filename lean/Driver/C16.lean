/- C16 driver: runs the TypeErased pool model (`step` of Model/C16Exec.lean: the interpreter of the
   programs regenerated from type-erasure.hpp) on op lines; one output line per op:
   the event log of the op (oldest first) followed by the outcome. -/
import Alpaqa.Model.Proto
import Alpaqa.Model.C16Exec

open Alpaqa Alpaqa.Proto Alpaqa.C16

def NPOOL : Nat := 3

/-- small-buffer size of the wrapper kinds the harness drives (each one is `static_assert`ed there
    against the wrapper's own `small_buffer_size`): 0 bespoke `TypeErased<VT, A, 32>`,
    1 `TypeErasedProblem` and 2 `TypeErasedControlProblem` (library default for their vtables: 0,
    every payload on the heap), 3 a `required-method.hpp`-style vtable with the default size (32) -/
def sbsOf (kind : Nat) : Nat := if kind = 1 || kind = 2 then 0 else 32

def tyOf (t : String) : Option Nat :=
  if t = "S" then some 16 else if t = "E" then some 32 else if t = "L" then some 48 else none

def cfgOf (c : Nat) (kind : Nat := 0) : Cfg :=
  { sbs := sbsOf kind, pocca := c % 2 == 1, pocma := (c / 2) % 2 == 1, socc := (c / 4) % 2 == 1, npool := NPOOL }

def fmtEv : Ev → String
  | .alloc a b sz => s!"A {a} {b} {sz}"
  | .dealloc a b => s!"D {a} {b}"
  | .ctor id v => s!"C {id} {v}"
  | .copy id src => s!"K {id} {src}"
  | .move id src => s!"M {id} {src}"
  | .dtor id => s!"X {id}"
  | .thrw => "T"
  | .read id v => s!"R {id} {v}"
  | .write id v => s!"W {id} {v}"

def fmtOut : Out → String
  | .ok => "ok" | .empty => "empty" | .badOp => "bad-op" | .excCopy => "exc:copy"
  | .excCtor => "exc:ctor" | .excConst => "exc:const" | .excType => "exc:type"
  | .val id v => s!"val {id} {v}"

def fmtLine (s : State) (tail : String) : String :=
  let evs := s.log.reverse.map fmtEv
  let e := match s.err with | some m => [s!"MODEL-ERR:{m.replace " " "_"}"] | none => []
  String.intercalate " " (evs ++ [tail] ++ e)

/-- per-arena ledger `c:allocs/frees,…` over the arenas that handed out or got back a block -/
def fmtArenas (f : State) : String :=
  let cs := (List.range f.nblk).foldl (fun acc b =>
    let acc := if acc.contains (cls (f.blk b).alloc) then acc else cls (f.blk b).alloc :: acc
    match (f.blk b).freedBy with
    | some a => if acc.contains (cls a) then acc else cls a :: acc
    | none => acc) ([] : List Nat)
  let cs := cs.mergeSort (fun a b => a ≤ b)
  if cs.isEmpty then "-"
  else String.intercalate "," (cs.map fun c => s!"{c}:{arenaAllocs f c}/{arenaFrees f c}")

def tyP : P Nat := do let t ← tok; match tyOf t with | some n => pure n | none => failure

def parseOp (ts : List String) : Option Op :=
  match ts with
  | "def" :: r => run (do let i ← nat; let a ← nat; pure (Op.newDefault i a)) r
  | "ip" :: r => run (do let i ← nat; let a ← nat; let ty ← tyP; let v ← nat; let t ← bool
                         pure (Op.newInPlace i a ty v t)) r
  | "cp" :: r => run (do let i ← nat; let a ← nat; let k ← nat; let t ← bool; pure (Op.newCopyEnv i a k t)) r
  | "mv" :: r => run (do let i ← nat; let a ← nat; let k ← nat; pure (Op.newMoveEnv i a k)) r
  | "ptr" :: r => run (do let i ← nat; let a ← nat; let k ← nat; let c ← bool; pure (Op.newPtr i a k c)) r
  | "cc" :: r => run (do let i ← nat; let j ← nat; let t ← bool; pure (Op.copyCtor i j t)) r
  | "cca" :: r => run (do let i ← nat; let j ← nat; let a ← nat; let t ← bool; pure (Op.copyCtorAlloc i j a t)) r
  | "mc" :: r => run (do let i ← nat; let j ← nat; pure (Op.moveCtor i j)) r
  | "mca" :: r => run (do let i ← nat; let j ← nat; let a ← nat; pure (Op.moveCtorAlloc i j a)) r
  | "ca" :: r => run (do let i ← nat; let j ← nat; let t ← bool; pure (Op.copyAssign i j t)) r
  | "ma" :: r => run (do let i ← nat; let j ← nat; pure (Op.moveAssign i j)) r
  | "del" :: r => run (do let i ← nat; pure (Op.del i)) r
  | "get" :: r => run (do let i ← nat; pure (Op.get i)) r
  | "set" :: r => run (do let i ← nat; let v ← nat; pure (Op.set i v)) r
  | "as" :: r => run (do let i ← nat; let ty ← tyP; pure (Op.asMut i ty)) r
  | "asc" :: r => run (do let i ← nat; let ty ← tyP; pure (Op.asConst i ty)) r
  | "gp" :: r => run (do let i ← nat; pure (Op.getPtr i)) r
  | _ => none

def c16Step (s : State) (line : String) : State × String :=
  let ts := tokens line
  match ts with
  | "reset" :: c :: rest =>
    let f := finish { s with log := [] }
    let out := fmtLine f
      s!"end bad={badIds f} blk={badBlocks f} ids={f.nextId} nblk={f.nblk} ar={fmtArenas f}"
    let kind := match rest with | k :: _ => k.toNat?.getD 0 | [] => 0
    (initState (cfgOf (c.toNat?.getD 0) kind) 16 48, out)
  | _ =>
    match parseOp ts with
    | none => (s, "parse-error")
    | some op =>
      let r := step { s with log := [] } op
      (r.1, fmtLine r.1 (fmtOut r.2))

def main : IO Unit := mainLoop c16Step (initState (cfgOf 0) 16 48)
