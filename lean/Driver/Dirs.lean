/-
  DIRS driver: runs the direction-provider models (`Alpaqa/Model/Directions.lean`) at `Float` on
  the op lines of `checks/dirs.py`.  Input line: `<op line> || <EV i… sections>`: the problem calls
  the real provider made during that op (oracle answers for the structured provider's
  `eval_grad_ψ` / `eval_hess_L_prod` / `eval_hess_ψ_prod` / `eval_g` / `eval_grad_gi`).
-/
import Driver.DirsCommon

open Alpaqa Alpaqa.Proto Alpaqa.Gen Alpaqa.Replay Alpaqa.Directions Alpaqa.DirsDrv

inductive PState where
  | noop
  | lbfgs (c : LbfgsCfg Float) (st : C09.State Float)
  | slbfgs (c : SCfg Float) (st : C09.State Float)
  | anderson (c : AndersonCfg Float) (st : C10.AA Float)

structure Ctx where
  kv : KV
  ps : PState

def dump : PState → String
  | .noop => "N"
  | .lbfgs _ st => dumpLbfgs st
  | .slbfgs _ st => dumpLbfgs st
  | .anderson _ st => dumpAA st

def b2s (b : Bool) : String := if b then "1" else "0"

def newCtx (kv : KV) : Option Ctx :=
  match kv.get? "dir" with
  | some "noop" => some ⟨kv, .noop⟩
  | some "lbfgs" => some ⟨kv, .lbfgs (lbfgsCfg kv) Lbfgs.fresh⟩
  | some "slbfgs" => some ⟨kv, .slbfgs (slbfgsCfg kv) SLbfgs.fresh⟩
  | some "anderson" => let c := andersonCfg kv; some ⟨kv, .anderson c (Anderson.fresh c)⟩
  | _ => none

def applyOut {σ : Type} (r : ApplyRes σ Float) (old : σ) : σ × String :=
  match r with
  | .threw => (old, "exception")
  | .done st ok q => (st, s!"{b2s ok} {fmtV q}")

def stepOp (cx : Ctx) (t : Table) (ts : List String) : Option (Ctx × String) :=
  let n := kvNat cx.kv "n"
  let P := mkSProblem cx.kv t
  match ts with
  | "init" :: r => run (do
      let γ ← flt; let x ← vec; let xh ← vec; let p ← vec; let g ← vec
      match cx.ps with
      | .noop => pure (cx, "ok")
      | .lbfgs c st =>
        match Lbfgs.init c n st with
        | .threw => pure (cx, "exception")
        | .ok s => pure ({ cx with ps := .lbfgs c s }, "ok")
      | .slbfgs c st =>
        match SLbfgs.init P c st with
        | .threw => pure (cx, "exception")
        | .ok s => pure ({ cx with ps := .slbfgs c s }, "ok")
      | .anderson c st =>
        pure ({ cx with ps := .anderson c (Anderson.init c n st P.y P.Sig γ x xh p g) }, "ok")) r
  | "hasinit" :: _ =>
    some (cx, b2s (match cx.ps with
      | .noop => Noop.hasInitial ()
      | .lbfgs _ st => Lbfgs.hasInitial st
      | .slbfgs _ st => SLbfgs.hasInitial st
      | .anderson _ st => Anderson.hasInitial st))
  | "upd" :: r => run (do
      let γk ← flt; let γn ← flt
      let xk ← vec; let xn ← vec; let pk ← vec; let pn ← vec; let gk ← vec; let gn ← vec
      match cx.ps with
      | .noop => pure (cx, b2s (Noop.update () γk γn xk xn pk pn gk gn).2)
      | .lbfgs c st =>
        let (s, ok) := Lbfgs.update c st γk γn xk xn pk pn gk gn
        pure ({ cx with ps := .lbfgs c s }, b2s ok)
      | .slbfgs c st =>
        let (s, ok) := SLbfgs.update c st γk γn xk xn pk pn gk gn
        pure ({ cx with ps := .slbfgs c s }, b2s ok)
      | .anderson c st =>
        let (s, ok) := Anderson.update st γk γn xk xn pk pn gk gn
        pure ({ cx with ps := .anderson c s }, b2s ok)) r
  | "app" :: r => run (do
      let γ ← flt; let x ← vec; let xh ← vec; let p ← vec; let g ← vec; let q0 ← vec
      match cx.ps with
      | .noop => let (_, o) := applyOut (Noop.apply () γ x xh p g q0) (); pure (cx, o)
      | .lbfgs c st =>
        let (s, o) := applyOut (Lbfgs.apply c st γ x xh p g q0) st
        pure ({ cx with ps := .lbfgs c s }, o)
      | .slbfgs c st =>
        let (s, o) := applyOut (SLbfgs.apply P c st γ x xh p g q0) st
        pure ({ cx with ps := .slbfgs c s }, o)
      | .anderson c st =>
        let (s, o) := applyOut (Anderson.apply c st γ x xh p g q0) st
        pure ({ cx with ps := .anderson c s }, o)) r
  | "chg" :: r => run (do
      let γ ← flt; let old ← flt
      match cx.ps with
      | .noop => pure (cx, "ok")
      | .lbfgs c st => pure ({ cx with ps := .lbfgs c (Lbfgs.changedGamma c st γ old) }, "ok")
      | .slbfgs c st => pure ({ cx with ps := .slbfgs c (SLbfgs.changedGamma st γ old) }, "ok")
      | .anderson c st => pure ({ cx with ps := .anderson c (Anderson.changedGamma c st γ old) }, "ok")) r
  | "reset" :: _ =>
    some (match cx.ps with
      | .noop => cx
      | .lbfgs c st => { cx with ps := .lbfgs c (Lbfgs.reset st) }
      | .slbfgs c st => { cx with ps := .slbfgs c (SLbfgs.reset st) }
      | .anderson c st => { cx with ps := .anderson c (Anderson.reset c st) }, "ok")
  | _ => none

def dirsStep (s : Option Ctx) (line : String) : Option Ctx × String :=
  let (opPart, evPart) := match line.splitOn " || " with
    | [a, b] => (a, b)
    | _ => (line, "")
  let ts := tokens opPart
  match ts with
  | "new" :: _ =>
    match newCtx (parseKV ts) with
    | none => (s, "exception bad-direction")
    | some cx => (some cx, s!"ok | {dump cx.ps}")
  | _ =>
    match s with
    | none => (s, "no-object")
    | some cx =>
      let evs := (splitSections evPart).filterMap fun ts =>
        match ts with
        | "EV" :: name :: rest => some { name := name, toks := rest : Ev }
        | _ => none
      match stepOp cx (buildInner evs) ts with
      | none => (s, if ts.head? ∈ [some "init", some "hasinit", some "upd", some "app", some "chg", some "reset"]
                    then "parse-error" else "bad-op")
      | some (cx', out) => (some cx', s!"{out} | {dump cx'.ps}")

def main : IO Unit := mainLoop dirsStep none
