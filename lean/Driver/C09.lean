/- C09 driver: runs the L-BFGS model (generated kernels + hand model) at `Float` on op lines. -/
import Alpaqa.Model.Proto
import Alpaqa.Model.C09

open Alpaqa Alpaqa.Proto Alpaqa.C09

abbrev DS := Option (Params Float × State Float)

def natList (l : List Nat) : String :=
  String.intercalate " " (toString l.length :: l.map toString)

def tail (st : State Float) : String :=
  s!"| {st.currentHistory} {natList st.fwdIdx} {natList st.revIdx}"

def b2s (b : Bool) : String := if b then "1" else "0"

def nats : P (List Nat) := do
  let n ← nat
  let rec go : Nat → List Nat → P (List Nat)
    | 0, acc => pure acc.reverse
    | k+1, acc => do let f ← nat; go k (f :: acc)
  go n []

def withObj (ds : DS) (f : Params Float → State Float → Option (DS × String)) : DS × String :=
  match ds with
  | none => (ds, "no-object")
  | some (p, st) => (f p st).getD (ds, "parse-error")

def c09Step (ds : DS) (line : String) : DS × String :=
  match tokens line with
  | "new" :: r =>
    match run (do
        let m ← nat; let n ← nat; let mdf ← flt; let mas ← flt; let ca ← flt; let ce ← flt
        let fpd ← bool; let cur ← bool
        pure (({ memory := m, minDivFac := mdf, minAbsS := mas, cbfgsAlpha := ca, cbfgsEps := ce,
                 forcePosDef := fpd, curvature := cur } : Params Float), n)) r with
    | none => (ds, "parse-error")
    | some (p, n) =>
      match resize p n with
      | none => (ds, "exception")
      | some st => (some (p, st), s!"ok {tail st}")
  | "upd" :: r => withObj ds fun p st => run (do
      let pos ← bool; let forced ← bool
      let xk ← vec; let xn ← vec; let pk ← vec; let pn ← vec
      let (st', ok) := update p st xk xn pk pn pos forced
      pure (some (p, st'), s!"{b2s ok} {tail st'}")) r
  | "usy" :: r => withObj ds fun p st => run (do
      let forced ← bool; let pTp ← flt; let s ← vec; let y ← vec
      let (st', ok) := updateSy p st s y pTp forced
      pure (some (p, st'), s!"{b2s ok} {tail st'}")) r
  | "app" :: r => withObj ds fun p st => run (do
      let γ ← flt; let q ← vec
      let (st', q', ok) := apply p st q γ
      pure (some (p, st'), s!"{b2s ok} {fmtV q'} {tail st'}")) r
  | "appm" :: r => withObj ds fun p st => run (do
      let _kind ← nat; let γ ← flt; let q ← vec; let J ← nats
      match applyMasked p st q γ J with
      | .threw => pure (some (p, st), s!"exception {tail st}")
      | .done st' q' ok => pure (some (p, st'), s!"{b2s ok} {fmtV q'} {tail st'}")) r
  | "reset" :: _ => withObj ds fun p st =>
      let st' := reset st
      some (some (p, st'), tail st')
  | "resize" :: r => withObj ds fun p _ => run (do
      let n ← nat
      match resize p n with
      | none => pure (ds, "exception")
      | some st' => pure (some (p, st'), tail st')) r
  | "scaley" :: r => withObj ds fun p st => run (do
      let f ← flt
      let st' := scaleY st f
      pure (some (p, st'), tail st')) r
  | "dump" :: _ => withObj ds fun p st =>
      let body := st.fwdIdx.map fun i =>
        let c := st.slot i
        s!"{fmtV c.s} {fmtV c.y} {fmtF c.rho}"
      some (some (p, st), String.intercalate " " (body ++ [tail st]))
  | _ => (ds, "bad-op")

def main : IO Unit := mainLoop c09Step none
