/-
  Trace-replay driver for the PANOC-OCP loop model (`Alpaqa/Model/Ocp.lean`).

  Input line:  `<op line of harness/solvers_ocp.cpp> || <EV sections recorded from the real run>`.
  Oracle answers come from the recorded events: `fwd`, `fsim`, `bwd` become lookup tables (pure
  functions of their arguments), `lqr`, `lapply`, `lupdate`, `lreset` are popped in order with their
  arguments checked, `stoptick` defines the stop flag.  Everything else is computed by the model and
  printed in the harness's format (`S … ; O … ; T … ; CB …`).
-/
import Driver.ReplayCommon
import Alpaqa.Model.Ocp

open Alpaqa Alpaqa.Proto Alpaqa.Gen Alpaqa.Replay

namespace OcpDrv

def ocpShapes : String → Option (String × String)
  | "fwd" => some ("v", "sv")
  | "fsim" => some ("v", "v")
  | "bwd" => some ("vv", "v")
  | _ => none

def buildOcpTable (evs : List Ev) : Table :=
  evs.foldl (fun m e =>
    match ocpShapes e.name with
    | none => m
    | some (a, r) =>
      match takeShape a.toList e.toks with
      | none => m
      | some (args, rest) =>
        match takeShape r.toList rest with
        | none => m
        | some (res, _) => m.insert (keyOf e.name args) res) {}

def mkOracles (t : Table) (n sz : Nat) : Ocp.Oracles Float where
  fwd u := match lookup t "fwd" [vTok u] with
    | some [a, b] => (fltOfToks a, vecOfToks b)
    | _ => (0.0/0.0, nanV sz)
  fsim u := match lookup t "fsim" [vTok u] with
    | some [a] => vecOfToks a
    | _ => nanV sz
  bwd u traj := match lookup t "bwd" [vTok u, vTok traj] with
    | some [a] => vecOfToks a
    | _ => nanV n

def natTok (v : List Nat) : List String := toString v.length :: v.map toString

def mkDir (n : Nat) : Ocp.Dir DirSt Float where
  lqr d traj mask qfix :=
    let (d, res) := popDir d "lqr" "vvv" "vs"
      [vTok traj, vTok (mask.map fun b => if b then 1.0 else 0.0), vTok qfix]
    match res with
    | [q, rc] => (d, vecOfToks q, fltOfToks rc)
    | _ => (d, nanV n, 0.0/0.0)
  applyMasked d q g J :=
    let (d, res) := popDir d "lapply" "vsv" "bv" [vTok q, [fmtF g], natTok J]
    match res with
    | [b, q'] => (d, b == ["1"], vecOfToks q')
    | _ => (d, false, nanV n)
  update d uk un gk gn :=
    let (d, res) := popDir d "lupdate" "vvvv" "b" [vTok uk, vTok un, vTok gk, vTok gn]
    (d, res == [["1"]])
  reset d := (popDir d "lreset" "" "" []).1

def statusStr (s : SolverStatus) : String := (reprStr s).replace "Alpaqa.Gen.SolverStatus." ""

def fmtCb (c : Ocp.Callback Float) : String :=
  let i := c.it
  let tau := if c.status == .Busy then fmtF c.tau else "nan"
  s!"CB {c.k} {statusStr c.status} {fmtV i.u} {fmtV i.traj} {fmtV i.p} {fmtF i.pTp} {fmtV i.uhat} " ++
  s!"{fmtV i.trajHat} {fmtF c.fbe} {fmtF i.psiu} {fmtV i.gradPsi} {fmtF i.psiuhat} {fmtV c.q} " ++
  s!"{if c.gn then 1 else 0} {c.nJ} {fmtF c.rcond} {fmtF i.L} {fmtF i.gamma} {tau} {fmtF c.eps}"

/-- With acceleration disabled `q` is never written, yet `q.allFinite()` is evaluated: the real run
    tells us whether the uninitialised storage happened to be finite (an `lreset` that is not the
    step-size-change flush, i.e. not immediately followed by `lupdate`). -/
def garbageQNonFinite : List Ev → Bool
  | e :: rest =>
    (e.name == "lreset" && (match rest with | e2 :: _ => e2.name != "lupdate" | [] => true))
      || garbageQNonFinite rest
  | [] => false

def runOcp (kv : KV) (evs : List Ev) : String :=
  let N := kvNat kv "N"; let nx := kvNat kv "nx"; let nu := kvNat kv "nu"
  let nc := kvNat kv "nc"; let ncN := kvNat kv "ncN"
  let hmode := kvNat kv "hmode" 1; let hNmode := kvNat kv "hNmode" 1
  let nh := if hmode == 0 then 0 else if hmode == 1 then nx + nu else kvNat kv "nh"
  let nhN := if hNmode == 0 then 0 else if hNmode == 1 then nx else kvNat kv "nhN"
  let n := N * nu
  let m := N * nc + ncN
  let sz := N * (nx + nu + nh + nc) + nx + nhN + ncN
  let P : Ocp.Prob Float := {
    N := N, nx := nx, nu := nu, nh := nh, nc := nc, nhN := nhN, ncN := ncN,
    Ulb := kvVec kv "Ulb", Uub := kvVec kv "Uub", Dlb := kvVec kv "Dlb", Dub := kvVec kv "Dub",
    DNlb := kvVec kv "DNlb", DNub := kvVec kv "DNub" }
  let tbl := buildOcpTable evs
  let O := mkOracles tbl n sz
  let isDir (e : Ev) := e.name == "lqr" || e.name == "lapply" || e.name == "lupdate" || e.name == "lreset"
  let d0 : DirSt := { evs := evs.filter isDir }
  let defaultCrit := kvNat kv "defaultcrit" != 0
  let crit := if defaultCrit then PANOCStopCrit.ApproxKKT
    else (PANOCStopCrit.all[kvNat kv "crit"]?).getD .ApproxKKT
  let eps0 := 10 * 2.220446049250313e-16
  let pr : Ocp.Params Float := {
    L0 := kvFlt kv "L0" 0, lipEps := kvFlt kv "lipeps" 1e-6, lipDelta := kvFlt kv "lipdelta" 1e-12,
    LgammaFactor := kvFlt kv "Lgf" 0.95, maxIter := kvNat kv "maxiter" 100,
    minLsCoef := kvFlt kv "minls" (1.0/256.0), lsStrictness := kvFlt kv "beta" 0.95,
    Lmin := kvFlt kv "Lmin" 1e-5, Lmax := kvFlt kv "Lmax" 1e20, stopCrit := crit,
    maxNoProgress := kvNat kv "maxnp" 10, qubTol := kvFlt kv "qubtol" eps0,
    lsTol := kvFlt kv "lstol" eps0, gnInterval := kvNat kv "gnint" 1,
    gnSticky := kvNat kv "gnsticky" 1 != 0, resetLbfgsOnGn := kvNat kv "resetgn" != 0,
    disableAccel := kvNat kv "noaccel" != 0,
    alwaysOverwrite := kvNat kv "overwrite" 1 != 0, tolerance := kvFlt kv "tol" 1e-8 }
  let stopTick := match evs.find? (·.name == "stoptick") with
    | some e => (e.toks.head?.bind String.toNat?).getD 0
    | none => 0
  let stop := fun (t : Nat) => stopTick != 0 && t ≥ stopTick
  let oot := kvNat kv "oot" != 0
  let errz0 := List.replicate m (-12345.0)
  let u0 := kvVec kv "u0"; let y0 := kvVec kv "y0"; let mu := kvVec kv "mu"
  let gQ := if garbageQNonFinite evs then nanV n else List.replicate n 0.0
  let r := Ocp.run O (mkDir n) P d0 pr stop oot u0 y0 mu errz0 (nanV sz) gQ (0.0/0.0) (1.0/0.0)
  let s := r.stats
  let untouched := fmtV r.u == fmtV u0 && fmtV r.y == fmtV y0
  let sLine := match r.exc with
    | .invalidArgument => "S exception invalid_argument"
    | .logicError => "S exception other"
    | .none =>
      s!"S {statusStr s.status} {s.iterations} {fmtF s.eps} {s.lsFailures} {s.lsBacktracks} " ++
      s!"{s.stepsizeBacktracks} {s.lbfgsFailures} {s.lbfgsRejected} {s.tau1Accepted} {s.countTau} " ++
      s!"{fmtF s.sumTau} {fmtF s.finalGamma} {fmtF s.finalPsi} {fmtF s.finalH} {fmtF s.finalFbe}"
  let oLine := s!"O {if untouched then 1 else 0} {fmtV r.u} {fmtV r.y} {fmtV r.errz}"
  let tLine := s!"T {r.ticks}"
  let extra := (if r.fuelOut then ["FUEL-EXHAUSTED"] else []) ++
    (match r.dfinal.bad with | some b => ["DIRECTION-TRACE-MISMATCH " ++ b] | none => []) ++
    (if r.dfinal.evs.length != 0 then [s!"DIRECTION-EVENTS-LEFT {r.dfinal.evs.length}"] else [])
  String.intercalate " ; " ([sLine, oLine, tLine] ++ r.callbacks.map fmtCb ++ extra)

def loopStep (_ : Unit) (line : String) : Unit × String :=
  match parseLine line with
  | some (kv, evs) =>
    match kv.get? "solver" with
    | some "ocp" => ((), runOcp kv evs)
    | _ => ((), "bad-op")
  | none => ((), "parse-error")

end OcpDrv

def main : IO Unit := mainLoop OcpDrv.loopStep ()
