/-
  Trace-replay driver for the ZeroFPR loop model (`Alpaqa/Model/Zerofpr.lean`).

  Input line:  `<op line of harness/solvers_zerofpr.cpp> || <EV sections recorded from the real run>`.
  The recorded events are the *oracle answers* (problem evaluations, direction provider calls,
  the tick at which `stop()` was called); everything else — step sizes, acceptance decisions,
  which field is overwritten when, exit status, written-back x / y / err_z, statistics, every
  field handed to the progress callback, the number of events — is computed by the model and
  printed, and must equal what the real solver produced, bit for bit.
-/
import Driver.ReplayCommon
import Alpaqa.Model.Zerofpr

open Alpaqa Alpaqa.Proto Alpaqa.Gen Alpaqa.Replay

namespace ZerofprReplay

/-- Does the recording answer the same question differently twice (NaN injection hitting one of
    two evaluations at the same point)?  Then it is not an instance of the model's pure oracles. -/
def inconsistentOracle (evs : List Ev) : Option String :=
  (evs.foldl (fun (acc : Table × Option String) e =>
    match probShapes e.name with
    | none => acc
    | some (a, r) =>
      match takeShape a.toList e.toks with
      | none => acc
      | some (args, rest) =>
        match takeShape r.toList rest with
        | none => acc
        | some (res, _) =>
          let key := keyOf e.name args
          match acc.1.get? key with
          | some old => if old == res then acc else (acc.1, acc.2 <|> some e.name)
          | none => (acc.1.insert key res, acc.2)) (({} : Table), none)).2

def mkProblem (t : Table) (n m : Nat) : Zerofpr.Problem Float where
  psiGradPsi x := match lookup t "psigradpsi" [vTok x] with
    | some [a, b, c] => (fltOfToks a, vecOfToks b, vecOfToks c)
    | _ => (0.0/0.0, nanV n, nanV m)
  psi x := match lookup t "psi" [vTok x] with
    | some [a, b] => (fltOfToks a, vecOfToks b)
    | _ => (0.0/0.0, nanV m)
  gradPsi x := match lookup t "gradpsi" [vTok x] with
    | some [a] => vecOfToks a
    | _ => nanV n
  gradL x y := match lookup t "gradL" [vTok x, vTok y] with
    | some [a] => vecOfToks a
    | _ => nanV n
  prox g x gr := match lookup t "prox" [[fmtF g], vTok x, vTok gr] with
    | some [a, b, c] => (fltOfToks a, vecOfToks b, vecOfToks c)
    | _ => (0.0/0.0, nanV n, nanV n)

/-- skip a pending `dhasinit` event (evaluated by the C++ only at k = 0, and not consumed by the
    pure `hasInitial`) -/
def skipHasInit (d : DirSt) : DirSt :=
  match d.evs with
  | e :: rest => if e.name == "dhasinit" then { d with evs := rest } else d
  | [] => d

def mkDirection (n : Nat) : Zerofpr.Direction DirSt Float where
  init d g x xh p gr :=
    (popDir (skipHasInit d) "dinit" "svvvv" "" [[fmtF g], vTok x, vTok xh, vTok p, vTok gr]).1
  hasInitial d := match d.evs with
    | e :: _ => e.name == "dhasinit" && e.toks == ["1"]
    | [] => false
  apply d g x xh p gr _q :=
    let (d, res) := popDir (skipHasInit d) "dapply" "svvvv" "bv"
      [[fmtF g], vTok x, vTok xh, vTok p, vTok gr]
    match res with
    | [b, q] => (d, b == ["1"], vecOfToks q)
    | _ => (d, false, nanV n)
  update d gk gn xk xn pk pn grk grn :=
    let (d, res) := popDir (skipHasInit d) "dupdate" "ssvvvvvv" "b"
      [[fmtF gk], [fmtF gn], vTok xk, vTok xn, vTok pk, vTok pn, vTok grk, vTok grn]
    (d, res == [["1"]])
  changedGamma d g og := (popDir (skipHasInit d) "dchanged" "ss" "" [[fmtF g], [fmtF og]]).1
  reset d := (popDir (skipHasInit d) "dreset" "" "" []).1

/-- `kvFlt` that also accepts the protocol's `nan` token for a scalar parameter -/
def kvFltN (m : KV) (k : String) (d : Float) : Float :=
  match m.get? k with
  | some "nan" => 0.0 / 0.0
  | _ => kvFlt m k d

def statusStr (s : SolverStatus) : String := (reprStr s).replace "Alpaqa.Gen.SolverStatus." ""

def fmtCb (c : Zerofpr.Callback Float) : String :=
  let i := c.it
  s!"CB {c.k} {statusStr c.status} {fmtV i.x} {fmtV i.p} {fmtF i.pTp} {fmtV i.xhat} {fmtV i.yhat} " ++
  s!"{fmtF c.fbe} {fmtF i.psix} {fmtV i.gradPsi} {fmtF i.psixhat} 1 {fmtV c.gradPsiHat} {fmtV c.q} " ++
  s!"{fmtF i.L} {fmtF i.gamma} {fmtF c.tau} {fmtF c.eps}"

def runZerofpr (kv : KV) (evs : List Ev) : String :=
  match inconsistentOracle evs with
  | some name => s!"ORACLE-NOT-A-FUNCTION {name}"
  | none =>
  let n := kvNat kv "n"; let m := kvNat kv "m"
  let tbl := buildTable evs
  let P := mkProblem tbl n m
  let isDir (e : Ev) := e.name.startsWith "d"
  let d0 : DirSt := { evs := evs.filter isDir }
  let crit := (PANOCStopCrit.all[kvNat kv "crit"]?).getD .ApproxKKT
  let eps0 := 10 * 2.220446049250313e-16
  let pr : Zerofpr.Params Float := {
    L0 := kvFltN kv "L0" 0, lipEps := kvFltN kv "lipeps" 1e-6, lipDelta := kvFltN kv "lipdelta" 1e-12,
    LgammaFactor := kvFltN kv "Lgf" 0.95, maxIter := kvNat kv "maxiter" 100,
    minLsCoef := kvFltN kv "minls" (1.0/256.0),
    forceLinesearch := kvNat kv "force" != 0, lsStrictness := kvFltN kv "beta" 0.95,
    Lmin := kvFltN kv "Lmin" 1e-5, Lmax := kvFltN kv "Lmax" 1e20, stopCrit := crit,
    maxNoProgress := kvNat kv "maxnp" 10, qubTol := kvFltN kv "qubtol" eps0,
    lsTol := kvFltN kv "lstol" eps0, updateDirInCandidate := kvNat kv "updcand" != 0,
    recomputeLastProx := kvNat kv "recomp" != 0, updateDirFromProxStep := kvNat kv "updprox" != 0,
    alwaysOverwrite := kvNat kv "overwrite" 1 != 0, tolerance := kvFltN kv "tol" 1e-8 }
  let stopTick := match evs.find? (·.name == "stoptick") with
    | some e => (e.toks.head?.bind String.toNat?).getD 0
    | none => 0
  let stop := fun (t : Nat) => stopTick != 0 && t ≥ stopTick
  let oot := kvNat kv "oot" != 0
  let errz0 := List.replicate m (-12345.0)
  let x0 := kvVec kv "x0"; let y0 := kvVec kv "y0"; let sig := kvVec kv "Sig"
  let r := Zerofpr.run P (mkDirection n) d0 pr stop oot x0 y0 sig errz0 (nanV n) (0.0/0.0) (1.0/0.0)
  let s := r.stats
  let untouched := fmtV r.x == fmtV x0 && fmtV r.y == fmtV y0
  let sLine := s!"S {statusStr s.status} {s.iterations} {fmtF s.eps} {s.lsFailures} {s.lsBacktracks} " ++
    s!"{s.stepsizeBacktracks} {s.lbfgsFailures} {s.lbfgsRejected} {s.tau1Accepted} {s.countTau} " ++
    s!"{fmtF s.sumTau} {fmtF s.finalGamma} {fmtF s.finalPsi} {fmtF s.finalH} {fmtF s.finalFbe}"
  let oLine := s!"O {if untouched then 1 else 0} {fmtV r.x} {fmtV r.y} {fmtV r.errz}"
  let tLine := s!"T {r.ticks}"
  -- every recorded direction call must have been consumed by the model
  let leftover := (skipHasInit r.dfinal).evs
  let extra := (if r.fuelOut then ["FUEL-EXHAUSTED"] else []) ++
    (match r.dfinal.bad with | some b => ["DIRECTION-TRACE-MISMATCH " ++ b] | none => []) ++
    (match leftover with
     | e :: _ => [s!"DIRECTION-TRACE-LEFTOVER {leftover.length} first={e.name}"]
     | [] => [])
  String.intercalate " ; " ([sLine, oLine, tLine] ++ r.callbacks.map fmtCb ++ extra)

def loopStep (_ : Unit) (line : String) : Unit × String :=
  match parseLine line with
  | some (kv, evs) =>
    match kv.get? "solver" with
    | some "zerofpr" => ((), runZerofpr kv evs)
    | _ => ((), "bad-op")
  | none => ((), "parse-error")

end ZerofprReplay

def main : IO Unit := mainLoop ZerofprReplay.loopStep ()
