/- C17 driver: runs the CSV reader / printer-framing model on op lines.  The number oracle is a
   deterministic re-implementation of `std::from_chars(…, double, general)`: grammar of the longest
   valid prefix + exact decimal → binary64 rounding (round-half-even on the exact rational), values
   carried as bit patterns so that nothing depends on `Float`. -/
import Alpaqa.Model.Proto
import Alpaqa.Model.C17

open Alpaqa Alpaqa.Proto Alpaqa.C17

namespace C17Drv

def isDig (c : Char) : Bool := '0' ≤ c && c ≤ '9'
def lower (c : Char) : Char := if 'A' ≤ c && c ≤ 'Z' then Char.ofNat (c.toNat + 32) else c
def startsCI (l : List Char) (p : String) : Bool := (l.take p.length).map lower == p.toList
def natOfDigits (ds : List Char) : Nat := ds.foldl (fun a c => a * 10 + (c.toNat - '0'.toNat)) 0
def isNanChar (c : Char) : Bool := isDig c || ('a' ≤ lower c && lower c ≤ 'z') || c == '_'

def scaled (n d : Nat) (sh : Int) : Nat × Nat :=
  if sh ≥ 0 then (n <<< sh.toNat, d) else (n, d <<< (-sh).toNat)

/-- Correctly rounded binary64 bit pattern of `±m·10^e`; `none` = result_out_of_range. -/
def decToBits (neg : Bool) (m : Nat) (e : Int) : Option UInt64 :=
  let sign : UInt64 := if neg then 0x8000000000000000 else 0
  if m == 0 then some sign else
  let d : Int := (toString m).length
  if d - 1 + e ≥ 310 then none
  else if d + e ≤ -326 then none
  else
    let (n, dd) : Nat × Nat := if e ≥ 0 then (m * 10 ^ e.toNat, 1) else (m, 10 ^ (-e).toNat)
    let p0 : Int := (n.log2 : Int) - (dd.log2 : Int)
    let (n1, d1) := scaled n dd (-p0)
    let p : Int := if n1 ≥ d1 then p0 else p0 - 1
    let pe : Int := if p < -1022 then -1022 else p
    let (n2, d2) := scaled n dd (52 - pe)
    let q0 := n2 / d2
    let rem := n2 % d2
    let q := if 2 * rem > d2 || (2 * rem == d2 && q0 % 2 == 1) then q0 + 1 else q0
    if p < -1022 then
      if q == 0 then none else some (sign ||| q.toUInt64)
    else
      let (q, p) := if q == 2 ^ 53 then (2 ^ 52, p + 1) else (q, p)
      let biased := p + 1023
      if biased ≥ 2047 then none
      else some (sign ||| (biased.toNat.toUInt64 <<< 52) ||| (q - 2 ^ 52).toUInt64)

def infNan (neg : Bool) (l : List Char) (n0 : Nat) : Option (UInt64 × Nat) :=
  let sign : UInt64 := if neg then 0x8000000000000000 else 0
  if startsCI l "nan" && l.length ≥ 3 then
    match l.drop 3 with
    | '(' :: t =>
      let body := t.takeWhile isNanChar
      match t.drop body.length with
      | ')' :: _ => some (sign ||| 0x7ff8000000000000, n0 + 3 + 1 + body.length + 1)
      | _ => some (sign ||| 0x7ff8000000000000, n0 + 3)
    | _ => some (sign ||| 0x7ff8000000000000, n0 + 3)
  else if startsCI l "infinity" && l.length ≥ 8 then some (sign ||| 0x7ff0000000000000, n0 + 8)
  else if startsCI l "inf" && l.length ≥ 3 then some (sign ||| 0x7ff0000000000000, n0 + 3)
  else none

/-- `std::from_chars(first, last, double&)` (general format): value bits and characters consumed. -/
def parseNum (l : List Char) : Option (UInt64 × Nat) :=
  let (neg, l1, n0) : Bool × List Char × Nat := match l with
    | '-' :: t => (true, t, 1)
    | _ => (false, l, 0)
  let ip := l1.takeWhile isDig
  let l2 := l1.drop ip.length
  let (fp, l3, dot) : List Char × List Char × Nat := match l2 with
    | '.' :: t => let f := t.takeWhile isDig; (f, t.drop f.length, 1)
    | _ => ([], l2, 0)
  if ip.length + fp.length == 0 then infNan neg l1 n0
  else
    let n1 := n0 + ip.length + dot + fp.length
    let (e10, n2) : Int × Nat := match l3 with
      | c :: t =>
        if c == 'e' || c == 'E' then
          let (eneg, t1, k) : Bool × List Char × Nat := match t with
            | '-' :: u => (true, u, 1)
            | '+' :: u => (false, u, 1)
            | _ => (false, t, 0)
          let ed := t1.takeWhile isDig
          if ed.isEmpty then (0, n1)
          else
            -- saturate absurd exponents (the value is decided by the range guards anyway)
            let ev : Int := if ed.length > 8 && (ed.dropWhile (· == '0')).length > 8 then 100000000
                            else (natOfDigits ed : Int)
            ((if eneg then -ev else ev), n1 + 1 + k + ed.length)
        else (0, n1)
      | [] => (0, n1)
    match decToBits neg (natOfDigits (ip ++ fp)) (e10 - fp.length) with
    | none => none
    | some b => some (b, n2)

/-- raw bit pattern (the sign of a NaN is part of what the reader returns) -/
def fmtBits (b : UInt64) : String := toHex64 b

/-! protocol helpers -/

def hexVal (c : Char) : Nat := match hexDigit? c with | some d => d.toNat | none => 0

def unhex (s : String) : List Char :=
  if s == "-" then [] else
  let rec go : List Char → List Char
    | a :: b :: r => Char.ofNat (hexVal a * 16 + hexVal b) :: go r
    | _ => []
  go s.toList

def tohex (l : List Char) : String :=
  if l.isEmpty then "-" else
  String.ofList (l.flatMap fun c => [hexChar (c.toNat / 16).toUInt64, hexChar (c.toNat % 16).toUInt64])

def errName : Err → String
  | .sep => "E_sep" | .conv => "E_conv" | .inv => "E_inv" | .ext => "E_ext" | .line => "E_line"
  | .long => "E_long" | .fuel => "E_fuel"

def b01 (b : Bool) : String := if b then "1" else "0"

structure St where
  is : IStream := { rest := [] }
  total : Nat := 0
  rd : Reader := {}
  lastFailed : Bool := false

def sstate (total : Nat) (is : IStream) : String :=
  s!"p{total - is.rest.length} e{b01 is.eof} f{b01 is.fail}"
def rstate (r : Reader) : String := s!"b{r.bufidx} k{b01 r.keep} w{tohex r.window}"

def resUnit : Res Unit → String
  | .ok () => "ok"
  | .error e => errName e
def resVals (withCount : Bool) : Res (List UInt64) → String
  | .ok vs => String.intercalate " " (["ok"] ++ (if withCount then [toString vs.length] else []) ++ vs.map fmtBits)
  | .error e => errName e

def sepOf (t : String) : Char := (unhex t).headD ','

/-- split the trailing element strings of `pcsv` / `rt` lines -/
def elemFn (cols : Nat) (strs : List String) : Nat → Nat → List Char :=
  fun r c => unhex (strs.getD (r * cols + c) "-")

def step (st : St) (line : String) : St × String :=
  match tokens line with
  | ["S", h] => let t := unhex h; ({ st with is := { rest := t }, total := t.length, lastFailed := false }, "ok")
  | ["R"] => ({ st with rd := {} }, "ok")
  | ["skip"] =>
    let (res, r, is) := skipComments st.rd st.is
    ({ st with rd := r, is := is }, s!"{resUnit res} | {rstate r} | {sstate st.total is}")
  | ["read", sp] =>
    let (res, r, is) := read parseNum st.rd st.is (sepOf sp)
    let o := match res with | .ok v => s!"ok {fmtBits v}" | .error e => errName e
    ({ st with rd := r, is := is }, s!"{o} | {rstate r} | {sstate st.total is}")
  | ["nl"] =>
    let (res, is) := nextLine st.rd st.is
    ({ st with is := is }, s!"{resUnit res} | {rstate st.rd} | {sstate st.total is}")
  | ["done"] =>
    let (d, is) := done st.rd st.is
    ({ st with is := is }, s!"{b01 d} | {rstate st.rd} | {sstate st.total is}")
  | ["row", n, sp] =>
    let (res, is) := readRowImpl parseNum n.toNat! (sepOf sp) st.is
    let o := match res with
      | .ok vs => resVals true (.ok vs)
      | .error e => errName e
    ({ st with is := is, lastFailed := !res.isOk }, s!"{o} | {sstate st.total is}")
  | ["rowv", sp] =>
    let (res, is) := readRowStdVector parseNum (sepOf sp) st.is
    ({ st with is := is, lastFailed := !res.isOk }, s!"{resVals true res} | {sstate st.total is}")
  | ["resyncerr"] =>
    if st.lastFailed then
      let is := (st.is.clear).ignoreLine '\n'
      ({ st with is := is, lastFailed := false }, s!"ok | {sstate st.total is}")
    else (st, s!"skip | {sstate st.total st.is}")
  | ["resync"] =>
    let is := (st.is.clear).ignoreLine '\n'
    ({ st with is := is }, s!"ok | {sstate st.total is}")
  | "pcsv" :: fmt :: rows :: cols :: sp :: rest =>
    let rows := rows.toNat!; let cols := cols.toNat!
    let el := elemFn cols (rest.drop (rows * cols))
    let txt := match fmt with
      | "csv" => printCsv rows cols el
      | "csvs" => printCsvImpl rows cols el (unhex sp) (lit Gen.C17.csvDefaults 1) (lit Gen.C17.csvDefaults 2)
      | "py" => printPythonImpl rows cols el Gen.C17.pythonEnd.toList
      | "ml" => printMatlabImpl rows cols el Gen.C17.matlabEnd.toList
      | _ => "?".toList
    (st, tohex txt)
  | "rt" :: sp :: rows :: cols :: rest =>
    let rows := rows.toNat!; let cols := cols.toNat!
    let el := elemFn cols (rest.drop (rows * cols))
    let sepS := unhex sp
    let txt := if sepS == [','] then printCsv rows cols el
               else printCsvImpl rows cols el sepS (lit Gen.C17.csvDefaults 1) (lit Gen.C17.csvDefaults 2)
    let nrows := if cols == 1 then 1 else rows
    let ncols := if cols == 1 then rows else cols
    let sepC := sepS.headD ','
    let pass (vecMode : Bool) : String :=
      let rec go : Nat → IStream → String → String × IStream
        | 0, is, acc => (acc, is)
        | k + 1, is, acc =>
          let (res, is') := if vecMode then readRowStdVector parseNum sepC is
                            else readRowImpl parseNum ncols sepC is
          go k is' (acc ++ " | " ++ resVals true res)
      let (o, is) := go nrows { rest := txt } ""
      o ++ " | " ++ sstate txt.length is
    (st, tohex txt ++ pass false ++ pass true)
  | _ => (st, "bad-op")

end C17Drv

def main : IO Unit := mainLoop C17Drv.step {}
