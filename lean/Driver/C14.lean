/- C14 driver: runs the converter model (value type `Int`, value of source slot `i` = `i+1`,
   zero = 0) on the op lines of `harness/c14.cpp` and prints the same output lines. -/
import Alpaqa.Model.Proto
import Alpaqa.Model.C14

open Alpaqa Alpaqa.Proto Alpaqa.C14

def ityOf? : Char → Option IdxTy
  | 'i' => some .int | 'l' => some .long | 'q' => some .longlong | _ => none

def ityLetter : IdxTy → String
  | .int => "i" | .long => "l" | .longlong => "q"

def targetOf? (s : String) : Option Target :=
  match s.toList with
  | ['D'] => some .dense
  | ['C', w] => (ityOf? w).map .csc
  | ['O', w] => (ityOf? w).map .coo
  | _ => none

def ints : P (List Int) := do
  let n ← nat
  let rec go : Nat → List Int → P (List Int)
    | 0, acc => pure acc.reverse
    | k+1, acc => do let x ← int; go k (x :: acc)
  go n []

def symOf (i : Int) : P Symmetry := match Symmetry.ofCode? i with | some s => pure s | none => failure

def source : P Sparsity := do
  let k ← tok
  match k.toList with
  | ['D'] => do
      let rows ← nat; let cols ← nat; let sym ← symOf (← int)
      pure (.dense { rows, cols, sym })
  | ['C', w] => do
      let some ity := ityOf? w | failure
      let rows ← nat; let cols ← nat; let sym ← symOf (← int); let order ← int
      let outer ← ints; let inner ← ints
      pure (.csc { rows, cols, sym, inner, outer, order := CscOrder.ofCode order, ity })
  | ['O', w] => do
      let some ity := ityOf? w | failure
      let rows ← nat; let cols ← nat; let sym ← symOf (← int); let order ← int
      let firstIndex ← int
      let rowIdx ← ints; let colIdx ← ints
      pure (.coo { rows, cols, sym, rowIdx, colIdx, order := CooOrder.ofCode order, firstIndex, ity })
  | _ => failure

def fmtInts (xs : List Int) : String :=
  String.intercalate " " (toString xs.length :: xs.map toString)

def fmtPattern : Sparsity → String
  | .dense d => s!"D {d.rows} {d.cols} {d.sym.code}"
  | .csc s => s!"C{ityLetter s.ity} {s.rows} {s.cols} {s.sym.code} {s.order.code} {fmtInts s.outer} {fmtInts s.inner}"
  | .coo s => s!"O{ityLetter s.ity} {s.rows} {s.cols} {s.sym.code} {s.order.code} {s.firstIndex} {fmtInts s.rowIdx} {fmtInts s.colIdx}"

def errName : Err → String
  | .invalidArgument => "invalid_argument"
  | .runtimeError => "runtime_error"
  | .other => "other"
  | .ub => "model-ub"
  | .notModelled => "model-not-modelled"

def requestOf (t : Target) (r : String) : Option Request :=
  if r = "-" then some {} else
  match r.toInt? with
  | none => none
  | some i =>
    match t with
    | .dense => some {}
    | .coo _ => some { firstIndex := some i }
    | .csc _ => some { order := some (CscOrder.ofCode i) }

/-- value of source slot `i` in call `k` of a sequence (`harness/c14.cpp`: `kBase`) -/
def callBase : Nat → Int
  | 0 => 0 | 1 => 100 | _ => 50

/-- `ncalls` value conversions.  The model's `cv.vals` is a pure function of the value array, so
    every call of a sequence on one converter is answered from its own value array alone. -/
def runConv (r : Sparsity) (t : Target) (req : Request) (ncalls : Nat) : String :=
  match convert (0 : Int) r t req with
  | .error e => s!"E1 {errName e}"
  | .ok cv =>
    let blocks := (List.range ncalls).map fun k =>
      let v : List Int := (List.range r.nnz).map fun (i : Nat) => callBase k + (i : Int) + 1
      match cv.vals v with
      | .error e => s!"E2 {errName e}"
      | .ok v' => s!"vals {r.nnz} {fmtInts v'}"
    s!"ok {fmtPattern cv.out} " ++ String.intercalate " | " blocks

def c14Step (_ : Unit) (line : String) : Unit × String :=
  let ts := tokens line
  let out : Option String :=
    match ts with
    | ["feature"] => some s!"have_coo_csc {if Gen.C14.haveCooCscConversions then 1 else 0}"
    | op :: to :: rq :: rest =>
      if op = "cv" ∨ op = "cw" ∨ op = "sv" ∨ op = "sw" then
        match targetOf? to with
        | none => some "bad-op"
        | some t =>
          match requestOf t rq, run source rest with
          | some req, some r => some (runConv r t req (if op = "sv" ∨ op = "sw" then 3 else 1))
          | _, _ => none
      else some "bad-op"
    | _ => some "bad-op"
  ((), out.getD "parse-error")

def main : IO Unit := mainLoop c14Step ()
