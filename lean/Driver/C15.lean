/- C15 driver: runs the model (generated kernels + hand models) at `Float` on op lines. -/
import Alpaqa.Model.Proto
import Alpaqa.Model.C15

open Alpaqa Alpaqa.Proto Alpaqa.C15

def isNegInf (x : Float) : Bool := x == (-1.0/0.0)
def isPosInf (x : Float) : Bool := x == (1.0/0.0)

def c15Step (_ : Unit) (line : String) : Unit × String :=
  let ts := tokens line
  let out : Option String :=
    match ts with
    | "pgs" :: r => run (do
        let l1 ← vec; let γ ← flt; let x ← vec; let g ← vec; let lb ← vec; let ub ← vec
        let (h, xh, p) := proxGradStep l1 γ x g lb ub
        pure s!"{fmtF h} {fmtV xh} {fmtV p}") r
    | "inact" :: r => run (do
        let l1 ← vec; let γ ← flt; let x ← vec; let g ← vec; let lb ← vec; let ub ← vec
        let J := inactiveIndices l1 γ x g lb ub
        pure (String.intercalate " " (toString J.length :: J.map toString))) r
    | "pmult" :: r => run (do
        let split ← nat; let M ← flt; let y ← vec; let lb ← vec; let ub ← vec
        pure (fmtV (projMultipliers (lb.map isNegInf) (ub.map isPosInf) split M y))) r
    | "proj" :: r => run (do
        let v ← vec; let lb ← vec; let ub ← vec
        let idx := List.range v.length
        let o1 := idx.map fun i => Gen.projectBox (vget v i) (vget lb i) (vget ub i)
        let o2 := idx.map fun i => Gen.proxBox (vget v i) (vget lb i) (vget ub i)
        pure s!"{fmtV o1} {fmtF 0.0} {fmtV o2}") r
    | "pstep" :: r => run (do
        let _γ ← flt; let γf ← flt; let x ← vec; let d ← vec; let lb ← vec; let ub ← vec
        let idx := List.range x.length
        let rr := idx.map fun i => Gen.proxStepBox (vget x i) (vget d i) γf (vget lb i) (vget ub i)
        pure s!"{fmtF 0.0} {fmtV (rr.map (·.2))} {fmtV (rr.map (·.1))}") r
    | "l1s" :: r => run (do
        let lam ← flt; let γ ← flt; let v ← vec
        let (out, h) := l1ProxScalarWeight lam γ v
        pure s!"{fmtF h} {fmtV out}") r
    | "l1v" :: r => run (do
        let lam ← vec; let γ ← flt; let v ← vec
        let (out, h) := l1ProxVectorWeight lam γ v
        pure s!"{fmtF h} {fmtV out}") r
    -- the generic default of the prox_step customisation point (prox_step from prox)
    | "gps" :: "l1s" :: r => run (do
        let lam ← flt; let γ ← flt; let γf ← flt; let v ← vec; let d ← vec
        let (h, out, fb) := proxStepDefault (l1ProxScalarWeight lam γ) v d γf
        pure s!"{fmtF h} {fmtV out} {fmtV fb}") r
    | "gps" :: "l1v" :: r => run (do
        let lam ← vec; let γ ← flt; let γf ← flt; let v ← vec; let d ← vec
        let (h, out, fb) := proxStepDefault (l1ProxVectorWeight lam γ) v d γf
        pure s!"{fmtF h} {fmtV out} {fmtV fb}") r
    | "gps" :: "cl1s" :: r => run (do
        let lam ← flt; let γ ← flt; let γf ← flt; let v ← vec; let d ← vec
        let (_, out, fb) := proxStepDefault
          (fun w => let q := cplxL1ProxScalarW lam γ (toCVec w); (ofCVec q.1, q.2)) v d γf
        pure s!"{fmtV out} {fmtV fb}") r
    | "gps" :: "cl1v" :: r => run (do
        let lam ← vec; let γ ← flt; let γf ← flt; let v ← vec; let d ← vec
        let (_, out, fb) := proxStepDefault
          (fun w => let q := cplxL1ProxVectorW lam γ (toCVec w); (ofCVec q.1, q.2)) v d γf
        pure s!"{fmtV out} {fmtV fb}") r
    | "gpsnucpost" :: r => run (do
        -- NuclearNorm through the generic default; the SVD (σ, U, V) of `in + γ_fwd·fwd_step` is the
        -- oracle's answer as logged by the harness
        let lam ← flt; let γ ← flt; let γf ← flt; let rows ← nat; let cols ← nat; let a ← vec; let d ← vec
        let σ ← vec; let U ← vec; let V ← vec
        let prox := fun (w : List Float) =>
          match nuclearPost lam γ σ with
          | none => (w, 0.0)
          | some (sv, value, rank) => (nuclearReconstruct rows cols rank sv U V, value)
        let (h, out, fb) := proxStepDefault prox a d γf
        match nuclearPost lam γ σ with
        | none => pure s!"Z {fmtF h} {fmtV out} {fmtV fb}"
        | some (sv, _, _) => pure s!"S {fmtV sv} {fmtF h} {fmtV out} {fmtV fb}") r
    | "unc" :: r => run (do
        let γ ← flt; let x ← vec; let g ← vec
        let rr := (List.range x.length).map fun i => Gen.proxGradStepUnconstr γ (vget x i) (vget g i)
        pure s!"{fmtF 0.0} {fmtV (rr.map (·.2))} {fmtV (rr.map (·.1))}") r
    | "cl1s" :: r => run (do
        let lam ← flt; let γ ← flt; let v ← vec
        let out := ofCVec (cplxL1ProxScalarW lam γ (toCVec v)).1
        -- both overloads (prox customisation point on the real vector, complex overload)
        pure s!"{fmtV out} {fmtV out}") r
    | "cl1v" :: r => run (do
        let lam ← vec; let γ ← flt; let v ← vec
        let out := ofCVec (cplxL1ProxVectorW lam γ (toCVec v)).1
        pure s!"{fmtV out} {fmtV out}") r
    | "nucpost" :: r => run (do
        -- the SVD (σ, U, V) is the oracle's answer as logged by the harness
        let lam ← flt; let γ ← flt; let rows ← nat; let cols ← nat; let a ← vec
        let σ ← vec; let U ← vec; let V ← vec
        match nuclearPost lam γ σ with
        | none => pure s!"Z {fmtF 0.0} {fmtV a}"
        | some (sv, value, rank) =>
          pure s!"S {fmtV sv} {fmtF value} {fmtV (nuclearReconstruct rows cols rank sv U V)}") r
    | "echo" :: r => some (String.intercalate " " r)
    | _ => some "bad-op"
  ((), out.getD "parse-error")

def main : IO Unit := mainLoop c15Step ()
