/- C11 driver: the Steihaug CG / Newton-TR model at `Float` (bit-exact against harness/c11.cpp). -/
import Alpaqa.Model.Proto
import Alpaqa.Model.C11

open Alpaqa Alpaqa.Proto Alpaqa.C11 Alpaqa.Gen.C11

/-- `std::copysign`: magnitude of `x`, sign bit of `y` (so `-0.0` counts as negative). -/
def copysignF (x y : Float) : Float :=
  Float.ofBits ((x.toBits &&& 0x7fffffffffffffff) ||| (y.toBits &&& 0x8000000000000000))

/-- `static_cast<index_t>(std::round(x))` for the in-range values the generator produces. -/
def roundF (x : Float) : Int := (Float.round x).toInt64.toInt

def fvecN (n : Nat) : P (List Float) := do
  let rec go : Nat → List Float → P (List Float)
    | 0, acc => pure acc.reverse
    | k+1, acc => do let f ← flt; go k (f :: acc)
  go n []

def rowsOf (n : Nat) (flat : List Float) : List (List Float) :=
  (List.range n).map fun i => (flat.drop (i * n)).take n

def natsN (n : Nat) : P (List Nat) := do
  let rec go : Nat → List Nat → P (List Nat)
    | 0, acc => pure acc.reverse
    | k+1, acc => do let f ← nat; go k (f :: acc)
  go n []

def nEvalOf : Exit → Nat
  | .negCurvA | .negCurvB => 2
  | .alphaNaN => 0
  | .zeroGrad => 0
  | .overLong | .interior => 1
  | .fuel => 999

/-- Number of `hess_prod(d, Bd)` calls: one per started iteration; none when the gradient is zero. -/
def nBdOf (res : Res Float) : Nat := if res.exit == .zeroGrad then 0 else res.st.i + 1

def c11Step (_ : Unit) (line : String) : Unit × String :=
  let out : Option String :=
    match tokens line with
    | "cg" :: r => run (do
        let g ← vec
        let n := g.length
        let flat ← fvecN (n * n)
        let Δ ← flt; let ts ← flt; let tr ← flt; let tm ← flt; let mf ← flt
        let B := matVec (rowsOf n flat)
        let res := steihaug copysignF B g Δ tm ts tr (cgMaxIter roundF n mf)
        pure s!"{fmtF res.q} {fmtV res.s} {nBdOf res} {nEvalOf res.exit} {fmtV res.st.z} {fmtV res.st.r} {fmtV res.st.d} {if res.exit == .negCurvA || res.exit == .negCurvB then fmtF res.dsq else "none"}") r
    | "ntr" :: r => run (do
        let p ← vec
        let n := p.length
        let flat ← fvecN (n * n)
        let nJ ← nat
        let J ← natsN nJ
        let γ ← flt; let hvf ← flt; let radius ← flt
        let ts ← flt; let tr ← flt; let tm ← flt; let mf ← flt
        let H := matVec (rowsOf n flat)
        let eps : Float := Float.ofBits 0x3cb0000000000000   -- 2^-52
        match newtonTR copysignF H J γ p hvf radius eps tm ts tr (cgMaxIter roundF nJ mf) with
        | none => pure "exception"
        | some o =>
          let calls := (if ntrUseHess hvf then 1 else 0) + nBdOf o.cg + nEvalOf o.cg.exit
          pure s!"{fmtF o.val} {fmtV o.q} {calls} {fmtV o.cg.s}") r
    | _ => some "bad-op"
  ((), out.getD "parse-error")

def main : IO Unit := mainLoop c11Step ()
