/- C18 driver: runs the hand model `Alpaqa.C18.setParams` over the GENERATED tables
   (`Alpaqa.Gen.C18.env`, `durCfg`) at `Float` on the op lines of `harness/c18.cpp`.

   set <top> <D|P> <n> (<pathHex> <val>)* <prefixHex> <k> <optHex>*k <m> (<strHex> <res>)*m
       <f> (<nameHex> <contentHex> <rowTok>)*f
     -> "<status> <used,…|-> <n> <val>*n"

   The file section is the file system of the `@file` form of `vec_from_file`: a listed file reads
   as the token row `<rowTok>` = `row:<tokHex>,…` (first data row as `csv::read_row_std_vector`
   tokenises it — an oracle here, property C17), any other path does not exist.

   The floating-point `from_chars` oracle is the table `<m> (<strHex> <res>)*` carried by the op
   line (`ok:<hex64>:<restLen>` | `inv` | `rng`); a string the model asks for that is not in
   the table prints `oracle-miss` (shows up as a correspondence mismatch). -/
import Alpaqa.Model.Proto
import Alpaqa.Model.C18
import Alpaqa.Gen.C18

open Alpaqa Alpaqa.Proto Alpaqa.C18

def int64Min : Int := -9223372036854775808

/-- `static_cast<int64_t>(double)`.  The model only converts values strictly inside the `int64`
    range (everything else is rejected first); the guard below only matters when the driver is
    run against a tree without that range check (it reproduces x86-64 `cvttsd2si`). -/
instance : DurScalar Float where
  ofInt := Float.ofInt
  trunc x :=
    if x.isNaN || x >= 9223372036854775808.0 || x < -9223372036854775808.0 then int64Min
    else x.toInt64.toInt

def wrap64 (i : Int) : Int :=
  let m : Int := 18446744073709551616
  let r := (i - int64Min) % m
  r + int64Min

def hexNib? (c : Char) : Option Nat :=
  if '0' ≤ c ∧ c ≤ '9' then some (c.toNat - '0'.toNat)
  else if 'a' ≤ c ∧ c ≤ 'f' then some (c.toNat - 'a'.toNat + 10)
  else none

def hexBytes : List Char → Option (List UInt8)
  | [] => some []
  | a :: b :: r => do
    let x ← hexNib? a; let y ← hexNib? b; let rest ← hexBytes r
    pure ((x * 16 + y).toUInt8 :: rest)
  | _ => none

def hexStr? (t : String) : Option String :=
  if t = "-" then some "" else do
    let bs ← hexBytes t.toList
    String.fromUTF8? (ByteArray.mk bs.toArray)

def hstr : P String := do
  let t ← tok
  match hexStr? t with | some s => pure s | none => failure

def parseVecTok? (s : String) : Option (List Float) :=
  match s.splitOn ":" with
  | [_] => some []
  | [_, xs] => (xs.splitOn ",").mapM (fun h => if h = "nan" then some (0.0/0.0) else parseF? h)
  | _ => none

def parseLeaf? (t : String) : Option (Leaf Float) :=
  match t.toList with
  | 'b' :: r => some (.b (r == ['1']))
  | 'i' :: r => (String.ofList r).toInt?.map .i
  | 'e' :: r => (String.ofList r).toInt?.map .e
  | 'd' :: r => (String.ofList r).toInt?.map .d
  | 'r' :: r =>
    let s := String.ofList r
    if s = "nan" then some (.r (0.0 / 0.0)) else (parseF? s).map .r
  | 'v' :: r => (parseVecTok? (String.ofList r)).map .v
  | 'o' :: 'n' :: [] => some (.o none)
  | 'o' :: 'v' :: r => (parseVecTok? (String.ofList r)).map (fun xs => .o (some xs))
  | _ => none

def fmtVec (xs : List Float) : String :=
  if xs.isEmpty then "v0" else s!"v{xs.length}:" ++ String.intercalate "," (xs.map fmtF)

def fmtLeaf : Option (Leaf Float) → String
  | none => "?"
  | some (.b v) => if v then "b1" else "b0"
  | some (.i v) => s!"i{v}"
  | some (.e v) => s!"e{v}"
  | some (.d v) => s!"d{wrap64 v}"
  | some (.r v) => "r" ++ fmtF v
  | some (.v xs) => fmtVec xs
  | some (.o none) => "on"
  | some (.o (some xs)) => "o" ++ fmtVec xs

def pathOf (s : String) : Path := if s = "" then [] else s.splitOn "."

def topKind (top : String) : Option Kind :=
  if (Gen.C18.env.structs.any (·.1 == top)) then some (.struct top)
  else if (Gen.C18.env.enums.any (·.1 == top)) then some (.enum top)
  else match top with
    | "bool" => some .bool
    | "f64" => some .real
    | "i8" => some (.int (-128) 127)
    | "u8" => some (.int 0 255)
    | "i16" => some (.int (-32768) 32767)
    | "u16" => some (.int 0 65535)
    | "i32" => some (.int (-2147483648) 2147483647)
    | "u32" => some (.int 0 4294967295)
    | "i64" => some (.int int64Min 9223372036854775807)
    | "u64" => some (.int 0 18446744073709551615)
    | "ns" => some (.dur 1)
    | "us" => some (.dur 1000)
    | "ms" => some (.dur 1000000)
    | "s" => some (.dur 1000000000)
    | "min" => some (.dur 60000000000)
    | "h" => some (.dur 3600000000000)
    | "vec" => some .vec
    | "vff" => some (.vff (-1))
    | "vff2" => some (.vff 2)
    | _ => none

def parseRes? (s : Str) (t : String) : Option (NumRes Float) :=
  if t = "inv" then some .invalid
  else if t = "rng" then some .range
  else match t.splitOn ":" with
    | ["ok", h, n] => do
      let v ← if h = "nan" then some (0.0 / 0.0) else parseF? h
      let k ← n.toNat?
      pure (.ok v (s.drop (s.length - k)))
    | _ => none

/-- `row:<tokHex>,<tokHex>…` (`row:` = no token; an empty token is `-`) -/
def parseRow? (t : String) : Option (List Str) :=
  if t.startsWith "row:" then
    let body := (t.drop 4).toString
    if body = "" then some []
    else (body.splitOn ",").mapM (fun h => (hexStr? h).map String.toList)
  else none

def errName : Err → String
  | .invalidKey => "invalidKey" | .indexed => "indexed" | .badBool => "badBool"
  | .badEnum => "badEnum" | .numInvalid => "numInvalid" | .numRange => "numRange"
  | .numSuffix => "numSuffix" | .durValue => "durValue" | .durUnits => "durUnits"
  | .fileOpen => "fileOpen" | .fileRead => "fileRead" | .badSize => "badSize"
  | .unsupported => "unsupported" | .fuel => "fuel"

def rep {β} (n : Nat) (p : P β) : P (List β) :=
  let rec go : Nat → List β → P (List β)
    | 0, acc => pure acc.reverse
    | k + 1, acc => do let x ← p; go k (x :: acc)
  go n []

def c18Step (_ : Unit) (line : String) : Unit × String :=
  let out : Option String :=
    match tokens line with
    | "set" :: top :: _flavour :: r => run (do
        let n ← nat
        let pre ← rep n (do
          let p ← hstr; let v ← tok
          match parseLeaf? v with | some l => pure (pathOf p, l) | none => failure)
        let pfx ← hstr
        let k ← nat
        let opts ← rep k hstr
        let m ← nat
        let orc ← rep m (do
          let s ← hstr; let t ← tok
          match parseRes? s.toList t with | some x => pure (s.toList, x) | none => failure)
        let nf ← nat
        let fls ← rep nf (do
          let name ← hstr; let _content ← tok; let rt ← tok
          match parseRow? rt with | some toks => pure (name.toList, toks) | none => failure)
        match topKind top with
        | none => pure "bad-op"
        | some kind =>
          -- the oracle: a miss is remembered through a sentinel error that no real code path produces
          let oracle : Str → NumRes Float := fun s =>
            match orc.find? (·.1 == s) with
            | some p => p.2
            | none => .ok (0.0 / 0.0) ("\x00oracle-miss".toList)
          let st0 : Store Float := fun q => (pre.find? (·.1 == q)).map (·.2)
          let envF : Env := { Gen.C18.env with
            files := fun path => match fls.find? (·.1 == path) with
              | some p => .row p.2
              | none => .missing }
          let (st, used, err) :=
            setParams envF Gen.C18.durCfg oracle kind pfx.toList (opts.map String.toList) st0
          let status := match err with | none => "ok" | some e => "exc:" ++ errName e
          let usedS := if used.isEmpty then "-" else String.intercalate "," (used.map toString)
          let vals := pre.map fun (p, _) => fmtLeaf (st p)
          pure (String.intercalate " " (status :: usedS :: toString n :: vals))) r
    | _ => some "bad-op"
  ((), out.getD "parse-error")

def main : IO Unit := mainLoop c18Step ()
