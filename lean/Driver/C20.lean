/- C20 driver: runs the wrapper / loader model on op lines.  Everything it predicts is computed by
   the definitions of `Alpaqa/Model/C20.lean` interpreting the tables of `Alpaqa/Gen/C20.lean`
   (regenerated from /repo): which underlying functions run, the counters of the wrapper's block,
   the outcome class (ok / not_implemented / crash), capability flags, loader decisions. -/
import Alpaqa.Model.Proto
import Alpaqa.Gen.C20

open Alpaqa Alpaqa.Proto Alpaqa.C20 Alpaqa.Gen.C20

inductive Kind where
  | native | functional | dl | ocp | dlocp
  deriving DecidableEq, Inhabited

structure Sess where
  kind : Kind
  u : Native                        -- the underlying problem class as the vtable constructor sees it
  m0 : Bool
  logOf : String → Option (List String)   -- underlying functions run by one call of U's method
  garbage : List String             -- table members holding an indeterminate (non-null) pointer
  cs : CState String
  ws : WState Nat := WState.init 0  -- what each wrapper holds; problem data = stamp of the last mutation
  ectr : Nat := 0                   -- number of mutations so far (the next stamp is ectr + 1)
  /-- OCP loader: nc, nc_N and what the plug-in's get_D / get_D_N answer (none: table member null) -/
  proj : Option (Nat × Nat × Option (BoxO Float) × Option (BoxO Float)) := none

instance : Inhabited Sess :=
  ⟨{ kind := .native, u := { has := fun _ => false, hasProv := fun _ => false, provVal := fun _ => false },
     m0 := true, logOf := fun _ => some [], garbage := [], cs := CState.empty }⟩

def bitOf (mask : Nat) (i : Nat) : Bool := (mask >>> i) % 2 == 1

def idxOf (xs : List String) (f : String) : Option Nat := xs.findIdx? (· == f)

def maskNative (names : List String) (always : List String) (has prov pv : Nat) : Native where
  has f := always.contains f || (match idxOf names f with | some i => bitOf has i | none => false)
  hasProv f := match idxOf names f with | some i => bitOf prov i | none => false
  provVal f := match idxOf names f with | some i => bitOf pv i | none => false

def ocpMaskNames : List String :=
  ["get_D", "get_D_N", "eval_add_Q_N", "eval_add_R_prod_masked", "eval_add_S_prod_masked",
   "get_R_work_size", "get_S_work_size", "eval_constr", "eval_constr_N", "eval_grad_constr_prod",
   "eval_grad_constr_prod_N", "eval_add_gn_hess_constr", "eval_add_gn_hess_constr_N"]

def dlMaskNames : List String :=
  ["eval_proj_diff_g", "eval_proj_multipliers", "eval_prox_grad_step", "eval_inactive_indices_res_lna",
   "eval_jac_g", "get_jac_g_sparsity", "eval_grad_gi", "eval_hess_L_prod", "eval_hess_L",
   "get_hess_L_sparsity", "eval_hess_ψ_prod", "eval_hess_ψ", "get_hess_ψ_sparsity", "eval_f_grad_f",
   "eval_f_g", "eval_grad_f_grad_g_prod", "eval_grad_L", "eval_ψ", "eval_grad_ψ", "eval_ψ_grad_ψ"]

def functionalBits : List String := ["grad_gi", "jac_g", "hess_L_prod", "hess_L", "hess_ψ_prod", "hess_ψ"]

/-- `FunctionalProblem` (with its `BoxConstrProblem` base) as a problem class -/
def functionalNative (fmask : Nat) : Native where
  has f := (functional.find f).isSome || boxConstrDeclared.contains f
  hasProv f := (functional.findProv f).isSome || boxConstrDeclared.contains ("provides_" ++ f)
  provVal f := match functional.findProv f with
    | some p => (match idxOf functionalBits p.callee with | some i => bitOf fmask i | none => false)
    | none => f == "get_box_C"      -- BoxConstrProblem::provides_get_box_C with empty l1_reg

/-- `DLProblem` / `DLControlProblem` (with base class / adapter members) as a problem class -/
def dlNative (t : DLTable) (extra : List String) (tbl : FnTable) (base : String → Bool) : Native where
  has f := t.declared.contains f || extra.contains f
  hasProv f := t.prov.any (·.method == f)
  provVal f := (t.native tbl base).provVal f

def versionOf (regfn : String) : VersionSym :=
  if regfn == "c20_noversion" || regfn == "c20_nosuch" || regfn == "c20_ocp_nosuch" || regfn == "c20_ocp_noversion"
  then .missing
  else if regfn == "c20_badversion" || regfn == "c20_ocp_badversion" then .mismatch else .good

def descrOf (file regfn : String) : PluginDescr where
  emptyPath := file == "empty"
  libLoads := file != "missing"
  versionSym := versionOf regfn
  registerSym := !(regfn == "c20_nosuch" || regfn == "c20_ocp_nosuch")
  abiOk := !(regfn == "c20_badabi" || regfn == "c20_ocp_badabi")
  exceptionSet := regfn == "c20_throws" || regfn == "c20_ocp_throws"
  hasFunctions := !(regfn == "c20_nofunctions" || regfn == "c20_ocp_nofunctions")

def errName : LoadError → String
  | .invalidArgument => "invalid_argument" | .dlopenFailed => "dlopen" | .missingSymbol => "missing_symbol"
  | .abiMismatch => "abi" | .pluginException => "plugin_exception" | .noFunctions => "no_functions"
  | .functionsNeverAssigned => "functions_never_assigned"

/-- ` regcalls=k`: how often the registration function ran during the load attempt (`-`: the library was
    never opened) -/
def regCalls (steps : List LoadStep) (d : PluginDescr) : String :=
  if d.emptyPath || !d.libLoads then " regcalls=-"
  else if registerCalled invalidAbiDerivesFromDynamicLoadError steps d then " regcalls=1" else " regcalls=0"

def wrapperOf (s : Sess) : WrapperTable :=
  match s.kind with | .ocp | .dlocp => ocpWrapper | _ => nlpWrapper

def isOcp (s : Sess) : Bool := match s.kind with | .ocp | .dlocp => true | _ => false

def fmtCnt (t : WrapperTable) (s : CState String) (w : Nat) : String :=
  match s.ptr w with
  | none => "null"
  | some b => String.intercalate "," (t.counterFields.map fun c => toString (s.blk b c))

def outName : COut → String
  | .ok => "ok" | .created w => s!"created {w}" | .crash => "crash" | .badWrapper => "bad-wrapper"

def provBits (s : Sess) : String :=
  let w := (wrapperOf s).wrap s.u
  if isOcp s then
    String.ofList (ocpOptional.map fun f => if w.provided f then '1' else '0')
  else
    String.ofList (nlpOptional.map fun f => if w.provided f then '1' else '0') ++ "/" ++
    String.ofList (["eval_hess_ψ_prod", "eval_hess_ψ"].map fun f =>
      if teSupports w.provided s.m0 f then '1' else '0')

def joinLog (l : List String) : String := if l.isEmpty then "-" else String.intercalate "," l

/-- one `call w fn`: outcome class, underlying log, counters afterwards; the flag says whether functions of
    the underlying problem ran (then the stamp of the object they ran on is reported) -/
def doCall (s : Sess) (w : Nat) (fn : String) : Sess × String × Bool :=
  let t := wrapperOf s
  let wn := t.wrap s.u
  let out := if isOcp s then resolveOCP wn.provided fn else resolveNLP wn.provided s.m0 fn
  match out with
  | .notImpl msg => (s, s!"ni:{msg} log=- cnt={fmtCnt t s.cs w}", false)
  | .nullCall => (s, s!"crash log=- cnt={fmtCnt t s.cs w}", false)
  | .calls xs =>
    let entries := xs.filterMap t.find
    let counted := entries.filterMap (·.counter)
    if (s.cs.ptr w).isNone && !counted.isEmpty then
      (s, "crash log=- cnt=null", false)
    else
      -- underlying functions, in order; a call into an indeterminate pointer crashes
      let logs := entries.map fun e => (e, s.logOf e.callee)
      let bad := logs.any fun (_, l) => match l with
        | none => true
        | some ls => ls.any (s.garbage.contains ·)
      if bad then
        -- the harness confines the crashing call to a child process: the parent's counters are unchanged
        (s, s!"crash log=- cnt={fmtCnt t s.cs w}", false)
      else
        let cs' := counted.foldl (fun c k => (cstep t.resetKind c (.call w k)).1) s.cs
        let log := logs.flatMap fun (_, l) => l.getD []
        ({ s with cs := cs' }, s!"ok log={joinLog log} cnt={fmtCnt t cs' w}", !log.isEmpty)

/-- the C20 OCP plug-in's boxes (`c20o_box(n, tag, lb, ub)` of harness/c20_plugins/c20_math.h) -/
def pluginBox (n : Nat) (tag : Float) : BoxO Float :=
  (List.range n).map fun i =>
    (some (-tag - i.toFloat), if i % 2 == 1 then none else some (tag + 0.5 * i.toFloat))

/-- arguments of an OCP `call` line: a i x u h p M zf -/
def parseOcpArgs (ts : List String) : Option (Float × List Float) :=
  Proto.run (do
    let a ← Proto.flt; let _ ← Proto.nat
    let _ ← Proto.vec; let _ ← Proto.vec; let _ ← Proto.vec; let _ ← Proto.vec; let _ ← Proto.vec
    let zf ← Proto.vec
    pure (a, zf)) ts

/-- which kinds of data a `mutate <what>` can change, per kind of underlying problem -/
def mutSupported (k : Kind) (what : String) : Bool :=
  match k with
  | .native | .functional => what == "C" || what == "D" || what == "const"
  | .ocp => what == "D" || what == "const"
  | .dl | .dlocp => false

def required7 : List String := nlpRequired

def newSess (ts : List String) : Option Sess × String :=
  match ts with
  | ["native", _idx, has, prov, pv, _n, m] =>
    match has.toNat?, prov.toNat?, pv.toNat?, m.toNat? with
    | some h, some p, some v, some m =>
      (some { kind := .native, u := maskNative nlpOptional nlpRequired h p v, m0 := m == 0,
              logOf := fun f => some [f], garbage := [], cs := CState.empty }, "ok")
    | _, _, _, _ => (none, "parse-error")
  | ["functional", fm, _n, m] =>
    match fm.toNat?, m.toNat? with
    | some fm, some m =>
      (some { kind := .functional, u := functionalNative fm, m0 := m == 0,
              logOf := fun f => some (if (functional.find f).isSome then [f] else []),
              garbage := [], cs := CState.empty }, "ok")
    | _, _ => (none, "parse-error")
  | ["dl", file, regfn, mask, _n, m, flags] =>
    match mask.toNat?, m.toNat?, flags.toNat? with
    | some mask, some m, some flags =>
      match load invalidAbiDerivesFromDynamicLoadError dlNLP.ctor (descrOf file regfn) with
      | .error e => (none, "err:" ++ errName e ++ regCalls dlNLP.ctor (descrOf file regfn))
      | .ok warned =>
        -- default-initialised table: a member without `ALPAQA_DEFAULT(nullptr)` is indeterminate
        let noDefault := abiNLP.filter (fun m => !m.hasDefault) |>.map (·.name)
        let dflt := regfn == "c20_defaultinit"
        let tbl : FnTable := fun f =>
          (nlpRequired.drop 3).contains f ||
          (if dflt then noDefault.contains f else
            (match idxOf dlMaskNames f with | some i => bitOf mask i | none => false) ||
            (f == "name" && bitOf flags 0) || (f == "initialize_box_C" && bitOf flags 1) ||
            (f == "initialize_box_D" && bitOf flags 2) || (f == "initialize_l1_reg" && bitOf flags 3))
        let base : String → Bool := fun _ => !(bitOf flags 3 && !dflt)
        (some { kind := .dl, u := dlNative dlNLP boxConstrDeclared tbl base, m0 := m == 0,
                logOf := fun f => dlNLP.pluginCalls tbl f,
                garbage := if dflt then noDefault else [], cs := CState.empty },
         s!"ok warned={if warned then 1 else 0}" ++ regCalls dlNLP.ctor (descrOf file regfn))
    | _, _, _ => (none, "parse-error")
  | ["ocp", _idx, has, prov, pv, nh, nc] =>
    match has.toNat?, prov.toNat?, pv.toNat?, nh.toNat?, nc.toNat? with
    | some h, some p, some v, some nh, some nc =>
      let u := maskNative (ocpMaskNames ++ ["eval_h", "eval_h_N"]) ocpRequired h p v
      match ocpCtorMissing u.provided nc nh nh with
      | some x => (none, "err:missing:" ++ x)
      | none => (some { kind := .ocp, u := u, m0 := nc == 0, logOf := fun f => some [f], garbage := [],
                        cs := CState.empty }, "ok")
    | _, _, _, _, _ => (none, "parse-error")
  | ["dlocp", file, regfn, mask, nh, nc, flags] =>
    match mask.toNat?, nh.toNat?, nc.toNat?, flags.toNat? with
    | some mask, some nh, some nc, some flags =>
      match load invalidAbiDerivesFromDynamicLoadError dlOCP.ctor (descrOf file regfn) with
      | .error e => (none, "err:" ++ errName e ++ regCalls dlOCP.ctor (descrOf file regfn))
      | .ok warned =>
        -- flags bit 0 / 1: the plug-in leaves the table member eval_h / eval_h_N null
        let tbl : FnTable := fun f =>
          if f == "eval_h" then !bitOf flags 0 else if f == "eval_h_N" then !bitOf flags 1 else
          (match idxOf ocpMaskNames f with | some i => bitOf mask i | none => ocpAll.contains f)
        let u := dlNative dlOCP [] tbl (fun _ => true)
        match ocpCtorMissing u.provided nc nh nh with
        | some x => (none, "err:missing:" ++ x ++ regCalls dlOCP.ctor (descrOf file regfn))
        | none =>
          (some { kind := .dlocp, u := u, m0 := nc == 0, logOf := fun f => dlOCP.pluginCalls tbl f,
                  garbage := [], cs := CState.empty,
                  proj := some (nc, nc, if tbl "get_D" then some (pluginBox nc 62.0) else none,
                                if tbl "get_D_N" then some (pluginBox nc 63.0) else none) },
           s!"ok warned={if warned then 1 else 0}" ++ regCalls dlOCP.ctor (descrOf file regfn))
    | _, _, _, _ => (none, "parse-error")
  | _ => (none, "bad-kind")

def wOutName : WOut Nat → String
  | .ok => "ok" | .created w => s!"created {w}" | .saw _ => "ok" | .constRef => "const-reference" | .bad => "bad-wrapper"

def c20Step (st : Option Sess) (line : String) : Option Sess × String :=
  match tokens line with
  | "new" :: r => newSess r
  | op :: r =>
    match st with
    | none => (none, "no-session")
    | some s =>
      let t := wrapperOf s
      -- counter heap and wrapper data advance together (`sysStep`, driven by the generated helper table)
      let sys (o : SOp Nat String) : Sess × COut × WOut Nat :=
        let (y, oc, ow) := sysStep wrapHelpers t.resetKind (⟨s.cs, s.ws⟩ : Sys Nat String) o
        ({ s with cs := y.c, ws := y.w }, oc, ow)
      let stepC (o : SOp Nat String) : Option Sess × String :=
        let (s', oc, _) := sys o
        (some s', outName oc)
      let helper (byRef : Bool) : String :=
        (if isOcp s then "ocproblem_with_counters" else "problem_with_counters") ++ (if byRef then "_ref" else "")
      match op, r with
      | "create", _ => stepC (.create (helper false))
      | "createref", _ => stepC (.create (helper true))
      | "copy", [w] => (match w.toNat? with | some w => stepC (.copy w) | none => (st, "parse-error"))
      | "decouple", [w] => (match w.toNat? with | some w => stepC (.decouple w) | none => (st, "parse-error"))
      | "reset", [w] => (match w.toNat? with | some w => stepC (.reset w) | none => (st, "parse-error"))
      | "mutate", what :: _ =>
        if !mutSupported s.kind what then (st, "unsupported") else
        let (s', _, ow) := sys (.mutate fun _ => s.ectr + 1)
        (some { s' with ectr := s.ectr + 1 }, wOutName ow)
      | "mutatew", w :: what :: _ =>
        (match w.toNat? with
         | none => (st, "parse-error")
         | some w =>
           if !(w < s.ws.nW) then (st, "bad-wrapper")
           else if s.ws.held w == some none then (st, "const-reference")
           else if !mutSupported s.kind what then (st, "unsupported")
           else
             let (s', _, ow) := sys (.mutateVia w fun _ => s.ectr + 1)
             (some { s' with ectr := s.ectr + 1 }, wOutName ow))
      | "cnt", [w] =>
        (match w.toNat? with
         | some w => if w < s.cs.nW then (st, fmtCnt t s.cs w) else (st, "bad-wrapper")
         | none => (st, "parse-error"))
      | "prov", [w] =>
        (match w.toNat? with
         | some w => if w < s.cs.nW then (st, provBits s) else (st, "bad-wrapper")
         | none => (st, "parse-error"))
      | "call", w :: fn :: args =>
        (match w.toNat? with
         | some w =>
           if w < s.cs.nW then
             let (s', o, ran) := doCall s w fn
             -- the stamp of the problem object the evaluation ran on: what wrapper `w` holds
             let ep := match (wstep s.ws (.call w)).2 with
               | .saw e => if ran && (s.kind == Kind.native || s.kind == Kind.ocp) then toString e else "-"
               | _ => "-"
             let val := match s.proj, parseOcpArgs args with
               | some (nc, ncN, gD, gDN), some (a, zf) =>
                 let (D, DN) := dlocpBoxes nc ncN gD gDN
                 if !o.startsWith "ok " then ""
                 else if fn == "eval_proj_diff_g" then " val=" ++ fmtV (dlocpProjDiff 2 D DN zf)
                 else if fn == "eval_proj_multipliers" then " val=" ++ fmtV (dlocpProjMult 2 D DN a zf)
                 else ""
               | _, _ => ""
             (some s', s!"{o} ep={ep}{val}")
           else (st, "bad-wrapper")
         | none => (st, "parse-error"))
      | _, _ => (st, "bad-op")
  | [] => (st, "bad-op")

def main : IO Unit := mainLoop c20Step none
