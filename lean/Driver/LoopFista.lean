/-
  Trace-replay driver for the FISTA loop model (`Alpaqa/Model/Fista.lean`).

  Input line:  `<op line of harness/solvers_fista.cpp> || <EV sections recorded from the real run>`.
  The recorded events are the *oracle answers* (problem evaluations, the tick at which `stop()` was
  called); everything else — step sizes, the momentum parameter, extrapolated points, the
  backtracking decisions, exit status, written-back x / y / err_z, statistics, every field handed
  to the progress callback — is computed by the model and printed, and must equal what the real
  solver produced, bit for bit.
-/
import Driver.ReplayCommon
import Alpaqa.Model.Fista

open Alpaqa Alpaqa.Proto Alpaqa.Gen Alpaqa.Replay

def mkProblemF (t : Table) (n m : Nat) : Fista.Problem Float where
  psiGradPsi x := match lookup t "psigradpsi" [vTok x] with
    | some [a, b, c] => (fltOfToks a, vecOfToks b, vecOfToks c)
    | _ => (0.0/0.0, nanV n, nanV m)
  psi x := match lookup t "psi" [vTok x] with
    | some [a, b] => (fltOfToks a, vecOfToks b)
    | _ => (0.0/0.0, nanV m)
  gradPsi x := match lookup t "gradpsi" [vTok x] with
    | some [a] => vecOfToks a
    | _ => nanV n
  gradL x y := match lookup t "gradL" [vTok x, vTok y] with
    | some [a] => vecOfToks a
    | _ => nanV n
  prox g x gr := match lookup t "prox" [[fmtF g], vTok x, vTok gr] with
    | some [a, b, c] => (fltOfToks a, vecOfToks b, vecOfToks c)
    | _ => (0.0/0.0, nanV n, nanV n)

def statusStrF (s : SolverStatus) : String := (reprStr s).replace "Alpaqa.Gen.SolverStatus." ""

/-- `yhatValid`: ŷx̂ is written by `eval_ψx̂` only, which a fixed-Lipschitz run with a criterion
    that does not need ∇ψ(x̂) never calls before the callback (uninitialised storage in the C++;
    the harness prints `0` then). -/
def fmtCbF (yhatValid needGh : Bool) (c : Fista.Callback Float) : String :=
  let i := c.it
  let gh := if needGh then s!"1 {fmtV i.gradPsiHat}" else "0 0"
  let yh := if yhatValid then fmtV i.yhat else "0"
  s!"CB {c.k} {statusStrF c.status} {fmtV i.x} {fmtV i.p} {fmtF i.pTp} {fmtV i.xhat} {yh} " ++
  s!"{fmtF c.fbe} {fmtF i.psix} {fmtV i.gradPsi} {fmtF i.psixhat} {gh} {fmtF i.L} " ++
  s!"{fmtF i.gamma} {fmtF c.t} {fmtF c.eps}"

def runFista (kv : KV) (evs : List Ev) : String :=
  let n := kvNat kv "n"; let m := kvNat kv "m"
  let tbl := buildTable evs
  let P := mkProblemF tbl n m
  let crit := (PANOCStopCrit.all[kvNat kv "crit"]?).getD .ApproxKKT
  let eps0 := 10 * 2.220446049250313e-16
  let pr : Fista.Params Float := {
    L0 := kvFlt kv "L0" 0, lipEps := kvFlt kv "lipeps" 1e-6, lipDelta := kvFlt kv "lipdelta" 1e-12,
    LgammaFactor := kvFlt kv "Lgf" 0.95, maxIter := kvNat kv "maxiter" 100,
    Lmin := kvFlt kv "Lmin" 1e-5, Lmax := kvFlt kv "Lmax" 1e20, stopCrit := crit,
    maxNoProgress := kvNat kv "maxnp" 10, qubTol := kvFlt kv "qubtol" eps0,
    disableAcceleration := kvNat kv "noacc" != 0,
    alwaysOverwrite := kvNat kv "overwrite" 1 != 0, tolerance := kvFlt kv "tol" 1e-8 }
  let stopTick := match evs.find? (·.name == "stoptick") with
    | some e => (e.toks.head?.bind String.toNat?).getD 0
    | none => 0
  let stop := fun (t : Nat) => stopTick != 0 && t ≥ stopTick
  let oot := kvNat kv "oot" != 0
  let errz0 := List.replicate m (-12345.0)
  let x0 := kvVec kv "x0"; let y0 := kvVec kv "y0"; let sig := kvVec kv "Sig"
  let r := Fista.run P pr stop oot x0 y0 sig errz0 (nanV n) (0.0/0.0) (1.0/0.0)
  let s := r.stats
  let untouched := fmtV r.x == fmtV x0 && fmtV r.y == fmtV y0
  let sLine := s!"S {statusStrF s.status} {s.iterations} {fmtF s.eps} {s.stepsizeBacktracks} " ++
    s!"{fmtF s.finalGamma} {fmtF s.finalPsi} {fmtF s.finalH}"
  let oLine := s!"O {if untouched then 1 else 0} {fmtV r.x} {fmtV r.y} {fmtV r.errz}"
  let tLine := s!"T {r.ticks}"
  let needGh := Fista.needGradHat pr
  let yhatValid := !Fista.fixedLip pr || needGh
  let extra := if r.fuelOut then ["FUEL-EXHAUSTED"] else []
  String.intercalate " ; " ([sLine, oLine, tLine] ++ r.callbacks.map (fmtCbF yhatValid needGh) ++ extra)

def loopStepF (_ : Unit) (line : String) : Unit × String :=
  match parseLine line with
  | some (kv, evs) =>
    match kv.get? "solver" with
    | some "fista" => ((), runFista kv evs)
    | _ => ((), "bad-op")
  | none => ((), "parse-error")

def main : IO Unit := mainLoop loopStepF ()
