#!/usr/bin/env python3
"""Run registered checks against a seeded change (seeded/<id>/patch.diff).

  python3 checks/seed_eval.py <seed-id> [C03 C06 …]     (default: the seed's own property)
  python3 checks/seed_eval.py --all

The patch is applied to a scratch copy of /repo (so that concurrently running work is not
disturbed; `--in-repo` applies it to /repo itself with `git apply` and undoes it with
`git checkout -- .` afterwards, as the brief describes), the checks run with VERIF_REPO pointing
there, and the outcome is recorded in seeded/<id>/meta.json (`ran`, `detected_by`).
"""
import json
import os
import re
import shutil
import subprocess
import sys

V = os.path.dirname(os.path.dirname(os.path.abspath(__file__)))
SCRATCH = '/tmp/seed_eval_repo'


def run_seed(sid, props, in_repo=False):
    d = os.path.join(V, 'seeded', sid)
    meta = json.load(open(os.path.join(d, 'meta.json')))
    props = props or [meta['property']]
    patch = os.path.join(d, 'patch.diff')
    if in_repo:
        root = '/repo'
        subprocess.run(['git', '-C', root, 'apply', patch], check=True)
    else:
        if os.path.exists(SCRATCH):
            shutil.rmtree(SCRATCH)
        subprocess.run(['rsync', '-a', '--exclude', '_build', '--exclude', '.git', '/repo/', SCRATCH + '/'],
                       check=True)
        subprocess.run(['git', 'init', '-q'], cwd=SCRATCH)
        subprocess.run(['git', '-C', SCRATCH, 'apply', patch], check=True)
        root = SCRATCH
    results = []
    # evidence files must keep describing the unchanged tree: back them up
    backup = {}
    for p in props:
        ef = os.path.join(V, 'evidence', p + '.json')
        if os.path.exists(ef):
            backup[ef] = open(ef).read()
    # generated Lean files must keep describing the unchanged tree as well
    import glob
    for gf in glob.glob(os.path.join(V, 'lean', 'Alpaqa', 'Gen', '*.lean')):
        backup[gf] = open(gf).read()
    try:
        for p in props:
            script = os.path.join(V, 'checks', p.lower() + '.py')
            r = subprocess.run([sys.executable, script, '--tier', 'quick'], cwd=V, text=True,
                               stdout=subprocess.PIPE, stderr=subprocess.STDOUT,
                               env=dict(os.environ, VERIF_REPO=root))
            vio = [l for l in r.stdout.splitlines() if l.startswith('VIOLATION')]
            what = [l for l in r.stdout.splitlines() if 'monitor:' in l or 'BROKEN' in l or 'search:' in l][:4]
            results.append({'check': p, 'exit': r.returncode, 'violations': len(vio),
                            'with_failing_input': sum(1 for l in vio if 'no-failing-input-found' not in l),
                            'first_messages': [w[:240] for w in what]})
            print(p, 'exit', r.returncode, 'violations', len(vio))
            for w in what[:2]:
                print('   ', w[:200])
    finally:
        for ef, txt in backup.items():
            open(ef, 'w').write(txt)
        if in_repo:
            subprocess.run(['git', '-C', '/repo', 'checkout', '--', '.'], check=True)
        else:
            shutil.rmtree(SCRATCH, ignore_errors=True)
    meta['ran'] = results
    meta['detected_by'] = [r['check'] for r in results if r['exit'] != 0]
    json.dump(meta, open(os.path.join(d, 'meta.json'), 'w'), indent=1)
    # restore Gen files of the checks to the clean tree
    return results


if __name__ == '__main__':
    args = [a for a in sys.argv[1:] if not a.startswith('--')]
    in_repo = '--in-repo' in sys.argv
    if '--all' in sys.argv:
        for sid in sorted(os.listdir(os.path.join(V, 'seeded'))):
            if os.path.exists(os.path.join(V, 'seeded', sid, 'meta.json')):
                print('==', sid)
                run_seed(sid, None, in_repo)
    else:
        run_seed(args[0], args[1:], in_repo)
