#!/usr/bin/env python3
"""C10 — Limited-memory QR and Anderson acceleration match their least-squares definition.
See DESIGN.md §6 C10.

Op lines (stateful; one QR object with a save/restore stack, one Anderson object):
  new n m | add v | rem | scale f | reset | solve b tol x0 | push | pop
  anew n memory min_div_fac | ainit g r | acomp g r | areset | ascale f
QR dump  : K head tail hist reorth min_eig max_eig | fwd pairs | rev pairs | ring_next/prev table |
           get_R() | get_Q()
AA dump  : init n m_AA | G columns (ring order + tail) | r_last | QR dump
acomp out: x_aa | γ_LS[0..K) | AA dump

Monitors (AUDIT-2 #2 / #13).  Independent of the code under test: the column window A (own record of the op
lines), b, the thresholds (tol of the op line; Anderson: min_div_fac × OUR max |pivot| of the printed current R),
the condition number / exact rank of A (numpy SVD of A; exact rational elimination).  From the real code, because
the property is about them: Q, R, x, γ_LS, get_min_eig / get_max_eig.  Arithmetic is binary64 numpy with stated,
condition-number-free bounds (ORTH_BOUND, REPR_BOUND, ROW_BOUND, NE_BOUND = 1e-10 / 1e-9; observed maxima are in
the evidence); exact rationals are used for the rank, the Anderson affine combination and, on nearly dependent
windows (cond > 1e5), the normal-equation residual.  No monitor is gated by a condition estimate; the nearly
dependent class is reported under its own counters.  Exemptions (all counted): non-finite INPUT
(`exempt_nonfinite_input`, never generated here); negative threshold on a zero pivot (`exempt_negative_tol_zero_pivot`,
hypothesis `0 ≤ tol ∨ PivNZ` of history_solve_least_squares).  Skipped pivot on a nonzero column of Q: the deflated
statement (rows of the normal equations) is what is checked (`ls_deflated_statement_only`,
`zero_pivot_on_nonzero_column_of_Q`).  "R upper triangular": get_R() is a triangularView by construction and the raw
storage below the diagonal is stale by design, so nothing is tested there; what is tested is Q·get_R() = A.
get_min_eig / get_max_eig are compared with the extreme diagonal entries of the printed R after every operation.
REQUIRED lists the classes every run must exercise (else the tie is reported broken).  η and the
reorthogonalisation test are pinned only by the monitor on the class `neardep_angle` (one MGS pass leaves
‖QᵀQ − I‖ ≈ ε/angle ≥ 1e-8 > ORTH_BOUND; the theorems hold for any number of passes in exact arithmetic).

Mutants tried on a private copy (VERIF_REPO=/tmp/repo_c10), all reported (exit 1):
  r_succ `<`→`<=`; r_pred `m()-1`→`m()`; remove: `r_idx_start = r_succ(r_idx_end)` / start not advanced;
  add: `r_idx_end` not advanced; CircularIndexIterator ++ wraps to 1 / -- wraps to max     -> proofs
      (C10Basic / C10Add / C10Remove stop compiling on the regenerated Gen) + ring monitors + crash
  dropped / transposed `applyOnTheRight` on Q; inner loop starting at c instead of r_succ(c);
  `r(i) += s`→`r(i) = s` in the reorthogonalisation pass; scale_R `topRows(i)`                  -> shape check /
      proofs + correspondence + ‖QR−A‖ and normal-equation monitors
  back-substitution `-=`→`+=`; threshold `<`→`<=`                                             -> shape check /
      C10Solve proofs + correspondence + row-of-Rx=Qᵀb monitor
  Anderson α: `γ(i)−γ(0)`, `1−γ(0)`; `G.col(ring_head()) = g`; reset copy guard inverted; `std::max(n, memory)`
      -> C10Anderson / C10History proofs or shape check + correspondence + affine / alignment / size monitors
  (audit follow-up, on the patched add_column / solve_col, exit 1 each) `norm_q > 0`→`>=` / `<`; `<=`→`<` in solve_col;
  dropped `else q.setZero()`; `q.setOnes()`; `r(q_idx) = 1`; back-substitution sign; dropped applyOnTheRight
      -> C10Add / C10Solve proofs (regenerated lmqrAddNormalize / lmqrSolveSkip) or shape check + NaN / zero-pivot /
         ‖QR−A‖ / ‖QᵀQ−I‖ / row monitors

  (audit round 2, on the repaired eig bounds, exit 1 each) η = 0 / reorthogonalisation loop disabled -> ORTH_BOUND on
  neardep_angle; update_eig_bounds dropped from remove_column / scale_R, `max`→`min` or R(0, r_idx) in its loop, start
  value +inf, add_column `max`→`min`, threshold with get_min_eig() -> shape check / C10Eig proofs + eig / γ_LS monitors

The first ops of every run are ZERO_SCALE_OPS (scale_R(0); solves with tol > 0, = 0, < 0; dependent column followed by
remove_column) and STALE_EIG_OPS (Anderson on residuals scaled 10^-k; largest pivot leaving a bare QR; negative scale).
"""
import math
import os
import sys
from fractions import Fraction as Fr

try:
    import numpy as np
except ModuleNotFoundError:                     # the plain interpreter has no numpy: python3-vt does
    import shutil
    _vt = shutil.which('python3-vt')
    if _vt is None or os.environ.get('C10_REEXEC'):
        raise
    os.environ['C10_REEXEC'] = '1'
    os.execv(_vt, [_vt] + sys.argv)

sys.path.insert(0, os.path.dirname(os.path.abspath(__file__)))
import common as C
from common import f2h, h2f, vec2p

EPS = 2.0 ** -52
MDF = 1e2 * EPS                      # AndersonAccelParams::min_div_fac default
KEY_DEP = 'C10-add_column-dependent-column-division-by-zero-norm_q'
KEY_ZPIV = 'C10-solve_col-exact-zero-pivot-division-tol0'
KEY_EIG = 'C10-stale-min-max-eig-anderson-threshold'
STATS = {'exhaustive_nodes': 0}        # counters / maxima of the monitors and generators (evidence: monitor_stats)


# ---------------------------------------------------------------- generation

def col(rng, n, style):
    if style == 'int':
        v = [float(rng.randint(-4, 4)) for _ in range(n)]
        if all(x == 0 for x in v):
            v[rng.randrange(n)] = 1.0
        return v
    if style == 'dyadic':
        return [rng.randint(-32, 32) / 8.0 for _ in range(n)]
    if style == 'wide':
        return [rng.gauss(0, 1) * 10 ** rng.uniform(-3, 3) for _ in range(n)]
    return [rng.gauss(0, 1) for _ in range(n)]


def indep_col(rng, n, win):
    """A column that keeps the window well conditioned (rejection sampling on the angle)."""
    for _ in range(30):
        v = col(rng, n, rng.choice(['int', 'gauss', 'gauss', 'dyadic']))
        if not win or len(win) >= n:
            return v
        A = np.array(win, dtype=float).T
        q, _ = np.linalg.qr(A)
        vv = np.array(v)
        res = vv - q @ (q.T @ vv)
        if np.linalg.norm(res) > 0.2 * np.linalg.norm(vv) > 0:
            return v
    return v


def scale_val(rng):
    return rng.choice([0.5, 2.0, 0.25, 1.5, -1.0, 3.0, rng.uniform(0.1, 4.0)])


def solve_line(rng, n, m, tolkind=None):
    b = col(rng, n, rng.choice(['int', 'gauss']))
    tol = {None: rng.choice([0.0, 0.0, 1e-12, 1e-3, 0.75]), 'zero': 0.0}[tolkind]
    return f'solve {vec2p(b)} {f2h(tol)} {vec2p([7.0] * m)}'


def exhaustive(rng, L, caps, dims, alphabet='ARXS'):
    """Every word of length ≤ L over `alphabet` ⊆ {Add, Remove, reset (X), Scale} that stays within
    capacity, for the given capacities and dimensions, as one DFS with push/pop (each trie node
    executed once); a solve after every node with a non-empty window."""
    ops = []
    for m in caps:
        for n in dims:
            ops.append(f'new {n} {m}')

            def dfs(depth, K, win):
                if depth == L:
                    return
                for letter in alphabet:
                    if letter == 'A' and K >= m:
                        continue
                    if letter == 'R' and K == 0:
                        continue
                    ops.append('push')
                    if letter == 'A':
                        v = indep_col(rng, n, win)
                        ops.append('add ' + vec2p(v))
                        K2, win2 = K + 1, win + [v]
                    elif letter == 'R':
                        ops.append('rem')
                        K2, win2 = K - 1, win[1:]
                    elif letter == 'X':
                        ops.append('reset')
                        K2, win2 = 0, []
                    else:
                        f = scale_val(rng)
                        ops.append('scale ' + f2h(f))
                        K2, win2 = K, [[f * x for x in c] for c in win]
                    STATS['exhaustive_nodes'] += 1
                    if K2 > 0 and letter != 'X':
                        ops.append(solve_line(rng, n, m))
                    dfs(depth + 1, K2, win2)
                    ops.append('pop')
            dfs(0, 0, [])
    return ops


def random_qr(rng, count):
    ops = []
    for _ in range(count):
        n = rng.randint(1, 6)
        m = rng.randint(1, 5)
        ops.append(f'new {n} {m}')
        K, win = 0, []
        style = rng.choice(['good', 'good', 'good', 'neardep', 'wide', 'degenerate'])
        for _ in range(rng.randint(3, 30)):
            c = rng.random()
            cap = m if style == 'degenerate' else min(m, n)
            if c < 0.45 and K < cap:
                if style == 'good' or not win:
                    v = indep_col(rng, n, win)
                elif style == 'wide':
                    v = col(rng, n, 'wide')
                elif style == 'neardep':
                    w = [rng.gauss(0, 1) for _ in win]
                    e = 10 ** rng.uniform(-12, -2)
                    v = [sum(wi * cw[j] for wi, cw in zip(w, win)) + e * rng.gauss(0, 1) for j in range(n)]
                else:
                    k = rng.random()
                    if k < 0.3:
                        v = [0.0] * n
                    elif k < 0.6:
                        v = list(rng.choice(win))
                    else:
                        v = indep_col(rng, n, win)
                ops.append('add ' + vec2p(v))
                K += 1
                win.append(v)
            elif c < 0.7 and K > 0:
                ops.append('rem')
                K -= 1
                win.pop(0)
            elif c < 0.78:
                f = scale_val(rng)
                ops.append('scale ' + f2h(f))
                win = [[f * x for x in cw] for cw in win]
            elif c < 0.83:
                ops.append('reset')
                K, win = 0, []
            elif K > 0:
                ops.append(solve_line(rng, n, m))
    return ops


def neardep_angle(rng, count):
    """Nearly parallel columns: v₂ = c·v₁ + δ·w with δ = 1e-8 … 1e-12 (angle ≈ δ).  One Gram-Schmidt pass leaves
    q₂ᵀq₁ ≈ ε/δ = 1e-8 … 1e-4; the reorthogonalisation pass (`norm_q < η·norm_v`, η = 0.7) brings it back to ≈ ε.
    This is the class that distinguishes the reorthogonalisation loop from a single pass (monitor: ORTH_BOUND)."""
    ops = []
    for _ in range(count):
        n = rng.randint(2, 6)
        m = rng.randint(2, min(n, 4))
        ops.append(f'new {n} {m}')
        win = []
        for step in range(rng.randint(m, m + 4)):
            if len(win) == m:
                ops.append('rem'); win.pop(0)
            if not win:
                v = [rng.gauss(0, 1) for _ in range(n)]
            else:
                base = rng.choice(win)
                c = rng.choice([1.0, -1.0, 0.5, 2.0, rng.uniform(0.3, 3.0)])
                dl = 10 ** rng.uniform(-12, -8)
                v = [c * base[j] + dl * rng.gauss(0, 1) for j in range(n)]
            ops.append('add ' + vec2p(v)); win.append(v)
            STATS['gen_neardep_angle_adds'] = STATS.get('gen_neardep_angle_adds', 0) + (1 if len(win) > 1 else 0)
            if rng.random() < 0.5:
                ops.append(solve_line(rng, n, m))
    return ops


def converging_aa(rng, count):
    """Anderson on a linearly converging fixed-point iteration WITHOUT noise: the residuals (and the pivots of R)
    shrink by a constant factor per step over many orders of magnitude, while the window stays well conditioned —
    the situation of a slowly converging solver.  A threshold relative to a pivot that left the window long ago
    (stale max_eig) zeroes γ_LS here."""
    ops = []
    for _ in range(count):
        n = rng.randint(2, 5)
        mem = rng.choice([1, 2, 2, 3])
        ops.append(f'anew {n} {mem} {f2h(rng.choice([MDF, MDF, 1e-10]))}')
        rate = rng.choice([0.1, 0.1, 0.03, 0.3])
        dirs = [[rng.gauss(0, 1) for _ in range(n)] for _ in range(n + 1)]
        gfix = [rng.gauss(0, 1) for _ in range(n)]
        for k in range(rng.randint(18, 26)):
            r = [rate ** k * v for v in dirs[k % (n + 1)]]
            g = [a + b for a, b in zip(gfix, r)]
            ops.append(('ainit ' if k == 0 else 'acomp ') + f'{vec2p(g)} {vec2p(r)}')
            STATS['gen_converging_aa_steps'] = STATS.get('gen_converging_aa_steps', 0) + 1
    return ops


def random_aa(rng, count):
    """Anderson on fixed-point-like data: g(x) = Mx + c contractions plus noise, restarts, rescalings,
    memory above and below n; a few degenerate runs (repeated residual → dependent column)."""
    ops = []
    for _ in range(count):
        n = rng.randint(1, 6)
        mem = rng.choice([1, 1, 2, 3, 4, 5, 8, 10])
        mdf = rng.choice([MDF, MDF, MDF, 1e-3, 0.0])
        ops.append(f'anew {n} {mem} {f2h(mdf)}')
        if rng.random() < 0.05:
            ops.append('acomp ' + vec2p([1.0] * n) + ' ' + vec2p([1.0] * n))     # before initialize: throws
        degenerate = rng.random() < 0.08
        M = np.array([[rng.gauss(0, 0.4) for _ in range(n)] for _ in range(n)])
        c = np.array([rng.gauss(0, 1) for _ in range(n)])
        x = np.array([rng.gauss(0, 1) for _ in range(n)])

        def step(x):
            g = M @ x + c + np.array([rng.gauss(0, 1e-3) for _ in range(n)])
            return g, g - x
        g, r = step(x)
        ops.append(f'ainit {vec2p(g)} {vec2p(r)}')
        x = g
        for _ in range(rng.randint(1, 18)):
            k = rng.random()
            if k < 0.8:
                if degenerate and rng.random() < 0.3:
                    g2, r2 = step(x)
                    r2 = r                                  # same residual twice → zero column
                else:
                    g2, r2 = step(x)
                ops.append(f'acomp {vec2p(g2)} {vec2p(r2)}')
                g, r, x = g2, r2, g2
            elif k < 0.87:
                ops.append('areset')
            elif k < 0.93:
                # re-initialisation of a used accelerator (no resize): a new run must start from the fresh g_0 / r_0
                # whatever the ring position of the previous run was
                g, r = step(x)
                ops.append(f'ainit {vec2p(g)} {vec2p(r)}')
                x = g
                STATS['gen_aa_reinit'] = STATS.get('gen_aa_reinit', 0) + 1
            else:
                ops.append('ascale ' + f2h(rng.choice([0.5, 2.0, 1.25, 0.75])))
    return ops


# the excluded point of `history_solve_least_squares` (`0 < tol ∨ PivNZ s`): scale_R(0) makes every pivot
# exactly zero; with tol = 0 nothing is skipped (known finding KEY_ZPIV), with tol > 0 everything is (x = 0)
ZERO_SCALE_OPS = [
    'new 2 2', 'add ' + vec2p([1.0, 0.0]), 'add ' + vec2p([1.0, 1.0]), 'scale ' + f2h(0.0),
    'solve ' + vec2p([1.0, 1.0]) + ' ' + f2h(1e-12) + ' ' + vec2p([7.0, 7.0]),
    'solve ' + vec2p([1.0, 1.0]) + ' ' + f2h(0.0) + ' ' + vec2p([7.0, 7.0]),
    # negative threshold on zero pivots: the excluded point `0 ≤ tol ∨ PivNZ s` (exemption counted)
    'solve ' + vec2p([1.0, 1.0]) + ' ' + f2h(-1.0) + ' ' + vec2p([7.0, 7.0]),
    # dependent column followed by remove_column: unit column of Q with an exactly zero pivot (deflated statement)
    'new 2 3', 'add ' + vec2p([1.0, 0.0]), 'add ' + vec2p([0.0, 0.0]), 'add ' + vec2p([1.0, 1.0]), 'rem',
    'solve ' + vec2p([1.0, 3.0]) + ' ' + f2h(0.0) + ' ' + vec2p([7.0, 7.0, 7.0]),
]


def _stale_eig_ops():
    """The auditor's scenario (AUDIT-2 #2): memory 2, n = 3, residuals scaled 10^-k, window condition ≈ 10."""
    base = [[1.0, 0.3, -0.2], [0.4, -1.0, 0.5], [-0.3, 0.6, 1.0]]
    ops = [f'anew 3 2 {f2h(MDF)}']
    for k in range(20):
        r = [10.0 ** (-k) * v for v in base[k % 3]]
        g = [1.0 + 0.1 * k, 2.0 - 0.1 * k, 0.5 * k]
        ops.append(('ainit ' if k == 0 else 'acomp ') + f'{vec2p(g)} {vec2p(r)}')
    # the same bounds on a bare LimitedMemoryQR: the largest pivot leaves the window / a negative rescaling
    ops += ['new 2 2', 'add ' + vec2p([8.0, 0.0]), 'add ' + vec2p([0.0, 0.5]), 'rem', 'add ' + vec2p([0.25, 0.0]),
            'scale ' + f2h(-2.0)]
    return ops


STALE_EIG_OPS = _stale_eig_ops()


def gen_ops(rng, n):
    """n = size knob: (exhaustive length over all four letters, exhaustive length over {add, remove},
    #random QR sequences, #random Anderson sequences)."""
    L, L2, nq, na = n
    ops = list(ZERO_SCALE_OPS) + list(STALE_EIG_OPS)
    ops += exhaustive(rng, L, (1, 2, 3), (1, 2, 3, 4))
    if L2 > L:          # deeper, over {add, remove} only (ring wrap-around at every phase)
        ops += exhaustive(rng, L2, (1, 2, 3), (1, 2, 3, 4), 'AR')
    ops += random_qr(rng, nq)
    ops += neardep_angle(rng, max(20, nq // 4))
    ops += random_aa(rng, na)
    ops += converging_aa(rng, max(10, na // 10))
    return ops


# ---------------------------------------------------------------- parsing

class T:
    def __init__(self, line):
        self.t = line.split()
        self.p = 0

    def tok(self):
        self.p += 1
        return self.t[self.p - 1]

    def nat(self):
        return int(self.tok())

    def flt(self):
        return h2f(self.tok())

    def vec(self):
        n = self.nat()
        return [self.flt() for _ in range(n)]

    def bar(self):
        if self.tok() != '|':
            raise ValueError('expected |')

    def pairs(self):
        n = self.nat()
        return [(self.nat(), self.nat()) for _ in range(n)]


def parse_qr_dump(o):
    d = {}
    d['K'] = o.nat(); d['head'] = o.nat(); d['tail'] = o.nat(); d['hist'] = o.nat()
    d['reorth'] = o.nat(); d['min'] = o.flt(); d['max'] = o.flt()
    o.bar(); d['fwd'] = o.pairs(); o.bar(); d['rev'] = o.pairs()
    o.bar(); k = o.nat(); d['nextprev'] = [o.nat() for _ in range(k)]
    o.bar(); d['R'] = o.vec(); o.bar(); d['Q'] = o.vec()
    return d


def finite(xs):
    return all(math.isfinite(x) for x in xs)


# ---------------------------------------------------------------- QR monitors
#
# What is independent of the code under test: the window A (own record of the op lines), b, the thresholds
# (`tol` of the op line; Anderson: min_div_fac × OUR max |pivot|), the condition number and the exact rank of A
# (numpy SVD of A / exact rational elimination of A).  What necessarily comes from the real code: Q, R, x, γ_LS —
# the outputs the property is about.  Arithmetic: binary64 numpy with the stated bounds; exact rationals for
# the rank, for the Anderson affine combination and — on nearly dependent windows, where binary64 evaluation of
# Aᵀ(Ax − b) cancels — for the normal-equation residual.  No monitor is gated by a condition estimate any more:
# the nearly dependent class is reported under its own counters with the same κ-free bounds.

ORTH_BOUND = 1e-10          # ‖QᵀQ − diag(alive)‖_max, every window (two MGS passes give ~1e-16; one pass ε/angle)
REPR_BOUND = 1e-10          # ‖(QR − A)[:, k]‖ ≤ REPR_BOUND·‖A[:, k]‖
ROW_BOUND = 1e-10           # |q_rᵀ(A x − b)| ≤ ROW_BOUND·‖q_r‖·(‖|A||x|‖ + ‖b‖)
NE_BOUND = 1e-9             # ‖Aᵀ(Ax − b)‖ ≤ NE_BOUND·‖A‖_F(‖A‖_F‖x‖ + ‖b‖): backward-error form, no condition number
ILL = 1e5                   # class boundary only (reporting / exact-rational evaluation), never an exemption


def bump(k, v=1):
    STATS[k] = STATS.get(k, 0) + v


def peak(k, v):
    if v > STATS.get(k, 0.0):
        STATS[k] = float(v)


def check_ring(d, K, head, m):
    if d['K'] != K or d['hist'] != K:
        return f'num_columns/current_history = {d["K"]}/{d["hist"]}, window has {K} columns'
    if d['head'] != head:
        return f'ring_head = {d["head"]}, expected {head}'
    if d['tail'] != (head + K) % m:
        return f'ring_tail = {d["tail"]} ≠ (head + K) mod m = {(head + K) % m}'
    exp = [(j, (head + j) % m) for j in range(K)]
    if d['fwd'] != exp:
        return f'ring_iter yields {d["fwd"]}, expected logical j ↦ (head+j) mod m = {exp}'
    if d['rev'] != exp[::-1]:
        return f'ring_reverse_iter yields {d["rev"]}, expected the reverse of ring_iter {exp[::-1]}'
    np_exp = [(i + 1) % m for i in range(m)] + [(i - 1) % m for i in range(m)]
    if d['nextprev'] != np_exp:
        return f'ring_next / ring_prev = {d["nextprev"]}, expected ±1 mod m = {np_exp}'
    return None


def window_cond(A):
    """2-norm condition number of the column-normalised window (inf if rank deficient) — from OUR data."""
    if A.shape[1] == 0:
        return 1.0
    nrm = np.linalg.norm(A, axis=0)
    if np.any(nrm == 0) or A.shape[1] > A.shape[0] or not np.all(np.isfinite(A)):
        return math.inf
    sv = np.linalg.svd(A / nrm, compute_uv=False)
    return math.inf if sv[-1] == 0 else sv[0] / sv[-1]


def exact_rank(cols):
    """Rank of the window over ℚ (the doubles are rationals): fraction-free Gaussian elimination."""
    rows = [[Fr(c[j]) for c in cols] for j in range(len(cols[0]))] if cols else []
    rank, K = 0, len(cols)
    for k in range(K):
        piv = next((i for i in range(rank, len(rows)) if rows[i][k] != 0), None)
        if piv is None:
            continue
        rows[rank], rows[piv] = rows[piv], rows[rank]
        pr = rows[rank]
        for i in range(rank + 1, len(rows)):
            if rows[i][k] != 0:
                f = rows[i][k] / pr[k]
                rows[i] = [a - f * b for a, b in zip(rows[i], pr)]
        rank += 1
    return rank


def mats(d, n):
    K = d['K']
    R = np.array(d['R']).reshape(K, K).T        # dumped column-major
    Q = np.array(d['Q']).reshape(K, n).T
    return R, Q


def check_eig(d, n):
    """get_min_eig() / get_max_eig() ("minimum / maximum eigenvalue of R") against the extreme diagonal entries
    of the CURRENT R, taken from the printed R.  Returns a (message, key) pair: known finding KEY_EIG."""
    K = d['K']
    R, _ = mats(d, n)
    diag = [R[i, i] for i in range(K)]
    own_min = min(diag) if K else math.inf
    own_max = max(diag) if K else -math.inf
    bump('eig_bounds_compared')
    if f2h(d['min']) == f2h(own_min) and f2h(d['max']) == f2h(own_max):
        return None
    if d['min'] == own_min and d['max'] == own_max:          # ±0
        return None
    bump('eig_bounds_stale')
    return (f'get_min_eig() / get_max_eig() = {d["min"]!r} / {d["max"]!r}, but the diagonal of the current R is '
            f'{diag} (extremes {own_min!r} / {own_max!r}): the bounds are not those of the current window', KEY_EIG)


def check_factorisation(d, win, n, st, label=''):
    """‖QR − A‖ per column; Gram matrix of Q = diag(alive) for EVERY window (alive = nonzero column of Q); a zero
    column of Q only on an exactly rank-deficient window, with a zero row of R."""
    K = d['K']
    if K == 0:
        st['cond'] = 1.0
        return None
    R, Q = mats(d, n)
    A = np.array(win, dtype=float).T
    QR = Q @ R
    for k in range(K):
        na = np.linalg.norm(A[:, k])
        err = np.linalg.norm(QR[:, k] - A[:, k])
        peak('max_qr_err', err / na if na > 0 else err)
        if not err <= REPR_BOUND * na + 1e-290:
            return (f'‖(QR − A)[:, {k}]‖ = {err:.3e} > {REPR_BOUND}·‖A[:, {k}]‖ = {REPR_BOUND * na:.3e} '
                    f'(the factorisation does not represent the window)')
    cond = window_cond(A)
    st['cond'] = cond
    alive = [bool(Q[:, r].any()) for r in range(K)]
    ndead = alive.count(False)
    if ndead:
        bump('windows_with_zero_column_of_Q')
        rk = exact_rank(win)
        if ndead > K - rk:
            return (f'{ndead} zero column(s) in Q but the window has exact rank {rk} of {K}: an independent column was '
                    f'dropped')
        for r in range(K):
            if not alive[r] and R[r, :].any():
                return f'column {r} of Q is zero but row {r} of R is {list(R[r, :])} (not zero)'
    E = np.abs(Q.T @ Q - np.diag([1.0 if a else 0.0 for a in alive])).max()
    cls = 'wellcond' if cond <= ILL else 'neardep'
    bump(f'orth_checked_{cls}')
    peak(f'max_orth_err_{cls}', E)
    if not E <= ORTH_BOUND:
        return (f'‖QᵀQ − I‖_max = {E:.3e} > {ORTH_BOUND} (window condition number {cond:.3g}, '
                f'{st.get("reorth_note", "")}reorth_count = {d["reorth"]})')
    return None


def normal_equations(win, b, x, cond, what, unique=True):
    """x minimises ‖A x − b‖ ⇔ Aᵀ(A x − b) = 0.  Backward-error bound without the condition number; evaluated in
    exact rationals on nearly dependent windows (binary64 evaluation cancels there)."""
    K = len(win)
    A = np.array(win, dtype=float).T
    xs = np.array(x[:K]); bb = np.array(b)
    aF = np.linalg.norm(A)
    scale = aF * (aF * np.linalg.norm(xs) + np.linalg.norm(bb))
    if cond <= ILL:
        ne = np.linalg.norm(A.T @ (A @ xs - bb))
        cls = 'wellcond'
    else:
        n = len(b)
        res = [sum(Fr(win[k][j]) * Fr(x[k]) for k in range(K)) - Fr(b[j]) for j in range(n)]
        gvec = [sum(Fr(win[k][j]) * res[j] for j in range(n)) for k in range(K)]
        ne = math.sqrt(float(sum(v * v for v in gvec)))
        cls = 'neardep_exact'
    bump(f'ls_checked_{cls}')
    if scale > 0:
        peak(f'max_normal_eq_{cls}', ne / scale)
    if not ne <= NE_BOUND * scale + 1e-290:
        return (f'{what}: normal-equation residual ‖Aᵀ(Ax − b)‖ = {ne:.3e} > {NE_BOUND}·‖A‖(‖A‖‖x‖+‖b‖) = '
                f'{NE_BOUND * scale:.3e} (window condition number {cond:.3g}): not a least-squares minimiser')
    if cond <= ILL and unique:
        xl, *_ = np.linalg.lstsq(A, bb, rcond=None)
        a2 = np.linalg.norm(A, 2)
        bump('ls_compared_with_lstsq')
        # forward error of a backward-stable least-squares solve: ≲ ε·(κ₂ + κ₂²·tanθ) with the TRUE κ₂(A) — the
        # column-normalised `cond` under-estimates it on badly scaled windows
        k2 = max(float(np.linalg.cond(A)), cond)
        if not np.linalg.norm(xs - xl) <= 1e-9 * k2 * k2 * (np.linalg.norm(xl) + np.linalg.norm(bb) / a2) + 1e-290:
            return f'{what}: x = {xs} differs from the least-squares solution {xl} (cond {cond:.3g})'
    return None


def solve_statement(d, n, win, b, x, skipped, what):
    """The statement of `history_solve_least_squares` on the real outputs, for the skipped set `skipped`:
    x_r = 0 on it; q_rᵀ(A x − b) = 0 off it (A, b: our data); least-squares minimiser of ‖A x − b‖ when every
    skipped pivot belongs to a zero column of Q (`history_solve_least_squares_dead`), in particular when nothing is
    skipped.  Returns (message | None, rows_failed_on): the rows whose equation failed (for attribution)."""
    K = d['K']
    R, Q = mats(d, n)
    A = np.array(win, dtype=float).T
    xs = np.array(x[:K]); bb = np.array(b)
    for r in skipped:
        if x[r] != 0.0:
            return f'{what}: pivot |R[{r},{r}]| = {abs(R[r, r])!r} is not above the threshold but x[{r}] = {x[r]!r} ≠ 0', []
    res = A @ xs - bb
    mag_all = np.linalg.norm(np.abs(A) @ np.abs(xs)) + np.linalg.norm(bb)
    failed = []
    for r in range(K):
        if r in skipped:
            continue
        lhs = float(Q[:, r] @ res)
        mag = float(np.linalg.norm(Q[:, r]) * mag_all)
        bump('row_equations_checked')
        if not abs(lhs) <= ROW_BOUND * mag + 1e-290:
            failed.append((r, lhs, mag))
    if failed:
        r, lhs, mag = failed[0]
        return (f'{what}: row {r} of the normal equations violated: q_{r}ᵀ(A x − b) = {lhs!r} '
                f'(bound {ROW_BOUND * mag:.3e}); x = {list(xs)}'), [f[0] for f in failed]
    cond = window_cond(A)
    if not skipped:
        return normal_equations(win, b, x, cond, what), []
    dead = all(not Q[:, r].any() and not R[r, :].any() for r in skipped)
    if dead and len(skipped) < K:
        keep = [r for r in range(K) if r not in skipped]
        bump('ls_only_zero_columns_skipped')
        return normal_equations(win, b, x, window_cond(A[:, keep]), what + ' (only zero columns of Q skipped)',
                                unique=False), []
    # deflated statement only: the rows above are all of it
    bump('ls_deflated_statement_only')
    if any(R[r, r] == 0.0 and Q[:, r].any() for r in skipped):
        bump('zero_pivot_on_nonzero_column_of_Q')     # dependent column followed by remove_column
    return None, []


def new_col_dependent(win, v):
    """Is the window *with* the column being added numerically rank deficient?"""
    M = np.array(list(win) + [v], dtype=float).T
    nrm = np.linalg.norm(M, axis=0)
    if np.any(nrm == 0) or M.shape[1] > M.shape[0]:
        return True
    sv = np.linalg.svd(M / nrm, compute_uv=False)
    return bool(sv[-1] <= 1e-13 * sv[0] * M.shape[1])


def qr_monitor(kind, t, o, S):
    """S: dict with n, m, win (list of columns), head; returns violation or None."""
    n, m = S['n'], S['m']
    if kind == 'solve':
        b = t.vec(); tol = t.flt(); x0 = t.vec()
        x = o.vec()
        K = len(S['win'])
        if len(x) != m:
            return 'solve output size'
        if any(x[i] != x0[i] for i in range(K, m)):
            return f'solve_col wrote beyond the first {K} entries'
        d = S['last']
        R, Q = mats(d, n)
        skipped = [r for r in range(K) if abs(R[r, r]) <= tol]
        if not finite(x[:K]):
            if S.get('nonfinite_input'):
                bump('exempt_nonfinite_input')
                return None
            if tol < 0 and any(R[r, r] == 0.0 for r in range(K)):
                # hypothesis `0 ≤ tol ∨ PivNZ s` of history_solve_least_squares: a negative threshold skips nothing
                bump('exempt_negative_tol_zero_pivot')
                return None
            if any(R[r, r] == 0.0 for r in range(K) if r not in skipped):
                return (f'solve_col(b, x, tol = {tol!r}) divides by an exactly zero pivot: x = {x[:K]}', KEY_ZPIV)
            return f'solve_col returned non-finite entries {x[:K]} on finite data'
        bump('solve_checked')
        if skipped:
            bump('solve_thresholded')
        msg, _ = solve_statement(d, n, S['win'], b, x, skipped, f'solve_col(tol = {tol!r})')
        return msg

    # state-changing ops ------------------------------------------------------------------
    added = None
    if kind == 'new':
        S['win'], S['head'], S['nonfinite_input'] = [], 0, False
    elif kind == 'add':
        added = t.vec()
        if not finite(added):
            S['nonfinite_input'] = True
        S['dep'] = new_col_dependent(S['win'], added) if finite(added) else True
        S['win'] = S['win'] + [added]
    elif kind == 'rem':
        S['win'] = S['win'][1:]
        S['head'] = (S['head'] + 1) % m
    elif kind == 'scale':
        f = t.flt()
        if not math.isfinite(f):
            S['nonfinite_input'] = True
        S['win'] = [[f * x for x in c] for c in S['win']]
    elif kind == 'reset':
        S['win'], S['head'], S['nonfinite_input'] = [], 0, False
    d = parse_qr_dump(o)
    S['last'] = d
    r = check_ring(d, len(S['win']), S['head'], m)
    if r:
        return r
    if S.get('nonfinite_input'):
        bump('exempt_nonfinite_input')
        return None
    if not (finite(d['R']) and finite(d['Q'])):
        if kind == 'add' and S.get('dep'):
            return (f'add_column of a column in the span of the current window (here {added}) divides by '
                    f'norm_q = 0: Q/R contain NaN and every later result is NaN until reset()', KEY_DEP)
        return f'non-finite entries in Q/R after {kind} on finite data'
    if kind == 'add' and S.get('dep'):
        bump('dependent_adds')
    e = check_factorisation(d, S['win'], n, S)
    if e:
        return e
    return check_eig(d, n)


# ---------------------------------------------------------------- Anderson monitors

def aa_monitor(kind, t, o, st):
    Sa = st.get('aa')
    if kind == 'anew':
        n = t.nat(); mem = t.nat(); mdf = t.flt()
        Sa = st['aa'] = {'n': n, 'mem': mem, 'mdf': mdf, 'init': False, 'g': [], 'dr': [], 'rl': None,
                         'nonfinite_input': False, 'head': 0}
    if Sa is None:
        return None if o.t == ['no-object'] else 'operation on a missing object did not say so'
    n, mem = Sa['n'], Sa['mem']
    mAA = min(n, mem)
    if kind == 'acomp' and not Sa['init']:
        return None if o.t == ['exception'] else 'compute() before initialize() did not throw'
    if o.t == ['exception']:
        return 'unexpected exception'
    x = gam = None
    if kind == 'acomp':
        g = t.vec(); r = t.vec()
        x = o.vec(); o.bar(); gam = o.vec(); o.bar()
    init = o.nat(); dn = o.nat(); dm = o.nat(); o.bar()
    Gd = o.vec(); o.bar(); rl = o.vec(); o.bar()
    d = parse_qr_dump(o)
    if dn != n or dm != mAA:
        return f'AndersonAccel sizes (n, m_AA) = ({dn}, {dm}), expected ({n}, min(n, memory) = {mAA})'
    if kind == 'anew':
        return None if init == 0 and d['K'] == 0 else 'fresh accelerator is initialised / non-empty'
    if kind == 'ainit':
        g = t.vec(); r = t.vec()
        Sa.update(init=True, g=[g], dr=[], rl=r, head=0, nonfinite_input=not (finite(g) and finite(r)))
    elif kind == 'areset':
        if not Sa['init']:
            return None
        Sa.update(g=Sa['g'][-1:], dr=[], head=0)
        Sa['nonfinite_input'] = not (finite(Sa['g'][-1]) and finite(Sa['rl']))
    elif kind == 'ascale':
        f = t.flt()
        if not math.isfinite(f):
            Sa['nonfinite_input'] = True
        Sa['dr'] = [[f * v for v in c] for c in Sa['dr']]
    elif kind == 'acomp':
        if not (finite(g) and finite(r)):
            Sa['nonfinite_input'] = True
        newcol = [a - b for a, b in zip(r, Sa['rl'])]
        if len(Sa['dr']) == mAA:
            Sa['dr'] = Sa['dr'][1:]
            Sa['g'] = Sa['g'][1:]
            Sa['head'] = (Sa['head'] + 1) % mAA
        Sa['dep'] = new_col_dependent(Sa['dr'], newcol) if finite(newcol) else True
        Sa['dr'] = Sa['dr'] + [newcol]
        Sa['g'] = Sa['g'] + [g]
        Sa['rl'] = r
    if not Sa['init']:
        return None
    K = len(Sa['dr'])
    rr = check_ring(d, K, Sa['head'], mAA)
    if rr:
        return 'Anderson QR ring: ' + rr
    # G ring aligned with the R ring: columns (ring order) then the tail column = newest g
    cols = [Gd[i * n:(i + 1) * n] for i in range(K + 1)]
    exp = [list(c) for c in Sa['g'][-(K + 1):]]
    if K == mAA and K > 0:
        exp[0] = exp[-1]            # full ring: tail slot = head slot, already overwritten by the newest g
    if len(cols) != len(exp) or any(f2h(a) != f2h(b) for c, e in zip(cols, exp) for a, b in zip(c, e)):
        return f'G ring not aligned with the R ring: stored {cols}, expected function values {exp}'
    if [f2h(v) for v in rl] != [f2h(v) for v in Sa['rl']]:
        return 'stored previous residual differs from the last residual passed in'
    if Sa['nonfinite_input'] or not all(finite(c) for c in Sa['dr']):
        bump('exempt_nonfinite_input')
        return None
    outs_finite = finite(d['R']) and finite(d['Q']) and (kind != 'acomp' or (finite(x) and finite(gam)))
    if not outs_finite:
        if kind == 'acomp' and Sa.get('dep') and not (finite(d['R']) and finite(d['Q'])):
            return (f'AndersonAccel::compute with a residual difference in the span of the stored ones '
                    f'(here rₖ − rₗₐₛₜ = {newcol}) divides by norm_q = 0 in add_column: xₖ_aa is NaN and stays NaN '
                    f'until reset()', KEY_DEP)
        if kind == 'acomp' and Sa['mdf'] < 0:
            bump('exempt_negative_tol_zero_pivot')      # hypothesis `0 ≤ mdf` of anderson_gamma_least_squares_every
            return None
        return (f'non-finite output of AndersonAccel::{ {"acomp": "compute", "ascale": "scale_R", "areset": "reset", "ainit": "initialize"}[kind] } '
                f'on finite data: x_aa = {x}, γ_LS = {gam}')
    if kind != 'acomp':
        e = check_factorisation(d, Sa['dr'], n, Sa) if K else None
        return ('Anderson QR: ' + e) if e else check_eig(d, n)
    # ---- compute ----
    if len(gam) != K:
        return 'γ_LS size'
    bump('aa_checked')
    # affine combination in exact rationals
    G = Sa['g'][-(K + 1):]
    gq = [Fr(v) for v in gam]
    al = [gq[0]] + [gq[i] - gq[i - 1] for i in range(1, K)] + [1 - gq[K - 1]]
    if sum(al) != 1:
        return 'internal: telescoping'
    for j in range(n):
        ex = sum(al[i] * Fr(G[i][j]) for i in range(K + 1))
        mag = sum((abs(gq[i]) + (abs(gq[i - 1]) if i else 0)) * abs(Fr(G[i][j])) for i in range(K)) + \
            (1 + abs(gq[K - 1])) * abs(Fr(G[K][j]))
        if abs(Fr(x[j]) - ex) > 4 * (K + 3) * EPS * float(mag) + 1e-300:
            return (f'xₖ_aa[{j}] = {x[j]!r} is not Σ αᵢ gᵢ = {float(ex)!r} with α from γ_LS = {gam} '
                    f'(Σα = 1) over the last {K + 1} function values')
    e = check_factorisation(d, Sa['dr'], n, Sa)
    if e:
        return 'Anderson QR: ' + e
    # γ_LS: the statement of `anderson_gamma_least_squares` with OUR threshold min_div_fac × max |pivot| of the
    # current R (anderson.hpp: "minimum divisor …, scaled by the maximum eigenvalue of R")
    R, _ = mats(d, n)
    pmax = max(abs(R[r, r]) for r in range(K))
    tol_own = Sa['mdf'] * pmax
    own_sk = [r for r in range(K) if abs(R[r, r]) <= tol_own]
    if own_sk:
        bump('aa_ls_thresholded')
    msg, failed = solve_statement(d, n, Sa['dr'], Sa['rl'], gam, own_sk,
                                  f'γ_LS (threshold min_div_fac·max|pivot| = {tol_own!r})')
    if msg:
        tol_code = Sa['mdf'] * d['max']
        code_sk = [r for r in range(K) if abs(R[r, r]) <= tol_code]
        stale = bool(check_eig(d, n))
        if stale and failed and all(r in code_sk and gam[r] == 0.0 for r in failed):
            bump('aa_component_zeroed_by_stale_threshold')
            return (f'AndersonAccel::compute zeroes γ_LS{failed} although the pivots {[float(R[r, r]) for r in failed]} are '
                    f'far above min_div_fac × max |pivot of the current R| = {tol_own!r}: the threshold uses the stale '
                    f'get_max_eig() = {d["max"]!r} (current max pivot {pmax!r}); γ_LS = {gam}'
                    + (' — all coefficients are 0: x_aa is the plain fixed-point step g' if not any(gam) else ''), KEY_EIG)
        return msg
    bump('aa_ls_checked')
    return check_eig(d, n)


# ---------------------------------------------------------------- dispatcher

def monitor(op, out, st):
    t = T(op)
    o = T(out)
    kind = t.tok()
    if out in ('bad-op', 'parse-error', 'empty-stack'):
        return f'harness said {out}'
    if kind in ('anew', 'ainit', 'acomp', 'areset', 'ascale'):
        return aa_monitor(kind, t, o, st)
    if kind == 'new':
        n = t.nat(); m = t.nat()
        st['qr'] = {'n': n, 'm': m, 'win': [], 'head': 0, 'nonfinite_input': False}
        st['stack'] = []
        return qr_monitor('new', t, o, st['qr'])
    S = st.get('qr')
    if S is None:
        return None
    if kind == 'push':
        st['stack'].append({k: (list(v) if isinstance(v, list) else v) for k, v in S.items()})
        return None
    if kind == 'pop':
        S2 = st['stack'].pop()
        st['qr'] = S2
        d = parse_qr_dump(o)
        S2['last'] = d
        return check_ring(d, len(S2['win']), S2['head'], S2['m'])
    return qr_monitor(kind, t, o, S)


def nontrivial(op, out):
    k = op.split(' ', 1)[0]
    if k in ('add', 'rem', 'scale', 'solve', 'acomp'):
        return hash((op, out))
    return None


# classes the property's quantifier names (or a theorem hypothesis excludes) that every run must have exercised
REQUIRED = {
    'orth_checked_neardep': 'Gram matrix checked on nearly dependent windows (cond > 1e5)',
    'gen_neardep_angle_adds': 'nearly parallel columns (angle 1e-8…1e-12): one MGS pass vs. reorthogonalisation',
    'ls_checked_neardep_exact': 'normal equations in exact rationals on nearly dependent windows',
    'ls_checked_wellcond': 'normal equations on well-conditioned windows',
    'ls_only_zero_columns_skipped': 'dependent windows where only zero columns of Q are skipped',
    'ls_deflated_statement_only': 'skipped pivot on a nonzero column of Q (deflated statement)',
    'zero_pivot_on_nonzero_column_of_Q': 'dependent column followed by remove_column',
    'windows_with_zero_column_of_Q': 'exactly dependent columns',
    'exempt_negative_tol_zero_pivot': 'negative threshold on a zero pivot (hypothesis 0 ≤ tol ∨ PivNZ)',
    'gen_converging_aa_steps': 'Anderson on residuals shrinking over many orders of magnitude',
    'aa_ls_thresholded': 'Anderson solves with a pivot below min_div_fac·max|pivot|',
    'aa_ls_checked': 'Anderson γ_LS statement checked',
    'eig_bounds_compared': 'get_min_eig / get_max_eig compared with the diagonal of the current R',
}


def extra_stage(rep, broken, exe, tier):
    if exe:
        for k, why in REQUIRED.items():
            if not STATS.get(k):
                broken.append(f'required coverage class never exercised in this run: {k} ({why})')
    rep.cov['monitor_stats'] = {k: (float(f'{v:.3e}') if isinstance(v, float) else v) for k, v in STATS.items()}
    rep.note('monitor stats: ' + ', '.join(f'{k}={v if not isinstance(v, float) else format(v, ".2e")}'
                                           for k, v in STATS.items()))


def replay(r):
    """`checks/replay.py <file>`: the recorded op needs its prefix (the objects are stateful), so the
    seeded stream is regenerated, cut after the recorded index and run through the real code and
    the monitor again."""
    import random
    tier = r.get('tier', 'quick')
    sd = int(r.get('seed', 1))
    idx = (r.get('payload') or {}).get('index')
    if idx is None or str(r.get('what', '')).startswith('search'):
        os.environ['VERIF_SEED'] = str(sd)
        return main(['c10.py', '--tier', tier])
    rng = random.Random(sd * 1000003 + (17 if tier == 'thorough' else 0))
    ops = gen_ops(rng, N_THOROUGH if tier == 'thorough' else N_QUICK)[:idx + 1]
    exe, log = C.build_exe('c10', [os.path.join(C.VERIF, 'harness', 'c10.cpp')])
    if exe is None:
        print('harness does not compile:', log[-800:])
        return 1
    hout, rc, err = C.run_lines(exe, ops)
    st = {}
    res = None
    for o, h in zip(ops, hout):
        res = monitor(o, h, st)
    print('op      :', ops[-1][:400])
    print('impl out:', (hout[-1] if len(hout) == len(ops) else f'<crash rc={rc} {err[-200:]}>')[:400])
    print('monitor :', res)
    return 1 if res and not (isinstance(res, tuple) and res[1] in (KEY_DEP, KEY_ZPIV)) else 0


N_QUICK = (8, 8, 250, 250)
N_THOROUGH = (9, 11, 6000, 6000)


def main(argv):
    return C.standard_check(
        'C10', argv,
        gen_scripts=['gen_c10.py'], modules=['Alpaqa.Props.C10'], driver='drv_c10',
        extra_sources=['Alpaqa/Model/C10.lean', 'Alpaqa/Gen/C10.lean', 'Alpaqa/Proofs/C10Basic.lean',
                       'Alpaqa/Proofs/C10Add.lean', 'Alpaqa/Proofs/C10Misc.lean',
                       'Alpaqa/Proofs/C10Remove.lean', 'Alpaqa/Proofs/C10Solve.lean',
                       'Alpaqa/Proofs/C10Anderson.lean', 'Alpaqa/Proofs/C10History.lean', 'Alpaqa/Proofs/C10Pivot.lean',
                       'Alpaqa/Proofs/C10Trunc.lean', 'Alpaqa/Proofs/C10Givens.lean', 'Alpaqa/Proofs/C10Dead.lean',
                       'Alpaqa/Proofs/C10Eig.lean',
                       'Alpaqa/Proofs/Basic.lean',
                       'Driver/C10.lean'],
        harness_name='c10', harness_sources=[os.path.join(C.VERIF, 'harness', 'c10.cpp')],
        gen_ops=gen_ops, monitor=monitor, nontrivial=nontrivial, extra_stage=extra_stage,
        n_quick=N_QUICK, n_thorough=N_THOROUGH, search_factor=2,
        trusted_base=[
            'Lean 4.33 kernel + Mathlib (axioms: propext, Classical.choice, Quot.sound)',
            'gen/cxxparse.py + gen/lean_emit.py + gen/gen_c10.py (translator: r_succ/r_pred, ring_head/tail, '
            'ring_iter argument order, CircularIndexIterator ++/--, CircularRange begin/end, index updates of '
            'add_column / remove_column / reset, sweep and inner-loop headers, η, reorthogonalisation test, the '
            'normalisation guard `norm_q > 0` (its two branches shape-checked), '
            'min/max_eig updates, pivot threshold test, Anderson α formulas / full test / threshold / m_AA; '
            'loop skeletons of remove_column, solve_col, scale_R, minimize_update_anderson, AndersonAccel::'
            'reset/initialize/resize are shape-checked against the expected AST)',
            'hand model Alpaqa/Model/C10.lean (MGS passes, Givens sweep, circular back-substitution, G ring) '
            'tied by bit-exact Float correspondence on the explored op sequences only',
            'Eigen JacobiRotation::makeGivens: the theorems are stated for any function meeting the contract '
            'c²+s²=1, r = c·p − s·q, s·p + c·q = 0, and the contract is PROVED (givensEigen_meets_contract, lawful sqrt) '
            'for givensEigen, the line-by-line port the driver runs; trusted: that this port is Eigen\'s real-scalar '
            'makeGivens (read off Eigen/src/Jacobi/Jacobi.h; bit-exact agreement with the real code on every run)',
            'std::sqrt enters the theorems only through SqrtLaw (sqrt a · sqrt a = a for a ≥ 0) and SqrtNonneg '
            '(sqrt a ≥ 0)',
            'theorems are over ordered fields (real-number semantics); IEEE rounding, conditioning, η and the '
            'reorthogonalisation test are not proved — monitored in binary64 with condition-free bounds on every '
            'window (‖QR−A‖, ‖QᵀQ−diag(alive)‖, normal equations; class neardep_angle separates one MGS pass from two)',
        ],
        assumptions=['Eigen reductions / rotations are evaluated coefficient by coefficient in source order '
                     'under -O1 -ffp-contract=off -DEIGEN_DONT_VECTORIZE (bit-exact correspondence confirms '
                     'on every run)',
                     'within capacity: add_column only with num_columns() < m, remove_column only with '
                     'num_columns() > 0 (the C++ asserts are compiled out under NDEBUG)'],
        rule='exhaustive: every word over {add, remove, reset, scale} within capacity up to length 8 (quick) / 9 '
             '(thorough; plus every word over {add, remove} up to length 11) for capacities m∈{1,2,3} × dimensions n∈{1,2,3,4} (m > n included: the (n+1)-th '
             'column is necessarily dependent), one DFS with push/pop, a solve after every node; seeded random '
             'QR sequences n ≤ 6, m ≤ 5 (well-conditioned, nearly dependent 1e-12…1e-2, wide dynamic range, '
             'degenerate: zero / repeated columns, m > n overflow), a fixed scale_R(0) sequence, and Anderson runs on noisy affine contractions '
             '(memory 1…10 above and below n, restarts, rescalings, min_div_fac ∈ {default, 1e-3, 0}, repeated '
             'residuals); distinct = distinct (op line, output) pairs of add/rem/scale/solve/acomp',
    )


if __name__ == '__main__':
    sys.exit(main(sys.argv))
