#!/usr/bin/env python3
"""C10 — Limited-memory QR and Anderson acceleration match their least-squares definition.
See DESIGN.md §6 C10.

Op lines (stateful; one QR object with a save/restore stack, one Anderson object):
  new n m | add v | rem | scale f | reset | solve b tol x0 | push | pop
  anew n memory min_div_fac | ainit g r | acomp g r | areset | ascale f
QR dump  : K head tail hist reorth min_eig max_eig | fwd pairs | rev pairs | ring_next/prev table |
           get_R() | get_Q()
AA dump  : init n m_AA | G columns (ring order + tail) | r_last | QR dump
acomp out: x_aa | γ_LS[0..K) | AA dump

Monitors work from their *own* record of the column window A (built from the op lines), never
from the model.  QR involves sqrt / division, so there is no exact regime: tolerances are relative
1e-10 on well-conditioned windows, loosened or skipped on nearly dependent ones (counted in the
evidence).  The affine-combination identity of Anderson is recomputed in exact rationals.

Mutants tried on a private copy (VERIF_REPO=/tmp/repo_c10), all reported (exit 1):
  r_succ `<`→`<=`; r_pred `m()-1`→`m()`; remove: `r_idx_start = r_succ(r_idx_end)` / start not advanced;
  add: `r_idx_end` not advanced; CircularIndexIterator ++ wraps to 1 / -- wraps to max     -> proofs
      (C10Basic / C10Add / C10Remove stop compiling on the regenerated Gen) + ring monitors + crash
  dropped / transposed `applyOnTheRight` on Q; inner loop starting at c instead of r_succ(c);
  `r(i) += s`→`r(i) = s` in the reorthogonalisation pass; scale_R `topRows(i)`                  -> shape check /
      proofs + correspondence + ‖QR−A‖ and normal-equation monitors
  back-substitution `-=`→`+=`; threshold `<`→`<=`                                             -> shape check /
      C10Solve proofs + correspondence + row-of-Rx=Qᵀb monitor
  Anderson α: `γ(i)−γ(0)`, `1−γ(0)`; `G.col(ring_head()) = g`; reset copy guard inverted; `std::max(n, memory)`
      -> C10Anderson / C10History proofs or shape check + correspondence + affine / alignment / size monitors
  (audit follow-up, on the patched add_column / solve_col, exit 1 each) `norm_q > 0`→`>=` / `<`; `<=`→`<` in solve_col;
  dropped `else q.setZero()`; `q.setOnes()`; `r(q_idx) = 1`; back-substitution sign; dropped applyOnTheRight
      -> C10Add / C10Solve proofs (regenerated lmqrAddNormalize / lmqrSolveSkip) or shape check + NaN / zero-pivot /
         ‖QR−A‖ / ‖QᵀQ−I‖ / row monitors

The first ops of every run are ZERO_SCALE_OPS (scale_R(0), then solve with tol > 0 and tol = 0).
"""
import math
import os
import sys
from fractions import Fraction as Fr

try:
    import numpy as np
except ModuleNotFoundError:                     # the plain interpreter has no numpy: python3-vt does
    import shutil
    _vt = shutil.which('python3-vt')
    if _vt is None or os.environ.get('C10_REEXEC'):
        raise
    os.environ['C10_REEXEC'] = '1'
    os.execv(_vt, [_vt] + sys.argv)

sys.path.insert(0, os.path.dirname(os.path.abspath(__file__)))
import common as C
from common import f2h, h2f, vec2p

EPS = 2.0 ** -52
MDF = 1e2 * EPS                      # AndersonAccelParams::min_div_fac default
KEY_DEP = 'C10-add_column-dependent-column-division-by-zero-norm_q'
KEY_ZPIV = 'C10-solve_col-exact-zero-pivot-division-tol0'
STATS = {'orth_checked': 0, 'orth_skipped_illcond': 0, 'solve_checked': 0, 'solve_thresholded': 0,
         'poisoned_skipped': 0, 'aa_checked': 0, 'aa_ls_checked': 0, 'aa_ls_skipped': 0,
         'dependent_adds': 0, 'zero_pivot_divisions': 0, 'solve_dependent_checked': 0, 'exhaustive_nodes': 0, 'max_qr_err': 0.0, 'max_orth_err': 0.0,
         'max_normal_eq': 0.0}


# ---------------------------------------------------------------- generation

def col(rng, n, style):
    if style == 'int':
        v = [float(rng.randint(-4, 4)) for _ in range(n)]
        if all(x == 0 for x in v):
            v[rng.randrange(n)] = 1.0
        return v
    if style == 'dyadic':
        return [rng.randint(-32, 32) / 8.0 for _ in range(n)]
    if style == 'wide':
        return [rng.gauss(0, 1) * 10 ** rng.uniform(-3, 3) for _ in range(n)]
    return [rng.gauss(0, 1) for _ in range(n)]


def indep_col(rng, n, win):
    """A column that keeps the window well conditioned (rejection sampling on the angle)."""
    for _ in range(30):
        v = col(rng, n, rng.choice(['int', 'gauss', 'gauss', 'dyadic']))
        if not win or len(win) >= n:
            return v
        A = np.array(win, dtype=float).T
        q, _ = np.linalg.qr(A)
        vv = np.array(v)
        res = vv - q @ (q.T @ vv)
        if np.linalg.norm(res) > 0.2 * np.linalg.norm(vv) > 0:
            return v
    return v


def scale_val(rng):
    return rng.choice([0.5, 2.0, 0.25, 1.5, -1.0, 3.0, rng.uniform(0.1, 4.0)])


def solve_line(rng, n, m, tolkind=None):
    b = col(rng, n, rng.choice(['int', 'gauss']))
    tol = {None: rng.choice([0.0, 0.0, 1e-12, 1e-3, 0.75]), 'zero': 0.0}[tolkind]
    return f'solve {vec2p(b)} {f2h(tol)} {vec2p([7.0] * m)}'


def exhaustive(rng, L, caps, dims, alphabet='ARXS'):
    """Every word of length ≤ L over `alphabet` ⊆ {Add, Remove, reset (X), Scale} that stays within
    capacity, for the given capacities and dimensions, as one DFS with push/pop (each trie node
    executed once); a solve after every node with a non-empty window."""
    ops = []
    for m in caps:
        for n in dims:
            ops.append(f'new {n} {m}')

            def dfs(depth, K, win):
                if depth == L:
                    return
                for letter in alphabet:
                    if letter == 'A' and K >= m:
                        continue
                    if letter == 'R' and K == 0:
                        continue
                    ops.append('push')
                    if letter == 'A':
                        v = indep_col(rng, n, win)
                        ops.append('add ' + vec2p(v))
                        K2, win2 = K + 1, win + [v]
                    elif letter == 'R':
                        ops.append('rem')
                        K2, win2 = K - 1, win[1:]
                    elif letter == 'X':
                        ops.append('reset')
                        K2, win2 = 0, []
                    else:
                        f = scale_val(rng)
                        ops.append('scale ' + f2h(f))
                        K2, win2 = K, [[f * x for x in c] for c in win]
                    STATS['exhaustive_nodes'] += 1
                    if K2 > 0 and letter != 'X':
                        ops.append(solve_line(rng, n, m))
                    dfs(depth + 1, K2, win2)
                    ops.append('pop')
            dfs(0, 0, [])
    return ops


def random_qr(rng, count):
    ops = []
    for _ in range(count):
        n = rng.randint(1, 6)
        m = rng.randint(1, 5)
        ops.append(f'new {n} {m}')
        K, win = 0, []
        style = rng.choice(['good', 'good', 'good', 'neardep', 'wide', 'degenerate'])
        for _ in range(rng.randint(3, 30)):
            c = rng.random()
            cap = m if style == 'degenerate' else min(m, n)
            if c < 0.45 and K < cap:
                if style == 'good' or not win:
                    v = indep_col(rng, n, win)
                elif style == 'wide':
                    v = col(rng, n, 'wide')
                elif style == 'neardep':
                    w = [rng.gauss(0, 1) for _ in win]
                    e = 10 ** rng.uniform(-12, -2)
                    v = [sum(wi * cw[j] for wi, cw in zip(w, win)) + e * rng.gauss(0, 1) for j in range(n)]
                else:
                    k = rng.random()
                    if k < 0.3:
                        v = [0.0] * n
                    elif k < 0.6:
                        v = list(rng.choice(win))
                    else:
                        v = indep_col(rng, n, win)
                ops.append('add ' + vec2p(v))
                K += 1
                win.append(v)
            elif c < 0.7 and K > 0:
                ops.append('rem')
                K -= 1
                win.pop(0)
            elif c < 0.78:
                f = scale_val(rng)
                ops.append('scale ' + f2h(f))
                win = [[f * x for x in cw] for cw in win]
            elif c < 0.83:
                ops.append('reset')
                K, win = 0, []
            elif K > 0:
                ops.append(solve_line(rng, n, m))
    return ops


def random_aa(rng, count):
    """Anderson on fixed-point-like data: g(x) = Mx + c contractions plus noise, restarts, rescalings,
    memory above and below n; a few degenerate runs (repeated residual → dependent column)."""
    ops = []
    for _ in range(count):
        n = rng.randint(1, 6)
        mem = rng.choice([1, 1, 2, 3, 4, 5, 8, 10])
        mdf = rng.choice([MDF, MDF, MDF, 1e-3, 0.0])
        ops.append(f'anew {n} {mem} {f2h(mdf)}')
        if rng.random() < 0.05:
            ops.append('acomp ' + vec2p([1.0] * n) + ' ' + vec2p([1.0] * n))     # before initialize: throws
        degenerate = rng.random() < 0.08
        M = np.array([[rng.gauss(0, 0.4) for _ in range(n)] for _ in range(n)])
        c = np.array([rng.gauss(0, 1) for _ in range(n)])
        x = np.array([rng.gauss(0, 1) for _ in range(n)])

        def step(x):
            g = M @ x + c + np.array([rng.gauss(0, 1e-3) for _ in range(n)])
            return g, g - x
        g, r = step(x)
        ops.append(f'ainit {vec2p(g)} {vec2p(r)}')
        x = g
        for _ in range(rng.randint(1, 18)):
            k = rng.random()
            if k < 0.8:
                if degenerate and rng.random() < 0.3:
                    g2, r2 = step(x)
                    r2 = r                                  # same residual twice → zero column
                else:
                    g2, r2 = step(x)
                ops.append(f'acomp {vec2p(g2)} {vec2p(r2)}')
                g, r, x = g2, r2, g2
            elif k < 0.9:
                ops.append('areset')
            else:
                ops.append('ascale ' + f2h(rng.choice([0.5, 2.0, 1.25, 0.75])))
    return ops


# the excluded point of `history_solve_least_squares` (`0 < tol ∨ PivNZ s`): scale_R(0) makes every pivot
# exactly zero; with tol = 0 nothing is skipped (known finding KEY_ZPIV), with tol > 0 everything is (x = 0)
ZERO_SCALE_OPS = [
    'new 2 2', 'add ' + vec2p([1.0, 0.0]), 'add ' + vec2p([1.0, 1.0]), 'scale ' + f2h(0.0),
    'solve ' + vec2p([1.0, 1.0]) + ' ' + f2h(1e-12) + ' ' + vec2p([7.0, 7.0]),
    'solve ' + vec2p([1.0, 1.0]) + ' ' + f2h(0.0) + ' ' + vec2p([7.0, 7.0]),
]


def gen_ops(rng, n):
    """n = size knob: (exhaustive length over all four letters, exhaustive length over {add, remove},
    #random QR sequences, #random Anderson sequences)."""
    L, L2, nq, na = n
    ops = list(ZERO_SCALE_OPS)
    ops += exhaustive(rng, L, (1, 2, 3), (1, 2, 3, 4))
    if L2 > L:          # deeper, over {add, remove} only (ring wrap-around at every phase)
        ops += exhaustive(rng, L2, (1, 2, 3), (1, 2, 3, 4), 'AR')
    ops += random_qr(rng, nq)
    ops += random_aa(rng, na)
    return ops


# ---------------------------------------------------------------- parsing

class T:
    def __init__(self, line):
        self.t = line.split()
        self.p = 0

    def tok(self):
        self.p += 1
        return self.t[self.p - 1]

    def nat(self):
        return int(self.tok())

    def flt(self):
        return h2f(self.tok())

    def vec(self):
        n = self.nat()
        return [self.flt() for _ in range(n)]

    def bar(self):
        if self.tok() != '|':
            raise ValueError('expected |')

    def pairs(self):
        n = self.nat()
        return [(self.nat(), self.nat()) for _ in range(n)]


def parse_qr_dump(o):
    d = {}
    d['K'] = o.nat(); d['head'] = o.nat(); d['tail'] = o.nat(); d['hist'] = o.nat()
    d['reorth'] = o.nat(); d['min'] = o.flt(); d['max'] = o.flt()
    o.bar(); d['fwd'] = o.pairs(); o.bar(); d['rev'] = o.pairs()
    o.bar(); k = o.nat(); d['nextprev'] = [o.nat() for _ in range(k)]
    o.bar(); d['R'] = o.vec(); o.bar(); d['Q'] = o.vec()
    return d


def finite(xs):
    return all(math.isfinite(x) for x in xs)


# ---------------------------------------------------------------- QR monitors

def check_ring(d, K, head, m):
    if d['K'] != K or d['hist'] != K:
        return f'num_columns/current_history = {d["K"]}/{d["hist"]}, window has {K} columns'
    if d['head'] != head:
        return f'ring_head = {d["head"]}, expected {head}'
    if d['tail'] != (head + K) % m:
        return f'ring_tail = {d["tail"]} ≠ (head + K) mod m = {(head + K) % m}'
    exp = [(j, (head + j) % m) for j in range(K)]
    if d['fwd'] != exp:
        return f'ring_iter yields {d["fwd"]}, expected logical j ↦ (head+j) mod m = {exp}'
    if d['rev'] != exp[::-1]:
        return f'ring_reverse_iter yields {d["rev"]}, expected the reverse of ring_iter {exp[::-1]}'
    np_exp = [(i + 1) % m for i in range(m)] + [(i - 1) % m for i in range(m)]
    if d['nextprev'] != np_exp:
        return f'ring_next / ring_prev = {d["nextprev"]}, expected ±1 mod m = {np_exp}'
    return None


def window_cond(A):
    """2-norm condition number of the column-normalised window (inf if rank deficient)."""
    nrm = np.linalg.norm(A, axis=0)
    if np.any(nrm == 0) or A.shape[1] > A.shape[0]:
        return math.inf
    sv = np.linalg.svd(A / nrm, compute_uv=False)
    return math.inf if sv[-1] == 0 else sv[0] / sv[-1]


def check_factorisation(d, win, n, st):
    """‖QR − A‖ per column, R upper triangular, ‖QᵀQ − I‖ when the window is well conditioned."""
    K = d['K']
    if K == 0:
        return None
    R = np.array(d['R']).reshape(K, K).T        # dumped column-major
    Q = np.array(d['Q']).reshape(K, n).T
    A = np.array(win, dtype=float).T
    for k in range(K):
        for i in range(k + 1, K):
            if R[i, k] != 0.0:
                return f'get_R() is not upper triangular: R[{i},{k}] = {R[i, k]!r}'
    QR = Q @ R
    for k in range(K):
        na = np.linalg.norm(A[:, k])
        err = np.linalg.norm(QR[:, k] - A[:, k])
        rel = err / na if na > 0 else err
        STATS['max_qr_err'] = max(STATS['max_qr_err'], rel)
        if not err <= 1e-10 * na + 1e-290:
            return (f'‖(QR − A)[:, {k}]‖ = {err:.3e} > 1e-10·‖A[:, {k}]‖ = {1e-10 * na:.3e} '
                    f'(the factorisation does not represent the window)')
    cond = window_cond(A)
    st['cond'] = cond
    if cond <= 1e5:
        E = np.abs(Q.T @ Q - np.eye(K)).max()
        STATS['orth_checked'] += 1
        STATS['max_orth_err'] = max(STATS['max_orth_err'], E)
        if not E <= 1e-10:
            return f'‖QᵀQ − I‖_max = {E:.3e} > 1e-10 on a window with condition number {cond:.3g}'
    else:
        STATS['orth_skipped_illcond'] += 1
    return None


def new_col_dependent(win, v):
    """Is the window *with* the column being added numerically rank deficient?  (v = 0, v in the span
    of the window, more columns than rows, or an earlier dependent column still in the window: in all
    these cases no orthonormal Q can come out of Gram-Schmidt and norm_q is 0 up to rounding.)"""
    M = np.array(list(win) + [v], dtype=float).T
    nrm = np.linalg.norm(M, axis=0)
    if np.any(nrm == 0) or M.shape[1] > M.shape[0]:
        return True
    sv = np.linalg.svd(M / nrm, compute_uv=False)
    return bool(sv[-1] <= 1e-13 * sv[0] * M.shape[1])


def qr_monitor(kind, t, o, S):
    """S: dict with n, m, win (list of columns), head, poisoned; returns violation or None."""
    n, m = S['n'], S['m']
    if kind == 'solve':
        b = t.vec(); tol = t.flt(); x0 = t.vec()
        x = o.vec()
        K = len(S['win'])
        if len(x) != m:
            return 'solve output size'
        if any(x[i] != x0[i] for i in range(K, m)):
            return f'solve_col wrote beyond the first {K} entries'
        if S['poisoned']:
            STATS['poisoned_skipped'] += 1
            return None
        d = S['last']
        R = np.array(d['R']).reshape(K, K).T
        Q = np.array(d['Q']).reshape(K, n).T
        A = np.array(S['win'], dtype=float).T
        bb = np.array(b)
        xs = np.array(x[:K])
        skipped = [r for r in range(K) if abs(R[r, r]) <= tol]
        for r in skipped:
            if x[r] != 0.0:
                return f'pivot |R[{r},{r}]| = {abs(R[r, r])!r} ≤ tol = {tol!r} but x[{r}] = {x[r]!r} ≠ 0'
        if not finite(x[:K]):
            if any(R[r, r] == 0.0 for r in range(K) if r not in skipped):
                # only possible for tol < 0 (`|R| <= tol` skips every exactly zero pivot when tol ≥ 0)
                STATS['zero_pivot_divisions'] += 1
                if tol < 0:
                    return None
                return (f'solve_col(b, x, tol = {tol!r}) divides by an exactly zero pivot: x = {x[:K]}', KEY_ZPIV)
            return f'solve_col returned non-finite entries {x[:K]} on a finite factorisation'
        qtb = Q.T @ bb
        for r in range(K):
            if r in skipped:
                continue
            lhs = float(R[r, :] @ xs)
            mag = float(np.abs(R[r, :]) @ np.abs(xs)) + abs(qtb[r]) + np.linalg.norm(bb)
            if not abs(lhs - qtb[r]) <= 1e-10 * mag:
                return (f'row {r} of R x = Qᵀb violated: (R x)[{r}] = {lhs!r}, (Qᵀb)[{r}] = {qtb[r]!r}')
        if skipped:
            STATS['solve_thresholded'] += 1
            # dependent columns (exactly zero pivots, zero columns of Q): when nothing else is skipped the
            # result must still be a least-squares minimiser of ‖A x − b‖ — monitored, not proved
            if all(R[r, r] == 0.0 for r in skipped) and len(skipped) < K:
                keep = [r for r in range(K) if r not in skipped]
                dead = all(not Q[:, r].any() and not R[r, :].any() for r in skipped)
                csub = window_cond(Q[:, keep] @ R[np.ix_(keep, keep)])
                if dead and csub <= 1e5 and np.linalg.norm(A, 2) > 0:
                    res = A @ xs - bb
                    ne = np.linalg.norm(A.T @ res)
                    scale = np.linalg.norm(A, 2) * (np.linalg.norm(A, 2) * np.linalg.norm(xs) + np.linalg.norm(bb))
                    STATS['solve_dependent_checked'] += 1
                    if not ne <= 1e-9 * csub * scale + 1e-290:
                        return (f'dependent window, only the exactly zero pivots {skipped} skipped: normal-equation '
                                f'residual ‖Aᵀ(Ax − b)‖ = {ne:.3e} > {1e-9 * csub * scale:.3e}: x is not a '
                                f'least-squares minimiser')
            return None
        cond = S.get('cond', math.inf)
        if cond <= 1e5:
            res = A @ xs - bb
            ne = np.linalg.norm(A.T @ res)
            scale = np.linalg.norm(A, 2) * (np.linalg.norm(A, 2) * np.linalg.norm(xs) + np.linalg.norm(bb))
            STATS['solve_checked'] += 1
            if scale > 0:
                STATS['max_normal_eq'] = max(STATS['max_normal_eq'], ne / scale)
            if not ne <= 1e-10 * cond * scale + 1e-290:
                return (f'normal-equation residual ‖Aᵀ(Ax − b)‖ = {ne:.3e} > 1e-10·cond·‖A‖(‖A‖‖x‖+‖b‖) = '
                        f'{1e-10 * cond * scale:.3e}: x is not the least-squares minimiser')
            xl, *_ = np.linalg.lstsq(A, bb, rcond=None)
            a2 = np.linalg.norm(A, 2)
            if not np.linalg.norm(xs - xl) <= 1e-9 * cond * (np.linalg.norm(xl) + np.linalg.norm(bb) / a2) + 1e-290:
                return f'solve_col x = {xs} differs from the least-squares solution {xl} (cond {cond:.3g})'
        return None

    # state-changing ops ------------------------------------------------------------------
    added = None
    if kind == 'new':
        S['win'], S['head'], S['poisoned'] = [], 0, False
    elif kind == 'add':
        added = t.vec()
        S['dep'] = new_col_dependent(S['win'], added)
        S['win'] = S['win'] + [added]
    elif kind == 'rem':
        S['win'] = S['win'][1:]
        S['head'] = (S['head'] + 1) % m
    elif kind == 'scale':
        f = t.flt()
        S['win'] = [[f * x for x in c] for c in S['win']]
    elif kind == 'reset':
        S['win'], S['head'], S['poisoned'] = [], 0, False
    d = parse_qr_dump(o)
    S['last'] = d
    r = check_ring(d, len(S['win']), S['head'], m)
    if r:
        return r
    if not (finite(d['R']) and finite(d['Q'])):
        if S['poisoned']:
            STATS['poisoned_skipped'] += 1
            return None
        S['poisoned'] = True
        if kind == 'add' and S.get('dep'):
            STATS['dependent_adds'] += 1
            return (f'add_column of a column in the span of the current window (here {added}) divides by '
                    f'norm_q = 0: Q/R contain NaN and every later result is NaN until reset()', KEY_DEP)
        return f'non-finite entries in Q/R after {kind} on finite data'
    if S['poisoned']:
        # NaN column rotated out by Givens? then the state is clean again
        S['poisoned'] = False
    if kind == 'add' and S.get('dep'):
        # numerically dependent but no NaN: Q cannot be orthonormal; only the bookkeeping is demanded
        STATS['dependent_adds'] += 1
    return check_factorisation(d, S['win'], n, S)


# ---------------------------------------------------------------- Anderson monitors

def aa_monitor(kind, t, o, st):
    Sa = st.get('aa')
    if kind == 'anew':
        n = t.nat(); mem = t.nat(); mdf = t.flt()
        Sa = st['aa'] = {'n': n, 'mem': mem, 'mdf': mdf, 'init': False, 'g': [], 'dr': [], 'rl': None,
                         'poisoned': False, 'head': 0}
    if Sa is None:
        return None if o.t == ['no-object'] else 'operation on a missing object did not say so'
    n, mem = Sa['n'], Sa['mem']
    mAA = min(n, mem)
    if kind == 'acomp' and not Sa['init']:
        return None if o.t == ['exception'] else 'compute() before initialize() did not throw'
    if o.t == ['exception']:
        return 'unexpected exception'
    x = gam = None
    if kind == 'acomp':
        g = t.vec(); r = t.vec()
        x = o.vec(); o.bar(); gam = o.vec(); o.bar()
    init = o.nat(); dn = o.nat(); dm = o.nat(); o.bar()
    Gd = o.vec(); o.bar(); rl = o.vec(); o.bar()
    d = parse_qr_dump(o)
    if dn != n or dm != mAA:
        return f'AndersonAccel sizes (n, m_AA) = ({dn}, {dm}), expected ({n}, min(n, memory) = {mAA})'
    if kind == 'anew':
        return None if init == 0 and d['K'] == 0 else 'fresh accelerator is initialised / non-empty'
    if kind == 'ainit':
        g = t.vec(); r = t.vec()
        Sa.update(init=True, g=[g], dr=[], rl=r, poisoned=False, head=0)
    elif kind == 'areset':
        if not Sa['init']:
            return None
        Sa.update(g=Sa['g'][-1:], dr=[], poisoned=False, head=0)
    elif kind == 'ascale':
        f = t.flt()
        Sa['dr'] = [[f * v for v in c] for c in Sa['dr']]
    elif kind == 'acomp':
        newcol = [a - b for a, b in zip(r, Sa['rl'])]
        if len(Sa['dr']) == mAA:
            Sa['dr'] = Sa['dr'][1:]
            Sa['g'] = Sa['g'][1:]
            Sa['head'] = (Sa['head'] + 1) % mAA
        Sa['dep'] = new_col_dependent(Sa['dr'], newcol)
        Sa['dr'] = Sa['dr'] + [newcol]
        Sa['g'] = Sa['g'] + [g]
        Sa['rl'] = r
    if not Sa['init']:
        return None
    K = len(Sa['dr'])
    rr = check_ring(d, K, Sa['head'], mAA)
    if rr:
        return 'Anderson QR ring: ' + rr
    # G ring aligned with the R ring: columns (ring order) then the tail column = newest g
    cols = [Gd[i * n:(i + 1) * n] for i in range(K + 1)]
    exp = [list(c) for c in Sa['g'][-(K + 1):]]
    if K == mAA and K > 0:
        exp[0] = exp[-1]            # full ring: tail slot = head slot, already overwritten by the newest g
    if len(cols) != len(exp) or any(f2h(a) != f2h(b) for c, e in zip(cols, exp) for a, b in zip(c, e)):
        return f'G ring not aligned with the R ring: stored {cols}, expected function values {exp}'
    if [f2h(v) for v in rl] != [f2h(v) for v in Sa['rl']]:
        return 'stored previous residual differs from the last residual passed in'
    if kind != 'acomp':
        if finite(d['R']) and finite(d['Q']) and not Sa['poisoned']:
            return check_factorisation(d, Sa['dr'], n, Sa) if K else None
        return None
    # ---- compute ----
    if len(gam) != K:
        return 'γ_LS size'
    if not (finite(d['R']) and finite(d['Q']) and finite(x) and finite(gam)):
        if Sa['poisoned']:
            STATS['poisoned_skipped'] += 1
            return None
        Sa['poisoned'] = True
        if Sa.get('dep'):
            STATS['dependent_adds'] += 1
            return (f'AndersonAccel::compute with a residual difference in the span of the stored ones '
                    f'(here rₖ − rₗₐₛₜ = {newcol}) divides by norm_q = 0 in add_column: xₖ_aa is NaN and stays NaN '
                    f'until reset()', KEY_DEP)
        if not finite(d['R']) or not finite(d['Q']):
            return 'non-finite entries in Q/R after compute on finite data'
        return None                                   # zero pivot with min_div_fac = 0: outside the statement
    Sa['poisoned'] = False
    STATS['aa_checked'] += 1
    # window length: last min(k, memory, n) residual differences — K is our own count; check_ring compared
    # affine combination in exact rationals
    G = Sa['g'][-(K + 1):]
    gq = [Fr(v) for v in gam]
    al = [gq[0]] + [gq[i] - gq[i - 1] for i in range(1, K)] + [1 - gq[K - 1]]
    if sum(al) != 1:
        return 'internal: telescoping'
    for j in range(n):
        ex = sum(al[i] * Fr(G[i][j]) for i in range(K + 1))
        mag = sum((abs(gq[i]) + (abs(gq[i - 1]) if i else 0)) * abs(Fr(G[i][j])) for i in range(K)) + \
            (1 + abs(gq[K - 1])) * abs(Fr(G[K][j]))
        if abs(Fr(x[j]) - ex) > 4 * (K + 3) * EPS * float(mag) + 1e-300:
            return (f'xₖ_aa[{j}] = {x[j]!r} is not Σ αᵢ gᵢ = {float(ex)!r} with α from γ_LS = {gam} '
                    f'(Σα = 1) over the last {K + 1} function values')
    e = check_factorisation(d, Sa['dr'], n, Sa)
    if e:
        return 'Anderson QR: ' + e
    # γ_LS solves the least-squares problem over the window (unless a pivot was thresholded)
    R = np.array(d['R']).reshape(K, K).T
    tol = d['max'] * Sa['mdf']
    if any(abs(R[r, r]) <= tol for r in range(K)):
        for r in range(K):
            if abs(R[r, r]) <= tol and gam[r] != 0.0:
                return f'pivot {r} not above max_eig·min_div_fac but γ_LS[{r}] = {gam[r]!r} ≠ 0'
        STATS['aa_ls_skipped'] += 1
        return None
    cond = Sa.get('cond', math.inf)
    if cond <= 1e5:
        A = np.array(Sa['dr'], dtype=float).T
        bb = np.array(Sa['rl'])
        gs = np.array(gam)
        ne = np.linalg.norm(A.T @ (A @ gs - bb))
        scale = np.linalg.norm(A, 2) * (np.linalg.norm(A, 2) * np.linalg.norm(gs) + np.linalg.norm(bb))
        STATS['aa_ls_checked'] += 1
        if not ne <= 1e-10 * cond * scale + 1e-290:
            return (f'γ_LS does not solve min ‖ΔR γ − rₖ‖ over the last {K} residual differences: '
                    f'‖ΔRᵀ(ΔRγ − rₖ)‖ = {ne:.3e}')
    else:
        STATS['aa_ls_skipped'] += 1
    return None


# ---------------------------------------------------------------- dispatcher

def monitor(op, out, st):
    t = T(op)
    o = T(out)
    kind = t.tok()
    if out in ('bad-op', 'parse-error', 'empty-stack'):
        return f'harness said {out}'
    if kind in ('anew', 'ainit', 'acomp', 'areset', 'ascale'):
        return aa_monitor(kind, t, o, st)
    if kind == 'new':
        n = t.nat(); m = t.nat()
        st['qr'] = {'n': n, 'm': m, 'win': [], 'head': 0, 'poisoned': False}
        st['stack'] = []
        return qr_monitor('new', t, o, st['qr'])
    S = st.get('qr')
    if S is None:
        return None
    if kind == 'push':
        st['stack'].append({k: (list(v) if isinstance(v, list) else v) for k, v in S.items()})
        return None
    if kind == 'pop':
        S2 = st['stack'].pop()
        st['qr'] = S2
        d = parse_qr_dump(o)
        S2['last'] = d
        return check_ring(d, len(S2['win']), S2['head'], S2['m'])
    return qr_monitor(kind, t, o, S)


def nontrivial(op, out):
    k = op.split(' ', 1)[0]
    if k in ('add', 'rem', 'scale', 'solve', 'acomp'):
        return hash((op, out))
    return None


def extra_stage(rep, broken, exe, tier):
    rep.cov['monitor_stats'] = {k: (float(f'{v:.3e}') if isinstance(v, float) else v) for k, v in STATS.items()}
    rep.note('monitor stats: ' + ', '.join(f'{k}={v if not isinstance(v, float) else format(v, ".2e")}'
                                           for k, v in STATS.items()))


def replay(r):
    """`checks/replay.py <file>`: the recorded op needs its prefix (the objects are stateful), so the
    seeded stream is regenerated, cut after the recorded index and run through the real code and
    the monitor again."""
    import random
    tier = r.get('tier', 'quick')
    sd = int(r.get('seed', 1))
    idx = (r.get('payload') or {}).get('index')
    if idx is None or str(r.get('what', '')).startswith('search'):
        os.environ['VERIF_SEED'] = str(sd)
        return main(['c10.py', '--tier', tier])
    rng = random.Random(sd * 1000003 + (17 if tier == 'thorough' else 0))
    ops = gen_ops(rng, N_THOROUGH if tier == 'thorough' else N_QUICK)[:idx + 1]
    exe, log = C.build_exe('c10', [os.path.join(C.VERIF, 'harness', 'c10.cpp')])
    if exe is None:
        print('harness does not compile:', log[-800:])
        return 1
    hout, rc, err = C.run_lines(exe, ops)
    st = {}
    res = None
    for o, h in zip(ops, hout):
        res = monitor(o, h, st)
    print('op      :', ops[-1][:400])
    print('impl out:', (hout[-1] if len(hout) == len(ops) else f'<crash rc={rc} {err[-200:]}>')[:400])
    print('monitor :', res)
    return 1 if res and not (isinstance(res, tuple) and res[1] in (KEY_DEP, KEY_ZPIV)) else 0


N_QUICK = (8, 8, 250, 250)
N_THOROUGH = (9, 11, 6000, 6000)


def main(argv):
    return C.standard_check(
        'C10', argv,
        gen_scripts=['gen_c10.py'], modules=['Alpaqa.Props.C10'], driver='drv_c10',
        extra_sources=['Alpaqa/Model/C10.lean', 'Alpaqa/Gen/C10.lean', 'Alpaqa/Proofs/C10Basic.lean',
                       'Alpaqa/Proofs/C10Add.lean', 'Alpaqa/Proofs/C10Misc.lean',
                       'Alpaqa/Proofs/C10Remove.lean', 'Alpaqa/Proofs/C10Solve.lean',
                       'Alpaqa/Proofs/C10Anderson.lean', 'Alpaqa/Proofs/C10History.lean', 'Alpaqa/Proofs/C10Pivot.lean',
                       'Alpaqa/Proofs/C10Trunc.lean', 'Alpaqa/Proofs/C10Givens.lean', 'Alpaqa/Proofs/C10Dead.lean',
                       'Alpaqa/Proofs/Basic.lean',
                       'Driver/C10.lean'],
        harness_name='c10', harness_sources=[os.path.join(C.VERIF, 'harness', 'c10.cpp')],
        gen_ops=gen_ops, monitor=monitor, nontrivial=nontrivial, extra_stage=extra_stage,
        n_quick=N_QUICK, n_thorough=N_THOROUGH, search_factor=2,
        trusted_base=[
            'Lean 4.33 kernel + Mathlib (axioms: propext, Classical.choice, Quot.sound)',
            'gen/cxxparse.py + gen/lean_emit.py + gen/gen_c10.py (translator: r_succ/r_pred, ring_head/tail, '
            'ring_iter argument order, CircularIndexIterator ++/--, CircularRange begin/end, index updates of '
            'add_column / remove_column / reset, sweep and inner-loop headers, η, reorthogonalisation test, the '
            'normalisation guard `norm_q > 0` (its two branches shape-checked), '
            'min/max_eig updates, pivot threshold test, Anderson α formulas / full test / threshold / m_AA; '
            'loop skeletons of remove_column, solve_col, scale_R, minimize_update_anderson, AndersonAccel::'
            'reset/initialize/resize are shape-checked against the expected AST)',
            'hand model Alpaqa/Model/C10.lean (MGS passes, Givens sweep, circular back-substitution, G ring) '
            'tied by bit-exact Float correspondence on the explored op sequences only',
            'Eigen JacobiRotation::makeGivens: the theorems are stated for any function meeting the contract '
            'c²+s²=1, r = c·p − s·q, s·p + c·q = 0, and the contract is PROVED (givensEigen_meets_contract, lawful sqrt) '
            'for givensEigen, the line-by-line port the driver runs; trusted: that this port is Eigen\'s real-scalar '
            'makeGivens (read off Eigen/src/Jacobi/Jacobi.h; bit-exact agreement with the real code on every run)',
            'std::sqrt enters the theorems only through SqrtLaw (sqrt a · sqrt a = a for a ≥ 0) and SqrtNonneg '
            '(sqrt a ≥ 0)',
            'theorems are over ordered fields (real-number semantics); IEEE rounding, conditioning and the '
            'benefit of reorthogonalisation are not proved — monitored (‖QR−A‖, ‖QᵀQ−I‖, normal equations)',
        ],
        assumptions=['Eigen reductions / rotations are evaluated coefficient by coefficient in source order '
                     'under -O1 -ffp-contract=off -DEIGEN_DONT_VECTORIZE (bit-exact correspondence confirms '
                     'on every run)',
                     'within capacity: add_column only with num_columns() < m, remove_column only with '
                     'num_columns() > 0 (the C++ asserts are compiled out under NDEBUG)'],
        rule='exhaustive: every word over {add, remove, reset, scale} within capacity up to length 8 (quick) / 9 '
             '(thorough; plus every word over {add, remove} up to length 11) for capacities m∈{1,2,3} × dimensions n∈{1,2,3,4} (m > n included: the (n+1)-th '
             'column is necessarily dependent), one DFS with push/pop, a solve after every node; seeded random '
             'QR sequences n ≤ 6, m ≤ 5 (well-conditioned, nearly dependent 1e-12…1e-2, wide dynamic range, '
             'degenerate: zero / repeated columns, m > n overflow), a fixed scale_R(0) sequence, and Anderson runs on noisy affine contractions '
             '(memory 1…10 above and below n, restarts, rescalings, min_div_fac ∈ {default, 1e-3, 0}, repeated '
             'residuals); distinct = distinct (op line, output) pairs of add/rem/scale/solve/acomp',
    )


if __name__ == '__main__':
    sys.exit(main(sys.argv))
