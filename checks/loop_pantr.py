#!/usr/bin/env python3
"""
PANTR loop model: harness build, run generator, stop-injection sweep, output parser and the
bit-exact trace-replay comparison (see checks/DEV_LOOPS.md).

Importable pieces: build_harness(), gen_run(rng, stop=None, **over) -> Op, sweep_ops(rng, exe, n),
parse_out(line), replay(ops) -> dict, DRIVER, MODULES, EXTRA_SOURCES, GEN_SCRIPTS, selftest().

    python3 checks/loop_pantr.py [--tier quick|thorough]      # selftest
    python3 checks/loop_pantr.py dev <seed> <N>               # print first mismatching sections
"""
import collections
import math
import os
import random
import sys

sys.path.insert(0, os.path.dirname(os.path.abspath(__file__)))
import common as C
import solvers as S
from common import f2h

EPS = 2.220446049250313e-16
INF = float('inf')
NAN = float('nan')

DRIVER = 'drv_loop_pantr'
MODULES = ['Alpaqa.Props.C03_Pantr', 'Alpaqa.Props.C05_Pantr', 'Alpaqa.Props.C06_Pantr',
           'Alpaqa.Props.C19_Pantr']
EXTRA_SOURCES = ['Alpaqa/Model/Pantr.lean', 'Alpaqa/Proofs/PantrInv.lean', 'Alpaqa/Proofs/PantrOrd.lean',
                 'Alpaqa/Proofs/PantrDoc.lean', 'Alpaqa/Proofs/PantrSized.lean',
                 'Alpaqa/Proofs/PantrFuel.lean', 'Alpaqa/Proofs/PantrChain.lean',
                 'Alpaqa/Proofs/PantrExample.lean', 'Alpaqa/Proofs/PantrExampleQ.lean',
                 'Alpaqa/Proofs/ProxContract.lean', 'Driver/LoopPantr.lean',
                 'Driver/ReplayCommon.lean', 'Alpaqa/Gen/C05.lean', 'Alpaqa/Gen/C06.lean']
GEN_SCRIPTS = ['gen_c05.py', 'gen_c06.py']
LIB_SUBSET = ['problem/type-erased-problem.cpp', 'inner/internal/panoc-helpers.cpp',
              'util/demangled-typename.cpp', 'util/print.cpp', 'inner/internal/solverstatus.cpp',
              'inner/internal/panoc-stop-crit.cpp', 'problem/problem-counters.cpp']
HARNESS_SOURCES = ['solvers_pantr_main.cpp', 'solvers_pantr.cpp']

# the parameters PANTR adds (op-line key -> PANTRParams member)
PANTR_PARAMS = {
    'trtol': 'TR_tolerance_factor', 'thracc': 'ratio_threshold_acceptable',
    'thrgood': 'ratio_threshold_good', 'facrej': 'radius_factor_rejected',
    'facacc': 'radius_factor_acceptable', 'facgood': 'radius_factor_good', 'rad0': 'initial_radius',
    'minrad': 'min_radius', 'rationew': 'compute_ratio_using_new_stepsize',
    'updprox': 'update_direction_on_prox_step',
    'recomp': 'recompute_last_prox_step_after_direction_reset', 'noaccel': 'disable_acceleration',
    'approx': 'ratio_approx_fbe_quadratic_model',
}


def build_harness():
    srcs = [os.path.join(C.VERIF, 'harness', s) for s in HARNESS_SOURCES]
    return C.build_exe('solvers_pantr', srcs + C.repo_lib_sources(LIB_SUBSET))


def gen_run(rng, stop=None, **over):
    """One PANTR run as an op line.  stop=None: random stop injection; stop=False: none."""
    l1 = rng.random() < 0.15
    p = S.gen_problem(rng, l1=l1)
    st = S.gen_start(rng, p)
    d = rng.choice(['newtontr', 'newtontr', 'advtr', 'advtr', 'advtr'])
    fd = rng.randint(0, 1)
    hess = 1
    if d == 'newtontr' and p['m'] > 0:
        fd = 1        # PolyProblem offers ∇²L·v only: eval_hess_ψ_prod needs m = 0
    adv = d == 'advtr'
    op = S.Op({'_op': 'run', 'solver': 'pantr', 'dir': d, **S.problem_kv(p),
               **{k: S.kvvec(v) for k, v in st.items()}, 'hess': str(hess), 'fd': str(fd),
               'hvf': f2h(rng.choice([1.0, 1.0, 0.0, 0.5])),
               'cgiter': f2h(rng.choice([1.0, 1.0, 0.5, 3.0])),
               'maxiter': str(rng.choice([0, 1, 2, 3, 5, 20, 60])),
               'tol': f2h(rng.choice([1e-8, 1e-3, 1e-1, 10.0])),
               'crit': str(rng.randrange(10)), 'maxnp': str(rng.choice([1, 2, 10])),
               'overwrite': str(rng.randint(0, 1)),
               'L0': f2h(rng.choice([0.0] * 8 + [1.0] * 4 + [64.0] * 4 + [2.0 ** -8] * 2 + [INF])),
               'Lgf': f2h(rng.choice([0.95, 0.95, 0.95, 0.5, 1.0, 2.0])),
               'Lmax': f2h(rng.choice([1e20, 1e20, 1e20, 256.0, 4.0])),
               'qubtol': f2h(rng.choice([10 * EPS, 10 * EPS, 0.0, 1e-3])),
               'trtol': f2h(rng.choice([10 * EPS, 10 * EPS, 0.0, 1e-3, 1.0])),
               'thracc': f2h(rng.choice([0.2, 0.2, 0.0, 0.5, -1.0, 1e9])),
               'thrgood': f2h(rng.choice([0.8, 0.8, 0.2, 0.1, 2.0])),
               'facrej': f2h(rng.choice([0.35, 0.35, 0.5, 1.0, 2.0])),
               'facacc': f2h(rng.choice([0.999, 0.999, 0.5, 1.0, 2.0])),
               'facgood': f2h(rng.choice([2.5, 2.5, 1.0, 0.5])),
               'rad0': f2h(rng.choice([NAN, NAN, 0.0, INF, 1.0, 1e-3, 10.0, -1.0])),
               'minrad': f2h(rng.choice([100 * EPS, 100 * EPS, 1e-6, 1e-2] +
                                        ([0.0, NAN, 1.0] if adv else []))),
               'rationew': str(rng.randint(0, 1)), 'updprox': str(rng.randint(0, 1)),
               'recomp': str(rng.randint(0, 1)), 'noaccel': str(rng.choice([0, 0, 0, 0, 1])),
               'approx': str(rng.randint(0, 1)),
               'advseed': str(rng.randint(1, 1000)), 'advinit': str(rng.randint(0, 1)),
               'stopat': '0', 'stopcb': '0', 'nanat': str(rng.choice([0] * 9 + [rng.randint(1, 12)])),
               'oot': str(rng.choice([0] * 19 + [1])), 'wmscratch': str(rng.choice([0, 0, 1]))})
    if stop is None:
        r = rng.random()
        if r < 0.2:
            op['stopat'] = str(rng.randint(1, 40))
        elif r < 0.27:
            op['stopcb'] = str(rng.randint(1, 5))
    for k, v in over.items():
        op[k] = str(v)
    return op


@C.tolerant
def sweep_ops(rng, exe, n_problems, **over):
    """Exhaustive stop injection: for fixed runs, `stop()` at every event index (1 … T)."""
    ops = []
    for i in range(n_problems):
        kw = dict(maxiter=rng.choice([2, 3, 4]), nanat=0, oot=0, trace=0)
        if i == 0:      # many initial step-size backtracks: stop() lands inside `backtrack_qub`
            kw.update(S.init_sweep_overrides(rng))
        kw.update(over)
        base = gen_run(rng, stop=False, **kw)
        out, rc, err = C.run_lines(exe, [base.line()])
        if rc != 0 or not out:
            continue
        r = parse_out(out[0])
        T = r.get('ticks', 0)
        base.pop('trace')
        for t in range(1, T + 1):
            o = S.Op(base)
            o['stopat'] = str(t)
            ops.append(o.line())
    return ops


def parse_out(line):
    """→ dict(stats=…, out=…, ticks=int, cbs=[…], events=[…]) for a harness / driver output line."""
    secs = [s.strip() for s in line.split(' ; ')]
    r = {'cbs': [], 'events': [], 'raw_sections': secs, 'extra': []}
    for s in secs:
        toks = s.split()
        if not toks:
            continue
        t = S.T(toks[1:])
        if toks[0] == 'S':
            if toks[1] == 'exception':
                r['stats'] = {'status': 'exception'}
                continue
            st = {'status': t.tok(), 'iterations': t.nat(), 'eps': t.flt()}
            for k in ('accelerated_step_rejected', 'stepsize_backtracks', 'direction_failures',
                      'direction_update_rejected'):
                st[k] = t.nat()
            for k in ('final_gamma', 'final_psi', 'final_h', 'final_fbe'):
                st[k] = t.flt()
            r['stats'] = st
        elif toks[0] == 'O':
            r['out'] = {'untouched': t.tok() == '1', 'x': t.vec(), 'y': t.vec(), 'errz': t.vec()}
        elif toks[0] == 'T':
            r['ticks'] = t.nat()
        elif toks[0] == 'CB':
            cb = {'k': t.nat(), 'status': t.tok(), 'x': t.vec(), 'p': t.vec(), 'pTp': t.flt(),
                  'xhat': t.vec(), 'yhat': t.vec(), 'fbe': t.flt(), 'psi': t.flt(),
                  'grad_psi': t.vec(), 'psi_hat': t.flt(), 'grad_psi_hat': t.vec(), 'q': t.vec(),
                  'L': t.flt(), 'gamma': t.flt(), 'Delta': t.flt(), 'rho': t.flt(), 'tau': t.flt(),
                  'eps': t.flt()}
            r['cbs'].append(cb)
        elif toks[0] == 'EV':
            r['events'].append(toks[1:])
        else:
            r['extra'].append(s)
    return r


_NONFIN = {'nan', '7ff0000000000000', 'fff0000000000000'}


def oracle_nonfinite(events):
    """Did a *problem* oracle return a non-finite value in this run (NaN injection, overflow of a
    diverging run)?  C03's finiteness clause presupposes finite problem functions (DESIGN §6 C03,
    `x_out_finite_partial`): a NaN / inf gradient is copied into x̂ by construction."""
    return any(e[0] in _ARGSHAPE and _NONFIN.intersection(e[1:]) for e in events)


def c03_monitor(op_line, out_line):
    """`checks/c03.py: monitor` applied to a PANTR run.

    Two refinements for *diverging* runs (tiny `L_max`, adversarial steps of length 1e6·‖p‖ — iterates
    of magnitude 1e80 and problem functions overflowing to inf / NaN), where that monitor's
    assumptions do not hold:
    * its finiteness / err_z verdicts presuppose finite problem functions (DESIGN §6 C03,
      `x_out_finite_partial`): skipped when a problem oracle returned inf / NaN in the run;
    * "x in C up to rounding of the projection: a few ulps *of the operands*": x̂ = x + clamp(−γ∇ψ,
      lb − x, ub − x), so the operand is the final iterate's x (from the final callback), not the
      returned x̂; the bound test is redone with `4 ulp(max(|x_i|, |x̂_i|, |bound_i|))`."""
    import c03
    if out_line.startswith('S exception'):
        return None
    m = c03.monitor(op_line, to_c03_view(out_line), {})
    if not m:
        return None
    msg = m if isinstance(m, str) else m[0]
    r = parse_out(out_line)
    if oracle_nonfinite(r['events']) and ('not finite' in msg or 'err_z[' in msg or msg.startswith('y[')):
        return None
    if 'outside C' in msg and r['cbs']:
        op = S.Op.parse(op_line)
        lb, ub = op.vec('Clb'), op.vec('Cub')
        xs, xh = r['cbs'][-1]['x'], r['out']['x']
        ok = True
        for i in range(len(xh)):
            mags = [abs(v) for v in (xs[i], xh[i], lb[i], ub[i]) if math.isfinite(v)]
            tol = 4 * math.ulp(max(mags + [0.0]))
            if not (lb[i] - tol <= xh[i] <= ub[i] + tol):
                ok = False
        if ok:
            return None
    return m


def to_c03_view(line):
    """Re-shape a PANTR output line so that `checks/c03.py: monitor` (PANOC field layout) reads it:
    only status, the O section and the presence of callbacks matter there."""
    r = parse_out(line)
    st = r['stats']
    if st['status'] == 'exception':
        return line
    secs = [s for s in r['raw_sections']]
    out = []
    for s in secs:
        if s.startswith('S '):
            out.append(f"S {st['status']} {st['iterations']} {f2h(st['eps'])} 0 0 "
                       f"{st['stepsize_backtracks']} 0 0 0 0 {f2h(0.0)} {f2h(st['final_gamma'])} "
                       f"{f2h(st['final_psi'])} {f2h(st['final_h'])} {f2h(st['final_fbe'])}")
        elif s.startswith('CB '):
            t = s.split()
            # k status x p pTp x̂ ŷ φ ψ ∇ψ ψ̂ | ∇ψ̂ q L γ Δ ρ τ ε  →  … | have ∇ψ̂ q L γ τ ε
            c = r['cbs'][len([o for o in out if o.startswith('CB ')])]
            out.append('CB ' + ' '.join([
                str(c['k']), c['status'], C.vec2p(c['x']), C.vec2p(c['p']), f2h(c['pTp']),
                C.vec2p(c['xhat']), C.vec2p(c['yhat']), f2h(c['fbe']), f2h(c['psi']),
                C.vec2p(c['grad_psi']), f2h(c['psi_hat']), '1', C.vec2p(c['grad_psi_hat']),
                C.vec2p(c['q']), f2h(c['L']), f2h(c['gamma']), f2h(c['tau']), f2h(c['eps'])]))
        else:
            out.append(s)
    return ' ; '.join(out)


def pantr_monitor(op_line, out_line):
    """C05 / C06 / C19 restated operationally on the real solver's outputs (independent of the
    model): status / count / ε relations, accept ⇒ ρ ≥ threshold and x⁺ = x̂ + q, reject ⇒ x⁺ = x̂,
    γ non-increasing with γ·L constant, Δ ≥ min_radius, at most one iteration after `stop()`."""
    if out_line.startswith('S exception'):
        return None
    op = S.Op.parse(op_line)
    r = parse_out(out_line)
    st = r['stats']
    cbs = r['cbs']
    if not cbs:
        if st['status'] != 'NotFinite' or st['iterations'] != 0 or not r['out']['untouched']:
            return f'early return with status {st["status"]}, iterations {st["iterations"]}'
        return None
    last = cbs[-1]
    maxiter = op.nat('maxiter')
    tol = op.flt('tol', 1e-8)
    tol = tol if tol > 0 else 1e-8
    # ---- C06
    if st['iterations'] > maxiter:
        return f'C06: iterations {st["iterations"]} > max_iter {maxiter}'
    if (st['status'] == 'Converged') != (st['eps'] <= tol):
        return f'C06: status {st["status"]} but eps={st["eps"]!r}, tolerance {tol!r}'
    if last['status'] != st['status'] or f2h(last['eps']) != f2h(st['eps']) or last['k'] != st['iterations']:
        return 'C06: final callback disagrees with Stats'
    if st['status'] == 'MaxIter' and st['iterations'] != maxiter:
        return 'C06: MaxIter with iterations != max_iter'
    if st['status'] == 'NotFinite' and math.isfinite(st['eps']):
        return 'C06: NotFinite with finite eps'
    if st['status'] == 'MaxTime' and not op.nat('oot'):
        return 'C06: MaxTime without time limit'
    if st['status'] in ('NoProgress', 'Busy', 'Exception'):
        return f'C06: PANTR returned {st["status"]}'
    stoptick = next((int(e[1]) for e in r['events'] if e[0] == 'stoptick'), 0)
    if st['status'] == 'Interrupted' and not stoptick:
        return 'C06/C19: Interrupted without a stop request'
    # ---- C19: iterations after the request
    if stoptick:
        # Busy callbacks whose event index is below the stop tick = iterations begun before it
        tick = 0
        busy_before = 0
        for e in r['events']:
            if e[0] == 'stoptick':
                continue
            tick += 1
            if e[0] == 'cb' and tick < stoptick:
                busy_before += 1
        if st['iterations'] > busy_before + 1:
            return (f'C19: stop() at event {stoptick} (after {busy_before} completed callbacks) but the '
                    f'solve ran to iteration {st["iterations"]}')
        if r['ticks'] > stoptick and st['status'] not in ('Interrupted', 'Converged', 'MaxIter', 'MaxTime',
                                                            'NotFinite'):
            return f'C19: status {st["status"]} after stop()'
    # ---- C05
    thr = op.flt('thracc', 0.2)
    minrad = op.flt('minrad', 100 * EPS)
    g0L0 = None
    for a, b in zip(cbs, cbs[1:]):
        if a['status'] != 'Busy':
            return 'callback after the final one'
        acc = a['tau'] == 1.0
        if acc and not (a['rho'] >= thr):
            return f'C05: candidate accepted at k={a["k"]} with rho={a["rho"]!r} < threshold {thr!r}'
        if not acc and a['rho'] >= thr and False:
            pass
        want = [xh + q for xh, q in zip(a['xhat'], a['q'])] if acc else a['xhat']
        if [f2h(v) for v in want] != [f2h(v) for v in b['x']]:
            return (f'C05: iterate {b["k"]} is not ' + ('x̂+q' if acc else 'x̂ (forward-backward step)') +
                    f' of iterate {a["k"]}')
        if not (b['gamma'] <= a['gamma']) and not (math.isnan(a['gamma']) or math.isnan(b['gamma'])):
            return f'C05: step size increased at k={b["k"]}: {a["gamma"]!r} -> {b["gamma"]!r}'
        pa, pb = a['gamma'] * a['L'], b['gamma'] * b['L']
        if math.isfinite(pa) and math.isfinite(pb) and pa != pb and \
                min(a['gamma'], b['gamma']) > 1e-290 and max(a['L'], b['L']) < 1e290:
            return f'C05: gamma*L changed at k={b["k"]}: {pa!r} -> {pb!r}'
        if minrad == minrad and not (a['Delta'] >= minrad):
            return f'C05: trust radius {a["Delta"]!r} < min_radius {minrad!r} at k={a["k"]}'
    return None


# ------------------------------------------------------------------ replay comparison

_ARGSHAPE = {'psigradpsi': 'v', 'psi': 'v', 'gradpsi': 'v', 'gradL': 'vv', 'prox': 'svv'}


def nonpure(events):
    """Does the recorded problem behave like a *function*?  NaN injection (`nanat`) poisons the
    k-th ψ evaluation only; when the solver evaluates the same point twice (zero step, x̂ pinned by
    equal bounds) the two answers differ and the lookup-table oracle of the driver cannot
    represent the run.  Such runs are counted and skipped."""
    seen = {}
    for e in events:
        sh = _ARGSHAPE.get(e[0])
        if sh is None:
            continue
        p = 1
        for c in sh:
            p += 1 + int(e[p]) if c == 'v' else 1
        key = (e[0],) + tuple(e[1:p])
        res = tuple(e[p:])
        if seen.setdefault(key, res) != res:
            return True
    return False


def replay(ops, exe=None, drv=None, show=0):
    """Run op lines through the real solver and the model; → counts and the first mismatches."""
    if exe is None:
        exe, log = build_harness()
        assert exe, log
    drv = drv or C.driver_exe(DRIVER)
    hout, rc, err = C.run_lines(exe, ops, timeout=3000)
    res = {'n': len(ops), 'harness_rc': rc, 'bad': 0, 'exceptions': 0, 'nonpure': 0, 'mismatches': [],
           'status': collections.Counter(), 'hout': hout}
    if rc != 0 or len(hout) != len(ops):
        res['bad'] = len(ops) - len(hout) + 1
        res['mismatches'].append(('harness crashed', rc, err[-500:]))
        return res
    dops = [o + ' || ' + S.events_only(h) for o, h in zip(ops, hout)]
    dout, rc, err = C.run_lines(drv, dops, timeout=3000)
    res['driver_rc'] = rc
    if rc != 0 or len(dout) != len(ops):
        res['bad'] = len(ops) - len(dout) + 1
        res['mismatches'].append(('driver crashed', rc, err[-500:]))
        return res
    for i, (o, h, d) in enumerate(zip(ops, hout, dout)):
        if h.startswith('S exception'):
            res['exceptions'] += 1           # provider threw: outside the model (see Model/Pantr.lean)
            res['status']['exception'] += 1
            continue
        hs = S.strip_events(h)
        if S.Op.parse(o).nat('nanat') and nonpure(parse_out(h)['events']):
            res['nonpure'] += 1
            continue
        try:
            res['status'][hs.split()[1]] += 1
        except IndexError:
            pass
        if hs != d.strip():
            res['bad'] += 1
            if len(res['mismatches']) < 5:
                a = hs.split(' ; ')
                b = d.strip().split(' ; ')
                sec = next((k for k, (x, y) in enumerate(zip(a, b)) if x != y), min(len(a), len(b)))
                res['mismatches'].append((i, o, sec, a[sec][:1500] if sec < len(a) else None,
                                          b[sec][:1500] if sec < len(b) else None))
                if show:
                    print('MISMATCH', i, o[:3000])
                    print(' sec', sec, '\n  H', a[sec][:1500] if sec < len(a) else None,
                          '\n  M', b[sec][:1500] if sec < len(b) else None)
                    if len(a) != len(b):
                        print(' nsec', len(a), len(b), a[-1][:300], '|||', b[-1][:300])
    return res


def coverage(ops, hout):
    """What the generated runs exercised (for the evidence / the final report)."""
    cov = collections.Counter()
    for o, h in zip(ops, hout):
        if h.startswith('S exception'):
            continue
        op = S.Op.parse(o)
        r = parse_out(h)
        cov['dir=' + op.get('dir', '?')] += 1
        cov['crit=' + S.CRITS[op.nat('crit')]] += 1
        cov['maxiter=' + op.get('maxiter', '?')] += 1
        cov['overwrite=' + op.get('overwrite', '?')] += 1
        for k in ('rationew', 'updprox', 'recomp', 'noaccel', 'approx', 'fd'):
            cov[f'{k}={op.get(k, "?")}'] += 1
        if op.nat('nanat'):
            cov['nan-injected'] += 1
        if op.nat('stopat') or op.nat('stopcb'):
            cov['stop-injected'] += 1
        busy = [c for c in r['cbs'] if c['status'] == 'Busy']
        cov['iterations'] += len(busy)
        cov['accepted'] += sum(1 for c in busy if c['tau'] == 1.0)
        cov['rejected'] += sum(1 for c in busy if c['tau'] == 0.0)
        cov['backtracks'] += r['stats'].get('stepsize_backtracks', 0)
        cov['direction_failures'] += r['stats'].get('direction_failures', 0)
        cov['update_rejected'] += r['stats'].get('direction_update_rejected', 0)
        names = [e[0] for e in r['events']]
        cov['dchanged'] += names.count('dchanged')
    return cov


def selftest(argv=()):
    """gen → lake build → axiom audit → harness build → replay comparison → counts.  Returns 0 / 1."""
    tier = C.tier_from_argv(list(argv))
    rep = C.Report('LOOP_PANTR', tier)
    ps = C.proof_stage(rep, 'LOOP_PANTR', GEN_SCRIPTS, MODULES, driver=DRIVER,
                       extra_sources=EXTRA_SOURCES)
    ok = ps['ok']
    for b in ps['broken']:
        print('BROKEN:', b[:400])
    print(f'[loop_pantr] proof stage: obligations={rep.cov["obligations"]} discharged={rep.cov["discharged"]} '
          f'axioms={rep.cov.get("axioms_used")}')
    exe, log = build_harness()
    if exe is None:
        print('BROKEN: harness does not build:', log[-1500:])
        return 1
    n, nsweep = (250, 3) if tier == 'quick' else (1500, 12)
    total = bad = exc = nonp = 0
    cov = collections.Counter()
    status = collections.Counter()
    viol = []
    for seed in ([C.seed()] if tier == 'quick' else [1, 2, 3]):
        rng = random.Random(seed * 1000003 + 7)
        ops = [gen_run(rng).line() for _ in range(n)]
        ops += sweep_ops(rng, exe, nsweep)
        r = replay(ops, exe, show=1)
        total += r['n']; bad += r['bad']; exc += r['exceptions']; nonp += r['nonpure']
        status.update(r['status'])
        cov.update(coverage(ops, r['hout']))
        for o, h in zip(ops, r['hout']):
            m = c03_monitor(o, h) or pantr_monitor(o, h)
            if m:
                viol.append((m, o))
        print(f'[loop_pantr] seed {seed}: runs={r["n"]} mismatches={r["bad"]} exceptions={r["exceptions"]}')
    print('[loop_pantr] status', dict(status))
    print('[loop_pantr] coverage', dict(sorted(cov.items())))
    print(f'[loop_pantr] total runs={total} mismatches={bad} provider-exceptions={exc} nonpure-skipped={nonp} '
          f'monitor hits={len(viol)}')
    for m, o in viol[:10]:
        print('MONITOR:', m, '\n   op:', o[:2000])
    return 0 if (ok and bad == 0 and not viol) else 1


def stall_experiment(maxiter=500, verbose=True):
    """C06 / PANTR: `no_progress` is declared in pantr.tpp, handed to the status chain and never updated,
    so `NoProgress` is never reported (Props/C06_Pantr.pantr_never_noProgress).  The property text only
    constrains WHEN NoProgress may be reported — nothing is violated —, but a PANTR run whose iterate no
    longer changes is not stopped by it.  This runs the REAL solver on such a problem:

        n = 1, m = 0, ψ(x) = c·x with c = 1e-12, no box, x₀ = 1e10, L_0 = 0 (finite-difference estimate 0,
        clamped to L_min = 1e-5, γ = 0.95e5): p = −γc ≈ −9.5e-8 is below half an ulp of x (ulp(1e10) ≈ 1.9e-6),
        so x̂ = x + p == x bit for bit while ε = ‖p‖∞ (ProjGradNorm) = 9.5e-8 > tol = 1e-300.

    → for PANTR (acceleration disabled, and with the Newton-TR / adversarial providers), PANOC and ZeroFPR on
    the same problem: status, iterations, longest run of consecutive callbacks with bit-identical x, min ε."""
    import solvers as S2
    INFv = float('inf')
    base = {'n': '1', 'm': '0', 'Q': S.kvvec([0.0]), 'c': S.kvvec([1e-12]), 'q4': S.kvvec([0.0]),
            'A': S.kvvec([]), 'b': S.kvvec([]), 'Clb': S.kvvec([-INFv]), 'Cub': S.kvvec([INFv]),
            'Dlb': S.kvvec([]), 'Dub': S.kvvec([]), 'l1': S.kvvec([]),
            'x0': S.kvvec([1e10]), 'y0': S.kvvec([]), 'Sig': S.kvvec([]),
            'maxiter': str(maxiter), 'tol': f2h(1e-300), 'crit': str(S.CRITS.index('ProjGradNorm')),
            'maxnp': '10', 'overwrite': '1', 'L0': f2h(0.0), 'Lgf': f2h(0.95), 'Lmax': f2h(1e20),
            'stopat': '0', 'stopcb': '0', 'nanat': '0', 'oot': '0'}
    rng = random.Random(1)
    rows = []

    def longest_same_x(cbs):
        best = cur = 1 if cbs else 0
        for a, b in zip(cbs, cbs[1:]):
            cur = cur + 1 if [f2h(v) for v in a['x']] == [f2h(v) for v in b['x']] else 1
            best = max(best, cur)
        return best

    exe, log = build_harness()
    assert exe, log
    for label, over in (('pantr noaccel=1', dict(noaccel=1, dir='newtontr')),
                        ('pantr newtontr', dict(noaccel=0, dir='newtontr', fd=1)),
                        ('pantr advtr', dict(noaccel=0, dir='advtr'))):
        op = gen_run(rng, stop=False)
        for k, v in {**base, **{k: str(v) for k, v in over.items()}}.items():
            op[k] = v
        out, rc, err = C.run_lines(exe, [op.line()], timeout=600)
        if rc != 0 or not out:
            rows.append((label, 'harness failed', rc, err[-200:])); continue
        if out[0].startswith('S exception'):
            rows.append((label, 'exception', out[0][:200], op.line())); continue
        r = parse_out(out[0])
        eps = [c['eps'] for c in r['cbs']]
        rows.append((label, r['stats']['status'], r['stats']['iterations'], longest_same_x(r['cbs']),
                     min(eps) if eps else None, op.line()))
    # PANOC and ZeroFPR on the same problem
    try:
        import loop_zerofpr as LZ
        others = (('panoc', S2.build_harness, 'panoc', S2.parse_out), ('zerofpr', LZ.build_harness, 'zerofpr',
                  getattr(LZ, 'parse_out', S2.parse_out)))
    except Exception as e:           # pragma: no cover
        others = (('panoc', S2.build_harness, 'panoc', S2.parse_out),)
    for label, bh, solver, po in others:
        try:
            exe2, log2 = bh()
            op = S.Op({'_op': 'run', 'solver': solver, 'dir': 'lbfgs', **base})
            out, rc, err = C.run_lines(exe2, [op.line()], timeout=600)
            r = po(out[0])
            xs = [c.get('x') for c in r['cbs']]
            same = cur = 1 if xs else 0
            for a, b in zip(xs, xs[1:]):
                cur = cur + 1 if [f2h(v) for v in a] == [f2h(v) for v in b] else 1
                same = max(same, cur)
            eps = [c['eps'] for c in r['cbs'] if 'eps' in c]
            rows.append((label, r['stats']['status'], r['stats']['iterations'], same,
                         min(eps) if eps else None, op.line()))
        except Exception as e:
            rows.append((label, 'comparison not available', repr(e)[:200]))
    if verbose:
        for row in rows:
            print('[stall]', row[:5])
            if len(row) > 5:
                print('        op:', row[5][:1200])
    return rows


def mutcheck(seed=1, N=400, nsweep=3):
    """Mutation-test helper (run with VERIF_REPO=<private mutated copy>): which mechanism notices?
    Does *not* rewrite lean/Alpaqa/Gen (other agents build concurrently): the translators write to
    a temporary file that is compared with the generated kernels the proofs were checked against."""
    import subprocess
    import tempfile
    verdict = []
    for g, tgt in (('gen_c05.py', 'C05.lean'), ('gen_c06.py', 'C06.lean')):
        with tempfile.NamedTemporaryFile(suffix='.lean', delete=False) as tf:
            tmp = tf.name
        r = subprocess.run([sys.executable, os.path.join(C.VERIF, 'gen', g), tmp],
                           env=dict(os.environ, VERIF_REPO=C.REPO), capture_output=True, text=True)
        cur = open(os.path.join(C.LEAN, 'Alpaqa', 'Gen', tgt)).read()
        new = open(tmp).read() if os.path.exists(tmp) else ''
        os.unlink(tmp)
        if r.returncode != 0:
            verdict.append(f'translator {g}: region no longer translatable ({r.stdout.strip()[-200:]})')
        elif new != cur:
            import difflib
            d = [l for l in difflib.unified_diff(cur.splitlines(), new.splitlines(), lineterm='', n=0)
                 if l[:1] in '+-' and l[:3] not in ('+++', '---')]
            verdict.append(f'translator {g}: regenerated kernels differ from the proved ones: ' + ' | '.join(d)[:600])
    exe, log = build_harness()
    if exe is None:
        print('MUTANT: harness does not build'); print(log[-800:]); return 1
    rng = random.Random(seed * 1000003 + 7)
    ops = [gen_run(rng).line() for _ in range(N)] + sweep_ops(rng, exe, nsweep)
    r = replay(ops, exe, show=0)
    if r['bad']:
        m = r['mismatches'][0]
        verdict.append(f'trace replay: {r["bad"]}/{r["n"]} runs differ from the model; first: section '
                       f'{m[2] if len(m) > 2 else ""}: real {str(m[3])[:160] if len(m) > 3 else m} / model '
                       f'{str(m[4])[:160] if len(m) > 4 else ""}')
    hits = collections.Counter()
    first = {}
    for o, h in zip(ops, r['hout']):
        for name, mon in (('c03.monitor', c03_monitor), ('pantr_monitor', pantr_monitor)):
            m = mon(o, h)
            if m:
                hits[name] += 1
                first.setdefault(name, str(m)[:200])
    for k, v in hits.items():
        verdict.append(f'{k}: {v} hits; first: {first[k]}')
    print(f'[mutcheck] repo={C.REPO} runs={r["n"]}')
    for v in verdict:
        print('  CAUGHT BY', v)
    if not verdict:
        print('  NOT CAUGHT')
    return 0 if verdict else 1


def dev(seed, N):
    exe, log = build_harness()
    assert exe, log
    rng = random.Random(seed)
    ops = [gen_run(rng).line() for _ in range(N)]
    r = replay(ops, exe, show=1)
    print('total', r['n'], 'bad', r['bad'], 'exceptions', r['exceptions'], 'nonpure', r['nonpure'])
    print(dict(r['status']))
    print(dict(sorted(coverage(ops, r['hout']).items())))


if __name__ == '__main__':
    if len(sys.argv) > 1 and sys.argv[1] == 'mutcheck':
        sys.exit(mutcheck())
    elif len(sys.argv) > 1 and sys.argv[1] == 'stall':
        stall_experiment(int(sys.argv[2]) if len(sys.argv) > 2 else 500)
    elif len(sys.argv) > 1 and sys.argv[1] == 'dev':
        dev(int(sys.argv[2]) if len(sys.argv) > 2 else 1, int(sys.argv[3]) if len(sys.argv) > 3 else 50)
    else:
        sys.exit(selftest(sys.argv))
