"""
Shared machinery for the solver-run checks (C01 C02 C03 C05 C06-loop C08 C13 C19):
generation of polynomial test problems and parameter sets as `key=value` op lines for
harness/solvers_*.cpp, parsing of the harness output, exact re-evaluation of the problem
functions in rational arithmetic.
"""
import math
import os
import sys
from fractions import Fraction as Fr

sys.path.insert(0, os.path.dirname(os.path.abspath(__file__)))
import common as C
from common import f2h, h2f

INF = float('inf')
EPS = 2.0 ** -52

LIB_SUBSET = ['problem/type-erased-problem.cpp', 'inner/internal/panoc-helpers.cpp',
              'util/demangled-typename.cpp', 'util/print.cpp', 'inner/internal/solverstatus.cpp',
              'inner/internal/panoc-stop-crit.cpp', 'problem/problem-counters.cpp',
              'accelerators/lbfgs.cpp', 'inner/directions/panoc/structured-lbfgs.cpp']
HARNESS_SOURCES = ['solvers_main.cpp', 'solvers_panoc.cpp']

CRITS = ['ApproxKKT', 'ApproxKKT2', 'ProjGradNorm', 'ProjGradNorm2', 'ProjGradUnitNorm',
         'ProjGradUnitNorm2', 'FPRNorm', 'FPRNorm2', 'Ipopt', 'LBFGSBpp']


def init_sweep_overrides(rng):
    """Overrides for the first base run of every stop-injection sweep: a user L_0 far below the
    curvature of the generated problems (2^-4 … 2^-10) and no cap on L, so that the *initial*
    step-size loop backtracks many times and `stopat` = every tick of the sweep lands inside it
    (the loop polls the stop flag: C19, fixes/C19-init-loop-stop-poll.diff)."""
    return {'L0': C.f2h(2.0 ** -rng.randint(4, 10)), 'Lmax': C.f2h(1e20), 'Lmin': C.f2h(1e-5)}


def build_harness():
    srcs = [os.path.join(C.VERIF, 'harness', s) for s in HARNESS_SOURCES]
    return C.build_exe('solvers', srcs + C.repo_lib_sources(LIB_SUBSET))


def kvvec(v):
    return f'{len(v)}:' + ','.join(f2h(float(a)) for a in v)


def parse_kvvec(s):
    n, _, rest = s.partition(':')
    return [h2f(t) for t in rest.split(',')] if int(n) else []


class Op(dict):
    """key=value op line with typed access."""

    @staticmethod
    def parse(line):
        o = Op()
        for w in line.split():
            if '=' in w:
                k, v = w.split('=', 1)
                o[k] = v
            else:
                o['_op'] = w
        return o

    def line(self):
        return self['_op'] + ' ' + ' '.join(f'{k}={v}' for k, v in self.items() if k != '_op')

    def vec(self, k):
        return parse_kvvec(self[k]) if k in self else []

    def flt(self, k, d=0.0):
        return h2f(self[k]) if k in self else d

    def nat(self, k, d=0):
        return int(self[k]) if k in self else d


def dy(rng, lo=-8, hi=8, den=4):
    return rng.randint(lo * den, hi * den) / den


def gen_problem(rng, *, n=None, m=None, convex=None, exact=True, l1=False, box='mixed'):
    """Polynomial problem spec (see harness/solver_common.hpp PolyProblem)."""
    n = n if n is not None else rng.choice([1, 2, 2, 3, 4])
    m = m if m is not None else rng.choice([0, 0, 1, 2, 3])
    convex = rng.random() < 0.6 if convex is None else convex
    val = (lambda: dy(rng)) if exact else (lambda: rng.gauss(0, 2))
    # Q = BᵀB (PSD, dyadic) or symmetric indefinite
    if convex:
        B = [[rng.choice([-1, -0.5, 0, 0.5, 1, 2]) for _ in range(n)] for _ in range(n)]
        Q = [[sum(B[k][i] * B[k][j] for k in range(n)) for j in range(n)] for i in range(n)]
        for i in range(n):
            Q[i][i] += rng.choice([0.25, 0.5, 1.0])
        q4 = [rng.choice([0, 0, 0.5, 1]) for _ in range(n)]
    else:
        S = [[val() / 2 for _ in range(n)] for _ in range(n)]
        Q = [[(S[i][j] + S[j][i]) for j in range(n)] for i in range(n)]
        q4 = [rng.choice([0, 0.5, 1, 2]) for _ in range(n)]    # quartic growth keeps it bounded
    c = [val() for _ in range(n)]
    A = [[rng.choice([-2, -1, -0.5, 0, 0.5, 1, 2]) for _ in range(n)] for _ in range(m)]
    b = [rng.choice([0, 0, 0, 0.5, -0.5, 1]) if not convex else rng.choice([0, 0, 0])
         for _ in range(m)]

    def boxes(k, l1box=False):
        lb, ub = [], []
        for _ in range(k):
            r = rng.random()
            a, bb = sorted((dy(rng, -4, 4), dy(rng, -4, 4)))
            if l1box:
                a, bb = -abs(a), abs(bb)
            if box == 'none':
                lb.append(-INF); ub.append(INF)
            elif r < 0.2:
                lb.append(-INF); ub.append(bb)
            elif r < 0.4:
                lb.append(a); ub.append(INF)
            elif r < 0.55:
                lb.append(-INF); ub.append(INF)
            elif r < 0.65:
                lb.append(a); ub.append(a)
            else:
                lb.append(a); ub.append(bb)
        return lb, ub
    Clb, Cub = boxes(n, l1box=l1)
    Dlb, Dub = boxes(m)
    if not convex:
        # keep nonconvex problems bounded where q4 = 0
        for i in range(n):
            if q4[i] == 0:
                if Clb[i] == -INF:
                    Clb[i] = -4.0
                if Cub[i] == INF:
                    Cub[i] = 4.0
    l1v = []
    if l1:
        l1v = [rng.choice([0.0, 0.5, 1.0])] if rng.random() < 0.5 else \
            [rng.choice([0.0, 0.25, 1.0]) for _ in range(n)]
    return dict(n=n, m=m, Q=[a for r in Q for a in r], c=c, q4=q4, A=[a for r in A for a in r], b=b,
                Clb=Clb, Cub=Cub, Dlb=Dlb, Dub=Dub, l1=l1v)


def problem_kv(p):
    return {k: (str(p[k]) if k in ('n', 'm') else kvvec(p[k]))
            for k in ('n', 'm', 'Q', 'c', 'q4', 'A', 'b', 'Clb', 'Cub', 'Dlb', 'Dub', 'l1')}


def gen_start(rng, p, exact=True):
    n, m = p['n'], p['m']
    x0 = [dy(rng, -3, 3) for _ in range(n)]
    y0 = [dy(rng, -2, 2) if rng.random() < 0.7 else 0.0 for _ in range(m)]
    Sig = [2.0 ** rng.randint(-2, 6) for _ in range(m)]
    return dict(x0=x0, y0=y0, Sig=Sig)


# ------------------------------------------------------------------ exact problem functions

class Exact:
    """The polynomial problem evaluated in exact rational arithmetic from its spec."""

    def __init__(self, op: Op):
        self.n = op.nat('n'); self.m = op.nat('m')
        F = lambda v: [Fr(a) for a in v]
        self.Q = F(op.vec('Q')); self.c = F(op.vec('c')); self.q4 = F(op.vec('q4'))
        self.A = F(op.vec('A')); self.b = F(op.vec('b'))
        self.Clb = op.vec('Clb'); self.Cub = op.vec('Cub')
        self.Dlb = op.vec('Dlb'); self.Dub = op.vec('Dub')
        self.l1 = op.vec('l1')

    def f(self, x):
        n = self.n
        s = Fr(0)
        for i in range(n):
            r = sum(self.Q[i * n + j] * x[j] for j in range(n))
            s += x[i] * r / 2 + self.c[i] * x[i] + self.q4[i] * x[i] ** 4 / 4
        return s

    def grad_f(self, x):
        n = self.n
        return [sum((self.Q[i * n + j] + self.Q[j * n + i]) / 2 * x[j] for j in range(n))
                + self.c[i] + self.q4[i] * x[i] ** 3 for i in range(n)]

    def g(self, x):
        n = self.n
        xx = sum(a * a for a in x)
        return [sum(self.A[j * n + i] * x[i] for i in range(n)) + self.b[j] * xx / 2
                for j in range(self.m)]

    def grad_g_prod(self, x, y):
        n = self.n
        return [sum((self.A[j * n + i] + self.b[j] * x[i]) * y[j] for j in range(self.m))
                for i in range(n)]

    @staticmethod
    def proj(v, lb, ub):
        if lb != -INF and v < Fr(lb):
            return Fr(lb)
        if ub != INF and v > Fr(ub):
            return Fr(ub)
        return v

    def projD(self, z):
        return [self.proj(z[j], self.Dlb[j], self.Dub[j]) for j in range(self.m)]

    def yhat(self, x, y, Sig):
        gx = self.g(x)
        zeta = [gx[j] + y[j] / Sig[j] for j in range(self.m)]
        pz = self.projD(zeta)
        return [Sig[j] * (zeta[j] - pz[j]) for j in range(self.m)]

    def psi(self, x, y, Sig):
        yh = self.yhat(x, y, Sig)
        return self.f(x) + sum(yh[j] ** 2 / Sig[j] for j in range(self.m)) / 2

    def grad_psi(self, x, y, Sig):
        yh = self.yhat(x, y, Sig)
        gf = self.grad_f(x); gg = self.grad_g_prod(x, yh)
        return [gf[i] + gg[i] for i in range(self.n)]

    def dist_C(self, x):
        return [x[i] - self.proj(x[i], self.Clb[i], self.Cub[i]) for i in range(self.n)]


def frv(v):
    return [Fr(a) for a in v]


# ------------------------------------------------------------------ output parsing

class T:
    def __init__(self, toks):
        self.t = toks
        self.p = 0

    def tok(self):
        self.p += 1
        return self.t[self.p - 1]

    def nat(self):
        return int(self.tok())

    def flt(self):
        return h2f(self.tok())

    def vec(self):
        n = self.nat()
        return [self.flt() for _ in range(n)]


def parse_out(line):
    """→ dict(stats=…, out=…, ticks=int, cbs=[…], events_text=str)."""
    secs = [s.strip() for s in line.split(' ; ')]
    r = {'cbs': [], 'events': [], 'raw_sections': secs}
    for s in secs:
        toks = s.split()
        if not toks:
            continue
        t = T(toks[1:])
        if toks[0] == 'S':
            if toks[1] == 'exception':
                r['stats'] = {'status': 'exception'}
                continue
            st = {'status': t.tok(), 'iterations': t.nat(), 'eps': t.flt()}
            for k in ('ls_failures', 'ls_backtracks', 'stepsize_backtracks', 'lbfgs_failures',
                      'lbfgs_rejected', 'tau1', 'count_tau'):
                st[k] = t.nat()
            for k in ('sum_tau', 'final_gamma', 'final_psi', 'final_h', 'final_fbe'):
                st[k] = t.flt()
            r['stats'] = st
        elif toks[0] == 'O':
            r['out'] = {'untouched': t.tok() == '1', 'x': t.vec(), 'y': t.vec(), 'errz': t.vec()}
        elif toks[0] == 'T':
            r['ticks'] = t.nat()
        elif toks[0] == 'CB':
            cb = {'k': t.nat(), 'status': t.tok(), 'x': t.vec(), 'p': t.vec(), 'pTp': t.flt(),
                  'xhat': t.vec(), 'yhat': t.vec(), 'fbe': t.flt(), 'psi': t.flt(),
                  'grad_psi': t.vec(), 'psi_hat': t.flt()}
            cb['have_gh'] = t.tok() == '1'
            cb['grad_psi_hat'] = t.vec()
            cb['q'] = t.vec(); cb['L'] = t.flt(); cb['gamma'] = t.flt(); cb['tau'] = t.flt()
            cb['eps'] = t.flt()
            r['cbs'].append(cb)
        elif toks[0] == 'EV':
            r['events'].append(toks[1:])
    return r


def strip_events(line):
    """The comparable part of a harness output line (everything but the EV sections)."""
    return ' ; '.join(s.strip() for s in line.split(' ; ') if not s.strip().startswith('EV '))


def events_only(line):
    return ' ; '.join(s.strip() for s in line.split(' ; ') if s.strip().startswith('EV '))


# ------------------------------------------------------------------ parameter / class variation (audit-2 #11)
#
# Every parameter the inner solvers read, non-default values included; the keys are the ones the harnesses
# (solver_run.hpp `set_common_params`, solvers_<s>.cpp, solver_pantr.hpp, solvers_ocp.cpp) and the Lean drivers
# (Driver/Loop*.lean) both read, so the trace replay follows every one of them.

EPS10 = 10 * EPS
DEFAULTS = {
    'Lgf': 0.95, 'lipeps': 1e-6, 'lipdelta': 1e-12, 'Lmin': 1e-5, 'Lmax': 1e20, 'qubtol': EPS10, 'lstol': EPS10,
    'trtol': EPS10, 'beta': 0.95, 'minls': 1. / 256, 'lsupd': 0.5, 'maxnp': 10,
}
# per solver: (key, non-default values) — 0/1 switches are listed with both values
PARAM_SPACE = {
    'panoc': {'beta': [0.5, 0.05, 1.0, 0.999, 2.0, 8.0], 'Lgf': [0.5, 0.25, 0.99, 1.0], 'minls': [0.25, 2.0 ** -20, 0.6],
              'lsupd': [0.25, 0.9], 'lipeps': [1e-3, 1e-9], 'lipdelta': [1e-6, 1e-3], 'Lmin': [1.0, 16.0],
              'Lmax': [64.0, 1024.0], 'force': [0, 1], 'updcand': [0, 1], 'recomp': [0, 1], 'eager': [0, 1]},
    'zerofpr': {'beta': [0.5, 0.05, 1.0, 0.999, 2.0, 8.0], 'Lgf': [0.5, 0.25, 0.99, 1.0], 'minls': [0.25, 2.0 ** -20, 0.6],
                'lipeps': [1e-3, 1e-9], 'lipdelta': [1e-6, 1e-3], 'Lmin': [1.0, 16.0], 'Lmax': [64.0, 1024.0],
                'force': [0, 1], 'updcand': [0, 1], 'updprox': [0, 1], 'recomp': [0, 1]},
    'pantr': {'Lgf': [0.5, 0.25, 0.99], 'lipeps': [1e-3, 1e-9], 'lipdelta': [1e-6, 1e-3], 'Lmin': [1.0, 16.0],
              'Lmax': [64.0, 1024.0], 'approx': [0, 1], 'rationew': [0, 1], 'updprox': [0, 1], 'recomp': [0, 1],
              'noaccel': [0, 1], 'fd': [0, 1]},
    'fista': {'Lgf': [0.5, 0.25, 0.99, 1.0], 'lipeps': [1e-3, 1e-9], 'lipdelta': [1e-6, 1e-3], 'noacc': [0, 1]},
    'ocp': {'beta': [0.5, 0.05, 1.0, 0.999, 2.0, 8.0], 'Lgf': [0.5, 0.25, 0.99, 1.0], 'minls': [0.25, 2.0 ** -20],
            'lipeps': [1e-3, 1e-9], 'lipdelta': [1e-6, 1e-3], 'Lmin': [1.0, 16.0], 'Lmax': [64.0, 1024.0],
            'gnint': [0, 1, 2, 3], 'gnsticky': [0, 1], 'resetgn': [0, 1], 'noaccel': [0, 1]},
}
SWITCHES = {'force', 'updcand', 'updprox', 'recomp', 'eager', 'approx', 'rationew', 'noaccel', 'noacc', 'fd',
            'gnint', 'gnsticky', 'resetgn'}
TOL_CLASSES = {'zero': 0.0, 'negative': -1.0, 'inf': INF, 'nan': float('nan')}
NONDYADIC = [0.3, 1.7, 10.0, 123.456, 0.01, 3.0, 7.5e-1, 1e3]


def vary_params(rng, op, solver, p_each=0.18):
    """Give every numeric parameter of `solver` a non-default value with probability `p_each` (independently), keep
    the switches the solver's own generator drew.  L_min ≤ L_max is kept; FISTA's fixed-step mode (L_min = L_max) and
    a tiny-L_max (`wild`) ZeroFPR run are left alone."""
    space = PARAM_SPACE[solver]
    fixed_fista = solver == 'fista' and op.get('Lmin') is not None and op.get('Lmin') == op.get('Lmax')
    for k, vals in space.items():
        if k in SWITCHES:
            if k not in op and k != 'fd':
                op[k] = str(rng.choice(vals))
            continue
        if k in ('Lmin', 'Lmax') and (fixed_fista or (k == 'Lmax' and op.flt('Lmax', 1e20) < 1e19)):
            continue
        if rng.random() < p_each:
            op[k] = f2h(rng.choice(vals))
    return fix_lipschitz_bounds(op, solver)


def fix_lipschitz_bounds(op, solver=None):
    """L_min ≤ L_max is a precondition of the library (`std::clamp(L, L_min, L_max)`): keep generated ops inside it."""
    if op.flt('Lmin', 1e-5) > op.flt('Lmax', 1e20):
        op['Lmin'] = f2h(1e-5 if solver == 'fista' else op.flt('Lmax', 1e20))   # FISTA: L_min = L_max is the fixed-step mode
    return op


def vary_tolerance(rng, op, p=0.1):
    """tolerance ∈ {0, < 0, +inf, NaN} (10 %: `tolerance > 0 ? tolerance : 1e-8`; NaN and inf are legal doubles) and
    max_no_progress ∈ {0, 1, 2, 10} (0 is legal since /repo f7343661f)."""
    if rng.random() < p:
        op['tol'] = f2h(rng.choice(list(TOL_CLASSES.values())))
    op['maxnp'] = str(rng.choice([0, 1, 2, 10]))
    return op


def vary_sigma(rng, op, key='Sig', p=0.4):
    """Penalty weights / multipliers that are not powers of two (rounding in ŷ = Σ(ζ − Π_D ζ), err_z = (ŷ − y)/Σ)."""
    if rng.random() < p:
        v = op.vec(key)
        op[key] = kvvec([rng.choice(NONDYADIC) if rng.random() < 0.7 else a for a in v])
        y = op.vec('y0')
        op['y0'] = kvvec([(a * rng.choice([1.0, 0.3, 1.1])) for a in y])
    return op


def status_class(rng, op, p_np=0.12, p_nf=0.05):
    """Starts that reach NoProgress (a corner of a — possibly degenerate — box with tolerance 1e-300) and NotFinite
    (an astronomically large start: the quartic / its gradient overflow) on the polynomial problems."""
    r = rng.random()
    if r < p_np:
        op.update({'maxnp': str(rng.choice([0, 1, 2, 3])), 'tol': f2h(1e-300), 'maxiter': str(rng.choice([20, 60])),
                   'nanat': '0', 'stopat': '0', 'stopcb': '0', 'oot': '0'})
        lb, ub = op.vec('Clb'), op.vec('Cub')
        x0 = op.vec('x0')
        for i in range(len(x0)):
            if math.isfinite(lb[i]):
                x0[i] = lb[i]
                if rng.random() < 0.5:
                    ub[i] = lb[i]
            elif math.isfinite(ub[i]):
                x0[i] = ub[i]
        op['x0'] = kvvec(x0); op['Cub'] = kvvec(ub)
    elif r < p_np + p_nf:
        sc = 10.0 ** rng.choice([90, 100, 120, 160])
        op['x0'] = kvvec([(a if a != 0 else 1.0) * sc for a in op.vec('x0')])
        n = op.nat('n')
        op['Clb'] = kvvec([-INF] * n); op['Cub'] = kvvec([INF] * n)
        op['q4'] = kvvec([max(a, 0.5) for a in op.vec('q4')])
        op['nanat'] = '0'; op['stopat'] = '0'; op['stopcb'] = '0'
    return op


def vary_all(rng, op, solver):
    """The variation every loop-level check applies on top of a solver's own run generator."""
    vary_params(rng, op, solver)
    vary_tolerance(rng, op)
    if solver == 'ocp':
        vary_sigma(rng, op, key='mu')
    else:
        vary_sigma(rng, op)
        status_class(rng, op)
    return op


def coverage_classes(solver, op_line, out_line):
    """The classes a run exercises: exit status, criterion, tolerance class, max_no_progress = 0, non-dyadic Σ / μ,
    and — for runs with at least one iteration — each parameter at a non-default value / each switch value."""
    op = Op.parse(op_line)
    t = out_line.split(' ; ')[0].split()
    out = set()
    if len(t) < 3 or t[0] != 'S':
        return out
    if t[1] == 'exception':
        out.add('status:exception')
        return out
    out.add('status:' + t[1])
    crit = op.nat('crit', 0)
    out.add('crit:' + CRITS[crit])
    tol = op.flt('tol', 1e-8)
    out.add('tol:' + ('nan' if tol != tol else 'inf' if tol == INF else 'zero' if tol == 0 else
                      'negative' if tol < 0 else 'positive'))
    if op.nat('maxnp', 10) == 0:
        out.add('maxnp:0')
    sig = op.vec('mu' if solver == 'ocp' else 'Sig')
    if any(a > 0 and math.frexp(a)[0] != 0.5 for a in sig):
        out.add('sigma:nondyadic')
    try:
        iters = int(t[2])
    except ValueError:
        iters = 0
    if iters >= 1:
        for k in PARAM_SPACE[solver]:
            if k in SWITCHES:
                if k in op:
                    out.add(f'param:{k}={op[k]}')
            elif k in op and f2h(op.flt(k)) != f2h(DEFAULTS.get(k, float('nan'))):
                out.add(f'param:{k}:nondefault')
    return out


def required_classes(solver):
    """What a thorough run of a loop-level check must have exercised for `solver` (a missing class is a broken tie:
    the check's verdict does not cover it)."""
    req = {'status:Converged', 'status:MaxIter', 'status:Interrupted', 'status:NotFinite', 'status:MaxTime',
           'tol:positive', 'tol:zero', 'tol:negative', 'tol:inf', 'tol:nan', 'maxnp:0', 'sigma:nondyadic'}
    if solver != 'pantr':
        req.add('status:NoProgress')                     # pantr.tpp never updates no_progress
    if solver == 'ocp':
        req |= {'crit:' + c for c in CRITS if c in ('ProjGradNorm', 'ProjGradNorm2', 'ProjGradUnitNorm',
                                                    'ProjGradUnitNorm2', 'FPRNorm', 'FPRNorm2')}
        req.add('status:exception')                      # the four unsupported criteria
    else:
        req |= {'crit:' + c for c in CRITS}
    for k, vals in PARAM_SPACE[solver].items():
        if k in SWITCHES:
            req |= {f'param:{k}={v}' for v in vals}
        else:
            req.add(f'param:{k}:nondefault')
    return req


class Coverage:
    """Per-solver class accounting of a check; `report` turns missing required classes into broken ties (thorough)
    or notes (quick)."""

    def __init__(self):
        self.seen = {}

    def add(self, solver, op_line, out_line):
        self.seen.setdefault(solver, set()).update(coverage_classes(solver, op_line, out_line))

    def report(self, rep, broken, tier, solvers, ignore=()):
        cov = {}
        for s in solvers:
            seen = self.seen.get(s, set())
            missing = sorted(c for c in required_classes(s) - seen if c not in ignore)
            cov[s] = {'exercised': len(seen), 'required': len(required_classes(s)), 'missing': missing}
            if missing:
                msg = f'[{s}] required coverage classes never exercised: {", ".join(missing)}'
                if tier == 'thorough':
                    broken.append(msg)
                else:
                    rep.note('coverage (quick tier, not enforced): ' + msg)
        rep.cov['required_coverage'] = cov
