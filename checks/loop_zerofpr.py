#!/usr/bin/env python3
"""
ZeroFPR loop model: generator of solver runs, harness build, trace-replay comparison.

Importable pieces for the property checks (c03 / c05 / c06 / c19):
    build_harness() -> (exe | None, log)
    gen_run(rng, stop=None, **over) -> solvers.Op
    sweep_ops(rng, exe, n) -> [op lines]          exhaustive stop injection on fixed runs
    corpus_ops() -> [op lines]                    fixed runs reaching rare line-search paths
    replay(exe, ops) -> dict(n, bad, skipped, first=[...], status=Counter)
    DRIVER, MODULES, EXTRA_SOURCES, GEN_SCRIPTS
`python3 checks/loop_zerofpr.py [--seeds 1,2,3] [--n 600] [--sweep 6]` runs the self-test:
translators -> lake build of the Props modules and the driver -> axiom audit -> harness build ->
bit-exact replay comparison, and prints the counts.
"""
import collections
import os
import random
import sys

sys.path.insert(0, os.path.dirname(os.path.abspath(__file__)))
import common as C
import solvers as S
from common import f2h

DRIVER = 'drv_loop_zerofpr'
MODULES = ['Alpaqa.Props.C03_Zerofpr', 'Alpaqa.Props.C05_Zerofpr', 'Alpaqa.Props.C06_Zerofpr',
           'Alpaqa.Props.C19_Zerofpr']
EXTRA_SOURCES = ['Alpaqa/Model/Zerofpr.lean', 'Alpaqa/Proofs/ZerofprInv.lean',
                 'Alpaqa/Proofs/ZerofprExample.lean',
                 'Alpaqa/Proofs/ZerofprStep.lean', 'Alpaqa/Proofs/ZerofprFuel.lean',
                 'Alpaqa/Proofs/ZerofprTicks.lean', 'Alpaqa/Proofs/ZerofprChain.lean',
                 'Alpaqa/Proofs/ZerofprSized.lean', 'Alpaqa/Proofs/ZerofprDoc.lean',
                 'Alpaqa/Proofs/ProxContract.lean',
                 'Alpaqa/Gen/C05.lean', 'Alpaqa/Gen/C06.lean', 'Driver/LoopZerofpr.lean']
GEN_SCRIPTS = ['gen_c05.py', 'gen_c06.py']
HARNESS_SOURCES = ['solvers_zerofpr_main.cpp', 'solvers_zerofpr.cpp']
DIRECTIONS = ['lbfgs', 'slbfgs', 'anderson', 'noop', 'adv']
MAX_ITERS = [0, 1, 2, 3, 5, 20, 60]
# parameters ZeroFPR has on top of the common ones (harness/solvers_zerofpr.cpp)
ZEROFPR_PARAMS = ['minls', 'force', 'beta', 'lstol', 'updcand', 'recomp', 'updprox']
EPS10 = 10 * 2.220446049250313e-16


def corpus_ops():
    """Fixed runs that reach rarely taken line-search paths (checks/corpus/loop_zerofpr.txt)."""
    path = os.path.join(C.VERIF, 'checks', 'corpus', 'loop_zerofpr.txt')
    if not os.path.exists(path):
        return []
    return [l.strip() for l in open(path, encoding='utf8') if l.strip() and not l.startswith('#')]


def build_harness():
    srcs = [os.path.join(C.VERIF, 'harness', s) for s in HARNESS_SOURCES]
    return C.build_exe('solvers_zerofpr', srcs + C.repo_lib_sources(S.LIB_SUBSET))


def gen_run(rng, stop=None, wild=False, **over):
    """One ZeroFPR run.  stop=None: random stop injection (evaluation / callback / none);
    stop=False: none.  Keyword arguments override op fields.
    wild=True additionally draws a small `L_max` (64 or 4): this is what reaches the
    `next->L >= L_max` branches of the line search, but with the step size no longer allowed to
    shrink the iterates of many problems diverge to 1e38 … inf within a few iterations.  Such runs
    are for the *replay* (model = code also there); the C03 monitor's feasibility tolerance
    (ulps of the returned x and the bound) is not meaningful when the projection's operand is 1e38
    and the problem functions overflow, so monitors should be applied to wild=False runs."""
    l1 = rng.random() < 0.15
    p = S.gen_problem(rng, l1=l1)
    st = S.gen_start(rng, p)
    d = rng.choice(DIRECTIONS + ['lbfgs'])
    if l1 and d == 'slbfgs':
        d = 'lbfgs'            # structured L-BFGS needs get_box_C (no ℓ1 term)
    op = S.Op({'_op': 'run', 'solver': 'zerofpr', 'dir': d, **S.problem_kv(p),
               **{k: S.kvvec(v) for k, v in st.items()},
               'maxiter': str(rng.choice(MAX_ITERS)),
               'tol': f2h(rng.choice([1e-8, 1e-3, 1e-1, 10.0])),
               'crit': str(rng.randrange(10)), 'maxnp': str(rng.choice([1, 2, 10])),
               'overwrite': str(rng.randint(0, 1)),
               # ZeroFPR-specific parameters
               'updcand': str(rng.randint(0, 1)), 'recomp': str(rng.randint(0, 1)),
               'updprox': str(rng.randint(0, 1)), 'force': str(rng.choice([0, 0, 1])),
               'minls': f2h(rng.choice([1. / 256, 1. / 256, 0.25, 0.5, 1.0, 2.0 ** -20])),
               'beta': f2h(rng.choice([0.95, 0.95, 0.5, 1.0, 0.0])),
               'lstol': f2h(rng.choice([EPS10, EPS10, 0.0, 1e-3])),
               'qubtol': f2h(rng.choice([EPS10, EPS10, 0.0, 1e-3])),
               'Lmax': f2h(rng.choice([64.0, 4.0]) if (wild and rng.random() < 0.7) else 1e20),
               'Lgf': f2h(rng.choice([0.95, 0.95, 0.5, 1.0])),
               'mem': str(rng.choice([1, 2, 5])),
               'advseed': str(rng.randint(1, 1000)), 'advinit': str(rng.choice([0, 0, 1])),
               'hvf': f2h(rng.choice([0.0, 0.0, 1.0])),
               'L0': f2h(rng.choice([0.0, 0.0, 1.0, 64.0])),
               'stopat': '0', 'stopcb': '0',
               'nanat': str(rng.choice([0] * 9 + [rng.randint(1, 12)])),
               'oot': str(rng.choice([0] * 19 + [1])), 'wmscratch': str(rng.choice([0, 0, 1]))})
    if rng.random() < 0.25:
        # "hard line search" profile: a Lipschitz estimate that is far too small away from x0
        # (penalty terms with large Σ switch on along the step), no rounding margins, a long
        # τ-backtracking range — reaches step-size backtracking *after* τ was reduced, direction
        # resets inside the line search, line-search failures
        op.update({'L0': f2h(rng.choice([2.0 ** -6, 2.0 ** -3])), 'minls': f2h(2.0 ** -20),
                   'qubtol': f2h(0.0), 'lstol': f2h(0.0), 'force': '0',
                   'dir': rng.choice(['adv', 'lbfgs', 'anderson']) if not l1 else 'adv',
                   'maxiter': str(rng.choice([5, 20, 60])),
                   'Sig': S.kvvec([2.0 ** rng.randint(4, 10) for _ in range(p['m'])])})
    if stop is None:
        r = rng.random()
        if r < 0.2:
            op['stopat'] = str(rng.randint(1, 40))
        elif r < 0.27:
            op['stopcb'] = str(rng.randint(1, 5))
    for k, v in over.items():
        op[k] = str(v)
    return op


def is_wild(op_line):
    return S.Op.parse(op_line).flt('Lmax', 1e20) < 1e19


@C.tolerant
def sweep_ops(rng, exe, n_problems, wild=False):
    """Exhaustive stop injection: for fixed runs, `stop()` during every event index (problem
    evaluation, direction call or progress callback)."""
    ops = []
    for i in range(n_problems):
        # the first base run has many initial step-size backtracks (stop() lands inside that loop)
        init = S.init_sweep_overrides(rng) if i == 0 else {}
        base = gen_run(rng, stop=False, wild=wild, maxiter=rng.choice([2, 3, 4]), nanat=0, oot=0,
                       trace=0, **init)
        out, rc, err = C.run_lines(exe, [base.line()])
        if rc != 0 or not out:
            continue
        r = S.parse_out(out[0])
        T = r.get('ticks', 0)
        base.pop('trace')
        for t in range(1, T + 1):
            o = S.Op(base); o['stopat'] = str(t)
            ops.append(o.line())
    return ops


def driver_input(op_line, harness_out):
    return op_line + ' || ' + S.events_only(harness_out)


def replay(exe, ops, drv=None, show=3):
    """Run `ops` through the real solver and the Lean model; compare every section."""
    drv = drv or C.driver_exe(DRIVER)
    hout, rc, err = C.run_lines(exe, ops)
    res = {'n': len(ops), 'bad': 0, 'skipped': 0, 'first': [], 'status': collections.Counter(),
           'harness_rc': rc, 'hout': hout}
    if rc != 0 or len(hout) != len(ops):
        res['bad'] = len(ops)
        res['first'].append(f'harness rc={rc} lines={len(hout)}/{len(ops)}: {err[-300:]}')
        return res
    dout, rc, err = C.run_lines(drv, [driver_input(o, h) for o, h in zip(ops, hout)])
    res['driver_rc'] = rc
    if rc != 0 or len(dout) != len(ops):
        res['bad'] = len(ops)
        res['first'].append(f'driver rc={rc} lines={len(dout)}/{len(ops)}: {err[-300:]}')
        return res
    res['monitor_hits'] = monitor_hits(ops, hout)
    for i, (o, h, d) in enumerate(zip(ops, hout, dout)):
        if d.startswith('ORACLE-NOT-A-FUNCTION'):
            # NaN injection made the recorded problem answer differently to the same question:
            # not an instance of the model's (pure) oracle interface
            res['skipped'] += 1
            continue
        hs = S.strip_events(h)
        try:
            res['status'][S.parse_out(h)['stats']['status']] += 1
        except Exception:
            pass
        if hs != d.strip():
            res['bad'] += 1
            if len(res['first']) < show:
                a = hs.split(' ; '); b = d.split(' ; ')
                msg = f'MISMATCH #{i}: {o}\n'
                for k, (x, y) in enumerate(zip(a, b)):
                    if x != y:
                        msg += f'  section {k}\n   real : {x[:1200]}\n   model: {y[:1200]}\n'
                        break
                if len(a) != len(b):
                    msg += f'  sections real={len(a)} model={len(b)}; last real: {a[-1][:300]} ||| last model: {b[-1][:300]}\n'
                res['first'].append(msg)
    return res


def monitor_hits(ops, hout):
    """The C03 monitor (checks/c03.py: feasibility of x, err_z = g(x) − Π_D(g(x)+y/Σ), y = y_in+Σ·err_z,
    multiplier signs, untouched outputs) applied to the real solver's outputs."""
    import c03
    hits = []
    for o, h in zip(ops, hout):
        if is_wild(o):
            continue
        try:
            m = c03.monitor(o, h, {})
        except Exception as e:
            m = f'monitor crashed: {e!r}'
        if m:
            hits.append((m if isinstance(m, str) else m[0], o))
    return hits


def coverage(ops):
    cov = collections.defaultdict(collections.Counter)
    for o in ops:
        op = S.Op.parse(o)
        for k in ['dir', 'crit', 'maxiter', 'overwrite', 'nanat', 'stopcb', 'Lmax'] + ZEROFPR_PARAMS:
            v = op.get(k, '-')
            if k in ('nanat', 'stopcb'):
                v = '0' if v == '0' else '>0'
            cov[k][v] += 1
        cov['stop'][('eval' if op.get('stopat', '0') != '0' else 'none')] += 1
    return cov


def selftest(argv):
    seeds = [1, 2, 3]
    n = 600
    nsweep = 6
    for i, a in enumerate(argv):
        if a == '--seeds':
            seeds = [int(x) for x in argv[i + 1].split(',')]
        elif a == '--n':
            n = int(argv[i + 1])
        elif a == '--sweep':
            nsweep = int(argv[i + 1])
    rep = C.Report('LOOP_ZEROFPR', 'quick')          # never .finish()ed: no evidence file written
    ps = C.proof_stage(rep, 'LOOP_ZEROFPR', GEN_SCRIPTS, MODULES, driver=DRIVER,
                       extra_sources=EXTRA_SOURCES)
    print(f'proof stage: ok={ps["ok"]} obligations={rep.cov["obligations"]} '
          f'discharged={rep.cov.get("discharged")} axioms={rep.cov.get("axioms_used")}')
    for b in ps['broken']:
        print('  BROKEN:', b[:400])
    exe, log = build_harness()
    if exe is None:
        print('harness build FAILED:', log[-2000:])
        return 1
    total = bad = skipped = nmon = 0
    status = collections.Counter()
    cov_all = collections.defaultdict(collections.Counter)
    r = replay(exe, corpus_ops())
    print(f'corpus: runs={r["n"]} mismatches={r["bad"]} skipped={r["skipped"]}')
    for m in r['first']:
        print(m)
    total += r['n']; bad += r['bad']; skipped += r['skipped']; nmon += len(r.get('monitor_hits', []))
    for sd in seeds:
        rng = random.Random(sd * 1000003 + 5)
        ops = [gen_run(rng, wild=(i % 3 == 2)).line() for i in range(n)]
        nr = len(ops)
        ops += sweep_ops(rng, exe, nsweep) + sweep_ops(rng, exe, max(1, nsweep // 3), wild=True)
        r = replay(exe, ops)
        for k, c in coverage(ops).items():
            cov_all[k].update(c)
        print(f'seed {sd}: random runs={nr} stop-sweep runs={len(ops) - nr} mismatches={r["bad"]} '
              f'skipped(non-functional oracle)={r["skipped"]}')
        for m in r['first']:
            print(m)
        for m, o in r.get('monitor_hits', [])[:3]:
            print(f'C03 MONITOR HIT: {m}\n   op: {o}')
        nmon += len(r.get('monitor_hits', []))
        total += r['n']; bad += r['bad']; skipped += r['skipped']
        status.update(r['status'])
    print(f'TOTAL runs={total} mismatches={bad} skipped={skipped} c03-monitor-hits={nmon}')
    print('exit status of the real solver:', dict(status))
    for k in sorted(cov_all):
        print(f'  coverage {k}: {dict(sorted(cov_all[k].items()))}')
    return 0 if (ps['ok'] and bad == 0 and nmon == 0) else 1


if __name__ == '__main__':
    sys.exit(selftest(sys.argv[1:]))
