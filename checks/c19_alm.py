#!/usr/bin/env python3
"""C19, ALM level — `alm.stop()` on the real ALMSolver wrapping each real inner solver (PANOC, ZeroFPR, PANTR,
FISTA): harness/alm_stop.cpp.  Exhaustive: stop() from inside every event of fixed ALM runs with ≥ 2 outer
iterations — every problem-function call of the whole ALM solve (incl. eval_proj_multipliers at the top of each
outer iteration, the f / g evaluations of the penalty initialisation), every direction call, every progress
callback.

Monitor (derived from alm.tpp: the outer loop makes exactly one problem call of its own per outer iteration,
eval_proj_multipliers, and none after the inner solve returned; ALMSolver::stop() sets ALM's own flag and the
inner solver's; ALM reads its flag once per outer iteration, right after the inner solve):
  * event accounting: `[f g] (projmult [inner solve])*`, nothing after the last inner solve;
  * the inner solve in flight when stop() lands obeys its own bound (checks/c19.py BOUNDS, relative to its first
    event) and is the LAST one, whatever status it returns (Interrupted, or a natural status because the request
    landed after its last poll — in its final callback — or a higher-priority status held at the poll): ALM
    makes no further call at all;
  * if the request lands in one of ALM's own calls (eval_proj_multipliers at the top of an outer iteration, the
    f / g evaluations of the penalty initialisation) the inner solve of that same outer iteration is still
    started — with the flag set: it must end at its *first* loop-head check (0 iterations, ≤ 1 callback,
    ≤ init + A_init events; A_init: PANOC / ZeroFPR 4, PANTR 3, FISTA 5 + 2 per step-size backtrack of its
    first pass) — and is the last one;
  * an inner solve that returned Interrupted is the last one and ALM reports Interrupted; once stop() has landed
    ALM reports Interrupted or the natural final status of the outer iteration in flight (Converged; MaxIter
    only in the last admissible iteration; MaxTime); without stop() never Interrupted;
  * the returned x, y satisfy the C03 relations w.r.t. the last inner solve's (y_in, Σ, err_z), and C01's KKT
    monitor when ALM reports Converged with the ApproxKKT criterion.
Repaired in /repo (fixes/C19-alm-stop-flag.diff; key C19-alm-continues-after-stop-when-inner-exits-naturally, its
corpus op stays): ALM used to look at the request only through the inner solver's returned status and kept
starting inner solves when each one exited at its first check with a status that outranks Interrupted.
"""
import os
import random
import subprocess
import sys

sys.path.insert(0, os.path.dirname(os.path.abspath(__file__)))
import common as C
import solvers as S
import c01
import c03
import c19

SOLVERS = ['panoc', 'zerofpr', 'pantr', 'fista']
KEY_CHAIN = 'C19-alm-continues-after-stop-when-inner-exits-naturally'
COUNTS = {}

# inputs kept from earlier failures, run first
CORPUS = [
    # alm.stop() from inside event 1 (eval_proj_multipliers): before the repair two further inner solves, both
    # Converged at their first check, ALM returned Converged after 15 further calls (finding KEY_CHAIN, fixed)
    'almstop solver=panoc dir=anderson stack=panoc-anderson n=1 m=3 Q=1:3fe0000000000000 c=1:c019000000000000 q4=1:3ff0000000000000 A=3:c000000000000000,0000000000000000,0000000000000000 b=3:0000000000000000,0000000000000000,0000000000000000 Clb=1:3fe8000000000000 Cub=1:3fe8000000000000 Dlb=3:c000000000000000,bfe0000000000000,0000000000000000 Dub=3:7ff0000000000000,3fe0000000000000,0000000000000000 l1=0: x0=1:0000000000000000 y0=3:0000000000000000,0000000000000000,0000000000000000 Sig=3:3ff0000000000000,4040000000000000,3ff0000000000000 tol=3ee4f8b588e368f1 dtol=3f847ae147ae147b almiter=3 maxiter=1 crit=0 hess=1 fd=0 mem=5 L0=0000000000000000 penfac=4024000000000000 initpen=3ff0000000000000 usesig=1 inittol=3ff0000000000000 advseed=231 stopat=1 stopcb=0',
]


def bump(k, n=1):
    COUNTS[k] = COUNTS.get(k, 0) + n


def build_harness():
    srcs = [s for s in C.repo_lib_sources() if not s.endswith('/util/dl.cpp')]
    return C.build_exe('almstop', [os.path.join(C.VERIF, 'harness', 'alm_stop.cpp')] + srcs)


def gen_base(rng, solver):
    p = c01.gen_feasible_problem(rng, convex=rng.random() < 0.8, m=rng.choice([1, 1, 2, 3]))
    st = S.gen_start(rng, p)
    d = {'panoc': rng.choice(['lbfgs', 'lbfgs', 'anderson', 'noop']),
         'zerofpr': rng.choice(['lbfgs', 'lbfgs', 'anderson', 'noop']),
         'pantr': rng.choice(['newtontr', 'newtontr', 'advtr']), 'fista': 'none'}[solver]
    op = S.Op({'_op': 'almstop', 'solver': solver, 'dir': d, 'stack': f'{solver}-{d}', **S.problem_kv(p),
               **{k: S.kvvec(v) for k, v in st.items()},
               'tol': C.f2h(rng.choice([1e-2, 1e-3, 1e-5])), 'dtol': C.f2h(rng.choice([1e-2, 1e-3, 1e-5])),
               'almiter': str(rng.choice([2, 3, 4, 6])), 'maxiter': str(rng.choice([1, 2, 4, 8, 20])),
               'crit': str(rng.choice([0, 0, 2, 4, 6, 8])), 'hess': '1', 'fd': str(rng.randint(0, 1)),
               'mem': str(rng.choice([2, 5])), 'L0': C.f2h(rng.choice([0.0, 0.0, 1.0, 2.0 ** -4])),
               'penfac': C.f2h(rng.choice([2.0, 10.0])), 'initpen': C.f2h(rng.choice([0.0, 1.0, 16.0])),
               'usesig': str(rng.choice([0, 0, 1])), 'inittol': C.f2h(rng.choice([1.0, 1e-1, 1e-3])),
               'advseed': str(rng.randint(1, 1000)), 'stopat': '0', 'stopcb': '0'})
    if solver == 'pantr' and d == 'newtontr' and p['m'] > 0:
        op['fd'] = '1'      # PolyProblem offers ∇²L·v only
    if solver == 'fista':
        op['maxiter'] = str(rng.choice([2, 5, 20, 60]))
    return op


def parse_out(line):
    r = {'solves': [], 'names': [], 'stoptick': None, 'L': None}
    for s in line.split(' ; '):
        t = s.split()
        if not t:
            continue
        if t[0] == 'A':
            r['status'] = t[1]; r['outer'] = int(t[2]); r['eps'] = C.h2f(t[3]); r['delta'] = C.h2f(t[4])
            r['inner_iters'] = int(t[5])
        elif t[0] == 'X':
            r['x'] = [C.h2f(a) for a in t[2:]]
        elif t[0] == 'Y':
            r['y'] = [C.h2f(a) for a in t[2:]]
        elif t[0] == 'T':
            r['ticks'] = int(t[1])
        elif t[0] == 'IS':
            r['solves'].append({'first': int(t[1]), 'last': int(t[2]), 'status': t[3], 'iterations': int(t[4]),
                                'callbacks': int(t[5])})
        elif t[0] == 'L':
            tt = S.T(t[1:])
            r['L'] = {'y_in': tt.vec(), 'Sig': tt.vec(), 'errz': tt.vec(), 'x_cb': tt.vec()}
        elif t[0] == 'N':
            r['names'] = t[1:]
        elif t[0] == 'ST':
            r['stoptick'] = int(t[1])
    return r


def segments(names):
    """→ (alm-level events [(tick, name)], per inner solve [names]) from the marked name stream."""
    alm, solves, cur, tick = [], [], None, 0
    for n in names:
        if n == '[':
            cur = []
        elif n == ']':
            solves.append(cur)
            cur = None
        else:
            tick += 1
            if cur is None:
                alm.append((tick, n))
            else:
                cur.append(n)
    if cur is not None:
        solves.append(cur)           # exception inside an inner solve
    return alm, solves, tick


def inner_bound(solver, names, t0rel):
    """(bound on the events of an inner solve in which the flag is visible from its event t0rel on (0: from the
    start), event count of its initialisation, initial backtracks, un-polled backtracks after the stop)."""
    B = c19.BOUNDS[solver]
    init = c19.init_ticks(names, solver)
    b = 0                        # every step-size loop polls the flag (repaired in /repo, c4ffee185)
    nb = sum(1 for i in range(1, max(init - 1, 1)) if names[i] == 'prox' and names[i - 1] == 'psi')
    bound = max(B['first_poll'], t0rel + B['after_stop'])
    return bound, init, nb, b


def monitor(op_line, out_line, st):
    if out_line.startswith('exception') or out_line.startswith('bad'):
        return f'harness: {out_line[:160]}'
    op = S.Op.parse(op_line)
    solver = op.get('solver', 'panoc')
    r = parse_out(out_line)
    T = r['ticks']
    alm_ev, segs, nticks = segments(r['names'])
    sol = r['solves']
    bump('runs'); bump('alm_status_' + r['status'])
    # ---- event accounting -----------------------------------------------------------------------
    if nticks != T or len(segs) != len(sol):
        return f'event stream has {nticks} events / {len(segs)} inner solves, the harness counted {T} / {len(sol)}'
    for s, names in zip(sol, segs):
        if s['last'] - s['first'] + 1 != len(names):
            return 'inner-solve tick range does not match its recorded events'
    m = op.nat('m')
    expect = []
    if m > 0:
        expect = [s['first'] - 1 for s in sol]
    got = [t for t, n in alm_ev if n == 'projmult']
    other = [(t, n) for t, n in alm_ev if n not in ('projmult',)]
    if got != expect:
        return (f'eval_proj_multipliers called at events {got}, expected exactly once before each inner solve '
                f'({expect})')
    if any(t > (sol[0]['first'] if sol else 0) for t, n in other) or any(n not in ('f', 'g') for t, n in other):
        return f'ALM made problem calls of its own other than eval_proj_multipliers / the penalty initialisation: {other}'
    if sol and T != sol[-1]['last']:
        return f'ALM made {T - sol[-1]["last"]} problem calls after its last inner solve returned'
    for k, s in enumerate(sol):
        if s['status'] == 'Interrupted' and k != len(sol) - 1:
            return (f'inner solve #{k} returned Interrupted but ALM started another inner solve '
                    f'(event {sol[k + 1]["first"]})')
    t0 = r['stoptick']
    if sol and sol[-1]['status'] == 'Interrupted' and r['status'] != 'Interrupted':
        return f'ALM status {r["status"]} but the last inner solve returned Interrupted'
    if sol and t0 is None and (r['status'] == 'Interrupted') != (sol[-1]['status'] == 'Interrupted'):
        return f'ALM status {r["status"]} but the last inner solve returned {sol[-1]["status"]} (no stop request)'
    if t0 is not None and r['status'] not in ('Interrupted', 'Converged', 'MaxIter', 'MaxTime'):
        return f'ALM status {r["status"]} after alm.stop()'
    if t0 is not None and r['status'] == 'MaxIter' and len(sol) != op.nat('almiter', 100) and m > 0:
        return f'ALM status MaxIter after {len(sol)} of {op.nat("almiter", 100)} outer iterations'
    if t0 is None:
        if r['status'] == 'Interrupted':
            return 'ALM returned Interrupted although stop() was never called'
        bump('runs_without_stop' if not (op.nat('stopat') or op.nat('stopcb')) else 'runs_finished_before_stop')
        return outputs_monitor(op, op_line, out_line, r, st)
    bump('stops_landed')
    via_inner = op.nat('viainner', 0) == 1
    if via_inner:
        bump('via_inner_stops_landed'); bump('via_inner_alm_' + r['status'])
    # ---- the inner solve in flight ----------------------------------------------------------------
    finding = None
    j = next((k for k, s in enumerate(sol) if s['first'] <= t0 <= s['last']), None)
    if j is not None:
        s, names = sol[j], segs[j]
        t0rel = t0 - s['first'] + 1
        Tj = len(names)
        bound, init, nb, b = inner_bound(solver, names, t0rel)
        if Tj > bound:
            return (f'alm.stop() landed at event {t0} (event {t0rel} of inner solve #{j}); the inner solver made '
                    f'{Tj - t0rel} further calls (its initialisation: {init}, un-polled backtracks after the stop: '
                    f'{b}); bound max({c19.BOUNDS[solver]["first_poll"]}, t0 + {c19.BOUNDS[solver]["after_stop"]})')
        bump('landed_in_inner_solve'); bump('inflight_status_' + s['status'])
        names_after = names[t0rel:]
        if sum(1 for n in names_after if n == 'cb') > 2:
            return f'more than 2 progress callbacks after alm.stop() landed at event {t0}'
    else:
        bump('landed_in_alm_event')
    # ---- inner solves started with the flag already set ----------------------------------------------
    later = [k for k, s in enumerate(sol) if s['first'] > t0]
    for k in later:
        s, names = sol[k], segs[k]
        bound, init, nb, b = inner_bound(solver, names, 0)
        if s['iterations'] != 0 or s['callbacks'] > 1:
            return (f'alm.stop() landed at event {t0}; inner solve #{k} was started afterwards (event {s["first"]}) '
                    f'and ran {s["iterations"]} iterations / {s["callbacks"]} callbacks, status {s["status"]} — '
                    f'the stop request was lost (ALM status {r["status"]}, {T - t0} further calls in total)')
        if len(names) > bound:
            return (f'inner solve #{k}, started with the stop flag set, made {len(names)} calls '
                    f'(bound: {c19.BOUNDS[solver]["first_poll"]})')
        if s['status'] == 'Busy':
            return f'inner solve #{k} returned Busy'
        bump('later_solve_status_' + s['status'])
    # ---- strict accounting: nothing after the inner solve of the outer iteration in flight ----------------
    allowed = 0 if j is not None else 1          # landed in an ALM-level call: that iteration's inner solve
    if later and j is None and not via_inner:
        bump('stop_survived_to_next_inner_solve')
    if via_inner:
        # ALM's own flag is clear: a request hidden by a status that outranks Interrupted (Converged at the same
        # head) is invisible to ALM, which rightly goes on; every inner solve started afterwards still sees the inner
        # flag (0 iterations, first-poll bound: checked above) and none may follow one that returned Interrupted
        # (checked above).  The strict count below is a statement about alm.stop() only.
        bump('via_inner_later_solves_%d' % min(len(later), 3))
    elif len(later) > allowed:
        sts = [sol[k]['status'] for k in later]
        inflight = (f'inner solve #{j} in flight returned {sol[j]["status"]}' if j is not None
                    else 'it landed in a call of the ALM loop itself')
        finding = (f'alm.stop() landed at event {t0} ({inflight}); ALM started {len(later)} further inner '
                   f'solve(s) (statuses {sts}) and made {T - t0} further calls before returning {r["status"]}: '
                   f'once the flag is set and the inner solve of the outer iteration in flight has returned, no '
                   f'further inner solve may be started', KEY_CHAIN)
    last_seen = sol[j] if j is not None else (sol[later[0]] if later else None)
    if last_seen is not None and last_seen['status'] != 'Interrupted' and not finding:
        bump(('via_inner_hid_request_alm_' if via_inner else 'inner_hid_request_alm_') + r['status'])
    mm = outputs_monitor(op, op_line, out_line, r, st)
    if mm:
        return mm
    if finding:
        return finding
    bump('bound_checked')
    return None


def outputs_monitor(op, op_line, out_line, r, st):
    """C03 relations of the returned (x, y) w.r.t. the last inner solve; C01 KKT monitor on Converged."""
    sol = r['solves']
    if not sol or r['L'] is None:
        return None
    last = sol[-1]
    if last['callbacks'] == 0:
        return None                  # early return of the inner solver (non-finite Lipschitz estimate)
    L = r['L']
    op2 = S.Op(op)
    op2['y0'] = S.kvvec(L['y_in']); op2['Sig'] = S.kvvec(L['Sig']); op2['overwrite'] = '1'
    view = {'stats': {'status': last['status']}, 'events': [],
            'out': {'untouched': False, 'x': r['x'], 'y': r['y'], 'errz': L['errz']},
            'cbs': [{'x': L['x_cb']}]}
    import loopmon as LM
    m = LM.own_findings_only(c03.monitor(op2.line(), 'S view', st, parse=lambda line: view), 'C19', bump)
    if m:
        return f'outputs of the ALM solve (status {r["status"]}): {m if isinstance(m, str) else m[0]}'
    bump('c03_relations_checked')
    if r['status'] == 'Converged' and op.nat('crit', 0) == 0:
        # C01's certificate is stated for the ApproxKKT criterion (ε = ‖γ⁻¹(x−x̂) + ∇ψ(x̂) − ∇ψ(x)‖∞)
        m = c01.monitor(op_line, out_line, {})
        if m:
            return m
        bump('c01_kkt_checked')
    return None


@C.tolerant
def sweep_ops(rng, exe, solver, n_bases, max_ticks=260):
    """Fixed ALM runs with ≥ 2 outer iterations; alm.stop() from inside every event and every callback."""
    ops, found, tries = [], 0, 0
    while found < n_bases and tries < 40 * n_bases:
        tries += 1
        base = gen_base(rng, solver)
        try:
            out, rc, err = C.run_lines(exe, [base.line()], timeout=30)
        except subprocess.TimeoutExpired:
            continue
        if rc != 0 or not out or not out[0].startswith('A '):
            continue
        r = parse_out(out[0])
        if r['outer'] < 2 or r['ticks'] > max_ticks or len(r['solves']) < 2:
            continue
        found += 1
        ncb = sum(s['callbacks'] for s in r['solves'])
        ops.append(base.line())
        for t in range(1, r['ticks'] + 1):
            o = S.Op(base); o['stopat'] = str(t)
            ops.append(o.line())
        for jcb in range(1, ncb + 1):
            o = S.Op(base); o['stopcb'] = str(jcb)
            ops.append(o.line())
        # the same sweep with the request made on the wrapped inner solver (alm.inner_solver.stop()): ALM's own flag
        # stays clear, ALM must propagate the inner status Interrupted without starting another inner solve
        for t in range(1, r['ticks'] + 1):
            o = S.Op(base); o['stopat'] = str(t); o['viainner'] = '1'
            ops.append(o.line())
        bump('sweep_base_runs')
    return ops


def alm_stage(rep, broken, tier):
    exe, log = build_harness()
    if exe is None:
        broken.append('ALM stop harness does not compile against the working tree: ' + log[-1500:])
        return
    per = {}
    nb = 2 if tier == 'quick' else 30
    for solver in SOLVERS:
        rng = random.Random(C.seed() * 50021 + 19 + SOLVERS.index(solver) + (1000 if tier == 'thorough' else 0))
        ops = [l for l in CORPUS if f'solver={solver} ' in l] + sweep_ops(rng, exe, solver, nb)
        before = dict(COUNTS)
        try:
            out, rc, err = C.run_lines(exe, ops, timeout=900)
        except subprocess.TimeoutExpired:
            rep.violation(f'[alm/{solver}] ALM runs with stop injection did not return within the time limit',
                          {'ops': ops[:3]}, True)
            continue
        rep.cov['evaluations'] += len(out)
        if rc != 0 or len(out) != len(ops):
            rep.violation(f'[alm/{solver}] ALM harness crashed / aborted on op #{len(out)} (rc={rc}): {err[-300:]}',
                          {'op': ops[len(out)] if len(out) < len(ops) else None, 'stderr': err}, True)
            continue
        bad, st = 0, {}
        for o, h in zip(ops, out):
            try:
                m = monitor(o, h, st)
            except Exception as e:
                m = f'monitor crashed on {h[:80]!r}: {e!r}'
            if m:
                key = None
                if isinstance(m, tuple):
                    m, key = m
                n0 = len(rep.violations)
                rep.violation(f'[alm/{solver}] monitor: {m}', {'solver': solver, 'op': o, 'impl_out': h[:20000]},
                              True, key=key)
                if len(rep.violations) > n0:
                    bad += 1
                    if bad >= 3:
                        break
        per[solver] = {k: v - before.get(k, 0) for k, v in COUNTS.items() if v != before.get(k, 0)}
        rep.note(f'ALM monitor coverage [{solver}]: ' + ', '.join(f'{k}={v}' for k, v in sorted(per[solver].items())))
        if per[solver].get('alm_status_Interrupted', 0) == 0:
            broken.append(f'[alm/{solver}] stop injection never produced an Interrupted ALM run')
        if per[solver].get('via_inner_alm_Interrupted', 0) == 0:
            broken.append(f'[alm/{solver}] no Interrupted ALM run with the request made on the wrapped inner solver')
        if per[solver].get('stop_survived_to_next_inner_solve', 0) == 0:
            broken.append(f'[alm/{solver}] no stop request landed in a call of the ALM loop itself '
                          f'(eval_proj_multipliers), where only the inner solve started next can see it')
        if per[solver].get('inner_hid_request_alm_Interrupted', 0) == 0:
            broken.append(f'[alm/{solver}] no run in which the inner solve that saw the request returned a '
                          f'natural status and ALM reported Interrupted by its own flag (the repaired path of '
                          f'fixes/C19-alm-stop-flag.diff was not exercised)')
    rep.cov['alm_monitor_counts'] = {k: dict(sorted(v.items())) for k, v in per.items()}


def replay(rec):
    exe, log = build_harness()
    op = rec.get('payload', {}).get('op')
    out, rc, err = C.run_lines(exe, [op])
    print(out[0][:3000] if out else err)
    print('monitor:', monitor(op, out[0], {}) if out else None)
    return 0


if __name__ == '__main__':
    # stand-alone: python3 checks/c19_alm.py [--tier quick]   (no evidence file)
    tier = C.tier_from_argv(sys.argv)
    rep = C.Report('C19', tier)
    broken = []
    alm_stage(rep, broken, tier)
    for b in broken:
        print('BROKEN:', b)
    for key, what in rep.known_hits:
        print('KNOWN-FINDING:', key, what[:200])
    for what, path, has_input in rep.violations:
        print('VIOLATION:', what[:600], path)
    sys.exit(1 if (broken or rep.violations) else 0)
