#!/usr/bin/env python3
"""C12 — OCP cost, adjoint gradient and masked Riccati (Gauss-Newton) step.  See DESIGN.md §6 C12.

Op kinds (one line each; doubles as hex bit patterns):
  layout N nx nu nh nc nhN ncN        real OCPVariables accessors (offset, size) vs generated formulas
  iset N n mask_0 … mask_{N-1}        real IndexSet::update / indices / compl_indices vs the model
  fb <E|G> <problem> μ y x_init u     real OCPEvaluator::forward + backward on a polynomial OCP
                                      (E = exact regime: every binary64 operation is exact)
  fbs <E|G> <problem> μ y x_init K u_1 … u_K L call_1 … call_L
                                      a SEQUENCE of calls on ONE OCPEvaluator / one qr vector / K storages:
                                      F i = forward(storage_i), S i = forward_simulate(storage_i),
                                      B i = backward(storage_i), C i j = storage_j ← storage_i; the model is a
                                      pure function of the storage handed to each call, so any disagreement
                                      means the real object depends on its call history
handled outside the bit-exact stream (extra stage, compared to a tolerance):
  ric chol N nx nu <stages> Q_N q_N   real StatefulLQRFactor::factor_masked + solve_masked
  rics M N nx nu (chol <stages> Q_N q_N)×M   M cases on ONE StatefulLQRFactor / IndexSet / work vectors
  gn  chol <problem> μ y x_init u q masks   the Gauss-Newton step as panoc-ocp.tpp assembles it
  xstride …                           side observation (detail::assign_extract_x), never fails
"""
import itertools
import math
import os
import random
import sys
from fractions import Fraction as Fr

sys.path.insert(0, os.path.dirname(os.path.abspath(__file__)))
import common as C
from common import f2h, h2f, vec2p

INF = float('inf')
STATS = {'fb_exact_regime': 0, 'fb_general': 0, 'layout': 0, 'iset': 0, 'fbs_sequences': 0, 'fbs_calls': 0,
         'fbs_backward_on_earlier_forward': 0, 'fbs_backward_on_copy': 0, 'fbs_backward_activity_differs_from_last_forward': 0}


# ------------------------------------------------------------------------------ parsing

class T:
    def __init__(self, line):
        self.t = line.split()
        self.p = 0

    def tok(self):
        self.p += 1
        return self.t[self.p - 1]

    def nat(self):
        return int(self.tok())

    def flt(self):
        return h2f(self.tok())

    def vec(self):
        n = self.nat()
        return [self.flt() for _ in range(n)]

    def ivec(self):
        n = self.nat()
        return [self.nat() for _ in range(n)]

    def expect(self, s):
        t = self.tok()
        if t != s:
            raise ValueError(f'expected {s}, got {t}')


# ------------------------------------------------------------------------------ exact arithmetic

class Dual:
    """value + exact gradient w.r.t. the n inputs (forward-mode differentiation with Fractions:
    the product rule applied symbolically — exact derivative of the polynomial, no differences)."""
    __slots__ = ('v', 'g')

    def __init__(self, v, g):
        self.v = v
        self.g = g

    @staticmethod
    def const(v, n):
        return Dual(Fr(v), [Fr(0)] * n)

    def _c(self, o):
        return o if isinstance(o, Dual) else Dual(Fr(o), [Fr(0)] * len(self.g))

    def __add__(self, o):
        o = self._c(o)
        return Dual(self.v + o.v, [a + b for a, b in zip(self.g, o.g)])
    __radd__ = __add__

    def __sub__(self, o):
        o = self._c(o)
        return Dual(self.v - o.v, [a - b for a, b in zip(self.g, o.g)])

    def __rsub__(self, o):
        return self._c(o) - self

    def __mul__(self, o):
        o = self._c(o)
        return Dual(self.v * o.v, [a * o.v + self.v * b for a, b in zip(self.g, o.g)])
    __rmul__ = __mul__

    def __neg__(self):
        return Dual(-self.v, [-a for a in self.g])


def val(x):
    return x.v if isinstance(x, Dual) else x


class Prob:
    """The polynomial OCP of harness/c12.cpp, evaluated exactly (and, with maj=True, its
    absolute-value majorant, which bounds the sum of the magnitudes of all terms)."""

    def __init__(self, t):
        self.N = t.nat(); self.nx = t.nat(); self.nu = t.nat(); self.nh = t.nat()
        self.nhN = t.nat(); self.nc = t.nat(); self.ncN = t.nat()
        names = ['A', 'B', 'Cb', 'e', 'Hm', 'HN', 'w', 'g', 'd', 'wN', 'gN', 'Cc', 'cq', 'ce', 'CcN',
                 'cqN', 'Dlb', 'Dub', 'DNlb', 'DNub', 'dA', 'dB', 'dHm', 'dw', 'dCc']
        for n in names:
            setattr(self, n, t.vec())

    def F(self, name, maj):
        v = getattr(self, name)
        return [abs(Fr(a)) for a in v] if maj else [Fr(a) for a in v]

    def cost(self, xinit, u, mu, y, maj=False, trace=None):
        """u: list of N lists of nu numbers (Fraction or Dual).  Returns (V, xs, hs, cs)."""
        N, nx, nu, nh, nhN, nc, ncN = self.N, self.nx, self.nu, self.nh, self.nhN, self.nc, self.ncN
        A0, B0, Cb, e = self.F('A', maj), self.F('B', maj), self.F('Cb', maj), self.F('e', maj)
        Hm0, HN = self.F('Hm', maj), self.F('HN', maj)
        w0, g, d, wN, gN = (self.F(k, maj) for k in ('w', 'g', 'd', 'wN', 'gN'))
        Cc0, cq, ce, CcN, cqN = (self.F(k, maj) for k in ('Cc', 'cq', 'ce', 'CcN', 'cqN'))
        dA, dB, dHm, dw, dCc = (self.F(k, maj) for k in ('dA', 'dB', 'dHm', 'dw', 'dCc'))
        ab = (lambda z: abs(Fr(z))) if maj else (lambda z: Fr(z))
        mu = [Fr(m) for m in mu]
        y = [ab(a) for a in y]
        x = [ab(a) for a in xinit]
        half = Fr(1, 2)
        xs, hs, cs = [], [], []
        V = 0

        def note(q):
            if trace is not None:
                trace.append(val(q))

        def pen(c, lb, ub, muk, yk):
            s = 0
            for i in range(len(c)):
                z = c[i] + yk[i] / muk[i]
                note(z)
                zv = val(z)
                if maj:
                    dd = z + max([abs(Fr(b)) for b in (lb[i], ub[i]) if math.isfinite(b)], default=0)
                elif math.isfinite(lb[i]) and zv < Fr(lb[i]):
                    dd = z - Fr(lb[i])
                elif math.isfinite(ub[i]) and zv > Fr(ub[i]):
                    dd = z - Fr(ub[i])
                else:
                    dd = z * 0
                note(dd)
                term = dd * dd * muk[i]
                note(term)
                s = s + term
            return half * s

        for t in range(N):
            # time-varying coefficients of stage t
            A = [a + t * b for a, b in zip(A0, dA)]
            B = [a + t * b for a, b in zip(B0, dB)]
            Hm = [a + t * b for a, b in zip(Hm0, dHm)]
            w = [a + t * b for a, b in zip(w0, dw)]
            Cc = [a + t * b for a, b in zip(Cc0, dCc)]
            xs.append(x)
            ut = u[t]
            xu = list(x) + list(ut)
            if nh > 0:
                h = [sum((Hm[i * (nx + nu) + j] * xu[j] for j in range(nx + nu)), 0) for i in range(nh)]
            else:
                h = xu
            hs.append(h if nh > 0 else [])
            for i in range(len(h)):
                note(h[i])
                term = half * w[i] * h[i] * h[i] + (g[i] + t * d[i]) * h[i]
                note(w[i] * h[i] * h[i]); note(term)
                V = V + term
                note(V)
            if nc > 0:
                c = [t * ce[i] + sum((Cc[i * nx + j] * x[j] for j in range(nx)), 0)
                     + cq[i] * x[i % nx] * x[i % nx] for i in range(nc)]
                for q in c:
                    note(q)
                cs.append(c)
                V = V + pen(c, self.Dlb, self.Dub, mu[t * nc:(t + 1) * nc], y[t * nc:(t + 1) * nc])
                note(V)
            else:
                cs.append([])
            xn = []
            for i in range(nx):
                acc = t * e[i]
                for j in range(nx):
                    acc = acc + A[i * nx + j] * x[j]
                for k in range(nu):
                    acc = acc + B[i * nu + k] * ut[k]
                for j in range(nx):
                    for k in range(nu):
                        acc = acc + Cb[(i * nx + j) * nu + k] * x[j] * ut[k]
                        note(acc)
                note(acc)
                xn.append(acc)
            x = xn
        xs.append(x)
        if nhN > 0:
            h = [sum((HN[i * nx + j] * x[j] for j in range(nx)), 0) for i in range(nhN)]
        else:
            h = x
        hs.append(h if nhN > 0 else [])
        for i in range(len(h)):
            note(h[i])
            term = half * wN[i] * h[i] * h[i] + gN[i] * h[i]
            note(wN[i] * h[i] * h[i]); note(term)
            V = V + term
            note(V)
        if ncN > 0:
            c = [sum((CcN[i * nx + j] * x[j] for j in range(nx)), 0) + cqN[i] * x[i % nx] * x[i % nx]
                 for i in range(ncN)]
            for q in c:
                note(q)
            cs.append(c)
            V = V + pen(c, self.DNlb, self.DNub, mu[N * nc:N * nc + ncN], y[N * nc:N * nc + ncN])
            note(V)
        else:
            cs.append([])
        return V, xs, hs, cs


def dual_inputs(u, N, nu, maj=False):
    n = N * nu
    out = []
    for t in range(N):
        row = []
        for k in range(nu):
            gvec = [Fr(0)] * n
            gvec[t * nu + k] = Fr(1)
            a = Fr(u[t * nu + k])
            row.append(Dual(abs(a) if maj else a, gvec))
        out.append(row)
    return out


def bits(q):
    """size of an exact dyadic value in bits (None if the denominator is not a power of two)."""
    q = Fr(q)
    d = q.denominator
    if d & (d - 1):
        return None
    return abs(q.numerator).bit_length() + (d.bit_length() - 1 if q.numerator else 0)


# ------------------------------------------------------------------------------ generators

def small(rng, zero=0.4):
    if rng.random() < zero:
        return 0.0
    return rng.choice([-2.0, -1.0, -0.5, 0.5, 1.0, 2.0, -1.5, 1.5])


def gen_box(rng, n, exact):
    lb, ub = [], []
    for _ in range(n):
        a = small(rng, 0.2) if exact else rng.gauss(0, 2)
        b = small(rng, 0.2) if exact else rng.gauss(0, 2)
        a, b = min(a, b), max(a, b)
        k = rng.random()
        if k < 0.15:
            lb.append(-INF); ub.append(b)
        elif k < 0.3:
            lb.append(a); ub.append(INF)
        elif k < 0.4:
            lb.append(-INF); ub.append(INF)
        elif k < 0.5:
            lb.append(a); ub.append(a)
        else:
            lb.append(a); ub.append(b)
    return lb, ub


def gen_problem(rng, exact, dims=None):
    if dims is None:
        if exact:
            N = rng.choice([1, 1, 2, 2, 3])
            nx = rng.choice([1, 2, 2, 3]); nu = rng.choice([1, 2, 3])
        else:
            N = rng.choice([1, 2, 3, 4, 5])
            nx = rng.choice([1, 2, 3, 4]); nu = rng.choice([1, 2, 3])
        nh = rng.choice([0, 0, 1, 2, nx + nu])
        nhN = rng.choice([0, 0, 1, 2, nx])
        nc = rng.choice([0, 0, 1, 2, 3])
        ncN = rng.choice([0, 1, 2]) if nc == 0 or rng.random() < 0.6 else rng.choice([0, nc])
    else:
        N, nx, nu, nh, nhN, nc, ncN = dims
    nl = nh if nh > 0 else nx + nu
    nlN = nhN if nhN > 0 else nx
    if exact:
        r = lambda z=0.4: small(rng, z)
        pos = lambda: rng.choice([0.0, 0.5, 1.0, 1.0, 2.0])
    else:
        r = lambda z=0.2: 0.0 if rng.random() < z else rng.gauss(0, 1)
        pos = lambda: abs(rng.gauss(0, 1))
    A = [r() for _ in range(nx * nx)]
    B = [r(0.3) for _ in range(nx * nu)]
    Cb = [r(0.75) for _ in range(nx * nx * nu)]
    e = [r(0.6) for _ in range(nx)]
    Hm = [r(0.3) for _ in range(nh * (nx + nu))]
    HN = [r(0.3) for _ in range(nhN * nx)]
    w = [pos() for _ in range(nl)]
    g = [r(0.5) for _ in range(nl)]
    d = [r(0.7) for _ in range(nl)]
    wN = [pos() for _ in range(nlN)]
    gN = [r(0.5) for _ in range(nlN)]
    Cc = [r(0.3) for _ in range(nc * nx)]
    cq = [rng.choice([0.0, 0.0, 0.5, 1.0, -0.5]) if exact else r(0.4) for _ in range(nc)]
    ce = [r(0.6) for _ in range(nc)]
    CcN = [r(0.3) for _ in range(ncN * nx)]
    cqN = [rng.choice([0.0, 0.0, 0.5, 1.0, -0.5]) if exact else r(0.4) for _ in range(ncN)]
    Dlb, Dub = gen_box(rng, nc, exact)
    DNlb, DNub = gen_box(rng, ncN, exact)
    m = N * nc + ncN
    if exact:
        mu = [2.0 ** rng.randint(-2, 2) for _ in range(m)]
    else:
        mu = [abs(rng.gauss(0, 1)) * 10 ** rng.uniform(-1, 2) + 1e-3 for _ in range(m)]
    y = [r(0.3) for _ in range(m)]
    xinit = [r(0.2) for _ in range(nx)]
    u = [r(0.2) for _ in range(N * nu)]
    # stage dependence of every coefficient family (never all zero: a wrong stage index must show)
    def nz(v, gen):
        if v and all(a == 0 for a in v):
            v[rng.randrange(len(v))] = gen()
        return v
    one = (lambda: rng.choice([-1.0, -0.5, 0.5, 1.0])) if exact else (lambda: rng.gauss(0, 1) or 1.0)
    dA = nz([r(0.6) for _ in range(nx * nx)], one)
    dB = nz([r(0.6) for _ in range(nx * nu)], one)
    dHm = nz([r(0.6) for _ in range(nh * (nx + nu))], one)
    dw = nz([rng.choice([0.0, 0.5, 1.0]) if exact else abs(rng.gauss(0, 0.5)) for _ in range(nl)],
            lambda: 0.5)
    dCc = nz([r(0.6) for _ in range(nc * nx)], one)
    head = f'{N} {nx} {nu} {nh} {nhN} {nc} {ncN}'
    vs = [A, B, Cb, e, Hm, HN, w, g, d, wN, gN, Cc, cq, ce, CcN, cqN, Dlb, Dub, DNlb, DNub, dA, dB, dHm, dw, dCc]
    return head + ' ' + ' '.join(vec2p(v) for v in vs), (mu, y, xinit, u), (N, nx, nu, nh, nhN, nc, ncN)


EXACT_BITS = 40


def is_exact_regime(pline, mu, y, xinit, u):
    p = Prob(T(pline))
    tr = []
    V, xs, hs, cs = p.cost(xinit, dual_inputs(u, p.N, p.nu), mu, y, trace=tr)
    qs = list(tr) + [V.v] + list(V.g)
    for q in qs:
        b = bits(q)
        if b is None or b > EXACT_BITS:
            return False
    # the adjoint sweep forms products of multipliers with Jacobian entries: bound them by the
    # majorant gradient
    Vm, _, _, _ = p.cost(xinit, dual_inputs(u, p.N, p.nu, maj=True), mu, y, maj=True)
    for q in [Vm.v] + list(Vm.g):
        b = bits(q)
        if b is None or b > EXACT_BITS:
            return False
    return True


def gen_fb(rng, dims=None, exact=None):
    exact = (rng.random() < 0.5) if exact is None else exact
    pline, (mu, y, xinit, u), _ = gen_problem(rng, exact, dims)
    tag = 'E' if exact and is_exact_regime(pline, mu, y, xinit, u) else 'G'
    return f'fb {tag} {pline} {vec2p(mu)} {vec2p(y)} {vec2p(xinit)} {vec2p(u)}'


def activity(p, mu, y, xinit, u):
    """which constraint components are violated (ζ outside the box) along the exact trajectory:
    (tuple per stage …, terminal tuple)."""
    U = [[Fr(u[t * p.nu + k]) for k in range(p.nu)] for t in range(p.N)]
    _, _, _, cs = p.cost(xinit, U, mu, y)
    mu = [Fr(m) for m in mu]
    yv = [Fr(a) for a in y]

    def act(c, lb, ub, off):
        out = []
        for i in range(len(c)):
            z = c[i] + yv[off + i] / mu[off + i]
            out.append((math.isfinite(lb[i]) and z < Fr(lb[i])) or (math.isfinite(ub[i]) and z > Fr(ub[i])))
        return tuple(out)
    sig = [act(cs[t], p.Dlb, p.Dub, t * p.nc) for t in range(p.N)]
    sig.append(act(cs[p.N], p.DNlb, p.DNub, p.N * p.nc))
    return tuple(sig)


def zetas(p, mu, y, xinit, u):
    U = [[Fr(u[t * p.nu + k]) for k in range(p.nu)] for t in range(p.N)]
    _, _, _, cs = p.cost(xinit, U, mu, y)
    mu = [Fr(m) for m in mu]
    yv = [Fr(a) for a in y]
    st = [[cs[t][i] + yv[t * p.nc + i] / mu[t * p.nc + i] for i in range(p.nc)] for t in range(p.N)]
    tm = [cs[p.N][i] + yv[p.N * p.nc + i] / mu[p.N * p.nc + i] for i in range(p.ncN)]
    return st, tm


def prob_line(p):
    vs = [p.A, p.B, p.Cb, p.e, p.Hm, p.HN, p.w, p.g, p.d, p.wN, p.gN, p.Cc, p.cq, p.ce, p.CcN, p.cqN,
          p.Dlb, p.Dub, p.DNlb, p.DNub, p.dA, p.dB, p.dHm, p.dw, p.dCc]
    return f'{p.N} {p.nx} {p.nu} {p.nh} {p.nhN} {p.nc} {p.ncN} ' + ' '.join(vec2p(v) for v in vs)


FBS_SHAPES = [
    # (calls over storages 0 = strictly feasible, 1 = violating, 2 = mixed / other); the shapes of
    # panoc-ocp.tpp: forward of a rejected candidate between forward and backward of the iterate that is
    # kept (take_safe_step copies the iterate and calls only backward), forward_simulate + backward
    # (initial_lipschitz_estimate), backward twice, backward after a later forward of another storage.
    ['F 0', 'F 1', 'B 0'],
    ['F 1', 'F 0', 'B 1'],
    ['F 1', 'F 0', 'C 1 2', 'B 2', 'B 0'],
    ['F 0', 'F 1', 'C 0 2', 'B 2', 'B 1'],
    ['S 0', 'F 1', 'B 0', 'B 1'],
    ['S 1', 'S 0', 'B 1', 'B 0'],
    ['F 0', 'B 0', 'F 1', 'B 1', 'B 0', 'F 2', 'B 1', 'B 2'],
    ['F 2', 'F 1', 'F 0', 'B 2', 'B 1', 'B 0', 'B 2'],
]


def gen_fbs(rng, dims=None, exact=None, shape=None):
    """K ≥ 3 input sequences on one problem: storage 0 strictly feasible (the boxes are built around its
    ζ values), storage 1 violating stage and terminal constraints where they exist, the others with yet
    other (preferably per-stage mixed) activity patterns; then a seeded call sequence in which `backward`
    runs on storages filled by an EARLIER forward and on COPIES."""
    exact = (rng.random() < 0.5) if exact is None else exact
    for _attempt in range(30):
        if dims is None:
            N = rng.choice([1, 2, 2, 3]); nx = rng.choice([1, 2, 2, 3]); nu = rng.choice([1, 2])
            nh = rng.choice([0, 0, 1, nx + nu]); nhN = rng.choice([0, 0, 1, nx])
            nc, ncN = rng.choice([(1, 1), (2, 1), (1, 0), (0, 1), (2, 2), (0, 2), (3, 0), (1, 2), (0, 0)])
            dm = (N, nx, nu, nh, nhN, nc, ncN)
        else:
            dm = dims
        pline, (mu, y, xinit, u0), _ = gen_problem(rng, exact, dm)
        p = Prob(T(pline))
        N, nu, nc, ncN = p.N, p.nu, p.nc, p.ncN
        # boxes around the ζ values of storage 0: strictly feasible there (some sides infinite)
        st, tm = zetas(p, mu, y, xinit, u0)
        half = Fr(1, 2)

        def around(vals):
            lo = math.floor(min(vals) * 2) * half - half
            hi = math.ceil(max(vals) * 2) * half + half
            k = rng.random()
            return (-INF if k < 0.15 else float(lo)), (INF if 0.15 <= k < 0.3 else float(hi))
        if nc:
            bx = [around([st[t][i] for t in range(N)]) for i in range(nc)]
            p.Dlb, p.Dub = [b[0] for b in bx], [b[1] for b in bx]
        if ncN:
            bx = [around([tm[i]]) for i in range(ncN)]
            p.DNlb, p.DNub = [b[0] for b in bx], [b[1] for b in bx]
        pline = prob_line(p)
        sig0 = activity(p, mu, y, xinit, u0)
        if any(any(s) for s in sig0):
            continue
        # candidates with growing magnitude; keep those with new activity signatures
        us, sigs = [u0], [sig0]
        cands = []
        for k in range(24):
            sc = rng.choice([1, 2, 2, 4, 4, 8])
            if exact:
                cand = [small(rng, 0.15) * sc for _ in range(N * nu)]
            else:
                cand = [rng.gauss(0, 1) * sc for _ in range(N * nu)]
            cands.append((cand, activity(p, mu, y, xinit, cand)))
        want_stage = nc > 0
        want_term = ncN > 0
        # storage 1: violates a stage constraint and the terminal constraint (where they exist)
        best = None
        for cand, sg in cands:
            ok_s = (not want_stage) or any(any(s) for s in sg[:-1])
            ok_t = (not want_term) or any(sg[-1])
            score = (ok_s and ok_t, ok_s + ok_t, sum(sum(s) for s in sg))
            if best is None or score > best[0]:
                best = (score, cand, sg)
        if (want_stage or want_term) and not best[0][1]:
            continue
        us.append(best[1]); sigs.append(best[2])
        # further storages: new signatures, preferring mixed activity across stages
        rest = sorted((c for c in cands if c[1] not in sigs),
                      key=lambda c: -len({tuple(s) for s in c[1][:-1]}))
        for cand, sg in rest:
            if sg not in sigs:
                us.append(cand); sigs.append(sg)
            if len(us) >= rng.choice([3, 3, 4, 5]):
                break
        while len(us) < 3:
            cand = [small(rng, 0.2) if exact else rng.gauss(0, 1) for _ in range(N * nu)]
            us.append(cand); sigs.append(activity(p, mu, y, xinit, cand))
        K = len(us)
        if shape is not None:
            calls = list(shape)
        else:
            calls = []
            filled = [False] * K
            L = rng.randint(4, 12)
            while len(calls) < L:
                k = rng.random()
                i = rng.randrange(K)
                if k < 0.35:
                    calls.append(f'F {i}'); filled[i] = True
                elif k < 0.45:
                    calls.append(f'S {i}'); filled[i] = True
                elif k < 0.55 and filled[i]:
                    j = rng.choice([a for a in range(K) if a != i])
                    calls.append(f'C {i} {j}'); filled[j] = True
                elif any(filled):
                    # backward on a filled storage, preferably not the one touched last
                    cand_i = [a for a in range(K) if filled[a]]
                    last = int(calls[-1].split()[-1]) if calls else -1
                    pref = [a for a in cand_i if a != last] or cand_i
                    calls.append(f'B {rng.choice(pref)}')
        tag = 'E' if exact and all(is_exact_regime(pline, mu, y, xinit, u) for u in us) else 'G'
        return (f'fbs {tag} {pline} {vec2p(mu)} {vec2p(y)} {vec2p(xinit)} {K} ' + ' '.join(vec2p(u) for u in us)
                + f' {len(calls)} ' + ' '.join(calls))
    # fall-back (no constraints could be arranged): an unconstrained sequence
    return gen_fbs(rng, (2, 2, 1, 0, 0, 0, 0), exact, shape)


def gen_layout(rng):
    N = rng.choice([0, 1, 1, 2, 3, 5, 8, 13])
    dims = [rng.choice([0, 0, 1, 2, 3, 5, 7]) for _ in range(6)]
    return 'layout ' + ' '.join(str(a) for a in [N] + dims)


def gen_ops(rng, n):
    ops = []
    # layout: fixed corner cases + random tuples
    for d in ((1, 1, 1, 0, 0, 0, 0), (3, 2, 1, 0, 0, 0, 0), (2, 2, 1, 3, 0, 2, 0), (2, 2, 1, 0, 2, 0, 1),
              (2, 3, 2, 0, 0, 0, 2), (4, 1, 1, 1, 1, 1, 1), (0, 2, 2, 1, 1, 1, 1), (3, 0, 2, 1, 0, 0, 0)):
        ops.append('layout ' + ' '.join(map(str, d)))
    for _ in range(max(40, n // 8)):
        ops.append(gen_layout(rng))
    # index sets: every mask for n ≤ 4 (single time step), every pair for n ≤ 2, random beyond
    for nn in range(0, 5):
        for m in range(2 ** nn):
            ops.append(f'iset 1 {nn} {m}')
    for nn in range(0, 3):
        for m1 in range(2 ** nn):
            for m2 in range(2 ** nn):
                ops.append(f'iset 2 {nn} {m1} {m2}')
    ops.append('iset 0 3')
    for _ in range(max(40, n // 8)):
        N = rng.choice([1, 2, 3, 5])
        nn = rng.choice([3, 5, 6, 8, 10, 12])
        ops.append(f'iset {N} {nn} ' + ' '.join(str(rng.choice([0, 2 ** nn - 1, rng.getrandbits(nn)]))
                                               for _ in range(N)))
    # forward / backward: the structural corner cases of the quantifier, then random problems
    corner = [(1, 1, 1, 0, 0, 0, 0), (2, 2, 1, 0, 0, 0, 0), (2, 2, 1, 3, 2, 0, 0), (2, 2, 2, 0, 0, 2, 0),
              (2, 2, 1, 0, 0, 0, 2), (3, 1, 2, 1, 1, 1, 1), (2, 2, 1, 3, 0, 1, 2), (1, 3, 1, 0, 2, 2, 1),
              (3, 2, 2, 4, 2, 3, 3), (2, 1, 1, 0, 1, 1, 0)]
    for dms in corner:
        ops.append(gen_fb(rng, dms, exact=True))
        ops.append(gen_fb(rng, dms, exact=False))
    for _ in range(n):
        ops.append(gen_fb(rng))
    # call sequences on one evaluator object (history independence)
    for _ in range(max(60, min(n // 3, 1200))):
        ops.append(gen_fbs(rng))
    return ops


def fbs_corpus():
    """fixed sequences of the shapes PANOC-OCP produces, on fixed problems (own seed)."""
    rng = random.Random(20260930)
    ops = []
    for dims in ((2, 2, 1, 0, 0, 1, 1), (3, 2, 2, 3, 2, 2, 1), (2, 1, 1, 0, 0, 0, 2), (2, 2, 1, 0, 1, 2, 0)):
        for sh in FBS_SHAPES:
            ops.append(gen_fbs(rng, dims, exact=True, shape=sh))
        ops.append(gen_fbs(rng, dims, exact=False, shape=FBS_SHAPES[2]))
    return ops


# ------------------------------------------------------------------------------ monitors

def mon_layout(t, out):
    N, nx, nu, nh, nc, nhN, ncN = (t.nat() for _ in range(7))
    parts = out.split('|')
    head = [int(a) for a in parts[0].split()]
    size, qrsize, abr, abc = head[:4]
    if head[4:] != [nx, nu, nx + nu, nh, nc, nx, nhN, ncN]:
        return f'dimension accessors nx nu nxu nh nc nx_N nh_N nc_N = {head[4:]} for sizes {(nx, nu, nh, nc, nhN, ncN)}'
    if len(parts) != N + 2:
        return 'malformed layout output'
    segs, qsegs, csegs = [], [], []
    for k in range(N + 1):
        a = [int(z) for z in parts[k + 1].split()]
        xk, hk, ck, qk = (a[0], a[1]), (a[2], a[3]), (a[4], a[5]), (a[6], a[7])
        want = [nx, nh if k < N else nhN, nc if k < N else ncN, nx]
        if [xk[1], hk[1], ck[1], qk[1]] != want:
            return f'stage {k}: segment sizes x h c q = {[xk[1], hk[1], ck[1], qk[1]]}, dimensions say {want}'
        segs += [('x', k) + xk, ('h', k) + hk, ('c', k) + ck]
        qsegs.append(('q', k) + qk)
        if k < N:
            uk, xuk, rk, qrk = (a[8], a[9]), (a[10], a[11]), (a[12], a[13]), (a[14], a[15])
            Ak, Bk, ABk = (a[16], a[17]), (a[18], a[19]), (a[20], a[21])
            if [uk[1], rk[1], Ak[1], Bk[1]] != [nu, nu, nx, nu]:
                return f'stage {k}: sizes of u r A B = {[uk[1], rk[1], Ak[1], Bk[1]]}'
            if xuk != (xk[0], nx + nu) or uk[0] != xk[0] + nx:
                return f'stage {k}: xuk {xuk} is not x {xk} followed by u {uk}'
            if qrk != (qk[0], nx + nu) or rk[0] != qk[0] + nx:
                return f'stage {k}: qrk {qrk} is not q {qk} followed by r {rk}'
            if ABk != (Ak[0], nx + nu) or Bk[0] != Ak[0] + nx:
                return f'stage {k}: ABk {ABk} is not A {Ak} followed by B {Bk}'
            segs.append(('u', k) + uk)
            qsegs.append(('r', k) + rk)
            csegs += [('A', k) + Ak, ('B', k) + Bk]

    def check(ss, total, what):
        for s in ss:
            if s[2] < 0 or s[2] + s[3] > total:
                return f'{what}: segment {s[0]}({s[1]}) = [{s[2]}, {s[2] + s[3]}) outside [0, {total})'
        live = sorted((s for s in ss if s[3] > 0), key=lambda s: s[2])
        for a, b in zip(live, live[1:]):
            if a[2] + a[3] > b[2]:
                return f'{what}: segments {a[0]}({a[1]}) = [{a[2]}, {a[2] + a[3]}) and {b[0]}({b[1]}) = [{b[2]}, {b[2] + b[3]}) overlap'
        return None
    return (check(segs, size, 'storage') or check(qsegs, qrsize, 'qr') or check(csegs, abc, 'AB columns')
            or (None if abr == nx else f'AB has {abr} rows, nx = {nx}'))


def mon_iset(t, out):
    N, n = t.nat(), t.nat()
    masks = [t.nat() for _ in range(N)]
    o = T(out)
    o.expect('sto')
    sto = o.ivec()
    if len(sto) != N + N * n:
        return f'storage has {len(sto)} entries'
    for i in range(N):
        o.expect('J'); J = o.ivec(); o.expect('K'); K = o.ivec()
        wantJ = [c for c in range(n) if (masks[i] >> c) & 1]
        wantK = [c for c in range(n) if not (masks[i] >> c) & 1]
        if J != wantJ:
            return f'time step {i}: J = {J}, indices satisfying the predicate are {wantJ}'
        if K != wantK:
            return f'time step {i}: K = {K}, sorted complement is {wantK}'
        if sorted(J + K) != list(range(n)):
            return f'time step {i}: J ++ K is not a permutation of range({n})'
        if sto[i] != len(J):
            return f'time step {i}: sizes() = {sto[i]}, |J| = {len(J)}'
    return None


def fb_reference(p, mu, y, xinit, u, exact):
    """exact cost, exact gradient (forward-mode differentiation of the cost polynomial), exact
    trajectory / outputs / constraint values, and the comparison tolerances of the regime."""
    N, nu = p.N, p.nu
    Vd, xs, hs, cs = p.cost(xinit, dual_inputs(u, N, nu), mu, y)
    if exact:
        tolV = Fr(0)
        tolg = [Fr(0)] * (N * nu)
        tols = Fr(0)
    else:
        Vm, xm, hm, cm = p.cost(xinit, dual_inputs(u, N, nu, maj=True), mu, y, maj=True)
        eps = Fr(1, 2 ** 38)
        tolV = eps * (Vm.v + 1)
        tolg = [eps * (a + 1) for a in Vm.g]
        tols = eps * (max([val(a) for row in xm + hm + cm for a in row] + [Fr(1)]) + 1)
    return dict(Vd=Vd, xs=xs, hs=hs, cs=cs, tolV=tolV, tolg=tolg, tols=tols, exact=exact)


def cmp_cost(ref, V, tag):
    Vd = ref['Vd']
    if not math.isfinite(V):
        return f'forward returned {V!r}'
    if abs(Fr(V) - Vd.v) > ref['tolV']:
        return (f'forward = {V!r} but Σ stage costs + terminal cost + ½ Σ μ-weighted squared box distance '
                f'along the exactly simulated trajectory = {float(Vd.v)!r}' +
                (f' (exact {Vd.v})' if ref['exact'] else '') + f'; regime {tag}')
    return None


def cmp_storage(p, ref, sto, tag, who='forward'):
    N, nx, nu, nh, nhN, nc, ncN = p.N, p.nx, p.nu, p.nh, p.nhN, p.nc, p.ncN
    xs, hs, cs = ref['xs'], ref['hs'], ref['cs']
    stride = nx + nu + nh + nc
    if len(sto) != N * stride + nx + nhN + ncN:
        return f'storage has {len(sto)} entries'
    for k in range(N + 1):
        base = k * stride
        blocks = [('x', base, xs[k])]
        if k < N:
            blocks += [('h', base + nx + nu, hs[k]), ('c', base + nx + nu + nh, cs[k])]
        else:
            blocks += [('h', base + nx, hs[k]), ('c', base + nx + nhN, cs[k])]
        for name, off, vals in blocks:
            for i, a in enumerate(vals):
                if abs(Fr(sto[off + i]) - val(a)) > ref['tols']:
                    return (f'storage after {who}: {name}_{k}[{i}] = {sto[off + i]!r}, exact roll-out '
                            f'gives {float(val(a))!r}; regime {tag}')
    return None


def cmp_grad(p, ref, grad, tag):
    N, nu = p.N, p.nu
    Vd = ref['Vd']
    if len(grad) != N * nu:
        return f'gradient has {len(grad)} entries'
    for i in range(N * nu):
        if not math.isfinite(grad[i]) or abs(Fr(grad[i]) - Vd.g[i]) > ref['tolg'][i]:
            return (f'backward: ∂V/∂u[{i // nu}][{i % nu}] = {grad[i]!r}, exact derivative of the cost '
                    f'polynomial = {float(Vd.g[i])!r}' + (f' (exact {Vd.g[i]})' if ref['exact'] else '') +
                    f'; regime {tag}')
    return None


def mon_fb(t, out, st):
    tag = t.tok()
    p = Prob(t)
    mu, y, xinit, u = t.vec(), t.vec(), t.vec(), t.vec()
    o = T(out)
    V = o.flt(); o.expect('s'); sto = o.vec(); o.expect('g'); grad = o.vec()
    exact = tag == 'E'
    ref = fb_reference(p, mu, y, xinit, u, exact)
    STATS['fb_exact_regime' if exact else 'fb_general'] += 1
    return cmp_cost(ref, V, tag) or cmp_storage(p, ref, sto, tag) or cmp_grad(p, ref, grad, tag)


def parse_fbs(t):
    tag = t.tok()
    p = Prob(t)
    mu, y, xinit = t.vec(), t.vec(), t.vec()
    K = t.nat()
    us = [t.vec() for _ in range(K)]
    L = t.nat()
    calls = []
    for _ in range(L):
        kind = t.tok()
        if kind == 'C':
            calls.append((kind, t.nat(), t.nat()))
        else:
            calls.append((kind, t.nat(), None))
    return tag, p, mu, y, xinit, us, calls


def mon_fbs(t, out, st):
    """The property on every call of the sequence: the value `forward` returns is the cost at the inputs
    held by the storage it was handed, and the vector `backward` writes is the exact gradient of the cost
    at the inputs held by the storage IT was handed — whatever was evaluated in between."""
    tag, p, mu, y, xinit, us, calls = parse_fbs(t)
    segs = out.split(' | ')
    if len(segs) != len(calls):
        return f'sequence of {len(calls)} calls answered with {len(segs)} segments'
    exact = tag == 'E'
    K = len(us)
    holds = list(range(K))          # which input sequence storage i holds
    filled = [False] * K
    copied = [False] * K
    refs, sigs = {}, {}

    def R(k):
        if k not in refs:
            refs[k] = fb_reference(p, mu, y, xinit, us[k], exact)
        return refs[k]

    def S(k):
        if k not in sigs:
            sigs[k] = activity(p, mu, y, xinit, us[k])
        return sigs[k]
    last_fw = None                  # (storage index, input index) of the latest forward / forward_simulate
    STATS['fbs_sequences'] += 1
    for n, ((kind, i, j), seg) in enumerate(zip(calls, segs)):
        o = T(seg)
        if o.tok() != kind:
            return f'call #{n} {kind} {i}: unexpected answer {seg[:40]!r}'
        STATS['fbs_calls'] += 1
        where = f'call #{n} `{kind} {i}' + (f' {j}`' if j is not None else '`') + f' of {[" ".join(str(a) for a in c if a is not None) for c in calls]}: '
        m = None
        if kind == 'F':
            V = o.flt(); o.expect('s'); sto = o.vec()
            ref = R(holds[i])
            m = cmp_cost(ref, V, tag) or cmp_storage(p, ref, sto, tag)
            filled[i] = True; copied[i] = False; last_fw = (i, holds[i])
        elif kind == 'S':
            o.expect('s'); sto = o.vec()
            m = cmp_storage(p, R(holds[i]), sto, tag, who='forward_simulate')
            filled[i] = True; copied[i] = False; last_fw = (i, holds[i])
        elif kind == 'C':
            o.expect('s'); sto = o.vec()
            holds[j] = holds[i]; filled[j] = filled[i]; copied[j] = True
            if filled[j]:
                m = cmp_storage(p, R(holds[j]), sto, tag, who='copy')
        elif kind == 'B':
            if not filled[i]:
                continue            # precondition of backward not met (never generated)
            o.expect('g'); grad = o.vec()
            m = cmp_grad(p, R(holds[i]), grad, tag)
            if last_fw is not None and last_fw[0] != i:
                STATS['fbs_backward_on_earlier_forward'] += 1
            if copied[i]:
                STATS['fbs_backward_on_copy'] += 1
            if last_fw is not None and S(last_fw[1]) != S(holds[i]):
                STATS['fbs_backward_activity_differs_from_last_forward'] += 1
        if m:
            return where + m
    return None


def monitor(op, out, st):
    if out.startswith(('exception', 'bad-op', 'parse-error')):
        return f'unexpected {out[:80]}'
    t = T(op)
    kind = t.tok()
    if kind == 'layout':
        STATS['layout'] += 1
        return mon_layout(t, out)
    if kind == 'iset':
        STATS['iset'] += 1
        return mon_iset(t, out)
    if kind == 'fb':
        return mon_fb(t, out, st)
    if kind == 'fbs':
        return mon_fbs(t, out, st)
    return None


def nontrivial(op, out):
    return hash(op)


# ------------------------------------------------------------------------------ Riccati (extra stage)

def fsolve(M, rhs, want_cond=False):
    """exact Gauss-Jordan over Fractions; returns None if singular.  With want_cond also the exact
    ∞-norm condition number ‖M‖∞·‖M⁻¹‖∞ (the inverse is carried along as extra right-hand sides)."""
    n = len(M)
    if want_cond:
        a = [list(M[i]) + [rhs[i]] + [Fr(int(i == j)) for j in range(n)] for i in range(n)]
    else:
        a = [list(M[i]) + [rhs[i]] for i in range(n)]
    for c in range(n):
        p = next((r for r in range(c, n) if a[r][c] != 0), None)
        if p is None:
            return None
        a[c], a[p] = a[p], a[c]
        inv = 1 / a[c][c]
        a[c] = [z * inv for z in a[c]]
        for r in range(n):
            if r != c and a[r][c] != 0:
                f = a[r][c]
                a[r] = [z - f * w if w else z for z, w in zip(a[r], a[c])]
    sol = [a[i][n] for i in range(n)]
    if not want_cond:
        return sol
    nM = max([sum(abs(z) for z in row) for row in M] + [Fr(0)])
    nI = max([sum(abs(z) for z in a[i][n + 1:]) for i in range(n)] + [Fr(0)])
    return sol, float(nM * nI) if n else 1.0


GN_EPS = 2.0 ** -40      # the Gauss-Newton QP data are themselves assembled in binary64
RIC_EPS = 2.0 ** -44     # relative rounding budget per unit of condition number (binary64: 2^-53)
COND_MAX = 1e10          # `well-conditioned data` of the property's quantifier, decided on exact rationals
KKT_COND = [1.0]     # exact ∞-norm condition number of the dense KKT matrix of the latest kkt_step


def kkt_step(N, nx, nu, stages, QN, qN):
    """Minimiser of the masked equality-constrained QP by one dense KKT solve (exact).
    stages[t] = dict(A,B,Q,R,S,q,r,u,mask) with matrices as lists of rows of Fractions.
    Unknowns: free inputs, δx_1..δx_N, multipliers of the dynamics.  δx_0 = 0."""
    free = [(t, k) for t in range(N) for k in range(nu) if (stages[t]['mask'] >> k) & 1]
    nf = len(free)
    fidx = {tk: i for i, tk in enumerate(free)}
    xoff = nf
    loff = nf + N * nx
    n = nf + 2 * N * nx
    M = [[Fr(0)] * n for _ in range(n)]
    rhs = [Fr(0)] * n

    def xi(t, i):       # δx_t, t = 1..N
        return xoff + (t - 1) * nx + i

    def li(t, i):       # multiplier of δx_{t+1} = A_t δx_t + B_t Δu_t, t = 0..N-1
        return loff + t * nx + i
    for t in range(N):
        s = stages[t]
        fixed = {k: Fr(s['u'][k]) for k in range(nu) if not (s['mask'] >> k) & 1}
        # stationarity w.r.t. free inputs: R Δu + S δx + r + Bᵀ λ = 0
        for k in range(nu):
            if (t, k) not in fidx:
                continue
            row = fidx[(t, k)]
            for k2 in range(nu):
                if (t, k2) in fidx:
                    M[row][fidx[(t, k2)]] += s['R'][k][k2]
                else:
                    rhs[row] -= s['R'][k][k2] * fixed[k2]
            if t >= 1:
                for j in range(nx):
                    M[row][xi(t, j)] += s['S'][k][j]
            rhs[row] -= s['r'][k]
            for i in range(nx):
                M[row][li(t, i)] += s['B'][i][k]
        # stationarity w.r.t. δx_t (t ≥ 1): Q δx + Sᵀ Δu + q + Aᵀ λ_t − λ_{t−1} = 0
        if t >= 1:
            for j in range(nx):
                row = xi(t, j)
                for j2 in range(nx):
                    M[row][xi(t, j2)] += s['Q'][j][j2]
                for k in range(nu):
                    if (t, k) in fidx:
                        M[row][fidx[(t, k)]] += s['S'][k][j]
                    else:
                        rhs[row] -= s['S'][k][j] * fixed[k]
                rhs[row] -= s['q'][j]
                for i in range(nx):
                    M[row][li(t, i)] += s['A'][i][j]
                M[row][li(t - 1, j)] -= 1
        # dynamics: −δx_{t+1} + A δx_t + B Δu = 0
        for i in range(nx):
            row = li(t, i)
            M[row][xi(t + 1, i)] -= 1
            if t >= 1:
                for j in range(nx):
                    M[row][xi(t, j)] += s['A'][i][j]
            for k in range(nu):
                if (t, k) in fidx:
                    M[row][fidx[(t, k)]] += s['B'][i][k]
                else:
                    rhs[row] -= s['B'][i][k] * fixed[k]
    for j in range(nx):
        row = xi(N, j)
        for j2 in range(nx):
            M[row][xi(N, j2)] += QN[j][j2]
        rhs[row] -= qN[j]
        M[row][li(N - 1, j)] -= 1
    res = fsolve(M, rhs, want_cond=True)
    if res is None:
        return None
    sol, cond = res
    KKT_COND[0] = cond
    du = []
    for t in range(N):
        for k in range(nu):
            du.append(sol[fidx[(t, k)]] if (t, k) in fidx else Fr(stages[t]['u'][k]))
    dxN = [sol[xi(N, j)] for j in range(nx)] if N >= 1 else []
    return du, dxN


def rmat(rng, r, c, zero=0.3):
    return [[0 if rng.random() < zero else rng.randint(-3, 3) for _ in range(c)] for _ in range(r)]


def psd_blocks(rng, nx, nu):
    """[Q Sᵀ; S R] = MᵀM / 4 + diag(0, I)  — positive semidefinite with R ≻ 0 (dyadic entries)."""
    n = nx + nu
    M = rmat(rng, n + 1, n, 0.3)
    H = [[Fr(sum(M[k][i] * M[k][j] for k in range(n + 1)), 4) for j in range(n)] for i in range(n)]
    for k in range(nu):
        H[nx + k][nx + k] += 1
    Q = [row[:nx] for row in H[:nx]]
    S = [row[:nx] for row in H[nx:]]
    R = [row[nx:] for row in H[nx:]]
    return Q, R, S


def fl(M):
    return [float(a) for row in M for a in row]


def gen_ric(rng, chol, N, nx, nu, masks):
    toks = [f'ric {chol} {N} {nx} {nu}']
    stages = []
    for t in range(N):
        A = [[Fr(a, 2) for a in row] for row in rmat(rng, nx, nx, 0.3)]
        B = [[Fr(a, 2) for a in row] for row in rmat(rng, nx, nu, 0.2)]
        Q, R, S = psd_blocks(rng, nx, nu)
        q = [Fr(rng.randint(-4, 4), 2) for _ in range(nx)]
        r = [Fr(rng.randint(-4, 4), 2) for _ in range(nu)]
        u = [Fr(rng.randint(-4, 4), 2) for _ in range(nu)]
        stages.append(dict(A=A, B=B, Q=Q, R=R, S=S, q=q, r=r, u=u, mask=masks[t]))
        toks += [vec2p(fl(A)), vec2p(fl(B)), vec2p(fl(Q)), vec2p(fl(R)), vec2p(fl(S)),
                 vec2p([float(a) for a in q]), vec2p([float(a) for a in r]),
                 vec2p([float(a) for a in u]), str(masks[t])]
    QN, _, _ = psd_blocks(rng, nx, nu)
    qN = [Fr(rng.randint(-4, 4), 2) for _ in range(nx)]
    toks += [vec2p(fl(QN)), vec2p([float(a) for a in qN])]
    return ' '.join(toks), (N, nx, nu, stages, QN, qN)


def ric_cases(rng, tier):
    cases = []
    combos = [(1, 1, 1), (1, 2, 1), (2, 1, 2), (1, 2, 2), (2, 2, 2), (3, 2, 1), (3, 1, 2), (1, 2, 3),
              (2, 2, 3), (3, 2, 2), (3, 2, 3)]
    for (N, nx, nu) in combos:
        allm = list(itertools.product(range(2 ** nu), repeat=N))
        if tier == 'quick' and len(allm) > 64:
            # all single-stage patterns at every stage + a seeded sample of the joint patterns
            keep = set()
            for t in range(N):
                for m in range(2 ** nu):
                    base = [rng.randrange(2 ** nu) for _ in range(N)]
                    base[t] = m
                    keep.add(tuple(base))
            keep.update(rng.sample(allm, 48))
            keep.update([(0,) * N, (2 ** nu - 1,) * N])
            allm = sorted(keep)
        for masks in allm:
            for chol in (0, 1):
                cases.append(gen_ric(rng, chol, N, nx, nu, list(masks)))
    nrand = 40 if tier == 'quick' else 400
    for _ in range(nrand):
        N = rng.choice([1, 2, 4, 5, 6, 8]); nx = rng.choice([1, 2, 3, 4]); nu = rng.choice([1, 2, 4, 5])
        if N * (nu + 2 * nx) > 70:
            N = max(1, 70 // (nu + 2 * nx))
        masks = [rng.choice([0, 2 ** nu - 1, rng.getrandbits(nu), rng.getrandbits(nu)]) for _ in range(N)]
        cases.append(gen_ric(rng, rng.randint(0, 1), N, nx, nu, masks))
    return cases


def parse_ric_out(line):
    o = T(line)
    o.expect('du'); du = o.vec(); o.expect('dxN'); dxN = o.vec()
    rc = None
    if o.p < len(o.t):
        o.expect('rcond'); rc = o.flt()
    return du, dxN, rc


def riccati_stage(rep, broken, exe, tier):
    rng = random.Random(C.seed() * 77003 + (5 if tier == 'thorough' else 0))
    cases = ric_cases(rng, tier)
    ops = [c[0] for c in cases]
    hout, rc, err = C.run_lines(exe, ops)
    if rc != 0 or len(hout) != len(ops):
        rep.violation(f'real StatefulLQRFactor crashed on ric op #{len(hout)} (rc={rc}): {err[-300:]}',
                      {'op': ops[len(hout)] if len(hout) < len(ops) else None}, True)
        return
    dexe = C.driver_exe('drv_c12')
    dout = []
    if os.path.exists(dexe):
        dout, _, _ = C.run_lines(dexe, ops)
    rep.cov['evaluations'] += len(hout)
    nbad = 0
    worst = 0.0
    model_checked = 0
    masks_seen = set()
    excl = {'singular_kkt_matrix': 0, 'kkt_cond_above_%g' % COND_MAX: 0}
    conds = {}
    for i, ((op, (N, nx, nu, stages, QN, qN)), h) in enumerate(zip(cases, hout)):
        if h.startswith('exception'):
            rep.violation(f'riccati: real code threw: {h}', {'op': op}, True)
            nbad += 1
            continue
        du, dxN, rcond = parse_ric_out(h)
        ref = kkt_step(N, nx, nu, stages, QN, qN)
        if ref is None:
            excl['singular_kkt_matrix'] += 1
            continue
        rdu, rdx = ref
        scale = max([1.0] + [abs(float(a)) for a in rdu + rdx])
        # conditioning from the problem data alone: exact ∞-norm condition number of the dense KKT matrix
        cond = KKT_COND[0]
        conds[i] = cond
        if cond > COND_MAX:
            excl['kkt_cond_above_%g' % COND_MAX] += 1
            continue
        tol = RIC_EPS * cond * scale * (N + 1)
        err_ = max([abs(a - float(b)) for a, b in zip(du, rdu)] + [abs(a - float(b)) for a, b in zip(dxN, rdx)]
                   + [0.0])
        if not all(math.isfinite(a) for a in du):
            err_ = INF
        worst = max(worst, err_ / (cond * scale))
        for s in stages:
            masks_seen.add((nu, s['mask']))
        if not err_ <= tol:
            nbad += 1
            rep.violation(
                f'riccati ({"Cholesky" if op.split()[1] == "1" else "LU"}): factor_masked+solve_masked '
                f'returned Δu = {du}, the dense KKT solve of the masked QP gives '
                f'{[float(a) for a in rdu]} (max deviation {err_:.3g}, tolerance {tol:.3g}, '
                f'masks {[s["mask"] for s in stages]})', {'op': op, 'impl_out': h}, True)
            if nbad >= 5:
                break
        # hand model (Lean, Float, own pivoted elimination as the solve oracle) vs the real code
        if i < len(dout):
            d = dout[i]
            if d.startswith(('parse-error', 'bad-op')):
                broken.append(f'correspondence (riccati): driver answered {d} on {op[:120]}')
                break
            mdu, mdx, _ = parse_ric_out(d)
            merr = max([abs(a - b) for a, b in zip(du, mdu)] + [abs(a - b) for a, b in zip(dxN, mdx)] + [0.0])
            if (len(mdu) != len(du) or not merr <= tol) and nbad == 0:
                broken.append(f'correspondence (riccati): model and implementation differ on {op[:160]} '
                              f'impl={du} model={mdu}')
                rep.cov['first_disagreement'] = {'op': op, 'impl': h, 'model': d}
                break
            model_checked += 1
    if not dout:
        broken.append('driver executable missing (riccati correspondence)')
    if nbad == 0:
        riccati_sequences(rep, broken, exe, tier, rng, cases, hout, dout, conds)
    rep.cov['riccati'] = {'cases': len(cases), 'model_vs_impl': model_checked,
                          'excluded_by_reason': excl, 'compared_with_exact_kkt': len(cases) - sum(excl.values()),
                          'tolerance': f'{RIC_EPS:.3g} * cond_inf(KKT matrix, exact rationals) * scale * (N+1)',
                          'max_kkt_cond': max(conds.values(), default=0.0),
                          'distinct_(nu,mask)': len(masks_seen),
                          'worst_error_over_cond_scale': worst}
    rep.cov['traces_validated_against_impl'] += model_checked
    rep.note(f'riccati: {len(cases)} masked QPs vs exact dense KKT, worst error/(cond·scale) = {worst:.3g}; '
             f'model vs real on {model_checked}')


def riccati_sequences(rep, broken, exe, tier, rng, cases, hout, dout, conds):
    """ONE StatefulLQRFactor / IndexSet / work_2x / q vector across M cases of equal dimensions (as
    panoc-ocp.tpp keeps them across Gauss-Newton steps).  Every case of a sequence must give (a) the
    bits the same case gives on a fresh object — the pure model's semantics — and (b) the exact
    minimiser of its masked QP."""
    groups = {}
    for i, (op, meta) in enumerate(cases):
        groups.setdefault(meta[:3], []).append(i)
    nseq = 80 if tier == 'quick' else 600
    keys = sorted(k for k, v in groups.items() if len(v) >= 3)
    seqs = []
    for _ in range(nseq):
        k = rng.choice(keys)
        idx = groups[k]
        M = rng.randint(3, 6)
        pick = [rng.choice(idx) for _ in range(M)]
        if rng.random() < 0.3:
            pick[rng.randrange(1, M)] = pick[0]          # the same case again later in the sequence
        seqs.append((k, pick))
    ops = []
    for (N, nx, nu), pick in seqs:
        toks = [f'rics {len(pick)} {N} {nx} {nu}']
        for i in pick:
            t = cases[i][0].split(' ', 5)                 # ric chol N nx nu <rest>
            toks.append(t[1] + ' ' + t[5])
        ops.append(' '.join(toks))
    out, rc, err = C.run_lines(exe, ops)
    if rc != 0 or len(out) != len(ops):
        rep.violation(f'real StatefulLQRFactor crashed on rics op #{len(out)} (rc={rc}): {err[-300:]}',
                      {'op': ops[len(out)] if len(out) < len(ops) else None}, True)
        return
    rep.cov['evaluations'] += sum(len(pk) for _, pk in seqs)
    ncases = 0
    for op, line, ((N, nx, nu), pick) in zip(ops, out, seqs):
        if line.startswith('exception'):
            rep.violation(f'riccati sequence: real code threw: {line}', {'op': op}, True)
            return
        segs = line.split(' | ')
        if len(segs) != len(pick):
            rep.violation(f'riccati sequence of {len(pick)} cases answered with {len(segs)} segments',
                          {'op': op}, True)
            return
        for pos, (seg, i) in enumerate(zip(segs, pick)):
            ncases += 1
            if seg.strip() != hout[i].strip():
                du, dxN, rcond = parse_ric_out(seg)
                fdu, fdx, _ = parse_ric_out(hout[i])
                _, (_, _, _, stages, QN, qN) = cases[i]
                ref = kkt_step(N, nx, nu, stages, QN, qN)
                exact_du = [float(a) for a in ref[0]] if ref else None
                rep.violation(
                    f'riccati: StatefulLQRFactor depends on its call history: case #{pos} of a sequence of '
                    f'{len(pick)} on ONE factor object (masks {[s["mask"] for s in stages]}, after cases with masks '
                    f'{[[s["mask"] for s in cases[k][1][3]] for k in pick[:pos]]}) returned Δu = {du}, the same '
                    f'case on a fresh object returns {fdu}; dense KKT solve of the masked QP: {exact_du}',
                    {'op': op, 'impl_out': line, 'fresh_object_out': hout[i]}, True)
                return
            if i < len(dout) and not dout[i].startswith(('parse-error', 'bad-op')):
                du, dxN, rcond = parse_ric_out(seg)
                mdu, mdx, _ = parse_ric_out(dout[i])
                _, (_, _, _, stages, QN, qN) = cases[i]
                ref = kkt_step(N, nx, nu, stages, QN, qN)
                if ref is None:
                    continue
                scale = max([1.0] + [abs(float(a)) for a in ref[0] + ref[1]])
                if conds.get(i, COND_MAX + 1) > COND_MAX:
                    continue                      # counted in riccati.excluded_by_reason for the single case
                tol = RIC_EPS * conds[i] * scale * (N + 1)
                e = max([abs(a - float(b)) for a, b in zip(du, ref[0])] + [0.0])
                me = max([abs(a - b) for a, b in zip(du, mdu)] + [0.0])
                if not e <= tol:
                    rep.violation(f'riccati sequence, case #{pos}: Δu = {du}, dense KKT solve gives '
                                  f'{[float(a) for a in ref[0]]} (deviation {e:.3g}, tolerance {tol:.3g})',
                                  {'op': op, 'impl_out': line}, True)
                    return
                if not me <= tol:
                    broken.append(f'correspondence (riccati sequence): model (pure, answered from the case alone) '
                                  f'and the reused factor object differ on case #{pos} of {op[:120]}')
                    return
    rep.cov['riccati_sequences'] = {'sequences': len(seqs), 'cases': ncases,
                                    'one_object_equals_fresh_object_bitwise': True}
    rep.note(f'riccati: {len(seqs)} sequences ({ncases} cases) on ONE StatefulLQRFactor: each case bit-identical '
             f'to the same case on a fresh object, and within tolerance of the exact KKT step and the model')


# ------------------------------------------------------------------------------ Gauss-Newton step (extra stage)

def gn_reference(p, mu, y, xinit, u, qfix, masks):
    """The Gauss-Newton QP of panoc-ocp at (x, u), built exactly from the problem data, and its
    minimiser by the dense KKT solve."""
    N, nx, nu, nh, nhN, nc, ncN = p.N, p.nx, p.nu, p.nh, p.nhN, p.nc, p.ncN
    F = lambda name: [Fr(a) for a in getattr(p, name)]
    A, B, Cb, Hm, HN = F('A'), F('B'), F('Cb'), F('Hm'), F('HN')
    w, g, d, wN, gN = F('w'), F('g'), F('d'), F('wN'), F('gN')
    Cc, cq, CcN, cqN = F('Cc'), F('cq'), F('CcN'), F('cqN')
    U = [[Fr(u[t * nu + k]) for k in range(nu)] for t in range(N)]
    V, xs, hs, cs = p.cost(xinit, U, mu, y)
    mu = [Fr(m) for m in mu]
    yv = [Fr(a) for a in y]
    nxu = nx + nu

    def pen_terms(c, lb, ub, muk, yk):
        act, grad = [], []
        for i in range(len(c)):
            z = c[i] + yk[i] / muk[i]
            lo = math.isfinite(lb[i]) and z < Fr(lb[i])
            hi = math.isfinite(ub[i]) and z > Fr(ub[i])
            act.append(muk[i] if (lo or hi) else Fr(0))
            grad.append(muk[i] * ((z - Fr(lb[i])) if lo else (z - Fr(ub[i])) if hi else Fr(0)))
        return act, grad
    stages = []
    A0, B0, Hm0, w0, Cc0 = A, B, Hm, w, Cc
    dA, dB, dHm, dw, dCc = F('dA'), F('dB'), F('dHm'), F('dw'), F('dCc')
    for t in range(N):
        A = [a + t * b for a, b in zip(A0, dA)]
        B = [a + t * b for a, b in zip(B0, dB)]
        Hm = [a + t * b for a, b in zip(Hm0, dHm)]
        w = [a + t * b for a, b in zip(w0, dw)]
        Cc = [a + t * b for a, b in zip(Cc0, dCc)]
        x, ut = xs[t], U[t]
        xu = list(x) + list(ut)
        At = [[A[i * nx + j] + sum(Cb[(i * nx + j) * nu + k] * ut[k] for k in range(nu)) for j in range(nx)]
              for i in range(nx)]
        Bt = [[B[i * nu + k] + sum(Cb[(i * nx + j) * nu + k] * x[j] for j in range(nx)) for k in range(nu)]
              for i in range(nx)]
        if nh > 0:
            Jh = [[Hm[i * nxu + j] for j in range(nxu)] for i in range(nh)]
            h = hs[t]
        else:
            Jh = [[Fr(int(i == j)) for j in range(nxu)] for i in range(nxu)]
            h = xu
        nl = len(h)
        gl = [w[i] * h[i] + g[i] + t * d[i] for i in range(nl)]
        H2 = [[sum(Jh[i][a] * w[i] * Jh[i][b] for i in range(nl)) for b in range(nxu)] for a in range(nxu)]
        qr = [sum(Jh[i][a] * gl[i] for i in range(nl)) for a in range(nxu)]
        Q = [[H2[a][b] for b in range(nx)] for a in range(nx)]
        if nc > 0:
            Jc = [[Cc[i * nx + j] + (2 * cq[i] * x[j] if j == i % nx else 0) for j in range(nx)] for i in range(nc)]
            act, pg = pen_terms(cs[t], p.Dlb, p.Dub, mu[t * nc:(t + 1) * nc], yv[t * nc:(t + 1) * nc])
            for a in range(nx):
                qr[a] += sum(Jc[i][a] * pg[i] for i in range(nc))
                for b in range(nx):
                    Q[a][b] += sum(Jc[i][a] * act[i] * Jc[i][b] for i in range(nc))
        stages.append(dict(A=At, B=Bt, Q=Q, R=[[H2[nx + a][nx + b] for b in range(nu)] for a in range(nu)],
                           S=[[H2[nx + a][b] for b in range(nx)] for a in range(nu)], q=qr[:nx], r=qr[nx:],
                           u=[Fr(qfix[t * nu + k]) for k in range(nu)], mask=masks[t]))
    x = xs[N]
    if nhN > 0:
        JhN = [[HN[i * nx + j] for j in range(nx)] for i in range(nhN)]
        h = hs[N]
    else:
        JhN = [[Fr(int(i == j)) for j in range(nx)] for i in range(nx)]
        h = x
    nl = len(h)
    glN = [wN[i] * h[i] + gN[i] for i in range(nl)]
    QN = [[sum(JhN[i][a] * wN[i] * JhN[i][b] for i in range(nl)) for b in range(nx)] for a in range(nx)]
    qN = [sum(JhN[i][a] * glN[i] for i in range(nl)) for a in range(nx)]
    if ncN > 0:
        JcN = [[CcN[i * nx + j] + (2 * cqN[i] * x[j] if j == i % nx else 0) for j in range(nx)] for i in range(ncN)]
        act, pg = pen_terms(cs[N], p.DNlb, p.DNub, mu[N * nc:N * nc + ncN], yv[N * nc:N * nc + ncN])
        for a in range(nx):
            qN[a] += sum(JcN[i][a] * pg[i] for i in range(ncN))
            for b in range(nx):
                QN[a][b] += sum(JcN[i][a] * act[i] * JcN[i][b] for i in range(ncN))
    return kkt_step(N, nx, nu, stages, QN, qN), V


def gn_stage(rep, broken, exe, tier):
    rng = random.Random(C.seed() * 52361 + (3 if tier == 'thorough' else 0))
    n = 120 if tier == 'quick' else 1200
    ops, meta = [], []
    while len(ops) < n:
        exact = rng.random() < 0.6
        N = rng.choice([1, 2, 3]); nx = rng.choice([1, 2, 3]); nu = rng.choice([1, 2, 3])
        nh = rng.choice([0, 0, nx + nu]); nhN = rng.choice([0, nx])
        nc = rng.choice([0, 1, 2]); ncN = rng.choice([0, 1, 2])
        pline, (mu, y, xinit, u), _ = gen_problem(rng, exact, (N, nx, nu, nh, nhN, nc, ncN))
        p = Prob(T(pline))
        # positive weights on the inputs make the reduced input Hessians positive definite
        nl = nh if nh > 0 else nx + nu
        p.w = [float(rng.choice([1, 2, 4])) / 2 for _ in range(nl)]
        if nh > 0:   # outputs = (x; u) mixed by a unit lower-triangular matrix (at every stage): full column rank
            p.Hm = [1.0 if i == j else (small(rng, 0.5) if j < i else 0.0) for i in range(nh) for j in range(nx + nu)]
            p.dHm = [(small(rng, 0.5) if j < i else 0.0) for i in range(nh) for j in range(nx + nu)]
            if nh > 1 and all(a == 0 for a in p.dHm):
                p.dHm[(nx + nu)] = 0.5
        pline = prob_line(p)
        masks = [rng.choice([0, 2 ** nu - 1, rng.getrandbits(nu), rng.getrandbits(nu)]) for _ in range(N)]
        qfix = [small(rng, 0.2) for _ in range(N * nu)]
        chol = rng.randint(0, 1)
        ops.append(f'gn {chol} {pline} {vec2p(mu)} {vec2p(y)} {vec2p(xinit)} {vec2p(u)} {vec2p(qfix)} '
                   + ' '.join(map(str, masks)))
        meta.append((mu, y, xinit, u, qfix, masks))
    hout, rc, err = C.run_lines(exe, ops)
    if rc != 0 or len(hout) != len(ops):
        rep.violation(f'real code crashed on gn op #{len(hout)} (rc={rc}): {err[-300:]}',
                      {'op': ops[len(hout)] if len(hout) < len(ops) else None}, True)
        return
    rep.cov['evaluations'] += len(hout)
    checked, worst, nbad = 0, 0.0, 0
    excl = {'singular_kkt_matrix': 0, 'kkt_cond_above_%g' % COND_MAX: 0}
    for op, h, (mu, y, xinit, u, qfix, masks) in zip(ops, hout, meta):
        if h.startswith('exception'):
            rep.violation(f'gauss-newton step: real code threw: {h}', {'op': op}, True)
            continue
        o = T(h)
        V = o.flt(); o.expect('du'); du = o.vec(); o.expect('g'); o.vec(); o.expect('rcond'); rcond = o.flt()
        t = T(op); t.tok(); t.tok()
        p = Prob(t)
        ref, Vex = gn_reference(p, mu, y, xinit, u, qfix, masks)
        if ref is None:
            excl['singular_kkt_matrix'] += 1
            continue
        cond = KKT_COND[0]
        if cond > COND_MAX:
            excl['kkt_cond_above_%g' % COND_MAX] += 1
            continue
        rdu, _ = ref
        scale = max([1.0] + [abs(float(a)) for a in rdu])
        # the QP data themselves are assembled in binary64 from the trajectory: one more factor for them
        tol = GN_EPS * cond * scale * (p.N + 1)
        e = max([abs(a - float(b)) for a, b in zip(du, rdu)] + [0.0])
        if not all(math.isfinite(a) for a in du):
            e = INF
        worst = max(worst, e / (cond * scale))
        checked += 1
        if not e <= tol:
            nbad += 1
            rep.violation(f'gauss-newton step assembled from OCPEvaluator (Q/R/S/R_prod/S_prod, qr, AB, IndexSet) '
                          f'= {du}, exact minimiser of the masked Gauss-Newton QP = {[float(a) for a in rdu]} '
                          f'(deviation {e:.3g}, tolerance {tol:.3g}, masks {masks})',
                          {'op': op, 'impl_out': h}, True)
            if nbad >= 3:
                break
    rep.cov['gauss_newton'] = {'cases': len(ops), 'checked': checked, 'excluded_by_reason': excl,
                               'tolerance': f'{GN_EPS:.3g} * cond_inf(exact GN KKT matrix) * scale * (N+1)',
                               'worst_error_over_cond_scale': worst}
    if checked + sum(excl.values()) + nbad < len(ops) and nbad < 3:
        broken.append(f'gauss-newton stage: {len(ops) - checked - sum(excl.values())} cases neither compared nor counted')
    rep.note(f'gauss-newton pipeline: {checked}/{len(ops)} steps vs exact KKT of the GN QP, worst = {worst:.3g}')


def extra_stage(rep, broken, exe, tier):
    rep.cov['op_kinds_monitored'] = dict(STATS)
    # the call-sequence ops must really contain what they are there for
    for k in ('fbs_sequences', 'fbs_backward_on_earlier_forward', 'fbs_backward_on_copy',
              'fbs_backward_activity_differs_from_last_forward'):
        if exe and not STATS[k]:
            rep.violation(f'call-sequence coverage: {k} = 0 (generator / corpus of checks/c12.py)', {'stat': k}, False)
    if not exe:
        return
    riccati_stage(rep, broken, exe, tier)
    gn_stage(rep, broken, exe, tier)
    # side observation (outside the property; never fails the check)
    obs = ['xstride 2 2 1 0 0 0 0', 'xstride 3 2 1 1 0 0 0', 'xstride 2 2 1 0 2 0 1', 'xstride 2 2 2 3 1 1 1']
    out, rc, _ = C.run_lines(exe, obs)
    rep.cov['observation_assign_extract_x'] = dict(zip(obs, out))
    rep.note('observation (outside C12): detail::assign_extract_x vs OCPVariables::xk — ' +
             '; '.join(f'[{o[8:]}] {r}' for o, r in zip(obs, out)))


# ------------------------------------------------------------------------------ replay

def parse_ric_op(op):
    t = T(op)
    t.expect('ric'); t.nat()
    N, nx, nu = t.nat(), t.nat(), t.nat()

    def mat(r, c):
        v = t.vec()
        return [[Fr(v[i * c + j]) for j in range(c)] for i in range(r)]
    stages = []
    for _ in range(N):
        A = mat(nx, nx); B = mat(nx, nu); Q = mat(nx, nx); R = mat(nu, nu); S = mat(nu, nx)
        q = [Fr(a) for a in t.vec()]; r = [Fr(a) for a in t.vec()]; u = [Fr(a) for a in t.vec()]
        stages.append(dict(A=A, B=B, Q=Q, R=R, S=S, q=q, r=r, u=u, mask=t.nat()))
    QN = mat(nx, nx)
    qN = [Fr(a) for a in t.vec()]
    return N, nx, nu, stages, QN, qN


def replay(r):
    """`checks/replay.py <file>`: re-run the recorded op on the current tree and re-evaluate the monitor."""
    op = (r.get('payload') or {}).get('op')
    if not op:
        print('no input recorded (broken proof obligation / tie):', r.get('what', '')[:500])
        return 1
    exe, log = C.build_exe('c12', [os.path.join(C.VERIF, 'harness', 'c12.cpp')] + C.repo_lib_sources(
        ['problem/ocproblem.cpp']))
    if exe is None:
        print('harness does not build:', log[-800:])
        return 1
    out, rc, err = C.run_lines(exe, [op])
    if rc != 0 or not out:
        print(f'real code crashed (rc={rc}): {err[-300:]}')
        return 1
    print('impl:', out[0][:600])
    kind = op.split()[0]
    if kind == 'ric':
        N, nx, nu, stages, QN, qN = parse_ric_op(op)
        du, dxN, rcond = parse_ric_out(out[0])
        ref = kkt_step(N, nx, nu, stages, QN, qN)
        if ref is None:
            print('reference KKT system singular'); return 0
        e = max([abs(a - float(b)) for a, b in zip(du, ref[0])] + [0.0])
        print(f'exact KKT step: {[float(a) for a in ref[0]]}; max deviation {e:.3g}')
        return 1 if e > RIC_EPS * KKT_COND[0] * max([1.0] + [abs(float(a)) for a in ref[0] + ref[1]]) * (N + 1) else 0
    if kind == 'rics':
        # every case of the sequence again on a fresh factor object: must give the same bits
        t = T(op); t.tok()
        M, N, nx, nu = t.nat(), t.nat(), t.nat(), t.nat()
        singles = []
        for _ in range(M):
            start = t.p
            t.nat()
            for _k in range(N):
                for _v in range(8):
                    t.vec()
                t.nat()
            t.vec(); t.vec()
            toks = t.t[start:t.p]
            singles.append(f'ric {toks[0]} {N} {nx} {nu} ' + ' '.join(toks[1:]))
        fresh, rc2, _ = C.run_lines(exe, singles)
        segs = out[0].split(' | ')
        bad = [i for i, (a, b) in enumerate(zip(segs, fresh)) if a.strip() != b.strip()]
        for i in bad[:3]:
            print(f'case #{i}: one object: {segs[i][:200]}\n         fresh object: {fresh[i][:200]}')
        print('history-independent' if not bad else f'{len(bad)} of {M} cases differ from the fresh-object answer')
        return 1 if bad else 0
    if kind == 'gn':
        t = T(op); t.tok(); t.tok()
        p = Prob(t)
        mu, y, xinit, u, qfix = t.vec(), t.vec(), t.vec(), t.vec(), t.vec()
        masks = [t.nat() for _ in range(p.N)]
        ref, _ = gn_reference(p, mu, y, xinit, u, qfix, masks)
        o = T(out[0]); o.flt(); o.expect('du'); du = o.vec()
        if ref is None:
            print('reference KKT system singular'); return 0
        e = max([abs(a - float(b)) for a, b in zip(du, ref[0])] + [0.0])
        print(f'exact GN step: {[float(a) for a in ref[0]]}; max deviation {e:.3g}')
        return 1 if e > GN_EPS * KKT_COND[0] * max([1.0] + [abs(float(a)) for a in ref[0]]) * (p.N + 1) else 0
    m = monitor(op, out[0], {})
    print('monitor:', m if m else 'quiet')
    return 1 if m else 0


if __name__ == '__main__':
    sys.exit(C.standard_check(
        'C12', sys.argv,
        gen_scripts=['gen_c12.py'], modules=['Alpaqa.Props.C12'], driver='drv_c12',
        extra_sources=['Alpaqa/Gen/C12.lean', 'Alpaqa/Model/C12.lean', 'Alpaqa/Proofs/Basic.lean',
                       'Driver/C12.lean'] + ['Alpaqa/Proofs/C12%s.lean' % n for n in (
                           'Layout', 'Seg', 'Compl', 'Vec', 'Forward', 'Penalty', 'Adjoint', 'Lin',
                           'RicM', 'Riccati', 'Optimal', 'Deriv', 'AffQuad', 'Sim')],
        harness_name='c12',
        harness_sources=[os.path.join(C.VERIF, 'harness', 'c12.cpp')] + C.repo_lib_sources(
            ['problem/ocproblem.cpp']),
        gen_ops=gen_ops, monitor=monitor, nontrivial=nontrivial, corpus=fbs_corpus(),
        n_quick=450, n_thorough=10000, extra_stage=extra_stage,
        trusted_base=[
            'Lean 4.33 kernel + Mathlib (axioms: propext, Classical.choice, Quot.sound)',
            'gen/gen_c12.py translator: OCPVariables constructors / enum / size accessors / create* / '
            'xk xuk uk hk ck qk rk qrk / ABk Ak Bk; IndexSet storage layout, build_Jt and '
            'compute_complement loops (loop skeleton checked structurally, conditions and stored values '
            'translated)',
            'hand models forward / backward / IndexSet::update / factor_masked / solve_masked tied by '
            'the correspondence run (bit-exact for forward/backward incl. the exact regime; Riccati to '
            '2^-30·cond because Eigen LDLT / PartialPivLU enter as oracles with contract R̄X = B)',
            'the models of forward / forward_simulate / backward / factor_masked / solve_masked are PURE functions '
            'of the data they are handed; that the C++ objects (OCPEvaluator with its mutable work vectors, '
            'StatefulLQRFactor) do not depend on their call history is what the call-SEQUENCE correspondence ties: '
            '`fbs` ops (one evaluator, one qr vector, K ≥ 3 storages with different constraint activity, seeded '
            'sequences of forward / forward_simulate / backward / copy incl. backward on a storage filled by an '
            'earlier forward and on a copy, as take_safe_step and initial_lipschitz_estimate do) compared bit for '
            'bit with the model and monitored against the exact gradient at the storage handed to backward; '
            '`rics` sequences on one StatefulLQRFactor compared bit for bit with the same case on a fresh object',
            'user functions of the control problem are oracles (arbitrary functions; Jacobian-transpose '
            'products by their adjointness contract); `backward = derivative of forward` is a theorem for the '
            'class of affine-quadratic problems (backward_is_gradient_affquad / _affine_quadratic: affine '
            'dynamics and constraints, costs quadratic in (x, u), |V(U+εδU) − V(U) − ε⟨g,δU⟩| ≤ Kε²); for general '
            'nonlinear user functions it is proved up to the chain rule (adjoint = tangent sensitivity for '
            'every direction, penalty derivative) and monitored by exact forward-mode differentiation of the '
            'cost polynomial',
        ],
        assumptions=['IEEE rounding is not modelled: theorems are over ordered fields; the exact-regime '
                     'inputs make the binary64 run coincide with the real-number semantics',
                     'Eigen LDLT/PartialPivLU::solve return X with R̄X = B (contract; exercised, not proved)',
                     'the test problem is time-varying in every function family (A_t, B_t, Hm_t, w_t, Cc_t depend on '
                     'the stage index t, never all zero), so a wrong stage index in forward / backward / Qk / Rk / Sk / '
                     'R_prod / S_prod / gn_hess changes the result',
                     'Riccati / Gauss-Newton tolerances: eps · cond_inf(dense KKT matrix, exact rationals) · scale · '
                     '(N+1) with eps = 2^-44 / 2^-40 — the condition number comes from the problem data, never from '
                     'lqr.min_rcond; cases are excluded only when the exact KKT matrix is singular or its exact '
                     'condition number exceeds 1e10 (`well-conditioned data` of the quantifier), counted by reason in '
                     'coverage.riccati / coverage.gauss_newton'],
        rule='layout: 8 corner + ≥40 random dimension tuples; iset: all masks n ≤ 4, all pairs n ≤ 2, random '
             'n ≤ 12; fb: 10 structural corner dimension tuples (no outputs / no stage constraints / '
             'terminal-only / all) × {exact, general} + seeded random polynomial OCPs (bilinear dynamics, '
             'quadratic constraints, boxes with infinite and equal sides), half in the exact regime; '
             'fbs: 36 fixed sequences (8 PANOC-OCP call shapes × 4 dimension tuples, exact regime, + 4 general) '
             'first on every tier, then ≥60 seeded sequences of 4–12 calls on 3–5 storages (storage 0 strictly '
             'feasible by construction of the boxes, storage 1 violating stage and terminal constraints, others '
             'with further — per-stage mixed — activity patterns); rics: 80 (quick) / 600 sequences of 3–6 cases '
             'on one factor object; riccati: every mask pattern for nu ≤ 3, N ≤ 3 (quick: all per-stage patterns + sample of the '
             'joint ones), random N ≤ 8, nx ≤ 4, nu ≤ 5, both factorisations; distinct = distinct op lines',
    ))
