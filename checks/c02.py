#!/usr/bin/env python3
"""C02 — Convergence on well-posed convex problems (partial).  DESIGN.md §6 C02, Appendix A.5.

Proof half (lean/Alpaqa/Props/C02.lean): the a-posteriori bound `kkt_error_bound`, soundness of the
decidable certificate checkers `isExactKKT` / `isSCCert`, `descent_finite_termination`.

Exploration half (this file): every shipped solver stack — ALM over PANOC / ZeroFPR x {LBFGS,
StructuredLBFGS, Anderson, Noop, StructuredNewton, ConvexNewton (m = 0 only: it rejects general
constraints by design)}, PANTR x NewtonTR, FISTA, and each inner solver stand-alone on the
box-constrained / unconstrained special case — is run through harness/c02_run.cpp with DEFAULT
parameters (only tolerances and iteration limits are set; the problem provides Hessian-vector products
and dense Hessians, which the Newton-type providers require) on seeded strongly convex QPs

    minimise ½ xᵀQx + cᵀx   s.t.  Clb ≤ x ≤ Cub,  Dlb ≤ A x ≤ Dub,     Q_s = μ I + BᵀB (dyadic B)

with a strictly feasible point, including a "zero-gradient start" class (x⁰ the exact unconstrained
minimiser, ∇ψ(x⁰) = 0 in binary64, x⁰ outside the box) that every stack receives in every tier.
Required: status `Converged` (an exception escaping a solver is a violation), reported ε ≤ tolerance,
and the *proved* inequality

    μ ‖x − x*‖² ≤ ε ‖x − x*‖₁ + δ ‖y − y*‖₁

evaluated exactly in Fractions (and again at `Rat` by drv_c02, op `bound`), once with the requested
tolerances (the property as stated) and once with the residuals the solver reports for the returned
point (the sharp form: attained with equality on some instances).  (x*, y*) comes from an independent
exact active-set solve (Fractions, started at the feasibility witness, not at the solver's output) and
is *certified* by the Lean-verified checker (`drv_c02`, op `kkt`, core `Rat`) before it is used; the
strong-convexity constant μ is certified by the same call (`isSCCert` on the factor B).

Findings on the unchanged tree (known-findings.json, keys `C02:stepsize-collapse:*`,
`C02:rounding-floor-stall:zerofpr`, `C02:first-order-iteration-budget:fista`): 0.5–1 % of the runs do not
return Converged because the requested tolerance lies below the rounding floor of the function-value
acceptance tests.  A non-converged run is attributed to them only if it ended NoProgress / MaxIter with
the requested tolerance ≤ 4·ε_floor and the iterate at the certified x* to 16·ε_floor/μ (ε_floor from
the problem data and x* alone); the attributed runs are counted per stack in the evidence and CAPPED
(thorough: 8 % of a first-order stack's runs, 2 % of any other stack's; quick: 3 per stack, 12 in total)
— above the cap the check fails.  Any other non-convergence, every exception, and every bound violation
exits 1.  Required coverage (every stack run, in both modes where applicable, and on a zero-gradient
start) is enforced: a class that was never exercised breaks the tie.
"""
import math
import os
import subprocess
import sys
from fractions import Fraction as Fr

sys.path.insert(0, os.path.dirname(os.path.abspath(__file__)))
import common as C
import solvers as S
import c01
from common import f2h, h2f

INF = float('inf')
# the ten stacks of the first build (own list: checks/c01.py's STACKS belongs to another property) …
STACKS = ['panoc-lbfgs', 'panoc-slbfgs', 'panoc-anderson', 'panoc-noop', 'zerofpr-lbfgs',
          'zerofpr-slbfgs', 'zerofpr-anderson', 'zerofpr-noop', 'pantr-newtontr', 'fista']
# … plus the two Newton-type PANOC direction providers (audit round 2: "each direction provider").
# StructuredNewtonDirection needs a dense eval_hess_ψ (any m); ConvexNewtonDirection needs a dense
# eval_hess_L and rejects m > 0 by design (`initialize` throws "does not support general
# constraints"), so it is only generated for m = 0 (stand-alone, and ALM on a box-constrained problem).
NEWTON_ANY_M = ['panoc-snewton', 'zerofpr-snewton']
NEWTON_M0 = ['panoc-cnewton', 'zerofpr-cnewton']
ALL_STACKS = STACKS + NEWTON_ANY_M + NEWTON_M0


def applicable_stacks(m):
    return STACKS + NEWTON_ANY_M + (NEWTON_M0 if m == 0 else [])

COND_CAP = 1000
# generous limits (library defaults: 100 outer / 100 (PANOC, ZeroFPR, PANTR) resp. 1000 (FISTA) inner
# iterations; the largest outer count observed on a converging run is ≈ 40): see `limits()`
ALM_ITER = 100
FIRST_ORDER = ('panoc-noop', 'zerofpr-noop', 'fista')
QN_LIMIT = 50000
G = {'cert': {}, 'bound_ops': [], 'stats': {}, 'lean_calls': 0, 'per_stack': {}, 'absorbed_ops': {}}

# Known-finding absorption (see the non-Converged branch of `_monitor` and `absorb`).
# The recorded finding is: the acceptance tests of the inner solvers (quadratic upper bound for the
# step size, FBE line search) compare differences of ψ-values; below the *rounding floor*
#       ε_floor := sqrt(u · F* · L_f),   u = 2⁻⁵³,  F* = ½ Σ|Q_s,ij x*_i x*_j| + Σ|c_i x*_i| (≥ 1),
#                                         L_f = μ + tr BᵀB  (all from the problem data and the certified x*)
# those differences (≈ ε²/L) are smaller than the evaluation error of ψ (≈ u·F*), so a requested
# tolerance below the floor cannot be reached reliably.  Measured on 15 344 runs of the unchanged tree
# (seeds 1–3 thorough, /repo 02b663b30): every one of the 116 non-converged runs has tol ≤ 0.72·ε_floor,
# and every non-FISTA one ends with μ·|x − x*|∞ ≤ 3.5·ε_floor.
FLOOR_U = 2.0 ** -53
ABSORB_TOL_FACTOR = 4.0     # absorbed only if requested tol ≤ 4·ε_floor           (measured max 0.72)
ABSORB_DIST_FACTOR = 16.0   # … and μ·|x − x*|∞ ≤ 16·ε_floor                       (measured max 3.5)
ABSORB_DIST_FISTA = 5e-2    # FISTA: after the collapse the momentum term carries the iterate away again;
                            # |x − x*|∞ ≤ 5e-2·(1 + |x*|∞)                         (measured max 9.2e-3)
# Caps on the absorbed share per stack (thorough, ≥ 200 runs): measured maxima per seed are 3.75 % for the
# stacks without curvature information (panoc-noop, zerofpr-noop, fista) and 0.75 % for all others.
CAP_FRACTION_FIRST_ORDER = 0.08
CAP_FRACTION = 0.02
CAP_MIN_RUNS = 200
CAP_QUICK_PER_STACK = 5    # quick: absolute counts (a stack has 10–25 runs; measured over 256 + 29 seeds: max 3, in 2 seeds)
CAP_QUICK_TOTAL = 16       # (≈ 200 runs; measured 0–7: one hard instance is run on all 12–14 stacks)


def pstack(stack):
    return G['per_stack'].setdefault(stack, {'runs': 0, 'converged': 0, 'zerograd_runs': 0, 'modes': {},
                                             'absorbed': {}, 'violations': 0})


def absorb(stack, key, op_line):
    e = pstack(stack)
    e['absorbed'][key] = e['absorbed'].get(key, 0) + 1
    G['absorbed_ops'].setdefault(stack, []).append(op_line)


def build_harness():
    """harness/c02_run.cpp + the library TUs of the working tree (same set as the C01 harness)."""
    srcs = [s for s in C.repo_lib_sources() if not s.endswith('/util/dl.cpp')]
    return C.build_exe('c02run', [os.path.join(C.VERIF, 'harness', 'c02_run.cpp')] + srcs)


def parse_out(line):
    r = c01.parse_alm_out(line)
    for sec in line.split(' ; '):
        t = sec.split()
        if t and t[0] == 'G':
            r['gamma'] = h2f(t[1]); r['backtracks'] = int(t[2]); r['norm_penalty'] = h2f(t[3])
    return r


def stat(k, d=1):
    G['stats'][k] = G['stats'].get(k, 0) + d


# ------------------------------------------------------------------ parallel front end of the harness

def run_parallel(exe, lines):
    """K harness processes (round robin over the lines) → outputs in input order."""
    from concurrent.futures import ThreadPoolExecutor
    if not lines:
        return []
    K = max(1, min(C.NPROC, 16, len(lines)))
    chunks = [lines[k::K] for k in range(K)]

    def run(ch):
        r = subprocess.run([exe], input='\n'.join(ch) + '\n', stdout=subprocess.PIPE,
                           stderr=subprocess.PIPE, text=True)
        out = r.stdout.splitlines()
        got = len(out)
        while len(out) < len(ch):        # a crash must stay attributed to its own input
            out.append(f'exception harness-crash rc={r.returncode} {r.stderr[-120:].strip()!r}'
                       if len(out) == got else 'exception harness-not-run')
        return out
    with ThreadPoolExecutor(max_workers=K) as ex:
        outs = list(ex.map(run, chunks))
    res = [None] * len(lines)
    for k in range(K):
        res[k::K] = outs[k]
    return res


def par_main(exe, cache_file=None):
    """Front end handed to common.standard_check as "the harness": stdin lines → stdout lines.
    Lines already evaluated by `main` (same process tree, same executable; see `prerun`) are answered
    from its result file — common.run_lines has a fixed 600 s budget for the whole stream, the
    thorough tier needs more."""
    import json
    lines = [l.rstrip('\n') for l in sys.stdin if l.strip()]
    cache = {}
    if cache_file and os.path.exists(cache_file):
        cache = json.load(open(cache_file))
    todo = [l for l in lines if l not in cache]
    for l, o in zip(todo, run_parallel(exe, todo)):
        cache[l] = o
    sys.stdout.write('\n'.join(cache[l] for l in lines) + ('\n' if lines else ''))
    return 0


def prerun(exe, tier, n_inst):
    """Evaluate the op stream standard_check is going to generate (same rng seed), without the global
    timeout; → path of the result file."""
    import json, random, tempfile
    rng = random.Random(C.seed() * 1000003 + (17 if tier == 'thorough' else 0))
    ops = gen_ops_factory(tier)(rng, n_inst)
    outs = run_parallel(exe, ops)
    fd, path = tempfile.mkstemp(prefix='c02_results_', suffix='.json', dir=C.CACHE)
    with os.fdopen(fd, 'w') as f:
        json.dump(dict(zip(ops, outs)), f)
    return path


# ------------------------------------------------------------------ generator

def dyv(rng, vals):
    return rng.choice(vals)


def exact_float(fr):
    f = float(fr)
    assert Fr(f) == fr, f'not representable: {fr}'
    return f


def gen_Q(rng, n):
    """Q = μ I + BᵀB (+ optional skew part), B dyadic, (μ + tr BᵀB)/μ ≤ COND_CAP."""
    mu = Fr(rng.choice([1, 1, 2, 4, 8]), 4) * rng.choice([1, 1, 1, 2, 4])
    k = rng.choice([0, 1, max(1, n // 2), n, n]) if n > 1 else rng.choice([0, 1])
    B = [[Fr(rng.choice([-4, -2, -1, 0, 0, 0, 1, 2, 4]), 2) for _ in range(n)] for _ in range(k)]
    for r in B:                                   # row scaling -> ill-conditioning on purpose
        s = rng.choice([1, 1, 1, 2, 4, 8])
        for i in range(n):
            r[i] *= s
    tr = lambda: sum(a * a for r in B for a in r)
    while mu + tr() > COND_CAP * mu:
        B = [[a / 2 for a in r] for r in B]
    Qs = [[(mu if i == j else 0) + sum(B[l][i] * B[l][j] for l in range(k)) for j in range(n)]
          for i in range(n)]
    Q = [r[:] for r in Qs]
    if n > 1 and rng.random() < 0.15:             # non-symmetric Q: f only sees the symmetric part
        for _ in range(rng.randint(1, n)):
            i, j = rng.sample(range(n), 2)
            s = Fr(rng.choice([-2, -1, 1, 2]), 2)
            Q[i][j] += s; Q[j][i] -= s
    return mu, B, Q, Qs


def gen_row(rng, n):
    while True:
        a = [Fr(rng.choice([-4, -2, -1, 0, 0, 0, 1, 2, 4]), 2) for _ in range(n)]
        if any(a):
            return a


def dot(a, b):
    return sum(x * y for x, y in zip(a, b))


def gen_instance(rng, *, inner=False, n=None, m=None):
    """→ dict with problem data as Fractions / floats (bounds), feasibility witness xf, μ, B."""
    n = n if n is not None else rng.choice([1, 2, 2, 3, 3, 4, 5, 6, 8, 10, 12])
    if inner:
        m = 0
    elif m is None:
        m = rng.choice([0, 1, 1, 2, 2, 3, 4, 5, 6, 8])
    mu, B, Q, Qs = gen_Q(rng, n)
    planted = rng.random() < 0.55
    unconstrained = inner and rng.random() < 0.3
    w = lambda: Fr(rng.choice([1, 2, 4, 8]), 4)
    Clb, Cub = [-INF] * n, [INF] * n
    xf = [Fr(rng.randint(-8, 8), 4) for _ in range(n)]
    fam = 'planted' if planted else 'natural'
    if not planted:
        # ---- natural family: boxes around the strictly feasible xf, random c; the active set emerges
        for i in range(n):
            r = rng.random()
            if unconstrained or r < 0.35:
                pass
            elif r < 0.5:
                Clb[i] = exact_float(xf[i] - w())
            elif r < 0.65:
                Cub[i] = exact_float(xf[i] + w())
            elif r < 0.95:
                Clb[i] = exact_float(xf[i] - w()); Cub[i] = exact_float(xf[i] + w())
            else:
                Clb[i] = Cub[i] = exact_float(xf[i])
        A = [gen_row(rng, n) for _ in range(m)]
        Dlb, Dub = [], []
        for j in range(m):
            s = dot(A[j], xf)
            r = rng.random()
            if r < 0.3:
                Dlb.append(exact_float(s)); Dub.append(exact_float(s))
            elif r < 0.5:
                Dlb.append(-INF); Dub.append(exact_float(s + w()))
            elif r < 0.7:
                Dlb.append(exact_float(s - w())); Dub.append(INF)
            elif r < 0.95:
                Dlb.append(exact_float(s - w())); Dub.append(exact_float(s + w()))
            else:
                Dlb.append(-INF); Dub.append(INF)
        cs = rng.choice([1, 1, 4, 16])
        c = [Fr(rng.randint(-16, 16), 4) * cs for _ in range(n)]
    else:
        # ---- planted family: choose x*, its active set and multipliers (zeros on purpose =
        #      degenerate), keep xf strictly feasible, set c := −(Q_s x* + Aᵀy* + n*)
        xs = [Fr(rng.randint(-12, 12), 4) for _ in range(n)]
        d = [Fr(0)] * n
        nst = [Fr(0)] * n
        # `big`: one-sided active rows with large multipliers (|y*| / δ above max_penalty at δ = 1e-8):
        # there the multiplier *update* (not the penalty) has to do the work, on the correct side of 0
        big = (not inner) and rng.random() < 0.25
        mult = lambda: Fr(rng.choice([0, 0, 1, 2, 4, 12]), 4)   # 0 ⇒ weakly active (degenerate)
        bigmult = lambda: Fr(rng.choice([16, 32, 64]))
        for i in range(n):
            r = rng.random()
            if unconstrained:
                kind = 'free'
            else:
                kind = ('free' if r < 0.25 else 'int' if r < 0.45 else 'lb' if r < 0.68 else
                        'ub' if r < 0.92 else 'fix')
            if kind in ('free', 'int'):
                d[i] = Fr(rng.choice([-4, -2, 0, 0, 2, 4]), 4)
                if kind == 'int':
                    lo, hi = min(xs[i], xs[i] + d[i]), max(xs[i], xs[i] + d[i])
                    if rng.random() < 0.7:
                        Clb[i] = exact_float(lo - w())
                    if rng.random() < 0.7:
                        Cub[i] = exact_float(hi + w())
            elif kind == 'lb':
                d[i] = w(); Clb[i] = exact_float(xs[i]); nst[i] = -mult()
                if rng.random() < 0.5:
                    Cub[i] = exact_float(xs[i] + d[i] + w())
            elif kind == 'ub':
                d[i] = -w(); Cub[i] = exact_float(xs[i]); nst[i] = mult()
                if rng.random() < 0.5:
                    Clb[i] = exact_float(xs[i] + d[i] - w())
            else:
                Clb[i] = Cub[i] = exact_float(xs[i]); nst[i] = Fr(rng.randint(-8, 8), 4)
        xf = [xs[i] + d[i] for i in range(n)]
        piv = [i for i in range(n) if d[i] != 0]
        A, Dlb, Dub, ys = [], [], [], []
        for j in range(m):
            a = gen_row(rng, n)
            r = rng.random()
            kind = 'eq' if r < 0.3 else 'act' if r < 0.7 else 'inact'
            if kind == 'eq' and piv:
                k = rng.choice(piv)                       # make a·d = 0 exactly (d_k = ± power of two)
                a[k] = -sum(a[i] * d[i] for i in range(n) if i != k) / d[k]
                if not any(a) or max(abs(v) for v in a) > 8:
                    kind = 'act'; a = gen_row(rng, n)
            ss, sf = dot(a, xs), dot(a, xf)
            if kind == 'eq' and ss != sf:
                kind = 'act'
            if kind == 'act' and ss == sf:
                kind = 'inact'
            if kind == 'eq':
                Dlb.append(exact_float(ss)); Dub.append(exact_float(ss))
                ys.append(Fr(rng.randint(-8, 8), 4))
            elif kind == 'act':
                if sf < ss:       # active at the upper side
                    Dub.append(exact_float(ss)); ys.append(bigmult() if big else mult())
                    Dlb.append(exact_float(sf - w()) if (rng.random() < 0.5 and not big) else -INF)
                else:
                    Dlb.append(exact_float(ss)); ys.append(-(bigmult() if big else mult()))
                    Dub.append(exact_float(sf + w()) if (rng.random() < 0.5 and not big) else INF)
            else:
                lo, hi = min(ss, sf), max(ss, sf)
                Dlb.append(exact_float(lo - w()) if rng.random() < 0.6 else -INF)
                Dub.append(exact_float(hi + w()) if rng.random() < 0.6 else INF)
                ys.append(Fr(0))
            A.append(a)
        c = [-(dot(Qs[i], xs) + sum(A[j][i] * ys[j] for j in range(m)) + nst[i]) for i in range(n)]
    # starting point: often infeasible, sometimes far away
    far = rng.choice([1, 1, 1, 4, 16])
    x0 = [Fr(rng.randint(-12, 12), 4) * far for _ in range(n)]
    y0 = [Fr(rng.randint(-8, 8), 4) if rng.random() < 0.4 else Fr(0) for _ in range(m)]
    return dict(n=n, m=m, Q=[exact_float(a) for r in Q for a in r], c=[exact_float(a) for a in c],
                A=[exact_float(a) for r in A for a in r], Clb=Clb, Cub=Cub, Dlb=Dlb, Dub=Dub,
                xf=[exact_float(a) for a in xf], mu=mu, Bk=len(B), B=[exact_float(a) for r in B for a in r],
                x0=[exact_float(a) for a in x0], y0=[exact_float(a) for a in y0],
                fam=fam + ('-bigmult' if (planted and big) else ''))


def gen_zerograd_instance(rng, *, inner=False):
    """Zero-gradient start (audit round 2): x⁰ = u is the exact unconstrained minimiser (u = 0 with
    c = 0, or a dyadic u with c = −Q_s u), y⁰ = 0, every row contains A u (so ŷ(x⁰) = 0 and
    ∇ψ(x⁰) = 0 *exactly* in binary64), but the box does not contain u: the solver has to leave a
    stationary point of ψ that is infeasible.  Quantities scaled by ‖∇ψ(x⁰)‖ (PANTR's automatic
    initial trust radius, Lipschitz estimates, relative tolerances) are 0 here."""
    n = rng.choice([1, 2, 2, 3, 4, 6, 8, 12])
    m = 0 if inner else rng.choice([0, 1, 2, 3, 5])
    mu, B, Q, Qs = gen_Q(rng, n)
    origin = rng.random() < 0.5
    u = [Fr(0)] * n if origin else [Fr(rng.randint(-8, 8), 4) for _ in range(n)]
    c = [-dot(Qs[i], u) for i in range(n)]
    w = lambda: Fr(rng.choice([1, 2, 4, 8]), 4)
    Clb, Cub, xf = [-INF] * n, [INF] * n, [None] * n
    out = set(range(n)) if rng.random() < 0.4 else set(rng.sample(range(n), rng.randint(1, n)))
    for i in range(n):
        if i in out:                          # [lo, hi] excludes u_i
            side, gap, half = rng.choice([-1, 1]), w(), w()
            lo = u[i] + gap if side > 0 else u[i] - gap - 2 * half
            hi = lo + 2 * half
            xf[i] = lo + half
            far_finite = rng.random() < 0.6
            if side > 0 or far_finite:
                Clb[i] = exact_float(lo)
            if side < 0 or far_finite:
                Cub[i] = exact_float(hi)
        else:
            xf[i] = u[i] + Fr(rng.choice([-2, 0, 2]), 4)
            if rng.random() < 0.6:
                if rng.random() < 0.7:
                    Clb[i] = exact_float(min(u[i], xf[i]) - w())
                if rng.random() < 0.7:
                    Cub[i] = exact_float(max(u[i], xf[i]) + w())
    A = [gen_row(rng, n) for _ in range(m)]
    Dlb, Dub = [], []
    for j in range(m):
        su, sf = dot(A[j], u), dot(A[j], xf)
        lo, hi = min(su, sf), max(su, sf)
        r = rng.random()
        # A u ∈ [Dlb, Dub] (on the boundary in some cases), A xf strictly inside
        Dlb.append(-INF if r < 0.3 else exact_float(lo if (lo == su and su != sf and r < 0.5) else lo - w()))
        r = rng.random()
        Dub.append(INF if r < 0.3 else exact_float(hi if (hi == su and su != sf and r < 0.5) else hi + w()))
    return dict(n=n, m=m, Q=[exact_float(a) for r in Q for a in r], c=[exact_float(a) for a in c],
                A=[exact_float(a) for r in A for a in r], Clb=Clb, Cub=Cub, Dlb=Dlb, Dub=Dub,
                xf=[exact_float(a) for a in xf], mu=mu, Bk=len(B), B=[exact_float(a) for r in B for a in r],
                x0=[exact_float(a) for a in u], y0=[0.0] * m,
                fam='zerograd-origin' if origin else 'zerograd-min')


def limits(stack):
    """Generous inner iteration limits (the only non-default parameters besides the tolerances and the
    Hessian-product capability of the problem).  Quasi-Newton / trust-region stacks: 50 000 (500 x the
    default; they need a few hundred).  First-order stacks without curvature information (plain
    proximal gradient `*-noop`, FISTA): 1 000 000 — their iteration count is proportional to the
    condition number of the augmented Lagrangian (≤ 10³ · (1 + penalty·‖A‖²/λmax))."""
    return 1000000 if stack in FIRST_ORDER else QN_LIMIT      # Newton-type providers: as quasi-Newton


def instance_ops(p, pid, stacks, mode, tol, dtol):
    ops = []
    for st in stacks:
        kv = {'_op': 'alm', 'stack': st, 'mode': mode, 'n': str(p['n']), 'm': str(p['m'])}
        for k in ('Q', 'c', 'A', 'Clb', 'Cub', 'Dlb', 'Dub', 'x0', 'y0', 'xf', 'B'):
            kv[k] = S.kvvec(p[k])
        kv['q4'] = S.kvvec([0.0] * p['n']); kv['b'] = S.kvvec([0.0] * p['m']); kv['l1'] = '0:'
        kv['Sig'] = '0:'
        kv['tol'] = f2h(tol); kv['dtol'] = f2h(dtol)
        kv['almiter'] = str(ALM_ITER); kv['maxiter'] = str(limits(st))
        # NewtonTR's default is exact Hessian-vector products (finite_diff = false): provide them
        kv['hess'] = '1'
        kv['mu'] = f'{p["mu"].numerator}/{p["mu"].denominator}'; kv['Bk'] = str(p['Bk'])
        kv['pid'] = pid; kv['fam'] = p['fam']
        ops.append(S.Op(kv).line())
    return ops


def gen_ops_factory(tier):
    def gen_ops(rng, n_inst):
        ops = []
        ctr = {}
        per = None if tier == 'thorough' else 3
        for k in range(n_inst):
            inner = (k % 10) >= 7
            zerograd = (k % 10) in (3, 8)            # 2 of 10 instances: zero-gradient start
            p = gen_zerograd_instance(rng, inner=inner) if zerograd else gen_instance(rng, inner=inner)
            tol = rng.choice([1e-4, 1e-6, 1e-8]); dtol = rng.choice([1e-4, 1e-6, 1e-8])
            if p['fam'].endswith('-bigmult'):
                dtol = 1e-8
            appl = applicable_stacks(p['m'])
            if per is None or zerograd:              # zero-gradient starts: every stack, in every tier
                stacks = appl
            else:
                w = (inner, len(appl))
                c0 = ctr.get(w, 0)
                stacks = [appl[(c0 + t) % len(appl)] for t in range(per)]
                ctr[w] = c0 + per
            pid = f'{rng.getrandbits(48):012x}'
            ops += instance_ops(p, pid, stacks, 'inner' if inner else 'alm', tol, dtol)
        return ops
    return gen_ops


# ------------------------------------------------------------------ exact QP solve (Fractions)

def lin_solve(M, rhs):
    """Gaussian elimination over Fractions; returns solution or None if singular."""
    n = len(M)
    a = [M[i][:] + [rhs[i]] for i in range(n)]
    for col in range(n):
        piv = next((r for r in range(col, n) if a[r][col] != 0), None)
        if piv is None:
            return None
        a[col], a[piv] = a[piv], a[col]
        pv = a[col][col]
        for r in range(col + 1, n):
            f = a[r][col] / pv
            if f:
                ar, ac = a[r], a[col]
                for k in range(col, n + 1):
                    ar[k] -= f * ac[k]
    x = [Fr(0)] * n
    for i in range(n - 1, -1, -1):
        s = a[i][n] - sum(a[i][k] * x[k] for k in range(i + 1, n))
        x[i] = s / a[i][i]
    return x


def independent_subset(rows, order):
    """Greedy maximal linearly independent subset of rows (indices taken in `order`)."""
    basis = []          # reduced rows with their pivot column
    chosen = []
    for idx in order:
        v = rows[idx][:]
        for pc, b in basis:
            if v[pc]:
                f = v[pc] / b[pc]
                v = [x - f * y for x, y in zip(v, b)]
        pc = next((k for k, x in enumerate(v) if x), None)
        if pc is not None:
            basis.append((pc, v)); chosen.append(idx)
    return chosen


class QP:
    """Stacked constraints: rows 0..n-1 are the variable bounds (unit vectors), n.. the rows of A."""

    def __init__(self, op):
        n, m = op.nat('n'), op.nat('m')
        self.n, self.m = n, m
        F = lambda v: [Fr(a) for a in v]
        Q = F(op.vec('Q'))
        self.Q = [[Q[i * n + j] for j in range(n)] for i in range(n)]
        self.Qs = [[(self.Q[i][j] + self.Q[j][i]) / 2 for j in range(n)] for i in range(n)]
        self.c = F(op.vec('c'))
        A = F(op.vec('A'))
        self.A = [[A[j * n + i] for i in range(n)] for j in range(m)]
        self.Clb, self.Cub = op.vec('Clb'), op.vec('Cub')
        self.Dlb, self.Dub = op.vec('Dlb'), op.vec('Dub')
        self.rows = [[Fr(1) if k == i else Fr(0) for k in range(n)] for i in range(n)] + self.A
        self.lo = list(self.Clb) + list(self.Dlb)
        self.hi = list(self.Cub) + list(self.Dub)
        self.xf = F(op.vec('xf'))
        num, den = op['mu'].split('/')
        self.mu = Fr(int(num), int(den))
        k = op.nat('Bk')
        B = F(op.vec('B'))
        self.B = [[B[l * n + i] for i in range(n)] for l in range(k)]

    def is_eq(self, r):
        return self.lo[r] == self.hi[r]

    def grad(self, x):
        return [dot(self.Qs[i], x) + self.c[i] for i in range(self.n)]

    def well_posed(self):
        """The property's own preconditions, exactly."""
        n = self.n
        tr = sum(a * a for r in self.B for a in r)
        if not (self.mu > 0 and self.mu + tr <= COND_CAP * self.mu):
            return 'condition-number cap'
        for i in range(n):
            for j in range(n):
                if self.Qs[i][j] != (self.mu if i == j else 0) + sum(b[i] * b[j] for b in self.B):
                    return 'Q_s != mu I + B^T B'
        for r in range(n + self.m):
            v = dot(self.rows[r], self.xf)
            lo, hi = self.lo[r], self.hi[r]
            if lo > hi:
                return 'empty interval'
            if lo == hi:
                if v != Fr(lo):
                    return 'witness violates an equality'
            elif not ((lo == -INF or Fr(lo) < v) and (hi == INF or v < Fr(hi))):
                return 'witness not strictly feasible'
        return None

    def eqp(self, x, W):
        """min over p of the quadratic at x + p with rows W held: → (p, λ_W) or None."""
        n, k = self.n, len(W)
        M = [[Fr(0)] * (n + k) for _ in range(n + k)]
        for i in range(n):
            for j in range(n):
                M[i][j] = self.Qs[i][j]
            for t, r in enumerate(W):
                M[i][n + t] = self.rows[r][i]
                M[n + t][i] = self.rows[r][i]
        g = self.grad(x)
        sol = lin_solve(M, [-a for a in g] + [Fr(0)] * k)
        if sol is None:
            return None
        return sol[:n], sol[n:]

    def active_set_solve(self, cap=2000):
        """Primal active-set method (Nocedal–Wright 16.3) in exact arithmetic from the witness xf,
        Bland's smallest-index rule for ties.  → (x*, λ) with λ over all n+m stacked rows."""
        n, N = self.n, self.n + self.m
        x = self.xf[:]
        eqs = [r for r in range(N) if self.is_eq(r)]
        W = independent_subset(self.rows, eqs)        # (row, side) with side 0 = eq
        side = {r: 0 for r in W}
        for it in range(cap):
            sol = self.eqp(x, W)
            if sol is None:
                return None
            p, lam = sol
            if not any(p):
                bad = [r for t, r in enumerate(W) if (side[r] == 1 and lam[t] < 0) or
                       (side[r] == -1 and lam[t] > 0)]
                if not bad:
                    L = [Fr(0)] * N
                    for t, r in enumerate(W):
                        L[r] = lam[t]
                    return x, L, it + 1
                r = min(bad)
                W.remove(r); del side[r]
                continue
            alpha, block = Fr(1), None
            for r in range(N):
                if r in side or self.is_eq(r):
                    continue
                ap = dot(self.rows[r], p)
                if ap > 0 and self.hi[r] != INF:
                    t = (Fr(self.hi[r]) - dot(self.rows[r], x)) / ap
                    if t < alpha:
                        alpha, block = t, (r, 1)
                elif ap < 0 and self.lo[r] != -INF:
                    t = (Fr(self.lo[r]) - dot(self.rows[r], x)) / ap
                    if t < alpha:
                        alpha, block = t, (r, -1)
            x = [x[i] + alpha * p[i] for i in range(n)]
            if block is not None:
                W.append(block[0]); side[block[0]] = block[1]
        return None

    def guess_solve(self, xd, yd, tau, cap=60):
        """Fallback: active set guessed from a solver's output, then repaired (drop the worst
        wrong-sign multiplier / add the most violated row)."""
        n, N = self.n, self.n + self.m
        v = [dot(self.rows[r], xd) for r in range(N)]
        est = [Fr(0)] * n + list(yd)
        side = {}
        for r in range(N):
            if self.is_eq(r):
                side[r] = 0
            elif self.hi[r] != INF and (v[r] >= Fr(self.hi[r]) - tau or est[r] > tau):
                side[r] = 1
            elif self.lo[r] != -INF and (v[r] <= Fr(self.lo[r]) + tau or est[r] < -tau):
                side[r] = -1
        prio = []
        for it in range(cap):
            order = sorted(side, key=lambda r: (side[r] != 0, r not in prio, -abs(est[r]), r))
            W = independent_subset(self.rows, order)
            # solve for the point on the rows W: x = x0 + p from any x0; use x0 = 0 with rhs
            k = len(W)
            M = [[Fr(0)] * (n + k) for _ in range(n + k)]
            for i in range(n):
                for j in range(n):
                    M[i][j] = self.Qs[i][j]
                for t, r in enumerate(W):
                    M[i][n + t] = self.rows[r][i]; M[n + t][i] = self.rows[r][i]
            rhs = [-a for a in self.c] + [Fr(self.hi[r] if side[r] >= 0 else self.lo[r]) for r in W]
            sol = lin_solve(M, rhs)
            if sol is None:
                return None
            x, lam = sol[:n], sol[n:]
            bad = [(abs(lam[t]), r) for t, r in enumerate(W)
                   if (side[r] == 1 and lam[t] < 0) or (side[r] == -1 and lam[t] > 0)]
            if bad:
                r = max(bad)[1]
                del side[r]
                continue
            viol = []
            for r in range(N):
                s = dot(self.rows[r], x)
                if self.hi[r] != INF and s > Fr(self.hi[r]):
                    viol.append((s - Fr(self.hi[r]), r, 1 if not self.is_eq(r) else 0))
                elif self.lo[r] != -INF and s < Fr(self.lo[r]):
                    viol.append((Fr(self.lo[r]) - s, r, -1 if not self.is_eq(r) else 0))
            if viol:
                _, r, sd = max(viol)
                side[r] = sd; prio.append(r)
                continue
            L = [Fr(0)] * N
            for t, r in enumerate(W):
                L[r] = lam[t]
            return x, L, it + 1
        return None

    def kkt_ok(self, x, L):
        """Exact KKT conditions (same as the Lean checker; Python-side sanity)."""
        n, m = self.n, self.m
        ys = L[n:]
        g = self.grad(x)
        r = [-(g[i] + sum(self.A[j][i] * ys[j] for j in range(m))) for i in range(n)]
        for k in range(n + m):
            s = dot(self.rows[k], x)
            nv = r[k] if k < n else ys[k - n]
            if (self.lo[k] != -INF and s < Fr(self.lo[k])) or (self.hi[k] != INF and s > Fr(self.hi[k])):
                return False
            if nv > 0 and not (self.hi[k] != INF and s == Fr(self.hi[k])):
                return False
            if nv < 0 and not (self.lo[k] != -INF and s == Fr(self.lo[k])):
                return False
        return True


def rat(fr):
    return f'{fr.numerator}/{fr.denominator}'


def lean_certify(op, qp, xs, ys):
    """Run the Lean-verified checker (core Rat) on (x*, y*, μ, B).  → 'ok' | 'fail …' | error text."""
    exe = C.driver_exe('drv_c02')
    if not os.path.exists(exe):
        return 'driver drv_c02 missing', ''
    H = lambda key: ' '.join(f2h(a) for a in op.vec(key))
    toks = ['kkt', str(qp.n), str(qp.m), H('Q'), H('c'), H('A'), H('Clb'), H('Cub'), H('Dlb'), H('Dub'),
            ' '.join(rat(a) for a in xs), ' '.join(rat(a) for a in ys), op['mu'], str(op.nat('Bk')), H('B')]
    line = ' '.join(t for t in toks if t != '')
    out, rc, err = C.run_lines(exe, [line], timeout=900)
    G['lean_calls'] += 1
    return (out[0].strip() if out else f'no output rc={rc} {err[-200:]}'), line


def certificate(op, xd, yd):
    """(x*, y*) for the op's problem: computed once per problem, Lean-certified before use."""
    pid = op.get('pid') or str(hash((op['Q'], op['c'], op['A'], op['Clb'], op['Cub'], op['Dlb'], op['Dub'])))
    if pid in G['cert']:
        return G['cert'][pid]
    qp = QP(op)
    res = {'qp': qp}
    wp = qp.well_posed()
    if wp:
        res['error'] = f'generated instance is not well-posed by the property\'s terms: {wp}'
    else:
        sol = qp.active_set_solve()
        how = 'active-set'
        if sol is None:
            tau = Fr(1, 10000)
            sol = qp.guess_solve([Fr(a) for a in xd], [Fr(a) for a in yd], tau)
            how = 'guess+repair'
        if sol is None:
            res['error'] = 'exact active-set solve failed (cycling / iteration cap)'
        else:
            xs, L, its = sol
            ys = L[qp.n:]
            stat('cert_' + how); stat('cert_iterations', its)
            if not qp.kkt_ok(xs, L):
                res['error'] = 'exact active-set solve returned a non-KKT point (check-side bug)'
            else:
                verdict, line = lean_certify(op, qp, xs, ys)
                res['lean'] = verdict
                if verdict != 'ok':
                    res['error'] = f'Lean certificate checker rejected (x*, y*): {verdict}'
                else:
                    res['xs'], res['ys'], res['L'] = xs, ys, L
                    Fstar = max(1.0, float(sum(abs(qp.Qs[i][j] * xs[i] * xs[j]) for i in range(qp.n)
                                               for j in range(qp.n)) / 2
                                           + sum(abs(qp.c[i] * xs[i]) for i in range(qp.n))))
                    res['L0'] = float(qp.mu + sum(a * a for row in qp.B for a in row))
                    res['floor'] = math.sqrt(FLOOR_U * Fstar * res['L0'])
                    # classification of the active set at x* (coverage)
                    nact = ndeg = 0
                    g = qp.grad(xs)
                    r = [-(g[i] + sum(qp.A[j][i] * ys[j] for j in range(qp.m))) for i in range(qp.n)]
                    for k in range(qp.n + qp.m):
                        if qp.is_eq(k):
                            continue
                        s = dot(qp.rows[k], xs)
                        at = (qp.lo[k] != -INF and s == Fr(qp.lo[k])) or (qp.hi[k] != INF and s == Fr(qp.hi[k]))
                        if at:
                            nact += 1
                            if (r[k] if k < qp.n else ys[k - qp.n]) == 0:
                                ndeg += 1
                    neq = sum(1 for k in range(qp.n + qp.m) if qp.is_eq(k))
                    licq = len(independent_subset(qp.rows, [k for k in range(qp.n + qp.m) if qp.is_eq(k) or
                                                            (qp.lo[k] != -INF and dot(qp.rows[k], xs) == Fr(qp.lo[k])) or
                                                            (qp.hi[k] != INF and dot(qp.rows[k], xs) == Fr(qp.hi[k]))]))
                    res['cls'] = dict(active=nact, weakly_active=ndeg, eq=neq, licq=(licq == nact + neq))
                    stat('problems'); stat('problems_' + op.get('fam', '?'))
                    if ndeg:
                        stat('problems_degenerate_active_set')
                    if licq != nact + neq:
                        stat('problems_licq_fails')
                    if nact:
                        stat('problems_with_active_inequalities')
    G['cert'][pid] = res
    return res


# ------------------------------------------------------------------ monitor

def monitor(op_line, out_line, st):
    m = _monitor(op_line, out_line, st)
    if isinstance(m, str):                       # a violation (known findings come back as (msg, key))
        pstack(S.Op.parse(op_line)['stack'])['violations'] += 1
    return m


def _monitor(op_line, out_line, st):
    op = S.Op.parse(op_line)
    stack, mode = op['stack'], op.get('mode', 'alm')
    tag = f'[{stack}/{mode} n={op["n"]} m={op["m"]} {op.get("fam", "")}]'
    ps = pstack(stack)
    ps['runs'] += 1
    ps['modes'][mode] = ps['modes'].get(mode, 0) + 1
    if op.get('fam', '').startswith('zerograd'):
        ps['zerograd_runs'] += 1
    if not out_line.startswith('A '):
        # an exception escaping a solver (or a crash) where the property promises `Converged`
        stat('runs'); stat('status_exception')
        return (f'{tag} the solver threw / crashed instead of returning a status on a well-posed strongly '
                f'convex QP (tol={op.flt("tol"):g}): {out_line[:200]}')
    r = parse_out(out_line)
    stat('runs'); stat(f'status_{r["status"]}')
    x, y = r['x'], r['y']
    cert = certificate(op, x, y)
    if 'error' in cert:
        return f'{tag} {cert["error"]}'
    qp = cert['qp']
    tol = op.flt('tol'); dtol = op.flt('dtol') if mode == 'alm' else 0.0
    x0 = [Fr(a) for a in op.vec('x0')]
    infeasible_start = any((qp.lo[k] != -INF and dot(qp.rows[k], x0) < Fr(qp.lo[k])) or
                           (qp.hi[k] != INF and dot(qp.rows[k], x0) > Fr(qp.hi[k]))
                           for k in range(qp.n + qp.m))
    if infeasible_start:
        stat('runs_infeasible_start')
    if r['status'] != 'Converged':
        xs = cert['xs']
        dist = max([abs(float(Fr(a) - b)) for a, b in zip(x, xs)] + [0.0]) if all(map(math.isfinite, x)) else INF
        msg = (f'{tag} status {r["status"]} (not Converged) on a well-posed strongly convex QP: '
               f'outer={r["outer"]} inner_iters={r["inner_iters"]} inner_failures={r["inner_fail"]} '
               f'eps={r["eps"]:.3g} delta={r["delta"]:.3g} tol={tol:g} dtol={dtol:g} '
               f'limits: alm {ALM_ITER}, inner {limits(stack)}; |x-x*|_inf={dist:.3g} '
               f'final_gamma={r.get("gamma", float("nan")):.3g} penalty={r.get("norm_penalty", 0):.3g}')
        # ---- recorded findings (known-findings.json, `C02:*`): stalls AT the rounding floor only.
        # Independent of the code under test: x* (certified), ε_floor (problem data), the requested
        # tolerance.  From the solver: status, and the final step size as evidence of the mechanism
        # (in exact arithmetic the quadratic-upper-bound test cannot fail once L ≥ L_ψ, so the backtracking
        # never takes γ below 0.95/(2 L_ψ), L_ψ ≤ L_ref := L_f + Σ_max ‖A‖_F²; γ·L_ref < 2⁻¹⁰ proves ≥ 9
        # spurious failures).  The reported ε is NOT used: with a collapsed γ it is meaningless (p/γ), e.g.
        # ε = 3.0 with |x − x*|∞ = 1e-16 (zerofpr-anderson, one coordinate 1 ulp off its bound).
        # Everything else — a stall away from x*, at a tolerance above the floor, MaxTime, NotFinite, … —
        # is a violation; absorbed runs are counted per stack and capped (`extra_stage`).
        L0, floor = cert['L0'], cert['floor']
        L_ref = L0
        if mode == 'alm' and qp.m:
            L_ref += r.get('norm_penalty', 0.0) * math.sqrt(qp.m) * float(sum(a * a for row in qp.A for a in row))
        g = r.get('gamma', float('nan'))
        xs_inf = max([abs(float(a)) for a in xs] + [0.0])
        solver = stack.split('-')[0]
        tol_below_floor = tol <= ABSORB_TOL_FACTOR * floor
        # under ALM the inner problem is ψ = f + penalty: its rounding floor scales with sqrt(L_ψ / L_f)
        # (ε_floor ∝ sqrt(L); measured μ·dist/ε_floor up to 8.4 at penalty 506 with the un-scaled floor)
        floor_d = floor * math.sqrt(L_ref / L0) if mode == 'alm' and L0 > 0 else floor
        at_floor = float(qp.mu) * dist <= ABSORB_DIST_FACTOR * floor_d
        if solver == 'fista':
            at_floor = at_floor or dist <= ABSORB_DIST_FISTA * (1.0 + xs_inf)
        collapsed = g == g and 0 < g * L_ref < 2.0 ** -10
        msg += (f' eps_floor={floor:.3g} tol/floor={tol / floor:.3g} mu*dist/floor={float(qp.mu) * dist / floor:.3g}'
                f' gamma*L_ref={g * L_ref:.3g}')
        if r['status'] in ('NoProgress', 'MaxIter') and tol_below_floor and at_floor:
            key = None
            if collapsed:
                stat('known_stepsize_collapse')
                key = f'C02:stepsize-collapse:{solver}'
                why = 'step size collapsed at the rounding floor'
            elif (solver == 'fista' and mode == 'alm' and r['inner_iters'] >= limits(stack) and r['inner_fail'] >= 1
                  and g == g and 0 < g * L0 < 2.0 ** -10):
                # FISTA under ALM: after the collapse inner solves end MaxIter, ALM inflates the penalty (so
                # L_ref grows and masks the criterion above) and the 100 x 1e6 budget is exhausted
                stat('known_first_order_budget')
                key = 'C02:first-order-iteration-budget:fista'
                why = 'FISTA exhausted its iteration budget with a collapsed step size / inflated penalty'
            else:
                # healthy step size, iterate at x* to the floor, residual hovering at ≈ ε_floor: the FBE line
                # search accepts steps on rounding noise (τ = 1 every iteration), a random walk at the floor
                stat('known_floor_stall')
                key = f'C02:rounding-floor-stall:{solver}'
                why = 'stall at the rounding floor with a healthy step size'
            absorb(stack, key, op_line)
            return (msg + f'  [{why}]', key)
        return msg
    ps['converged'] += 1
    if any(not math.isfinite(a) for a in x + y):
        return f'{tag} Converged with non-finite x / y'
    X, Y = [Fr(a) for a in x], [Fr(a) for a in y]
    xs, ys = cert['xs'], cert['ys']
    # rounding margins: the ones documented in checks/c01.py
    gf = qp.grad(X)
    gg = [sum(qp.A[j][i] * Y[j] for j in range(qp.m)) for i in range(qp.n)]
    scale = max([abs(float(a)) for a in gf + gg] + [1.0])
    gs = max([abs(float(dot(qp.A[j], X))) for j in range(qp.m)] + [1.0])
    marg_s = tol * 1e-6 + 4e-9 * scale * tol / max(tol, 1e-8) * 1e-3 + 1e-12 * scale
    eps = Fr(tol) + Fr(marg_s)
    delta = (Fr(dtol) + Fr(1e-12 * gs)) if qp.m else Fr(0)
    d2 = sum((a - b) ** 2 for a, b in zip(X, xs))
    d1 = sum(abs(a - b) for a, b in zip(X, xs))
    e1 = sum(abs(a - b) for a, b in zip(Y, ys))
    lhs, rhs = qp.mu * d2, eps * d1 + delta * e1
    G['bound_ops'].append((f'bound {qp.n} {qp.m} ' + ' '.join(
        t for t in [' '.join(f2h(a) for a in x), ' '.join(f2h(a) for a in y), ' '.join(rat(a) for a in xs),
                    ' '.join(rat(a) for a in ys), rat(qp.mu), rat(eps), rat(delta)] if t != ''),
        lhs <= rhs))
    if rhs > 0:
        st.setdefault('ratio', []).append(float(lhs / rhs))
        stat('bound_checked')
    if lhs > rhs:
        return (f'{tag} Converged but the proved bound fails: mu|x-x*|_2^2 = {float(lhs):.6g} > '
                f'eps|x-x*|_1 + delta|y-y*|_1 = {float(rhs):.6g}  (mu={float(qp.mu):g} tol={tol:g} dtol={dtol:g} '
                f'|x-x*|_inf={max([abs(float(a - b)) for a, b in zip(X, xs)] + [0.0]):.3g} '
                f'|y-y*|_inf={max([abs(float(a - b)) for a, b in zip(Y, ys)] + [0.0]):.3g}, '
                f'reported eps={r["eps"]:.3g} delta={r["delta"]:.3g}, outer={r["outer"]})')
    G['stats'].setdefault('max_ratio', 0.0)
    if rhs > 0:
        G['stats']['max_ratio'] = max(G['stats']['max_ratio'], float(lhs / rhs))
    # The same proved inequality with the residuals the solver *reports* for the returned point
    # (Stats.ε = ApproxKKT residual, Stats.δ = ‖err_z‖∞; ≤ the requested tolerances when Converged):
    # `kkt_error_bound` holds for every ε ≥ ‖r‖∞, δ ≥ ‖e‖∞, so this is the sharp form of the property's
    # inequality (it is attained with equality on some instances) — a returned point that is not the
    # one the residuals were computed for breaks it.
    # Converged ⇒ reported ε ≤ tolerance (and δ ≤ dual tolerance under ALM, m > 0): that is what the status
    # is documented to mean (C06); without it the "requested tolerances" form above says nothing about the
    # returned point, so it is reported here rather than skipped.
    if not (r['eps'] <= tol) or (mode == 'alm' and qp.m and not (r['delta'] <= dtol)):
        return (f'{tag} Converged but the reported residuals exceed the requested tolerances: '
                f'eps={r["eps"]!r} (tol={tol:g}) delta={r["delta"]!r} (dtol={dtol:g})')
    if True:   # (kept as a block: the sharp form below is evaluated for every Converged run)
        eps_r = Fr(r['eps']) + Fr(marg_s)
        delta_r = (Fr(r['delta']) + Fr(1e-12 * gs)) if (qp.m and mode == 'alm') else Fr(0)
        rhs_r = eps_r * d1 + delta_r * e1
        if rhs_r > 0:
            G['stats']['max_ratio_reported'] = max(G['stats'].get('max_ratio_reported', 0.0), float(lhs / rhs_r))
        if lhs > rhs_r:
            return (f'{tag} Converged but the proved bound fails with the residuals reported for the returned '
                    f'point: mu|x-x*|_2^2 = {float(lhs):.6g} > eps|x-x*|_1 + delta|y-y*|_1 = {float(rhs_r):.6g}  '
                    f'(reported eps={r["eps"]:.3g} delta={r["delta"]:.3g}; mu={float(qp.mu):g} '
                    f'|x-x*|_inf={max([abs(float(a - b)) for a, b in zip(X, xs)] + [0.0]):.3g} '
                    f'|y-y*|_inf={max([abs(float(a - b)) for a, b in zip(Y, ys)] + [0.0]):.3g}, outer={r["outer"]})')
    G['stats'].setdefault('stacks', {}).setdefault(f'{stack}/{mode}', [0, 0, 0])
    e = G['stats']['stacks'][f'{stack}/{mode}']
    e[0] += 1; e[1] += r['inner_iters']; e[2] = max(e[2], r['inner_iters'])
    return None


def nontrivial(op_line, out_line):
    if not out_line.startswith('A '):
        return None
    r = parse_out(out_line)
    if r['status'] == 'Converged' and r['inner_iters'] >= 1:
        return hash(op_line)
    return None


def extra_stage(rep, broken, exe, tier):
    """Cross-evaluate every bound at `Rat` in Lean (the Fractions evaluation must agree)."""
    bops = G['bound_ops']
    dexe = C.driver_exe('drv_c02')
    if bops and os.path.exists(dexe):
        out, rc, err = C.run_lines(dexe, [b[0] for b in bops])
        bad = [i for i, (b, o) in enumerate(zip(bops, out)) if (o.strip() == 'ok') != b[1]]
        if rc != 0 or len(out) != len(bops) or bad:
            broken.append(f'drv_c02 bound evaluation disagrees with the Fractions evaluation '
                          f'(rc={rc}, {len(out)}/{len(bops)} lines, first bad {bad[:3]})')
        rep.cov['bounds_evaluated_in_lean'] = len(out)
    elif bops:
        broken.append('driver drv_c02 missing')
    s = G['stats']
    rep.cov['c02'] = {k: v for k, v in s.items() if k != 'stacks'}
    rep.cov['c02']['lean_certificates_checked'] = G['lean_calls']
    rep.cov['c02']['stacks'] = {k: {'converged': v[0], 'mean_inner_iters': round(v[1] / max(v[0], 1), 1),
                                    'max_inner_iters': v[2]} for k, v in sorted(s.get('stacks', {}).items())}
    rep.cov['traces_validated_against_impl'] = s.get('bound_checked', 0)
    # ---- per-stack record, required coverage, cap on absorbed known findings
    per = G['per_stack']
    rep.cov['c02']['per_stack'] = {
        k: {'runs': v['runs'], 'converged': v['converged'], 'violations': v['violations'],
            'zerograd_runs': v['zerograd_runs'], 'modes': v['modes'], 'absorbed_known_findings': v['absorbed'],
            'absorbed_fraction': round(sum(v['absorbed'].values()) / max(v['runs'], 1), 4)}
        for k, v in sorted(per.items())}
    rep.cov['c02']['stacks_not_generated'] = {
        'panoc-cnewton / zerofpr-cnewton with m > 0': 'ConvexNewtonDirection::initialize throws invalid_argument '
        '("does not support general constraints") by design; generated for m = 0 only'}
    missing = []
    for st in ALL_STACKS:
        v = per.get(st, {'runs': 0, 'zerograd_runs': 0, 'modes': {}})
        if v['runs'] == 0:
            missing.append(f'{st}: never run')
            continue
        if v['zerograd_runs'] == 0:
            missing.append(f'{st}: no zero-gradient start')
        for md in ('alm', 'inner'):
            if v['modes'].get(md, 0) == 0 and (tier == 'thorough' or md == 'inner' or st not in NEWTON_M0):
                missing.append(f'{st}: mode {md} never run')
    if missing:
        broken.append('required coverage not reached (generator / harness): ' + '; '.join(missing[:8]))
    total_abs = 0
    for st, v in sorted(per.items()):
        na = sum(v['absorbed'].values())
        total_abs += na
        if tier == 'thorough':
            frac = CAP_FRACTION_FIRST_ORDER if st in FIRST_ORDER else CAP_FRACTION
            over = v['runs'] >= CAP_MIN_RUNS and na > frac * v['runs']
            cap_txt = f'{frac:.0%} of {v["runs"]} runs'
        else:
            over = na > CAP_QUICK_PER_STACK
            cap_txt = f'{CAP_QUICK_PER_STACK} runs (quick tier, absolute)'
        if over:
            rep.violation(f'[{st}] {na} of {v["runs"]} runs did not converge and were attributed to the recorded '
                          f'step-size findings {v["absorbed"]} — more than the cap of {cap_txt} measured on the '
                          f'unchanged tree: the stall rate has regressed (not covered by the known finding)',
                          {'stack': st, 'ops': G['absorbed_ops'].get(st, [])[:6]}, True)
    if tier != 'thorough' and total_abs > CAP_QUICK_TOTAL:
        rep.violation(f'{total_abs} of {s.get("runs", 0)} runs attributed to the recorded step-size findings — more than '
                      f'the cap of {CAP_QUICK_TOTAL} (quick tier): the stall rate has regressed',
                      {'ops': [o for v in G['absorbed_ops'].values() for o in v][:8]}, True)
    rep.cov['c02']['absorbed_total'] = total_abs
    rep.cov['c02']['absorb_caps'] = {'thorough_per_stack_fraction': CAP_FRACTION,
                                     'thorough_per_stack_fraction_first_order': CAP_FRACTION_FIRST_ORDER,
                                     'tol_factor': ABSORB_TOL_FACTOR, 'dist_factor': ABSORB_DIST_FACTOR,
                                     'fista_rel_dist': ABSORB_DIST_FISTA, 'min_runs': CAP_MIN_RUNS,
                                     'quick_per_stack': CAP_QUICK_PER_STACK, 'quick_total': CAP_QUICK_TOTAL}
    rep.note('C02 coverage: ' + ', '.join(f'{k}={v}' for k, v in sorted(s.items()) if k != 'stacks'))
    if tier == 'thorough' or os.environ.get('C02_VERBOSE'):
        for k, v in rep.cov['c02']['stacks'].items():
            rep.note(f'  {k}: {v}')
    for k, v in rep.cov['c02']['per_stack'].items():
        if v['absorbed_known_findings'] or v['violations']:
            rep.note(f'  {k}: runs={v["runs"]} absorbed={v["absorbed_known_findings"]} '
                     f'({v["absorbed_fraction"]:.2%}) violations={v["violations"]}')


N_QUICK, N_THOROUGH = 40, 400


def main(argv):
    if len(argv) > 2 and argv[1] == '--par':
        return par_main(argv[2], argv[3] if len(argv) > 3 else None)
    tier = C.tier_from_argv(argv)
    exe, log = build_harness()
    par, results = None, None
    if exe:
        results = prerun(exe, tier, N_THOROUGH if tier == 'thorough' else N_QUICK)
        par = [sys.executable, os.path.abspath(__file__), '--par', exe, results]
    try:
        return run_check(argv, tier, par, log)
    finally:
        if results and os.path.exists(results):
            os.unlink(results)


def run_check(argv, tier, par, log):
    return C.standard_check(
        'C02', argv,
        gen_scripts=['gen_c15.py', 'gen_c06.py', 'gen_c05.py'],   # Props/C02 imports Props/C01 and the PANOC loop example (Gen C05, C06, C15)
        modules=['Alpaqa.Props.C02'], driver=None, extra_drivers=['drv_c02'],
        extra_sources=['Alpaqa/Model/C02.lean', 'Alpaqa/Proofs/C02.lean', 'Driver/C02.lean'],
        harness_name='c02run', harness_sources=[], harness_builder=lambda: (par, log),
        gen_ops=gen_ops_factory(tier), monitor=monitor, nontrivial=nontrivial, extra_stage=extra_stage,
        n_quick=N_QUICK, n_thorough=N_THOROUGH, search_factor=2,
        level='proof',
        trusted_base=[
            'Lean 4.33 kernel + Mathlib (axioms: propext, Classical.choice, Quot.sound)',
            'drv_c02: hex-double → Rat decoding and the line protocol (the checkers it runs are the '
            'definitions the soundness theorems are about)',
            'the C01 certificate of the solver output is the hypothesis of the bound (Props/C01, tied there)',
            '"returns Converged within the limits in binary64" is NOT a theorem: exploration on the real solvers '
            'with a proof-carrying oracle for (x*, y*, μ)',
            'rounding margin of the solver\'s own residual evaluation as in checks/c01.py (≈ 1e-6·tol + 5e-12·scale)',
        ],
        assumptions=['QP test problems with dyadic data (PolyProblem, q4 = 0, b = 0); exact rational '
                     're-evaluation in Python and at Rat in Lean'],
        rule='seeded strongly convex QPs Q_s = μI + BᵀB (cond ≤ 1e3 certified), n ≤ 12, m ≤ 8, equality / range / '
             'one-sided / free rows, finite / infinite / equal variable bounds, strictly feasible witness, '
             'planted (weakly active = degenerate, LICQ may fail) and natural active sets, infeasible and far '
             'starting points, 2 of 10 instances with a zero-gradient start (x0 = exact unconstrained minimiser, '
             'outside the box; all stacks in every tier); 12 stacks under ALM (+ panoc/zerofpr-cnewton when m = 0) '
             'and 14 inner solvers stand-alone (m = 0, box / unconstrained), default parameters, tolerances '
             '1e-4..1e-8, limits 100 outer / 50 000 inner (1 000 000 for the stacks without curvature information); '
             'instances = 40 (quick) / 400 (thorough), stacks cycled 3 per instance (quick) / all (thorough); '
             'required coverage enforced (every stack, both modes, zero-gradient start); known-finding absorption '
             'capped per stack; non-trivial = Converged after ≥ 1 inner iteration; evaluations = solver runs, '
             'traces_validated = bounds evaluated',
    )


if __name__ == '__main__':
    sys.exit(main(sys.argv))
