#!/usr/bin/env python3
"""C15 — proximal / projection operators.  See DESIGN.md §6 C15."""
import math
import os
import sys
from fractions import Fraction as Fr

sys.path.insert(0, os.path.dirname(os.path.abspath(__file__)))
import common as C
from common import f2h, h2f, vec2p

INF = float('inf')


# ---------------------------------------------------------------- input generation

def rnd_val(rng, exact):
    if exact:
        return rng.randint(-24, 24) / 4.0
    k = rng.random()
    if k < 0.15:
        return rng.randint(-8, 8) / 2.0
    return rng.gauss(0, 1) * 10 ** rng.uniform(-3, 3)


def gen_box(rng, n, exact, l1box=False):
    lb, ub = [], []
    for _ in range(n):
        k = rng.random()
        a, b = sorted((rnd_val(rng, exact), rnd_val(rng, exact)))
        if l1box:
            a, b = -abs(a), abs(b)
        if k < 0.15:
            lb.append(-INF); ub.append(b)
        elif k < 0.3:
            lb.append(a); ub.append(INF)
        elif k < 0.4:
            lb.append(-INF); ub.append(INF)
        elif k < 0.5:
            lb.append(a); ub.append(a)       # equal bounds
        else:
            lb.append(a); ub.append(b)
    return lb, ub


def gen_case(rng):
    exact = rng.random() < 0.4
    n = rng.choice([0, 1, 1, 2, 3, 4, 6])
    kind = rng.choice(['pgs', 'pgs', 'pgs', 'inact', 'inact', 'pmult', 'proj', 'pstep', 'l1s', 'l1v',
                       'unc'])
    γ = (2.0 ** rng.randint(-4, 3)) if exact else abs(rnd_val(rng, False)) + 1e-6
    x = [rnd_val(rng, exact) for _ in range(n)]
    g = [rnd_val(rng, exact) for _ in range(n)]
    if kind in ('pgs', 'inact'):
        m = rng.choice([0, 0, 1, 1, 2])     # l1_reg size 0 / 1 / n
        if m == 0:
            l1 = []
        elif m == 1:
            l1 = [rng.choice([0.0, abs(rnd_val(rng, exact))])]
        else:
            l1 = [rng.choice([0.0, abs(rnd_val(rng, exact))]) for _ in range(n)]
            if n == 1 and rng.random() < 0.5:
                l1 = [abs(rnd_val(rng, exact))]
            if n == 0:
                l1 = []
        lb, ub = gen_box(rng, n, exact, l1box=bool(l1))
        # ties exactly on the thresholds: make x_fw hit lb / ub / ±γλ for some components
        for i in range(n):
            if rng.random() < 0.25 and exact:
                tgt = rng.choice([lb[i], ub[i], 0.0])
                lam = (l1[0] if len(l1) == 1 else l1[i]) if l1 else 0.0
                tgt2 = rng.choice([tgt, γ * lam, -γ * lam, tgt + γ * lam if math.isfinite(tgt) else 0.0])
                if math.isfinite(tgt2):
                    x[i] = tgt2 + γ * g[i]
        return f'{kind} {vec2p(l1)} {f2h(γ)} {vec2p(x)} {vec2p(g)} {vec2p(lb)} {vec2p(ub)}'
    if kind == 'pmult':
        lb, ub = gen_box(rng, n, exact)
        M = abs(rnd_val(rng, exact)) if rng.random() < 0.9 else 0.0
        split = rng.randint(0, n)
        y = [rnd_val(rng, exact) * rng.choice([1, 1, 100]) for _ in range(n)]
        return f'pmult {split} {f2h(M)} {vec2p(y)} {vec2p(lb)} {vec2p(ub)}'
    if kind == 'proj':
        lb, ub = gen_box(rng, n, exact)
        return f'proj {vec2p(x)} {vec2p(lb)} {vec2p(ub)}'
    if kind == 'pstep':
        lb, ub = gen_box(rng, n, exact)
        γf = -γ if rng.random() < 0.7 else γ
        return f'pstep {f2h(γf)} {vec2p(x)} {vec2p(g)} {vec2p(lb)} {vec2p(ub)}'
    if kind == 'l1s':
        lam = rng.choice([0.0, abs(rnd_val(rng, exact))])
        if exact and n and rng.random() < 0.5:
            x[0] = rng.choice([1, -1]) * lam * γ      # tie on the threshold
        return f'l1s {f2h(lam)} {f2h(γ)} {vec2p(x)}'
    if kind == 'l1v':
        lam = [rng.choice([0.0, abs(rnd_val(rng, exact))]) for _ in range(n)]
        return f'l1v {vec2p(lam)} {f2h(γ)} {vec2p(x)}'
    return f'unc {f2h(γ)} {vec2p(x)} {vec2p(g)}'


def gen_ops(rng, n):
    return [gen_case(rng) for _ in range(n)]


# ---------------------------------------------------------------- parsing helpers

class T:
    def __init__(self, line):
        self.t = line.split()
        self.p = 0

    def tok(self):
        self.p += 1
        return self.t[self.p - 1]

    def nat(self):
        return int(self.tok())

    def flt(self):
        return h2f(self.tok())

    def vec(self):
        n = self.nat()
        return [self.flt() for _ in range(n)]


def fr(x):
    return Fr(x) if math.isfinite(x) else x


def clampF(v, lb, ub):
    if lb != -INF and v < Fr(lb):
        v = Fr(lb)
    if ub != INF and v > Fr(ub):
        v = Fr(ub)
    return v


def softF(v, t):
    if v > t:
        return v - t
    if v < -t:
        return v + t
    return Fr(0)


EPS = 2.0 ** -52


def tol(*mags):
    m = max([abs(float(a)) for a in mags if math.isfinite(float(a))] + [1e-300])
    return 8 * EPS * m


# ---------------------------------------------------------------- monitors (property on real code)

def monitor(op, out, st):
    """Recompute in exact rational arithmetic what the property promises; compare with the real
    code's output up to a few ulps of the operands (never a tolerance-sized amount)."""
    if out in ('exception', 'bad-op'):
        return f'unexpected {out}'
    t = T(op)
    o = T(out)
    kind = t.tok()
    if kind in ('pgs', 'inact'):
        l1 = t.vec(); γ = t.flt(); x = t.vec(); g = t.vec(); lb = t.vec(); ub = t.vec()
        n = len(x)
        lam = [(0.0 if not l1 else l1[0] if len(l1) == 1 else l1[i]) for i in range(n)]
        v = [Fr(x[i]) - Fr(γ) * Fr(g[i]) for i in range(n)]
        tt = [Fr(γ) * Fr(lam[i]) for i in range(n)]
        if kind == 'pgs':
            h = o.flt(); xh = o.vec(); p = o.vec()
            if len(xh) != n or len(p) != n:
                return 'output size mismatch'
            hexact = Fr(0)
            for i in range(n):
                s = clampF(softF(v[i], tt[i]), lb[i], ub[i])
                e = tol(x[i], γ * g[i], tt[i], s, lb[i], ub[i])
                if not math.isfinite(xh[i]) or abs(Fr(xh[i]) - s) > e:
                    return (f'prox output x̂[{i}]={xh[i]!r} is not the minimiser '
                            f'clamp(soft(x-γg, γλ), lb, ub)={float(s)!r} (|Δ|>{e:.3g})')
                if not (lb[i] - e <= xh[i] <= ub[i] + e):
                    return f'x̂[{i}]={xh[i]!r} outside [{lb[i]}, {ub[i]}]'
                if abs(Fr(xh[i]) - (Fr(x[i]) + Fr(p[i]))) > 2 * tol(x[i], p[i]):
                    return f'p[{i}] ≠ x̂ − x: p={p[i]!r}, x̂−x={float(Fr(xh[i]) - Fr(x[i]))!r}'
                hexact += Fr(lam[i]) * abs(Fr(xh[i]))
            if abs(Fr(h) - hexact) > 16 * (n + 1) * EPS * max(float(hexact), 1e-300):
                return f'returned h(x̂)={h!r}, exact λ‖x̂‖₁={float(hexact)!r}'
        else:
            nJ = o.nat()
            J = [o.nat() for _ in range(nJ)]
            if J != sorted(set(J)) or any(j < 0 or j >= n for j in J):
                return f'J not a strictly increasing index list: {J}'
            for i in range(n):
                # the value whose strict interior membership decides i ∈ J, in exact arithmetic
                if tt[i] == 0:
                    w = v[i]; act = True
                elif v[i] > tt[i]:
                    w = v[i] - tt[i]; act = True
                elif v[i] < -tt[i]:
                    w = v[i] + tt[i]; act = True
                else:
                    w = Fr(0); act = False
                inside = act and (lb[i] == -INF or Fr(lb[i]) < w) and (ub[i] == INF or w < Fr(ub[i]))
                # margin to any decision threshold; skip components within rounding of a tie
                e = tol(x[i], γ * g[i], tt[i], lb[i], ub[i]) * 4
                marg = []
                if lb[i] != -INF:
                    marg.append(abs(w - Fr(lb[i])))
                if ub[i] != INF:
                    marg.append(abs(w - Fr(ub[i])))
                if tt[i] != 0:
                    marg += [abs(v[i] - tt[i]), abs(v[i] + tt[i])]
                exact_inputs = all(abs(a) < 2 ** 20 and (a * 1024) % 1 == 0
                                   for a in (x[i], g[i], γ, lam[i]))
                if marg and min(marg) <= e and not exact_inputs:
                    continue
                if (i in J) != inside:
                    return (f'index {i} {"in" if i in J else "not in"} J but prox is '
                            f'{"" if inside else "not "}locally the identity shift there '
                            f'(x_fw={float(v[i])!r}, γλ={float(tt[i])!r}, box=[{lb[i]},{ub[i]}])')
        return None
    if kind == 'pmult':
        split = t.nat(); M = t.flt(); y = t.vec(); lb = t.vec(); ub = t.vec()
        y2 = o.vec()
        for i in range(len(y)):
            if i < split:
                exp = 0.0
            else:
                lo = 0.0 if lb[i] == -INF else -M
                hi = 0.0 if ub[i] == INF else M
                exp = min(max(y[i], lo), hi)
            if y2[i] != exp:
                return f'multiplier {i}: got {y2[i]!r}, documented clamp gives {exp!r}'
        return None
    if kind == 'proj':
        v = t.vec(); lb = t.vec(); ub = t.vec()
        o1 = o.vec(); h = o.flt(); o2 = o.vec()
        for i in range(len(v)):
            exp = float(clampF(Fr(v[i]), lb[i], ub[i]))
            if o1[i] != exp or o2[i] != exp:
                return f'projection[{i}] = {o1[i]!r}/{o2[i]!r}, expected {exp!r}'
        if h != 0:
            return f'prox(Box) returned h={h!r} ≠ 0'
        return None
    if kind == 'pstep':
        γf = t.flt(); x = t.vec(); d = t.vec(); lb = t.vec(); ub = t.vec()
        h = o.flt(); out_ = o.vec(); fb = o.vec()
        for i in range(len(x)):
            s = clampF(Fr(x[i]) + Fr(γf) * Fr(d[i]), lb[i], ub[i])
            e = tol(x[i], γf * d[i], lb[i], ub[i], s)
            if abs(Fr(out_[i]) - s) > e:
                return f'prox_step out[{i}]={out_[i]!r}, exact {float(s)!r}'
            if abs(Fr(out_[i]) - Fr(x[i]) - Fr(fb[i])) > 2 * tol(x[i], fb[i]):
                return f'fb_step[{i}] ≠ out − in'
        return None
    if kind in ('l1s', 'l1v'):
        if kind == 'l1s':
            lam0 = t.flt(); γ = t.flt(); v = t.vec(); lam = [lam0] * len(v)
        else:
            lam = t.vec(); γ = t.flt(); v = t.vec()
            if not lam:
                lam = [1.0] * len(v)
        h = o.flt(); out_ = o.vec()
        hexact = Fr(0)
        for i in range(len(v)):
            s = softF(Fr(v[i]), Fr(lam[i]) * Fr(γ))
            e = tol(v[i], lam[i] * γ)
            if abs(Fr(out_[i]) - s) > e:
                return f'soft-threshold[{i}]={out_[i]!r}, exact {float(s)!r}'
            hexact += Fr(lam[i]) * abs(Fr(out_[i]))
        if abs(Fr(h) - hexact) > 16 * (len(v) + 1) * EPS * max(float(hexact), 1e-300):
            return f'returned h={h!r}, exact {float(hexact)!r}'
        return None
    if kind == 'unc':
        γ = t.flt(); x = t.vec(); g = t.vec()
        h = o.flt(); xh = o.vec(); p = o.vec()
        for i in range(len(x)):
            s = Fr(x[i]) - Fr(γ) * Fr(g[i])
            if abs(Fr(xh[i]) - s) > tol(x[i], γ * g[i]):
                return f'unconstrained step x̂[{i}]={xh[i]!r}, exact {float(s)!r}'
        return None
    return None


def nontrivial(op, out):
    # non-trivial = at least one vector operand with n ≥ 1 (≥ 3 hex tokens); distinct by op line
    if sum(1 for tk in op.split() if len(tk) == 16) >= 3:
        return op
    return None


if __name__ == '__main__':
    sys.exit(C.standard_check(
        'C15', sys.argv,
        gen_scripts=['gen_c15.py'], modules=['Alpaqa.Props.C15'], driver='drv_c15',
        extra_sources=['Alpaqa/Model/C15.lean', 'Alpaqa/Gen/C15.lean', 'Alpaqa/Proofs/Basic.lean',
                       'Alpaqa/Model/Vec.lean', 'Alpaqa/Model/Scalar.lean'],
        harness_name='c15', harness_sources=[os.path.join(C.VERIF, 'harness', 'c15.cpp')],
        gen_ops=gen_ops, monitor=monitor, nontrivial=nontrivial,
        n_quick=3000, n_thorough=60000,
        trusted_base=[
            'Lean 4.33 kernel + Mathlib (axioms: propext, Classical.choice, Quot.sound)',
            'gen/cxxparse.py + gen/lean_emit.py + gen/gen_c15.py (translator: componentwise Eigen '
            'expressions of box-constr-problem.hpp, box.hpp, indicator-box.hpp, l1-norm.hpp, '
            'unconstr-problem.hpp → Lean)',
            'hand models Alpaqa/Model/C15.lean (inactive indices, multiplier projection, prox '
            'dispatch) tied by bit-exact correspondence on the explored inputs only',
            'theorems are over ordered fields (real-number semantics); IEEE rounding not modelled',
            'not modelled: L1NormComplex, NuclearNorm (SVD oracle) — see DESIGN §6 C15',
        ],
        assumptions=['Eigen cwiseMax/cwiseMin = std::max/std::min; harness flags -O1 -ffp-contract=off '
                     '-DEIGEN_DONT_VECTORIZE pin evaluation order'],
        rule='seeded random op lines over {pgs, inact, pmult, proj, pstep, l1s, l1v, unc}: n∈{0..6}, '
             '40% exact-regime dyadic inputs with ties placed on thresholds, infinite / equal '
             'bounds, λ=0 entries; distinct = distinct op lines with n ≥ 1',
    ))
