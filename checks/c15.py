#!/usr/bin/env python3
"""C15 — proximal / projection operators.  See DESIGN.md §6 C15."""
import math
import os
import sys
from fractions import Fraction as Fr

sys.path.insert(0, os.path.dirname(os.path.abspath(__file__)))
import common as C
from common import f2h, h2f, vec2p

INF = float('inf')


# ---------------------------------------------------------------- input generation

def rnd_val(rng, exact):
    if exact:
        return rng.randint(-24, 24) / 4.0
    k = rng.random()
    if k < 0.15:
        return rng.randint(-8, 8) / 2.0
    return rng.gauss(0, 1) * 10 ** rng.uniform(-3, 3)


def gen_box(rng, n, exact, l1box=False):
    lb, ub = [], []
    for _ in range(n):
        k = rng.random()
        a, b = sorted((rnd_val(rng, exact), rnd_val(rng, exact)))
        if l1box:
            a, b = -abs(a), abs(b)
        if k < 0.15:
            lb.append(-INF); ub.append(b)
        elif k < 0.3:
            lb.append(a); ub.append(INF)
        elif k < 0.4:
            lb.append(-INF); ub.append(INF)
        elif k < 0.5:
            lb.append(a); ub.append(a)       # equal bounds
        else:
            lb.append(a); ub.append(b)
    return lb, ub


PYTH = [(3, 4, 5), (4, 3, 5), (5, 12, 13), (12, 5, 13), (8, 15, 17), (7, 24, 25), (1, 0, 1), (0, 1, 1),
        (20, 21, 29), (0, 0, 0)]


def gen_cplx(rng, exact):
    """cl1s / cl1v: complex ℓ1 prox on a real vector of (re, im) pairs."""
    n = rng.choice([0, 1, 1, 2, 3, 4])
    γ = (2.0 ** rng.randint(-3, 3)) if exact else abs(rnd_val(rng, False)) + 1e-6
    vector = rng.random() < 0.5
    if vector:
        lam = [rng.choice([0.0, abs(rnd_val(rng, exact))]) for _ in range(n)]
        if rng.random() < 0.15:
            lam = []                                   # replaced by ones in the real code
    else:
        lam = [rng.choice([0.0, abs(rnd_val(rng, exact)), abs(rnd_val(rng, exact))])] * n
    z = []
    for i in range(n):
        li = (lam[i] if lam else 1.0) if vector else lam[i]
        k = rng.random()
        if exact:
            a, b, c = rng.choice(PYTH)
            sc = rng.choice([1, -1]) * 2.0 ** rng.randint(-3, 2)
            re, im = a * sc, b * sc * rng.choice([1, -1])
            if k < 0.4 and c and li:
                # tie exactly on the threshold |z| = γλ (or just on either side)
                m = γ * li / c * rng.choice([1, 1, 1, 2, 0.5])
                re, im = a * m * rng.choice([1, -1]), b * m * rng.choice([1, -1])
        else:
            re, im = rnd_val(rng, False), rnd_val(rng, False)
            if k < 0.3 and li:
                # magnitude close to the threshold
                ang = rng.uniform(0, 2 * math.pi)
                m = γ * li * (1 + rng.choice([0, 1e-16, -1e-16, 1e-9, -1e-9, 1e-3, -1e-3]))
                re, im = m * math.cos(ang), m * math.sin(ang)
            elif k < 0.4:
                re, im = rng.choice([(0.0, im), (re, 0.0), (0.0, 0.0)])
        z += [re, im]
    if vector:
        return f'cl1v {vec2p(lam)} {f2h(γ)} {vec2p(z)}'
    return f'cl1s {f2h(lam[0] if lam else abs(rnd_val(rng, exact)))} {f2h(γ)} {vec2p(z)}'


def householder(v):
    """Exact rational orthogonal matrix I − 2vvᵀ/(vᵀv)."""
    n = len(v)
    vv = sum(Fr(a) * a for a in v)
    if vv == 0:
        return [[Fr(int(i == j)) for j in range(n)] for i in range(n)]
    return [[Fr(int(i == j)) - 2 * Fr(v[i]) * v[j] / vv for j in range(n)] for i in range(n)]


def gen_nuc(rng, exact):
    """nuc: NuclearNorm::prox on a small matrix (column-major), both constructors."""
    mode = rng.choice([0, 1, 1, 1])
    # non-empty matrices only: Eigen::BDCSVD (3.4.0) itself crashes on rows·cols = 0 (oracle precondition)
    r = rng.choice([1, 1, 2, 2, 3, 3, 4, 4])
    c = rng.choice([1, 1, 2, 2, 3, 3, 4, 4])
    k = min(r, c)
    γ = (2.0 ** rng.randint(-3, 3)) if exact else abs(rnd_val(rng, False)) + 1e-6
    lam = rng.choice([0.0, 1.0, abs(rnd_val(rng, exact)), abs(rnd_val(rng, exact)) + 2.0 ** -4])
    A = [[0.0] * c for _ in range(r)]
    shape = rng.choice(['diag', 'rank1', 'orth', 'orth', 'rand', 'rand', 'zero', 'repeat'])
    t = γ * lam
    if shape == 'diag':
        for i in range(k):
            d = rnd_val(rng, exact)
            if rng.random() < 0.3:
                d = rng.choice([1, -1]) * t * rng.choice([1, 1, 2, 0.5])      # σ = γλ exactly
            A[i][i] = d
        if rng.random() < 0.3 and k:                    # a permuted / rectangular placement
            rng.shuffle(A)
    elif shape == 'rank1' and k:
        pa = [rng.choice([-2, -1, 0, 1, 2, 3, 4]) * 0.5 for _ in range(r)]
        pb = [rng.choice([-2, -1, 0, 1, 2, 3, 4]) * 0.5 for _ in range(c)]
        if r == 2 and rng.random() < 0.5:
            pa = [3.0, 4.0]
        if c == 2 and rng.random() < 0.5:
            pb = [-12.0, 5.0]
        A = [[pa[i] * pb[j] for j in range(c)] for i in range(r)]
    elif shape in ('orth', 'repeat') and k:
        # A = Q1 · diag(s) · Q2ᵀ with exact rational orthogonal factors, rounded to doubles
        Q1 = householder([rng.randint(-3, 3) for _ in range(r)])
        Q2 = householder([rng.randint(-3, 3) for _ in range(c)])
        sv = [Fr(abs(rnd_val(rng, True))) for _ in range(k)]
        if shape == 'repeat' and k > 1:
            sv[1] = sv[0]
        if rng.random() < 0.4 and math.isfinite(t):
            sv[rng.randrange(k)] = Fr(t)                # a singular value (nearly) on the threshold
        A = [[float(sum(Q1[i][l] * sv[l] * Q2[j][l] for l in range(k))) for j in range(c)]
             for i in range(r)]
    elif shape == 'rand':
        A = [[rnd_val(rng, exact) for _ in range(c)] for _ in range(r)]
    flat = [A[i][j] for j in range(c) for i in range(r)]
    return f'nuc {mode} {f2h(lam)} {f2h(γ)} {r} {c} {vec2p(flat)}'


def gen_gps(rng, exact):
    """gps: the GENERIC default of the prox_step customisation point (prox_step from prox) for every functor
    without its own prox_step: L1Norm (scalar / vector weight), L1NormComplex (both), NuclearNorm.
    γ ≠ 1 and γ_fwd ≠ ±γ on purpose."""
    kind = rng.choice(['l1s', 'l1s', 'l1v', 'l1v', 'cl1s', 'cl1v', 'nuc'])
    if exact:
        γ = 2.0 ** rng.randint(-3, 2)
        γf = rng.choice([-1, 1]) * 2.0 ** rng.randint(-3, 2)
        if rng.random() < 0.7:
            while abs(γf) == γ or γ == 1.0:
                γ = 2.0 ** rng.randint(-3, 2); γf = rng.choice([-1, 1]) * 2.0 ** rng.randint(-3, 2)
    else:
        γ = abs(rnd_val(rng, False)) + 1e-6
        γf = rnd_val(rng, False) or -1.0
    if kind == 'nuc':
        r = rng.choice([1, 2, 2, 3]); c = rng.choice([1, 2, 2, 3])
        mode = rng.choice([0, 1])
        lam = rng.choice([0.0, 1.0, abs(rnd_val(rng, exact)) + 2.0 ** -4])
        a = [rnd_val(rng, exact) for _ in range(r * c)]
        d = [rnd_val(rng, exact) for _ in range(r * c)]
        return f'gps nuc {mode} {f2h(lam)} {f2h(γ)} {f2h(γf)} {r} {c} {vec2p(a)} {vec2p(d)}'
    n = rng.choice([0, 1, 2, 3, 4])
    if kind in ('cl1s', 'cl1v'):
        n *= 2
    x = [rnd_val(rng, exact) for _ in range(n)]
    d = [rnd_val(rng, exact) for _ in range(n)]
    m = n // 2 if kind[0] == 'c' else n
    if kind in ('l1s', 'cl1s'):
        lam = rng.choice([0.0, abs(rnd_val(rng, exact)), abs(rnd_val(rng, exact))])
        if kind == 'l1s' and exact and n and rng.random() < 0.5 and γf:
            d[0] = (rng.choice([1, -1]) * lam * γ - x[0]) / γf      # tie on the threshold
        return f'gps {kind} {f2h(lam)} {f2h(γ)} {f2h(γf)} {vec2p(x)} {vec2p(d)}'
    lam = [rng.choice([0.0, abs(rnd_val(rng, exact))]) for _ in range(m)]
    if rng.random() < 0.15:
        lam = []
    return f'gps {kind} {vec2p(lam)} {f2h(γ)} {f2h(γf)} {vec2p(x)} {vec2p(d)}'


def gen_case(rng):
    exact = rng.random() < 0.4
    n = rng.choice([0, 1, 1, 2, 3, 4, 6])
    kind = rng.choice(['pgs', 'pgs', 'pgs', 'inact', 'inact', 'pmult', 'proj', 'pstep', 'l1s', 'l1v',
                       'unc', 'cl1', 'cl1', 'nuc', 'nuc', 'gps', 'gps', 'gps'])
    if kind == 'cl1':
        return gen_cplx(rng, exact)
    if kind == 'nuc':
        return gen_nuc(rng, exact)
    γ = (2.0 ** rng.randint(-4, 3)) if exact else abs(rnd_val(rng, False)) + 1e-6
    x = [rnd_val(rng, exact) for _ in range(n)]
    g = [rnd_val(rng, exact) for _ in range(n)]
    if kind in ('pgs', 'inact'):
        m = rng.choice([0, 0, 1, 1, 2])     # l1_reg size 0 / 1 / n
        if m == 0:
            l1 = []
        elif m == 1:
            l1 = [rng.choice([0.0, abs(rnd_val(rng, exact))])]
        else:
            l1 = [rng.choice([0.0, abs(rnd_val(rng, exact))]) for _ in range(n)]
            if n == 1 and rng.random() < 0.5:
                l1 = [abs(rnd_val(rng, exact))]
            if n == 0:
                l1 = []
        lb, ub = gen_box(rng, n, exact, l1box=bool(l1))
        # ties exactly on the thresholds: make x_fw hit lb / ub / ±γλ for some components
        for i in range(n):
            if rng.random() < 0.25 and exact:
                tgt = rng.choice([lb[i], ub[i], 0.0])
                lam = (l1[0] if len(l1) == 1 else l1[i]) if l1 else 0.0
                tgt2 = rng.choice([tgt, γ * lam, -γ * lam, tgt + γ * lam if math.isfinite(tgt) else 0.0])
                if math.isfinite(tgt2):
                    x[i] = tgt2 + γ * g[i]
        return f'{kind} {vec2p(l1)} {f2h(γ)} {vec2p(x)} {vec2p(g)} {vec2p(lb)} {vec2p(ub)}'
    if kind == 'pmult':
        lb, ub = gen_box(rng, n, exact)
        M = abs(rnd_val(rng, exact)) if rng.random() < 0.9 else 0.0
        split = rng.randint(0, n)
        y = [rnd_val(rng, exact) * rng.choice([1, 1, 100]) for _ in range(n)]
        return f'pmult {split} {f2h(M)} {vec2p(y)} {vec2p(lb)} {vec2p(ub)}'
    if kind == 'proj':
        lb, ub = gen_box(rng, n, exact)
        return f'proj {vec2p(x)} {vec2p(lb)} {vec2p(ub)}'
    if kind == 'pstep':
        lb, ub = gen_box(rng, n, exact)
        γf = -γ if rng.random() < 0.7 else γ
        γ0 = rng.choice([1.0, 0.5, 2.0, 3.0, 0.25])       # documented as unused by the Box overload
        return f'pstep {f2h(γ0)} {f2h(γf)} {vec2p(x)} {vec2p(g)} {vec2p(lb)} {vec2p(ub)}'
    if kind == 'gps':
        return gen_gps(rng, exact)
    if kind == 'l1s':
        lam = rng.choice([0.0, abs(rnd_val(rng, exact))])
        if exact and n and rng.random() < 0.5:
            x[0] = rng.choice([1, -1]) * lam * γ      # tie on the threshold
        return f'l1s {f2h(lam)} {f2h(γ)} {vec2p(x)}'
    if kind == 'l1v':
        lam = [rng.choice([0.0, abs(rnd_val(rng, exact))]) for _ in range(n)]
        return f'l1v {vec2p(lam)} {f2h(γ)} {vec2p(x)}'
    return f'unc {f2h(γ)} {vec2p(x)} {vec2p(g)}'


BOUND_KINDS = ('pgs', 'inact', 'pmult', 'proj', 'pstep')
INF_COV = {}          # kind -> {'-inf': ops with an infinite lower bound, '+inf': …, 'both': a free component}
INF_TOK = (f2h(-INF), f2h(INF))


def count_inf(op):
    """coverage bookkeeping: which bound-taking op kinds were run with infinite sides (n ≥ 1)."""
    t = op.split()
    if t[0] not in BOUND_KINDS:
        return
    c = INF_COV.setdefault(t[0], {'ops': 0, '-inf': 0, '+inf': 0})
    c['ops'] += 1
    c['-inf'] += INF_TOK[0] in t
    c['+inf'] += INF_TOK[1] in t


def gen_ops(rng, n):
    ops = [gen_case(rng) for _ in range(n)]
    for op in ops:
        count_inf(op)
    return ops


# ---------------------------------------------------------------- parsing helpers

class T:
    def __init__(self, line):
        self.t = line.split()
        self.p = 0

    def tok(self):
        self.p += 1
        return self.t[self.p - 1]

    def nat(self):
        return int(self.tok())

    def flt(self):
        return h2f(self.tok())

    def vec(self):
        n = self.nat()
        return [self.flt() for _ in range(n)]


def fr(x):
    return Fr(x) if math.isfinite(x) else x


def clampF(v, lb, ub):
    if lb != -INF and v < Fr(lb):
        v = Fr(lb)
    if ub != INF and v > Fr(ub):
        v = Fr(ub)
    return v


def softF(v, t):
    if v > t:
        return v - t
    if v < -t:
        return v + t
    return Fr(0)


EPS = 2.0 ** -52
KINDS = {}      # op kinds monitored in this run (required coverage)
COUNT = {}      # exemptions and observations, by reason (reported in the evidence)


def bump(k, n=1):
    COUNT[k] = COUNT.get(k, 0) + n


def phi1(u, v, lam, gam):
    return lam * abs(u) + (u - v) ** 2 / (2 * gam)


def prox1d_argmin(v, lam, gam, lb, ub):
    """The minimiser of λ|u| + (u − v)²/(2γ) over [lb, ub], found as the best of the finitely many
    candidates a convex piecewise-quadratic can attain its minimum at (the bounds, the kink 0, the two
    stationary points v ∓ γλ) — by comparing exact function values, not by the soft-threshold / clamp
    composition the library uses."""
    t = gam * lam
    cands = [Fr(0), v - t, v + t]
    if lb != -INF:
        cands.append(Fr(lb))
    if ub != INF:
        cands.append(Fr(ub))
    feas = [u for u in cands if (lb == -INF or u >= Fr(lb)) and (ub == INF or u <= Fr(ub))]
    return min(feas, key=lambda u: phi1(u, v, lam, gam))


def opt_residual(xh, v, lam, gam, lb, ub, snap=0):
    """Distance of r = (v − x̂)/γ to λ·∂|·|(x̂) + N_[lb,ub](x̂): the optimality condition
    0 ∈ ∂h(x̂) + (x̂ − v)/γ the property names, evaluated AT THE RETURNED POINT in exact rationals.
    None if x̂ is not in the box (then it is not even feasible)."""
    # `snap`: a returned point within this distance of a bound counts as being AT the bound (x̂ = x + p
    # reproduces a bound only up to the rounding of (bound − x) + x)
    if lb != -INF and abs(xh - Fr(lb)) <= snap:
        xh = Fr(lb)
    elif ub != INF and abs(xh - Fr(ub)) <= snap:
        xh = Fr(ub)
    if (lb != -INF and xh < Fr(lb)) or (ub != INF and xh > Fr(ub)):
        return None
    r = (v - xh) / gam
    lo = hi = None                       # the interval [lo, hi] of admissible r (None = unbounded)
    if xh > 0:
        lo = hi = lam
    elif xh < 0:
        lo = hi = -lam
    else:
        lo, hi = -lam, lam
    at_lb = lb != -INF and xh == Fr(lb)
    at_ub = ub != INF and xh == Fr(ub)
    if at_lb:
        lo = None                        # normal cone (−∞, 0]
    if at_ub:
        hi = None                        # normal cone [0, +∞)
    if lo is not None and r < lo:
        return lo - r
    if hi is not None and r > hi:
        return r - hi
    return Fr(0)


def locally_shift(v, lam, gam, lb, ub):
    """Is w ↦ prox(w) the identity shift on a neighbourhood of v?  Decided by perturbing v exactly: the
    prox of a piecewise-quadratic is piecewise affine with breakpoints among {lb, ub, 0} ± γλ, so for a δ
    below half the distance from v to the nearest other breakpoint the two one-sided tests decide it."""
    t = gam * lam
    br = {t, -t}
    for b in (lb, ub):
        if b not in (INF, -INF):
            br |= {Fr(b) + t, Fr(b) - t, Fr(b)}
    ds = [abs(v - b) for b in br if b != v]
    delta = (min(ds) / 2) if ds else Fr(1)
    p0 = prox1d_argmin(v, lam, gam, lb, ub)
    return (prox1d_argmin(v + delta, lam, gam, lb, ub) - p0 == delta and
            prox1d_argmin(v - delta, lam, gam, lb, ub) - p0 == -delta)


def tol(*mags):
    m = max([abs(float(a)) for a in mags if math.isfinite(float(a))] + [1e-300])
    return 8 * EPS * m



# ---------------------------------------------------------------- helpers for complex ℓ1 / nuclear norm

def hp_sqrt(q, bits=160):
    """√q for a non-negative Fraction, as a Fraction with relative error < 2^-bits."""
    if q <= 0:
        return Fr(0)
    num, den = q.numerator, q.denominator
    # √(num/den) = √(num·den)/den; scale so that the integer square root keeps `bits` bits
    x = num * den
    sh = max(0, bits - x.bit_length() // 2 + 1)
    return Fr(math.isqrt(x << (2 * sh)), den << sh)


def jacobi_svd(A):
    """One-sided (Hestenes) Jacobi SVD of a small dense matrix given as list of rows (floats).
    Returns (cols, V, σ): the rotated columns a_j = σ_j u_j (so A = Σ_j a_j v_jᵀ), the right
    singular vectors (columns of V, as list of columns) and σ_j = ‖a_j‖, sorted non-increasing.
    Pure Python (the checks run without numpy); independent of Eigen."""
    r = len(A)
    c = len(A[0]) if r else 0
    if r == 0 or c == 0:
        return [], [], []
    if r < c:
        cols, V, sg = jacobi_svd([[A[i][j] for i in range(r)] for j in range(c)])
        # A = (Aᵀ)ᵀ = Σ_j v_j a_jᵀ: swap roles; new a_j = σ_j·(old v_j), new v_j = old a_j/σ_j
        ncols, nV = [], []
        for a, v, sj in zip(cols, V, sg):
            ncols.append([sj * x for x in v])
            nV.append([x / sj for x in a] if sj > 0 else [0.0] * len(a))
        return ncols, nV, sg
    a = [[A[i][j] for i in range(r)] for j in range(c)]          # columns
    V = [[float(i == j) for i in range(c)] for j in range(c)]    # columns of V
    for _sweep in range(60):
        rot = False
        for p in range(c - 1):
            for q in range(p + 1, c):
                al = math.fsum(x * x for x in a[p])
                be = math.fsum(x * x for x in a[q])
                ga = math.fsum(x * y for x, y in zip(a[p], a[q]))
                if ga == 0 or abs(ga) <= 1e-17 * math.sqrt(al * be):
                    continue
                rot = True
                ze = (be - al) / (2 * ga)
                t = math.copysign(1.0, ze) / (abs(ze) + math.hypot(1.0, ze))
                cs = 1 / math.hypot(1.0, t)
                sn = cs * t
                a[p], a[q] = ([cs * x - sn * y for x, y in zip(a[p], a[q])],
                              [sn * x + cs * y for x, y in zip(a[p], a[q])])
                V[p], V[q] = ([cs * x - sn * y for x, y in zip(V[p], V[q])],
                              [sn * x + cs * y for x, y in zip(V[p], V[q])])
        if not rot:
            break
    sg = [math.sqrt(math.fsum(x * x for x in col)) for col in a]
    order = sorted(range(c), key=lambda j: -sg[j])
    return [a[j] for j in order], [V[j] for j in order], [sg[j] for j in order]


def nuc_norm(M):
    return math.fsum(jacobi_svd(M)[2])


def mat_of(flat, r, c):
    return [[flat[i + j * r] for j in range(c)] for i in range(r)]


KEY_NUC_DYN = 'C15-NuclearNorm-dynamic-ctor-no-UV-eigen-3.4.0'
KEY_CPLX_COMPILE = 'C15-L1NormComplex-prox-does-not-compile'
KEY_CPLX_RANGE = 'C15-L1NormComplex-squared-magnitude-overflow-underflow'


def monitor_cplx(kind, t, o_line):
    if ' # ' not in o_line:
        return f'unexpected output {o_line[:60]!r}'
    main, tail = o_line.split(' # ')
    o = T(main)
    hs = T(tail)
    if kind == 'cl1s':
        lam0 = t.flt(); γ = t.flt(); v = t.vec(); n = len(v) // 2; lam = [lam0] * n
    else:
        lam = t.vec(); γ = t.flt(); v = t.vec(); n = len(v) // 2
        if not lam:
            lam = [1.0] * n
    out1 = o.vec(); out2 = o.vec(); h1 = hs.flt(); h2 = hs.flt()
    if len(out1) != 2 * n or len(out2) != 2 * n:
        return 'output size mismatch'
    if [f2h(x) for x in out1] != [f2h(x) for x in out2] or f2h(h1) != f2h(h2):
        return ('the real-vector overload (pairs reinterpreted as complex) and the complex overload '
                f'disagree: {out1!r} / {out2!r}, h {h1!r} / {h2!r}')
    hexact = Fr(0)
    for i in range(n):
        a, b = Fr(v[2 * i]), Fr(v[2 * i + 1])
        tt = Fr(γ) * Fr(lam[i])
        mag2 = a * a + b * b
        if mag2 <= tt * tt:
            s = (Fr(0), Fr(0))
        else:
            f = 1 - tt / hp_sqrt(mag2)
            s = (a * f, b * f)
        e = tol(v[2 * i], v[2 * i + 1], tt)
        # squared magnitudes outside the double range (overflow to inf / underflow below the normal range)
        m2f = v[2 * i] * v[2 * i] + v[2 * i + 1] * v[2 * i + 1]
        t2f = (γ * lam[i]) * (γ * lam[i])
        out_of_range = (math.isinf(m2f) or math.isinf(t2f) or (mag2 > 0 and m2f < 2.0 ** -1000)
                        or (tt > 0 and t2f < 2.0 ** -1000))
        for j in (0, 1):
            got = out1[2 * i + j]
            if not math.isfinite(got) or abs(Fr(got) - s[j]) > e:
                msg = (f'complex soft-threshold [{i}].{"re" if j == 0 else "im"} = {got!r} is not the minimiser '
                       f'of λ|u| + |u − v|²/(2γ): exact {float(s[j])!r} (v = ({v[2 * i]!r}, {v[2 * i + 1]!r}), '
                       f'γλ = {float(tt)!r}, |Δ| > {e:.3g})')
                if out_of_range:
                    return (msg + ' — |v|² or (γλ)² leaves the double range', KEY_CPLX_RANGE)
                return msg
        # optimality condition on the returned point itself
        s1, s2 = Fr(out1[2 * i]), Fr(out1[2 * i + 1])
        if s1 == 0 and s2 == 0:
            if mag2 > tt * tt and hp_sqrt(mag2) - tt > Fr(e):
                return (f'complex soft-threshold [{i}] returned 0 but |v| = {float(hp_sqrt(mag2))!r} > γλ = '
                        f'{float(tt)!r}: 0 ∉ argmin')
        else:
            ns = hp_sqrt(s1 * s1 + s2 * s2)
            # stationarity: v − s = γλ · s/|s|
            r1 = (a - s1) * ns - tt * s1
            r2 = (b - s2) * ns - tt * s2
            if max(abs(r1), abs(r2)) > 4 * Fr(e) * max(ns, hp_sqrt(mag2)):
                return (f'complex soft-threshold [{i}] = ({out1[2 * i]!r}, {out1[2 * i + 1]!r}) violates the '
                        f'optimality condition v − s = γλ·s/|s| (v = ({v[2 * i]!r}, {v[2 * i + 1]!r}), γλ = {float(tt)!r})')
        hexact += Fr(lam[i]) * hp_sqrt(s1 * s1 + s2 * s2)
    # h is computed with hypot by Eigen's complex cwiseAbs: compared with a few-ulp tolerance
    if not math.isfinite(h1) or abs(Fr(h1) - hexact) > 16 * (n + 1) * EPS * max(float(hexact), 1e-300):
        return f'returned h = {h1!r}, exact Σ λ_i|out_i| = {float(hexact)!r}'
    return None


def monitor_nuc(op, t, o_line):
    mode = t.nat(); lam = t.flt(); γ = t.flt(); r = t.nat(); c = t.nat(); flat = t.vec()
    if o_line.startswith('crash') or o_line in ('exception', 'pipe-failed'):
        if mode == 0 and lam != 0:
            return (f'NuclearNorm(λ) (constructor without pre-allocation) + prox: the real code crashed '
                    f'({o_line}) — BDCSVD default-constructed without ComputeThinU|ComputeThinV (Eigen < 3.4.1 '
                    f'branch), matrixU()/matrixV() are empty', KEY_NUC_DYN)
        return f'real code crashed: {o_line}'
    main, _, tail = o_line.partition(' # ')
    o = T(main)
    tag = o.tok()
    A = mat_of(flat, r, c)
    scale = max([abs(x) for x in flat] + [1e-300])
    if tag == 'Z':
        value = o.flt(); out = o.vec()
        if lam != 0:
            return 'early exit taken although λ ≠ 0'
        if value != 0 or [f2h(x) for x in out] != [f2h(x) for x in flat]:
            return f'λ = 0: prox must be the identity with value 0, got value {value!r}, out {out!r}'
        return None
    if tag != 'S':
        return f'unexpected output {o_line[:60]!r}'
    sv = o.vec(); value = o.flt(); out = o.vec()
    tl = T(tail)
    uv = tl.nat(); sig = tl.vec()
    if uv != 1:
        if mode == 0:
            return ('NuclearNorm(λ) (constructor without pre-allocation): the SVD object computed no U / V '
                    '(Eigen < 3.4.1 branch), prox reads unallocated factors', KEY_NUC_DYN)
        return 'SVD object holds no U / V'
    k = min(r, c)
    if len(sv) != k or len(sig) != k or len(out) != r * c:
        return 'output size mismatch'
    if lam == 0:
        return 'λ = 0 but no early exit'
    tt = Fr(γ) * Fr(lam)
    # (1) oracle contract, checked against an independent SVD: σ sorted non-increasing, ≥ 0, equal to
    #     the singular values of the input
    cols, V, sg = jacobi_svd(A)
    rel = 1e-10
    if any(not math.isfinite(x) for x in sig + sv + out + [value]):
        return f'non-finite output: σ={sig!r} sv={sv!r} value={value!r}'
    if any(sig[i] < sig[i + 1] for i in range(k - 1)) or any(x < 0 for x in sig):
        return f'SVD oracle contract: σ = {sig!r} not sorted non-increasing ≥ 0'
    if any(abs(sig[i] - sg[i]) > rel * scale for i in range(k)):
        return f'SVD oracle contract: σ = {sig!r} but the input has singular values {sg!r}'
    # (2) thresholding statement on the σ the real code saw
    for i in range(k):
        ex = max(Fr(sig[i]) - tt, Fr(0))
        if abs(Fr(sv[i]) - ex) > tol(sig[i], tt):
            return f'singular_values[{i}] = {sv[i]!r}, exact max(σ − γλ, 0) = {float(ex)!r}'
    # (3) out = Σ_j u_j max(σ_j − γλ, 0) v_jᵀ, from the independent SVD of the input
    exp = [[0.0] * c for _ in range(r)]
    for a, v, sj in zip(cols, V, sg):
        f = max(sj - float(tt), 0.0)
        if f > 0 and sj > 0:
            w = f / sj
            for i in range(r):
                for j in range(c):
                    exp[i][j] += a[i] * w * v[j]
    O = mat_of(out, r, c)
    for i in range(r):
        for j in range(c):
            if abs(O[i][j] - exp[i][j]) > rel * scale:
                return (f'out[{i},{j}] = {O[i][j]!r} but the matrix with singular values max(σ − γλ, 0) on the '
                        f'singular vectors of the input has {exp[i][j]!r} (γλ = {float(tt)!r}, σ = {sg!r})')
    # (3b) closed forms in exact rationals: (generalised) diagonal and rank-one inputs
    nz = [(i, j) for i in range(r) for j in range(c) if A[i][j] != 0]
    if len({i for i, _ in nz}) == len(nz) == len({j for _, j in nz}):
        for i in range(r):
            for j in range(c):
                d = Fr(A[i][j])
                ex = (1 if d > 0 else -1) * max(abs(d) - tt, 0)
                if abs(Fr(O[i][j]) - ex) > rel * scale:
                    return (f'permuted-diagonal input: out[{i},{j}] = {O[i][j]!r}, exact '
                            f'sign(d)·max(|d| − γλ, 0) = {float(ex)!r}')
    elif nz and all(Fr(A[i][j]) * Fr(A[i2][j2]) == Fr(A[i][j2]) * Fr(A[i2][j])
                    for i in range(r) for i2 in range(i + 1, r) for j in range(c) for j2 in range(j + 1, c)):
        s1 = hp_sqrt(sum(Fr(x) * Fr(x) for x in flat))
        f = max(1 - tt / s1, 0)
        for i in range(r):
            for j in range(c):
                if abs(Fr(O[i][j]) - Fr(A[i][j]) * f) > rel * scale:
                    return (f'rank-one input: out[{i},{j}] = {O[i][j]!r}, exact A·max(1 − γλ/‖A‖_F, 0) = '
                            f'{float(Fr(A[i][j]) * f)!r}')
    # (4) returned value = λ‖out‖_*
    nn = nuc_norm(O)
    if abs(value - lam * nn) > rel * max(lam * scale, abs(value)):
        return f'returned value {value!r} ≠ λ‖out‖_* = {lam * nn!r}'
    # (5) sanity: φ(out) ≤ φ(out + δ) for pseudo-random perturbations (seeded by the op line)
    if r * c:
        import zlib
        prng = __import__('random').Random(zlib.crc32(op.encode()))

        def phi(M):
            return lam * nuc_norm(M) + math.fsum((M[i][j] - A[i][j]) ** 2 for i in range(r) for j in range(c)) / (2 * γ)
        p0 = phi(O)
        for _ in range(3):
            mag = scale * 10.0 ** prng.uniform(-6, 0)
            D = [[O[i][j] + mag * prng.uniform(-1, 1) for j in range(c)] for i in range(r)]
            p1 = phi(D)
            if p0 > p1 + 1e-9 * max(abs(p0), abs(p1), 1e-300):
                return f'out is not a minimiser: φ(out) = {p0!r} > φ(out + δ) = {p1!r} (|δ| ≤ {mag:.3g})'
    return None


# ---------------------------------------------------------------- monitors (property on real code)

def monitor(op, out, st):
    """Recompute in exact rational arithmetic what the property promises; compare with the real
    code's output up to a few ulps of the operands (never a tolerance-sized amount)."""
    if out in ('exception', 'bad-op') and not op.startswith(('nuc ', 'gps nuc ')):
        return f'unexpected {out}'
    t = T(op)
    kind = t.tok()
    kk = kind + (' ' + op.split()[1] if kind == 'gps' else '')
    KINDS[kk] = KINDS.get(kk, 0) + 1
    if kind == 'gps':
        tk = op.split()
        gi = 4 if tk[1] == 'nuc' else 3
        γ_, γf_ = h2f(tk[gi]), h2f(tk[gi + 1])
        if γ_ != 1.0 and abs(γf_) != γ_:
            KINDS['gps with γ ≠ 1 and |γ_fwd| ≠ γ'] = KINDS.get('gps with γ ≠ 1 and |γ_fwd| ≠ γ', 0) + 1
    if kind in ('cl1s', 'cl1v'):
        return monitor_cplx(kind, t, out)
    if kind == 'nuc':
        return monitor_nuc(op, t, out)
    o = T(out)
    if kind in ('pgs', 'inact'):
        l1 = t.vec(); γ = t.flt(); x = t.vec(); g = t.vec(); lb = t.vec(); ub = t.vec()
        n = len(x)
        lam = [(0.0 if not l1 else l1[0] if len(l1) == 1 else l1[i]) for i in range(n)]
        v = [Fr(x[i]) - Fr(γ) * Fr(g[i]) for i in range(n)]
        tt = [Fr(γ) * Fr(lam[i]) for i in range(n)]
        if kind == 'pgs':
            h = o.flt(); xh = o.vec(); p = o.vec()
            if len(xh) != n or len(p) != n:
                return 'output size mismatch'
            hexact = Fr(0)
            for i in range(n):
                if not math.isfinite(xh[i]):
                    return f'prox output x̂[{i}]={xh[i]!r}'
                e = tol(x[i], γ * g[i], tt[i], xh[i], lb[i], ub[i])
                # (a) the unique minimiser, from an independent exact argmin over the candidate points
                s = prox1d_argmin(v[i], Fr(lam[i]), Fr(γ), lb[i], ub[i])
                if abs(Fr(xh[i]) - s) > e:
                    return (f'prox output x̂[{i}]={xh[i]!r} is not the minimiser of λ|u| + (u−v)²/(2γ) over the box: '
                            f'exact argmin {float(s)!r} (|Δ|>{e:.3g})')
                # (b) box membership.  x̂ = x + p with p = clamp(…, lb − x, ub − x): the bound is reproduced
                # only up to the rounding of (bound − x) + x, i.e. one ulp of max(|x|, |bound|) — this is the
                # exact claim; prox(Box) / sets::project (cwiseMax / cwiseMin on the output itself) are held to
                # exact membership in `proj`.
                eb = 2 * EPS * max(abs(x[i]), abs(xh[i]))
                if not (lb[i] - eb <= xh[i] <= ub[i] + eb):
                    return f'x̂[{i}]={xh[i]!r} outside [{lb[i]}, {ub[i]}] by more than the rounding of (bound − x) + x'
                if not (lb[i] <= xh[i] <= ub[i]):
                    bump('observation: pgs x̂ = x + p leaves the box by rounding of (bound − x) + x (≤ 1 ulp)')
                # (c) the optimality condition 0 ∈ ∂h(x̂) + (x̂ − v)/γ at the returned point (a point within the
                # rounding eb of a bound counts as being at that bound)
                res = opt_residual(Fr(xh[i]), v[i], Fr(lam[i]), Fr(γ), lb[i], ub[i], snap=Fr(eb))
                if res is None or res * Fr(γ) > 2 * Fr(e):
                    return (f'optimality condition violated at x̂[{i}]={xh[i]!r}: (v − x̂)/γ = '
                            f'{float((v[i] - Fr(xh[i])) / Fr(γ))!r} is at distance {float(res) if res is not None else None!r} '
                            f'from λ∂|x̂| + N_box(x̂) (λ={lam[i]!r}, γ={γ!r}, v={float(v[i])!r}, box=[{lb[i]},{ub[i]}])')
                if abs(Fr(xh[i]) - (Fr(x[i]) + Fr(p[i]))) > 2 * tol(x[i], p[i]):
                    return f'p[{i}] ≠ x̂ − x: p={p[i]!r}, x̂−x={float(Fr(xh[i]) - Fr(x[i]))!r}'
                hexact += Fr(lam[i]) * abs(Fr(xh[i]))
            if abs(Fr(h) - hexact) > 16 * (n + 1) * EPS * max(float(hexact), 1e-300):
                return f'returned h(x̂)={h!r}, exact λ‖x̂‖₁={float(hexact)!r}'
        else:
            nJ = o.nat()
            J = [o.nat() for _ in range(nJ)]
            if J != sorted(set(J)) or any(j < 0 or j >= n for j in J):
                return f'J not a strictly increasing index list: {J}'
            for i in range(n):
                # the property: i ∈ J ⇔ the prox is locally the identity shift at the forward point —
                # decided by exact perturbation of v (not by the case analysis of update_J_general)
                inside = locally_shift(v[i], Fr(lam[i]), Fr(γ), lb[i], ub[i])
                # the real code decides on x_fw = fl(x − γ g) and fl(γλ): within rounding of a threshold the two
                # can legitimately differ unless the inputs are exact
                e = tol(x[i], γ * g[i], tt[i], lb[i], ub[i]) * 4
                br = [tt[i], -tt[i]] if tt[i] != 0 else []
                for b in (lb[i], ub[i]):
                    if b not in (INF, -INF):
                        br += [Fr(b) + tt[i], Fr(b) - tt[i]]
                exact_inputs = all(abs(a) < 2 ** 20 and (a * 1024) % 1 == 0
                                   for a in (x[i], g[i], γ, lam[i]))
                if br and min(abs(v[i] - b) for b in br) <= e and not exact_inputs:
                    bump('exempt: inact component within rounding of a threshold, inexact inputs')
                    continue
                if (i in J) != inside:
                    return (f'index {i} {"in" if i in J else "not in"} J but the prox is '
                            f'{"" if inside else "not "}locally the identity shift there '
                            f'(x_fw={float(v[i])!r}, γλ={float(tt[i])!r}, box=[{lb[i]},{ub[i]}])')
        return None
    if kind == 'pmult':
        split = t.nat(); M = t.flt(); y = t.vec(); lb = t.vec(); ub = t.vec()
        y2 = o.vec()
        for i in range(len(y)):
            if i < split:
                exp = 0.0
            else:
                lo = 0.0 if lb[i] == -INF else -M
                hi = 0.0 if ub[i] == INF else M
                exp = min(max(y[i], lo), hi)
            if y2[i] != exp:
                return f'multiplier {i}: got {y2[i]!r}, documented clamp gives {exp!r}'
        return None
    if kind == 'proj':
        v = t.vec(); lb = t.vec(); ub = t.vec()
        o1 = o.vec(); h = o.flt(); o2 = o.vec()
        for i in range(len(v)):
            for nm, got in (('sets::project', o1[i]), ('prox(Box)', o2[i])):
                # cwiseMax / cwiseMin on the output: EXACT membership and the exact nearest point are demanded
                if not (lb[i] <= got <= ub[i]):
                    return f'{nm}[{i}] = {got!r} is not in [{lb[i]}, {ub[i]}] (exact membership is demanded)'
                s = prox1d_argmin(Fr(v[i]), Fr(0), Fr(1), lb[i], ub[i])
                if Fr(got) != s:
                    return f'{nm}[{i}] = {got!r}, the nearest point of the box is {float(s)!r}'
                res = opt_residual(Fr(got), Fr(v[i]), Fr(0), Fr(1), lb[i], ub[i])
                if res != 0:
                    return f'{nm}[{i}] = {got!r}: v − x̂ = {v[i] - got!r} is not in the normal cone of the box at x̂'
        if h != 0:
            return f'prox(Box) returned h={h!r} ≠ 0'
        return None
    if kind == 'pstep':
        γ0 = t.flt(); γf = t.flt(); x = t.vec(); d = t.vec(); lb = t.vec(); ub = t.vec()
        h = o.flt(); out_ = o.vec(); fb = o.vec()
        if h != 0:
            return f'prox_step(Box) returned h={h!r} ≠ 0 (the indicator of a point of the box)'
        for i in range(len(x)):
            vv = Fr(x[i]) + Fr(γf) * Fr(d[i])
            if not math.isfinite(out_[i]) or not math.isfinite(fb[i]):
                return f'prox_step out[{i}]={out_[i]!r}, fb_step[{i}]={fb[i]!r}'
            s = prox1d_argmin(vv, Fr(0), Fr(1), lb[i], ub[i])
            e = tol(x[i], γf * d[i], lb[i], ub[i], s)
            if abs(Fr(out_[i]) - s) > e:
                return f'prox_step out[{i}]={out_[i]!r}, nearest point of the box to in + γ_fwd·d is {float(s)!r} (γ={γ0!r})'
            eb = 2 * EPS * max(abs(x[i]), abs(out_[i]))
            if not (lb[i] - eb <= out_[i] <= ub[i] + eb):
                return f'prox_step out[{i}]={out_[i]!r} outside [{lb[i]}, {ub[i]}]'
            if not (lb[i] <= out_[i] <= ub[i]):
                bump('observation: prox_step(Box) out = in + fb_step leaves the box by rounding (≤ 1 ulp)')
            res = opt_residual(Fr(out_[i]), vv, Fr(0), Fr(1), lb[i], ub[i], snap=Fr(eb))
            if res is None or res > 2 * Fr(e):
                return f'prox_step out[{i}]={out_[i]!r}: in + γ_fwd·d − out is not in the normal cone of the box'
            if abs(Fr(out_[i]) - Fr(x[i]) - Fr(fb[i])) > 2 * tol(x[i], fb[i]):
                return f'fb_step[{i}] = {fb[i]!r} ≠ out − in = {float(Fr(out_[i]) - Fr(x[i]))!r}'
        return None
    if kind in ('l1s', 'l1v'):
        if kind == 'l1s':
            lam0 = t.flt(); γ = t.flt(); v = t.vec(); lam = [lam0] * len(v)
        else:
            lam = t.vec(); γ = t.flt(); v = t.vec()
            if not lam:
                lam = [1.0] * len(v)
        h = o.flt(); out_ = o.vec()
        return check_l1(lam, γ, [Fr(a) for a in v], [tol(a, l * γ) for a, l in zip(v, lam)], h, out_)
    if kind == 'gps':
        return monitor_gps(op, t, out)
    if kind == 'unc':
        γ = t.flt(); x = t.vec(); g = t.vec()
        h = o.flt(); xh = o.vec(); p = o.vec()
        if h != 0:
            return f'UnconstrProblem::eval_prox_grad_step returned h={h!r} ≠ 0 (h ≡ 0)'
        for i in range(len(x)):
            s = Fr(x[i]) - Fr(γ) * Fr(g[i])
            if not math.isfinite(xh[i]) or abs(Fr(xh[i]) - s) > tol(x[i], γ * g[i]):
                return f'unconstrained step x̂[{i}]={xh[i]!r}, exact {float(s)!r}'
            if not math.isfinite(p[i]) or abs(Fr(p[i]) - (Fr(xh[i]) - Fr(x[i]))) > 2 * tol(x[i], xh[i]):
                return f'unconstrained step p[{i}]={p[i]!r} ≠ x̂ − x = {float(Fr(xh[i]) - Fr(x[i]))!r}'
        return None
    return None


def check_l1(lam, γ, v, es, h, out_):
    """L1Norm::prox on the point v (exact): minimiser (independent argmin), optimality condition at the
    returned point, returned h = Σ λ_i |out_i|."""
    hexact = Fr(0)
    if len(out_) != len(v):
        return 'output size mismatch'
    for i in range(len(v)):
        if not math.isfinite(out_[i]):
            return f'soft-threshold[{i}]={out_[i]!r}'
        s = prox1d_argmin(v[i], Fr(lam[i]), Fr(γ), -INF, INF)
        if abs(Fr(out_[i]) - s) > es[i]:
            return f'soft-threshold[{i}]={out_[i]!r} is not the minimiser of λ|u| + (u−v)²/(2γ): exact argmin {float(s)!r}'
        res = opt_residual(Fr(out_[i]), v[i], Fr(lam[i]), Fr(γ), -INF, INF)
        if res * Fr(γ) > 2 * Fr(es[i]):
            return (f'optimality condition violated at out[{i}]={out_[i]!r}: (v − x̂)/γ = '
                    f'{float((v[i] - Fr(out_[i])) / Fr(γ))!r} ∉ λ∂|x̂| (λ={lam[i]!r}, γ={γ!r}, v={float(v[i])!r})')
        hexact += Fr(lam[i]) * abs(Fr(out_[i]))
    if not math.isfinite(h) or abs(Fr(h) - hexact) > 16 * (len(v) + 1) * EPS * max(float(hexact), 1e-300):
        return f'returned h={h!r}, exact Σ λ_i|out_i| = {float(hexact)!r}'
    return None


def monitor_gps(op, t, out):
    """The generic prox_step default: out = prox_{γh}(in + γ_fwd·fwd_step), fb_step = out − in ("p equals
    output minus input"), returned value h(out)."""
    kind = t.tok()
    if kind == 'nuc':
        mode = t.nat(); lam = t.flt(); γ = t.flt(); γf = t.flt(); r = t.nat(); c = t.nat()
        a = t.vec(); d = t.vec()
        # the point the prox is taken at, as the real code forms it (one rounding per entry)
        w = [a[i] + γf * d[i] for i in range(r * c)]
        if out.startswith('crash') or out in ('exception', 'pipe-failed'):
            return monitor_nuc(op, T(f'{mode} {f2h(lam)} {f2h(γ)} {r} {c} {vec2p(w)}'), out)
        main, sep, tail = out.partition(' # ')
        toks = main.split()
        # split off fb_step (the last vector of the main part) and hand the rest to the nuclear-norm monitor
        oo = T(main)
        tag = oo.tok()
        if tag == 'S':
            oo.vec()
        oo.flt(); outm = oo.vec(); fb = oo.vec()
        pos = len(toks) - (len(fb) + 1)
        m = monitor_nuc(op, T(f'{mode} {f2h(lam)} {f2h(γ)} {r} {c} {vec2p(w)}'), ' '.join(toks[:pos]) + sep + tail)
        if m:
            return m
        for i in range(r * c):
            if abs(Fr(fb[i]) - (Fr(outm[i]) - Fr(a[i]))) > 2 * tol(outm[i], a[i]):
                return f'generic prox_step: fb_step[{i}] = {fb[i]!r} ≠ out − in = {float(Fr(outm[i]) - Fr(a[i]))!r}'
        return None
    if kind in ('l1s', 'cl1s'):
        lam0 = t.flt(); γ = t.flt(); γf = t.flt(); x = t.vec(); d = t.vec(); lamv = None
    else:
        lamv = t.vec(); γ = t.flt(); γf = t.flt(); x = t.vec(); d = t.vec(); lam0 = None
    n = len(x)
    vv = [Fr(x[i]) + Fr(γf) * Fr(d[i]) for i in range(n)]
    if kind in ('l1s', 'l1v'):
        o = T(out)
        h = o.flt(); out_ = o.vec(); fb = o.vec()
        lam = [lam0] * n if kind == 'l1s' else (lamv if lamv else [1.0] * n)
        es = [tol(x[i], γf * d[i], lam[i] * γ) for i in range(n)]
        m = check_l1(lam, γ, vv, es, h, out_)
        if m:
            return 'generic prox_step (L1Norm): ' + m
    else:
        # complex ℓ1: reuse the complex monitor on the forward point as the real code forms it
        w = [x[i] + γf * d[i] for i in range(n)]
        main, _, tail = out.partition(' # ')
        o = T(main)
        out_ = o.vec(); fb = o.vec()
        hs = T(tail); h = hs.flt()
        sub = (f'{f2h(lam0)} {f2h(γ)} {vec2p(w)}' if kind == 'cl1s' else f'{vec2p(lamv)} {f2h(γ)} {vec2p(w)}')
        m = monitor_cplx(kind, T(sub), f'{vec2p(out_)} {vec2p(out_)} # {f2h(h)} {f2h(h)}')
        if m:
            return ('generic prox_step (L1NormComplex): ' + m[0], m[1]) if isinstance(m, tuple) else \
                'generic prox_step (L1NormComplex): ' + m
    if len(fb) != n:
        return 'fb_step size mismatch'
    for i in range(n):
        if not math.isfinite(fb[i]) or abs(Fr(fb[i]) - (Fr(out_[i]) - Fr(x[i]))) > 2 * tol(out_[i], x[i]):
            return f'generic prox_step: fb_step[{i}] = {fb[i]!r} ≠ out − in = {float(Fr(out_[i]) - Fr(x[i]))!r}'
    return None


def nontrivial(op, out):
    # non-trivial = at least one vector operand with n ≥ 1 (≥ 3 hex tokens); distinct by op line
    if sum(1 for tk in op.split() if len(tk) == 16) >= 3:
        return op
    return None


# fixed corner cases run first on every tier: squared magnitudes outside the double range
CORPUS = [
    f'cl1s {f2h(1.0)} {f2h(1e200)} {vec2p([3e200, 4e200])}',      # |v| = 5e200 > γλ = 1e200: code returns 0
    f'cl1s {f2h(1.0)} {f2h(1e-200)} {vec2p([3e-200, 4e-200])}',   # |v| = 5e-200 > γλ = 1e-200: code returns 0
    f'cl1v {vec2p([1.0])} {f2h(1e160)} {vec2p([3e200, 4e200])}',  # (γλ)² = inf ≥ |v|² = inf: code returns 0
    f'cl1s {f2h(1.0)} {f2h(1e-170)} {vec2p([3e-160, 4e-160])}',   # small but in range: correct
    f'cl1s {f2h(1.0)} {f2h(1e150)} {vec2p([3e150, -4e150])}',     # large but in range: correct
    # every bound-taking kernel with -inf / +inf / both sides infinite (and a finite component next to them)
    f'pgs {vec2p([1.0])} {f2h(1.0)} {vec2p([5.0, 0.0, -3.0, 0.5])} {vec2p([1.0, 0.0, 0.0, 0.0])} '
    f'{vec2p([-INF, -1.0, -INF, -2.0])} {vec2p([2.0, INF, INF, 2.0])}',
    f'pgs {vec2p([])} {f2h(0.5)} {vec2p([5.0, 0.0, -3.0, 0.5])} {vec2p([1.0, 4.0, 0.0, 0.0])} '
    f'{vec2p([-INF, -1.0, -INF, -2.0])} {vec2p([2.0, INF, INF, 2.0])}',
    f'pgs {vec2p([0.0, 2.0, 1.0, 0.0])} {f2h(0.5)} {vec2p([5.0, 0.0, -3.0, 0.5])} {vec2p([1.0, 4.0, 0.0, 0.0])} '
    f'{vec2p([-INF, -1.0, -INF, -2.0])} {vec2p([2.0, INF, INF, 2.0])}',
    f'inact {vec2p([1.0])} {f2h(1.0)} {vec2p([5.0, 0.0, -3.0, 0.5, 3.0])} {vec2p([1.0, 0.0, 0.0, 0.0, 0.0])} '
    f'{vec2p([-INF, -1.0, -INF, -2.0, -INF])} {vec2p([2.0, INF, INF, 2.0, 2.0])}',
    f'inact {vec2p([])} {f2h(1.0)} {vec2p([5.0, 0.0, -3.0, 0.5, 2.0])} {vec2p([1.0, 0.0, 0.0, 0.0, 0.0])} '
    f'{vec2p([-INF, -1.0, -INF, -2.0, -INF])} {vec2p([2.0, INF, INF, 2.0, 2.0])}',
    f'pmult 1 {f2h(10.0)} {vec2p([7.0, 4.0, -20.0, 5.0, 30.0, -4.0, 20.0])} '
    f'{vec2p([0.0, -INF, 0.0, -INF, 0.0, -INF, 0.0])} {vec2p([1.0, 1.0, INF, INF, 1.0, 1.0, INF])}',
    f'proj {vec2p([5.0, -7.0, 3.0, 9.0])} {vec2p([-INF, -1.0, -INF, 0.0])} {vec2p([2.0, INF, INF, 4.0])}',
    f'pstep {f2h(3.0)} {f2h(-0.5)} {vec2p([5.0, 0.0, -3.0, 0.5])} {vec2p([1.0, 4.0, 0.0, -20.0])} '
    f'{vec2p([-INF, -1.0, -INF, -2.0])} {vec2p([2.0, INF, INF, 2.0])}',
]
CORPUS += [
    # the generic prox_step default, γ ≠ 1, γ_fwd ≠ ±γ, for every functor without its own prox_step
    f'gps l1s {f2h(1.0)} {f2h(0.5)} {f2h(-2.0)} {vec2p([1.0, 2.0, -0.25])} {vec2p([0.5, -1.0, 0.0])}',
    f'gps l1s {f2h(0.0)} {f2h(0.5)} {f2h(-2.0)} {vec2p([1.0, 2.0])} {vec2p([0.5, -1.0])}',          # λ == 0 branch
    f'gps l1v {vec2p([1.0, 0.0, 2.0])} {f2h(0.25)} {f2h(3.0)} {vec2p([1.0, 2.0, -4.0])} {vec2p([0.5, -1.0, 1.5])}',
    f'gps l1v {vec2p([])} {f2h(0.25)} {f2h(3.0)} {vec2p([1.0, 2.0, -4.0])} {vec2p([0.5, -1.0, 1.5])}',  # empty λ → ones
    f'gps cl1s {f2h(1.0)} {f2h(0.5)} {f2h(-2.0)} {vec2p([1.0, 2.0, 3.0, 0.0])} {vec2p([0.5, -1.0, 0.0, -2.0])}',
    f'gps cl1v {vec2p([1.0, 0.5])} {f2h(2.0)} {f2h(0.5)} {vec2p([1.0, 2.0, 3.0, 0.0])} {vec2p([4.0, 4.0, 6.0, 8.0])}',
    f'gps nuc 1 {f2h(1.0)} {f2h(0.5)} {f2h(-2.0)} 2 2 {vec2p([3.0, 0.0, 0.0, 1.0])} {vec2p([0.5, 0.0, 0.0, 0.25])}',
    f'gps nuc 0 {f2h(0.0)} {f2h(0.5)} {f2h(-2.0)} 2 1 {vec2p([1.0, 2.0])} {vec2p([0.5, -1.0])}',
    # L1Norm::prox returned value: λ == 0 branch, empty weight vector
    f'l1s {f2h(0.0)} {f2h(0.5)} {vec2p([1.0, -2.0])}',
    f'l1v {vec2p([])} {f2h(0.5)} {vec2p([1.0, -2.0, 0.25])}',
]
for _op in CORPUS:
    count_inf(_op)


def impl_view(h):
    """What is compared bit for bit with the model: everything before ` # ` (after it: values the
    model does not reproduce bit-exactly — h of the complex norm (hypot) — or the oracle log)."""
    return h.split(' # ')[0]


def driver_input(op, h):
    """The nuclear-norm model is run on the SVD the real code computed (logged by the harness)."""
    if op.startswith('gps nuc '):
        t = op.split()
        head = t[3:]                   # λ γ γ_fwd rows cols in fwd
        main, _, tail = h.partition(' # ')
        if main.startswith('Z '):
            return f'gpsnucpost {" ".join(head)} 0 0 0'
        if main.startswith('S ') and tail.startswith('1 '):
            return f'gpsnucpost {" ".join(head)} {tail[2:]}'
        return 'echo ' + main
    if not op.startswith('nuc '):
        return op
    t = op.split()
    head = t[2:6]                      # λ γ rows cols
    a = ' '.join(t[6:])
    main, _, tail = h.partition(' # ')
    if main.startswith('Z '):
        return f'nucpost {" ".join(head)} {a} 0 0 0'
    if main.startswith('S ') and tail.startswith('1 '):
        return f'nucpost {" ".join(head)} {a} {tail[2:]}'
    return 'echo ' + main             # crash / no U,V: nothing to model (reported by the monitor)


def extra_stage(rep, broken, exe, tier):
    """Infinite-bound coverage of every bound-taking kernel; compile probe: the shipped
    L1NormComplex::prox must instantiate without the harness shim."""
    rep.cov['infinite_bound_ops_per_kind'] = {k: dict(v) for k, v in sorted(INF_COV.items())}
    rep.cov['exemptions_and_observations_by_reason'] = dict(sorted(COUNT.items()))
    rep.cov['op_kinds_monitored'] = dict(sorted(KINDS.items()))
    need = ['pgs', 'inact', 'pmult', 'proj', 'pstep', 'l1s', 'l1v', 'unc', 'cl1s', 'cl1v', 'nuc', 'gps l1s',
            'gps l1v', 'gps cl1s', 'gps cl1v', 'gps nuc', 'gps with γ ≠ 1 and |γ_fwd| ≠ γ']
    lack = [k for k in need if not KINDS.get(k)]
    if exe and lack:
        broken.append('required coverage not reached (op kinds never monitored in this run): ' + ', '.join(lack))
    missing = [f'{k}:{side}' for k in BOUND_KINDS for side in ('-inf', '+inf')
               if not INF_COV.get(k, {}).get(side)]
    if missing:
        rep.violation('the correspondence run exercised no infinite bound for ' + ', '.join(missing) +
                      ' (generator / corpus of checks/c15.py)', {'missing': missing}, False)
    obj, log = C.compile_obj(os.path.join(C.VERIF, 'harness', 'c15_probe_cplx.cpp'))
    rep.cov['l1normcomplex_compiles_unshimmed'] = obj is not None
    if obj is None:
        errs = [l.strip() for l in log.splitlines() if 'error' in l][:2]
        rep.violation('L1NormComplex::prox (functions/l1-norm.hpp) does not compile for either weight type: '
                      'norm_1 requires ColsAtCompileTime == 1 but is called on rcmat / a cwiseProduct of it; the '
                      'shipped complex ℓ1 prox cannot be instantiated (harness runs it through a norm_1 shim). '
                      + ' | '.join(e[-220:] for e in errs),
                      {'probe': 'harness/c15_probe_cplx.cpp', 'errors': errs}, True, key=KEY_CPLX_COMPILE)
    else:
        rep.note('L1NormComplex::prox instantiates without the harness shim')


def replay(r):
    """`checks/replay.py <file>`: re-run the recorded op through the real code, the model, the monitor."""
    op = (r.get('payload') or {}).get('op')
    if not op:
        print('replay: no input recorded:', r.get('what'))
        return 1
    exe, log = C.build_exe('c15', [os.path.join(C.VERIF, 'harness', 'c15.cpp')])
    if exe is None:
        print(log[-2000:])
        return 1
    h, _, _ = C.run_lines(exe, [op])
    print('impl :', h[0] if h else None)
    dexe = C.driver_exe('drv_c15')
    if h and os.path.exists(dexe):
        d, _, _ = C.run_lines(dexe, [driver_input(op, h[0])])
        print('model:', d[0] if d else None)
        print('correspondence:', 'agree' if d and impl_view(h[0]).strip() == d[0].strip() else 'DIFFER')
    m = monitor(op, h[0], {}) if h else 'no output'
    print('monitor:', m or 'quiet')
    return 1 if m else 0


if __name__ == '__main__':
    sys.exit(C.standard_check(
        'C15', sys.argv,
        gen_scripts=['gen_c15.py'], modules=['Alpaqa.Props.C15'], driver='drv_c15',
        extra_sources=['Alpaqa/Model/C15.lean', 'Alpaqa/Model/C15Base.lean', 'Alpaqa/Gen/C15.lean',
                       'Alpaqa/Proofs/Basic.lean', 'Alpaqa/Proofs/C15Lemmas.lean', 'Alpaqa/Proofs/C15Cplx.lean',
                       'Alpaqa/Proofs/C15Nuc.lean',
                       'Alpaqa/Model/Vec.lean', 'Alpaqa/Model/Scalar.lean', 'Driver/C15.lean'],
        harness_name='c15', harness_sources=[os.path.join(C.VERIF, 'harness', 'c15.cpp')],
        gen_ops=gen_ops, monitor=monitor, nontrivial=nontrivial, corpus=CORPUS,
        driver_input=driver_input, impl_view=impl_view, extra_stage=extra_stage,
        n_quick=4000, n_thorough=240000,
        trusted_base=[
            'Lean 4.33 kernel + Mathlib (axioms: propext, Classical.choice, Quot.sound)',
            'gen/cxxparse.py + gen/lean_emit.py + gen/gen_c15.py (translator: componentwise Eigen '
            'expressions of box-constr-problem.hpp, box.hpp, indicator-box.hpp, l1-norm.hpp, '
            'unconstr-problem.hpp; the two soft_thres lambdas and the two return statements of '
            'L1NormComplex::prox; step / singular_values / value / it0 / rank of NuclearNorm::prox, with the '
            'selection + reconstruction statements pinned textually → Lean)',
            'complex numbers in the translator: cplx_t = (re, im) pair, std::complex<T> * T scales both parts, '
            'the int literal 0 in `?:` converts to (0, 0) — confirmed by the bit-exact run on out',
            'hand models Alpaqa/Model/C15.lean (inactive indices, multiplier projection, prox dispatch, '
            'L1NormComplex dispatch incl. the pair-reinterpreting overload, NuclearNorm post-SVD part and '
            'reconstruction order) tied by bit-exact correspondence on the explored inputs only',
            'theorems are over ordered fields (real-number semantics), the complex-ℓ1 ones over ordered fields '
            'with a lawful sqrt (ℝ instance constructed); IEEE rounding not modelled',
            'infinite bounds: the field has no ±inf; the theorems are stated for extended (Option) bounds and '
            'bridged to the generated finite-bound kernels by "every sufficiently far finite stand-in computes '
            'the same" (clamp_far, *_inf); that IEEE ±inf on finite data acts as the absent max / min / '
            'comparison is not a Lean theorem (Float is opaque) — it is what the bit-exact correspondence run '
            'exercises for every bound-taking op kind (coverage.infinite_bound_ops_per_kind, enforced non-zero)',
            'monitors restate the property from the problem data in exact rationals: (i) the unique minimiser by an '
            'independent argmin over the finitely many candidate points (bounds, kink, stationary points) comparing '
            'exact function values, (ii) the optimality condition 0 ∈ ∂h(x̂) + (x̂ − v)/γ evaluated at the RETURNED '
            'point (componentwise subdifferential / normal-cone membership; a point within the rounding of '
            '(bound − x) + x of a bound counts as at the bound), (iii) for the inactive set the definition itself: '
            'exact perturbation of the forward point below half the distance to the nearest breakpoint; sets::project / '
            'prox(Box) are held to EXACT membership and the exact nearest point, x̂ = x + p forms to 2 ulp of '
            'max(|x|, |x̂|) (counted when they leave the box by rounding); h and p are checked for every op kind',
            'the generic default of the prox_step customisation point (prox.hpp) is translated (two assignments, the '
            'call and the return pinned) and executed for L1Norm (scalar / vector), L1NormComplex (both), NuclearNorm '
            'with γ ≠ 1, γ_fwd ≠ ±γ (`gps` ops; a static_assert in the harness shows the default is what runs); Box has '
            'its own overload (`pstep`, now with γ ≠ 1)',
            'Eigen::BDCSVD is an oracle: the model takes σ, U, V as logged from the real run; that U·diag(s)·Vᵀ '
            'is the matrix prox (SVD contract + von Neumann trace inequality) is NOT proved '
            '(nuclear_prox_partial) — the monitor checks it against an independent pure-Python one-sided '
            'Jacobi SVD (checks/c15.py jacobi_svd; no numpy in the check interpreter) and exact closed forms for '
            'permuted-diagonal and rank-one inputs',
            'returned h of L1NormComplex uses std::abs(complex) = hypot: compared by the monitor against the '
            'exact value with a few-ulp tolerance, not bit for bit (model uses sqrt(re²+im²))',
            'harness shim: an extra vec_util::norm_1 overload for non-column expressions is declared before '
            'l1-norm.hpp, because the shipped L1NormComplex::prox does not compile without it (probed '
            'separately; finding ' + KEY_CPLX_COMPILE + ')',
            'nuc ops run in a forked child so that a crash of the real code is an output line',
        ],
        assumptions=['Eigen cwiseMax/cwiseMin = std::max/std::min; harness flags -O1 -ffp-contract=off '
                     '-DEIGEN_DONT_VECTORIZE pin evaluation order',
                     'Eigen evaluates U1*Σ1*V1T below its GEMM threshold as a lazy coefficient product '
                     '(left fold over k) — confirmed by the bit-exact run',
                     'NuclearNorm: non-empty matrices only (Eigen::BDCSVD precondition; rows·cols = 0 crashes '
                     'inside Eigen 3.4.0 and is not generated)',
                     'nuclear-norm theorems: σ sorted non-increasing (BDCSVD contract, re-checked by the monitor '
                     'on every run)'],
        rule='seeded random op lines over {pgs, inact, pmult, proj, pstep, l1s, l1v, unc, cl1s, cl1v, nuc, gps '
             '(generic prox_step default × {l1s, l1v, cl1s, cl1v, nuc})}; required coverage (fails the run): every op '
             'kind, gps with γ ≠ 1 and |γ_fwd| ≠ γ, ±inf bounds per bound-taking kind: '
             'n∈{0..6}, 40% exact-regime dyadic inputs with ties placed on thresholds, infinite / equal '
             'bounds, λ=0 entries; cl1*: 0..4 complex numbers as (re, im) pairs, Pythagorean triples scaled so '
             'that |z| = γλ exactly / just off, zero parts, empty weight vector, both overloads; nuc: both '
             'constructors, 1..4 × 1..4 matrices: permuted diagonal (σ = γλ exactly), rank one, exact rational '
             'orthogonal factors (Householder) with chosen / repeated / on-threshold singular values, random, '
             'zero, λ = 0; fixed corner ops first (complex inputs with |v|² / (γλ)² outside and just inside the '
             'double range); distinct = distinct op lines with n ≥ 1',
    ))
