"""
PANOC-OCP solver-run machinery (C13, and the C03/C05/C06/C19 loop theorems for PANOC-OCP):
generation of polynomial optimal-control problems and parameter sets as `key=value` op lines for
harness/solvers_ocp.cpp, parsing of the harness output, exact re-evaluation (roll-out, cost with
penalty terms, gradient by forward sensitivities) in rational arithmetic.

Importable API:  build_harness(), gen_run(rng, …) -> Op, sweep_ops(rng, exe, n), DRIVER, MODULES,
EXTRA_SOURCES, selftest().
"""
import math
import os
import random
import sys
from fractions import Fraction as Fr

sys.path.insert(0, os.path.dirname(os.path.abspath(__file__)))
import common as C
import solvers as S
from common import f2h, h2f
from solvers import Op, kvvec, T, strip_events, events_only

INF = float('inf')
EPS = 2.0 ** -52

DRIVER = 'drv_loop_ocp'
MODULES = ['Alpaqa.Props.C03_Ocp', 'Alpaqa.Props.C05_Ocp', 'Alpaqa.Props.C06_Ocp', 'Alpaqa.Props.C19_Ocp',
           'Alpaqa.Props.C13']
EXTRA_SOURCES = ['Alpaqa/Model/Ocp.lean', 'Alpaqa/Proofs/OcpInv.lean', 'Alpaqa/Proofs/OcpLoop.lean',
                 'Alpaqa/Proofs/OcpLs.lean', 'Alpaqa/Proofs/OcpFuel.lean', 'Alpaqa/Proofs/OcpTicks.lean',
                 'Alpaqa/Proofs/OcpDescent.lean', 'Alpaqa/Proofs/OcpExample.lean', 'Alpaqa/Proofs/C06Spec.lean',
                 'Alpaqa/Proofs/OcpDoc.lean', 'Alpaqa/Proofs/OcpSized.lean', 'Alpaqa/Proofs/OcpWrite.lean',
                 'Alpaqa/Gen/C05.lean', 'Alpaqa/Gen/C06.lean',
                 'Driver/LoopOcp.lean', 'Driver/ReplayCommon.lean']
GEN_SCRIPTS = ['gen_c05.py', 'gen_c06.py']

LIB_SUBSET = ['inner/panoc-ocp.cpp', 'problem/ocproblem.cpp', 'problem/ocproblem-counters.cpp',
              'accelerators/lbfgs.cpp', 'util/demangled-typename.cpp', 'util/print.cpp',
              'inner/internal/solverstatus.cpp', 'inner/internal/panoc-stop-crit.cpp',
              'problem/problem-counters.cpp', 'util/type-erasure.cpp']
HARNESS_SOURCES = ['solvers_ocp_main.cpp', 'solvers_ocp.cpp']

CRITS = S.CRITS
SUPPORTED = {'ProjGradNorm', 'ProjGradNorm2', 'ProjGradUnitNorm', 'ProjGradUnitNorm2', 'FPRNorm', 'FPRNorm2'}


def build_harness():
    srcs = [os.path.join(C.VERIF, 'harness', s) for s in HARNESS_SOURCES]
    return C.build_exe('solvers_ocp', srcs + C.repo_lib_sources(LIB_SUBSET))


# ------------------------------------------------------------------ problem generation

def dy(rng, lo=-2, hi=2, den=4):
    return rng.randint(lo * den, hi * den) / den


def gen_box(rng, k, kind='mixed'):
    lb, ub = [], []
    for _ in range(k):
        r = rng.random()
        a, b = sorted((dy(rng, -2, 2), dy(rng, -2, 2)))
        if kind == 'finite':
            if a == b:
                b = a + 0.5
            lb.append(a); ub.append(b)
        elif r < 0.15:
            lb.append(-INF); ub.append(b)
        elif r < 0.3:
            lb.append(a); ub.append(INF)
        elif r < 0.4:
            lb.append(-INF); ub.append(INF)
        elif r < 0.47:
            lb.append(a); ub.append(a)
        else:
            lb.append(a); ub.append(b)
    return lb, ub


def gen_problem(rng, *, N=None, nx=None, nu=None, nc=None, ncN=None, hmode=None, hNmode=None,
                bilinear=None):
    N = N if N is not None else rng.choice([1, 2, 3, 5])
    nx = nx if nx is not None else rng.choice([1, 2, 3])
    nu = nu if nu is not None else rng.choice([1, 2, 3])
    nc = nc if nc is not None else rng.choice([0, 0, 1, 2])
    ncN = ncN if ncN is not None else rng.choice([0, 0, 1, 2])
    hmode = hmode if hmode is not None else rng.choice([0, 1, 1, 2])
    hNmode = hNmode if hNmode is not None else rng.choice([0, 1, 1, 2])
    bilinear = rng.random() < 0.4 if bilinear is None else bilinear
    nxu = nx + nu
    nh = {0: 0, 1: nxu}.get(hmode, rng.choice([1, 2, 3]))
    nhN = {0: 0, 1: nx}.get(hNmode, rng.choice([1, 2]))
    nl = nxu if hmode == 0 else nh
    nlN = nx if hNmode == 0 else nhN
    ch = lambda xs: rng.choice(xs)
    A = [ch([-1, -0.5, 0, 0, 0.5, 0.5, 1]) for _ in range(nx * nx)]
    B = [ch([-1, -0.5, 0, 0.5, 1, 1]) for _ in range(nx * nu)]
    E = [ch([0.25, -0.25, 0.5, 0]) if bilinear else 0.0 for _ in range(nx)]
    Hm = [ch([-1, 0, 0.5, 1, 1]) for _ in range(nh * nxu)] if hmode == 2 else []
    HN = [ch([-1, 0, 0.5, 1, 1]) for _ in range(nhN * nx)] if hNmode == 2 else []
    W = [ch([0.25, 0.5, 1, 1, 2, 0]) for _ in range(nl)]
    if hmode != 2:
        for i in range(nx, nxu):        # input weights mostly positive so that R̄ is invertible
            if W[i] == 0 and rng.random() < 0.8:
                W[i] = 0.5
    cl = [dy(rng, -1, 1) for _ in range(nl)]
    WN = [ch([0.5, 1, 2, 4, 0]) for _ in range(nlN)]
    clN = [dy(rng, -1, 1) for _ in range(nlN)]
    Cc = [ch([-1, 0, 0.5, 1]) for _ in range(nc * nx)]
    dc = [ch([0, 0, 0.5, -0.5]) for _ in range(nc)]
    CN = [ch([-1, 0, 0.5, 1]) for _ in range(ncN * nx)]
    dN = [ch([0, 0, 0.5]) for _ in range(ncN)]
    Ulb, Uub = gen_box(rng, nu)
    Dlb, Dub = gen_box(rng, nc)
    DNlb, DNub = gen_box(rng, ncN)
    xinit = [dy(rng, -2, 2) for _ in range(nx)]
    return dict(N=N, nx=nx, nu=nu, nc=nc, ncN=ncN, hmode=hmode, hNmode=hNmode, nh=nh, nhN=nhN, A=A, B=B, E=E,
                xinit=xinit, Hm=Hm, HN=HN, W=W, cl=cl, WN=WN, clN=clN, Cc=Cc, dc=dc, CN=CN, dN=dN, Ulb=Ulb,
                Uub=Uub, Dlb=Dlb, Dub=Dub, DNlb=DNlb, DNub=DNub)


INT_KEYS = ('N', 'nx', 'nu', 'nc', 'ncN', 'hmode', 'hNmode', 'nh', 'nhN')
VEC_KEYS = ('A', 'B', 'E', 'xinit', 'Hm', 'HN', 'W', 'cl', 'WN', 'clN', 'Cc', 'dc', 'CN', 'dN', 'Ulb', 'Uub',
            'Dlb', 'Dub', 'DNlb', 'DNub')


def problem_kv(p):
    d = {k: str(p[k]) for k in INT_KEYS}
    d.update({k: kvvec(p[k]) for k in VEC_KEYS})
    return d


def gen_start(rng, p):
    n = p['N'] * p['nu']
    m = p['N'] * p['nc'] + p['ncN']
    u0 = [dy(rng, -2, 2) for _ in range(n)]
    y0 = [dy(rng, -2, 2) if rng.random() < 0.7 else 0.0 for _ in range(m)]
    mu = [2.0 ** rng.randint(-2, 5) for _ in range(m)]
    return dict(u0=u0, y0=y0, mu=mu)


def gen_run(rng, stop=None, **over):
    pk = {k: over.pop(k) for k in list(over) if k in ('N', 'nx', 'nu', 'nc', 'ncN', 'hmode', 'hNmode',
                                                       'bilinear')}
    p = gen_problem(rng, **pk)
    st = gen_start(rng, p)
    scen = over.pop('scenario', None)
    if scen is None:
        r0 = rng.random()
        scen = 'noprogress' if r0 < 0.03 else 'huge' if r0 < 0.06 else 'plain'
    crit = rng.choice([2, 3, 4, 5, 6, 7] * 5 + [0, 1, 8, 9])
    op = Op({'_op': 'run', 'solver': 'ocp', **problem_kv(p), **{k: kvvec(v) for k, v in st.items()},
             'maxiter': str(rng.choice([0, 1, 2, 3, 5, 20, 60])),
             'tol': f2h(rng.choice([1e-8, 1e-8, 1e-3, 1e-1, 10.0, 0.0])),
             'crit': str(crit), 'maxnp': str(rng.choice([0, 1, 2, 10])),
             'overwrite': str(rng.randint(0, 1)),
             'gnint': str(rng.choice([0, 1, 3, 2])), 'gnsticky': str(rng.randint(0, 1)),
             'resetgn': str(rng.randint(0, 1)), 'chol': str(rng.randint(0, 1)),
             'noaccel': str(rng.choice([0, 0, 0, 0, 1])), 'mem': str(rng.choice([1, 2, 5])),
             'L0': f2h(rng.choice([0.0, 0.0, 1.0, 64.0, 2.0 ** -8])),
             'Lmax': f2h(rng.choice([1e20] * 5 + [8.0, 64.0])),
             'minls': f2h(rng.choice([1. / 256, 1. / 256, 0.25])),
             'stopat': '0', 'stopcb': '0', 'oot': str(rng.choice([0] * 24 + [1]))})
    if scen == 'noprogress':
        # inputs so large that u + p == u although ‖p‖ > tol: B = 0, no input weights, constant input
        # gradient cl_u, no bounds, u0 = ±2^80  → the iterate cannot change, `no_progress` counts up
        nx, nu, N = p['nx'], p['nu'], p['N']
        p2 = dict(p, B=[0.0] * (nx * nu), E=[0.0] * nx, Ulb=[-INF] * nu, Uub=[INF] * nu)
        if p['hmode'] != 2:
            W = list(p['W']); cl = list(p['cl'])
            for i in range(nx, nx + nu):
                W[i] = 0.0; cl[i] = rng.choice([0.25, -0.5, 1.0])
            p2['W'] = W; p2['cl'] = cl
        op.update(problem_kv(p2))
        op['u0'] = kvvec([rng.choice([-1, 1]) * 2.0 ** 80 for _ in range(N * nu)])
        op['maxnp'] = str(rng.choice([1, 2])); op['maxiter'] = str(rng.choice([5, 20]))
        op['tol'] = f2h(1e-8)
    elif scen == 'huge':
        n = p['N'] * p['nu']
        op['u0'] = kvvec([rng.choice([1e200, -1e200, 1e160, 1.0]) for _ in range(n)])
    if stop is None:
        r = rng.random()
        if r < 0.25:
            op['stopat'] = str(rng.randint(1, 150))
        elif r < 0.32:
            op['stopcb'] = str(rng.randint(1, 5))
    for k, v in over.items():
        op[k] = str(v)
    return op


@C.tolerant
def sweep_ops(rng, exe, n_problems, **over):
    """Exhaustive stop injection: for fixed runs, `stop()` during every event index."""
    ops = []
    for i in range(n_problems):
        kw = dict(stop=False, maxiter=rng.choice([2, 3, 4]), oot=0, trace=0,
                  N=rng.choice([1, 2, 3]), crit=rng.choice([2, 3, 4, 5, 6, 7]))
        if i == 0:      # many initial step-size backtracks: stop() lands inside that loop
            kw.update({k: v for k, v in S.init_sweep_overrides(rng).items() if k != 'Lmin'})
            kw['scenario'] = 'plain'
        kw.update(over)
        base = gen_run(rng, **kw)
        out, rc, err = C.run_lines(exe, [base.line()])
        if rc != 0 or not out:
            continue
        r = parse_out(out[0])
        Tk = r.get('ticks', 0)
        base.pop('trace')
        for t in range(1, Tk + 1):
            o = Op(base); o['stopat'] = str(t)
            ops.append(o.line())
    return ops


@C.tolerant
def tie_ops(rng, exe, n):
    """Runs whose tolerance equals the ε reported at some loop head exactly (tie on `ε <= tolerance`)."""
    ops = []
    base = [gen_run(rng, stop=False, scenario='plain', oot=0, trace=0, tol=f2h(1e-300),
                    crit=rng.choice([2, 3, 4, 5, 6, 7]), maxiter=rng.choice([3, 5, 20])) for _ in range(n)]
    out, rc, err = C.run_lines(exe, [b.line() for b in base])
    for b, h in zip(base, out):
        r = parse_out(h)
        eps = [cb['eps'] for cb in r['cbs'] if math.isfinite(cb['eps']) and cb['eps'] > 0]
        if not eps:
            continue
        b.pop('trace')
        o = Op(b); o['tol'] = f2h(rng.choice(eps))
        ops.append(o.line())
    return ops


# ------------------------------------------------------------------ output parsing

def parse_out(line):
    secs = [s.strip() for s in line.split(' ; ')]
    r = {'cbs': [], 'events': [], 'flags': [], 'K': []}
    for s in secs:
        toks = s.split()
        if not toks:
            continue
        t = T(toks[1:])
        if toks[0] == 'S':
            if toks[1] == 'exception':
                r['stats'] = {'status': 'exception', 'what': toks[2] if len(toks) > 2 else ''}
                continue
            st = {'status': t.tok(), 'iterations': t.nat(), 'eps': t.flt()}
            for k in ('ls_failures', 'ls_backtracks', 'stepsize_backtracks', 'lbfgs_failures',
                      'lbfgs_rejected', 'tau1', 'count_tau'):
                st[k] = t.nat()
            for k in ('sum_tau', 'final_gamma', 'final_psi', 'final_h', 'final_fbe'):
                st[k] = t.flt()
            r['stats'] = st
        elif toks[0] == 'O':
            r['out'] = {'untouched': t.tok() == '1', 'u': t.vec(), 'y': t.vec(), 'errz': t.vec()}
        elif toks[0] == 'T':
            r['ticks'] = t.nat()
        elif toks[0] == 'CB':
            cb = {'k': t.nat(), 'status': t.tok(), 'u': t.vec(), 'xu': t.vec(), 'p': t.vec(), 'pTp': t.flt(),
                  'uhat': t.vec(), 'xuhat': t.vec(), 'fbe': t.flt(), 'psi': t.flt(), 'grad_psi': t.vec(),
                  'psi_hat': t.flt(), 'q': t.vec(), 'gn': t.tok() == '1', 'nJ': int(t.tok()),
                  'rcond': t.flt(), 'L': t.flt(), 'gamma': t.flt(), 'tau': t.flt(), 'eps': t.flt()}
            r['cbs'].append(cb)
        elif toks[0] == 'K':
            r['K'].append({'k': t.nat(), 'x_api': t.vec(), 'x_true': t.vec()})
        elif toks[0] == 'EV':
            r['events'].append(toks[1:])
        else:
            r['flags'].append(toks[0])
    return r


# ------------------------------------------------------------------ oracle-event bound after stop() (C19)

def tick_units(op):
    """The model's tick units (Model/Ocp.lean: Prob.fwdTicks / fsimTicks / bwdTicks / gnTicks) and the constants of
    `Props/C19_Ocp.ocp_ticks_after_stop` for the problem of an op line."""
    N, nh, nc, nhN, ncN = (op.nat(k, 0) for k in ('N', 'nh', 'nc', 'nhN', 'ncN'))
    b = lambda v: 1 if v > 0 else 0
    fwd = N * (b(nh) + 1 + b(nc) + 1) + b(nhN) + 1 + b(ncN)
    fsim = N * (b(nh) + b(nc) + 1) + b(nhN) + b(ncN)
    bwd = 1 + b(ncN) + N * (2 + b(nc))
    c = b(nc + ncN)
    gn = N + (1 + c) + 3 * N + (N - 1 if N > 0 else 0) * (2 + c)
    return dict(fwd=fwd, fsim=fsim, bwd=bwd, gn=gn, poll_gap=max(gn, 3, 2 * fwd + bwd),
                init=4 + 2 * fwd + 2 * bwd + fsim)


def tick_bound(op_line, out_line):
    """`ocp_ticks_after_stop` on a real run: if stop() landed during event t0 (a poll at tick t sees the flag iff
    t ≥ t0), the run made at most max(initTicks + 1, t0 + pollGap) calls.  -> None | message."""
    op = Op.parse(op_line)
    r = parse_out(out_line)
    if r.get('stats', {}).get('status') in (None, 'exception'):
        return None
    t0 = next((int(e[1]) for e in r['events'] if e and e[0] == 'stoptick'), None)
    if t0 is None:
        return None
    u = tick_units(op)
    bound = max(u['init'] + 1, t0 + u['poll_gap'])
    if r.get('ticks', 0) > bound:
        return (f'stop() landed at event {t0} but the solve made {r["ticks"]} calls > '
                f'max(initTicks + 1, t0 + pollGap) = {bound} (pollGap = {u["poll_gap"]}, initTicks = {u["init"]})')
    return None


# ------------------------------------------------------------------ exact OCP (rational arithmetic)

def frv(v):
    return [Fr(a) for a in v]


class ExactOCP:
    """The polynomial OCP of an op line, evaluated exactly: roll-out from x_init, augmented-Lagrangian cost
    ψ(u) = Σ ℓ(h(x_t,u_t)) + ℓ_N(h_N(x_N)) + ½ Σ_t dist²_μ(c(x_t)+y_t/μ_t, D) + ½ dist²_μ(c_N(x_N)+…, D_N),
    and its exact gradient by forward sensitivities (no finite differences)."""

    def __init__(self, op: Op):
        for k in INT_KEYS:
            setattr(self, k, op.nat(k))
        for k in VEC_KEYS:
            setattr(self, k, frv(op.vec(k)) if not k.endswith(('lb', 'ub')) else op.vec(k))
        self.nxu = self.nx + self.nu
        self.nl = self.nxu if self.hmode == 0 else self.nh
        self.nlN = self.nx if self.hNmode == 0 else self.nhN
        self.n = self.N * self.nu
        self.m = self.N * self.nc + self.ncN

    def Jh(self, r, c):
        return self.Hm[r * self.nxu + c] if self.hmode == 2 else Fr(1 if r == c else 0)

    def JhN(self, r, c):
        return self.HN[r * self.nx + c] if self.hNmode == 2 else Fr(1 if r == c else 0)

    def f(self, x, u):
        nx, nu = self.nx, self.nu
        return [sum(self.A[i * nx + j] * x[j] for j in range(nx)) + sum(self.B[i * nu + k] * u[k] for k in range(nu))
                + self.E[i] * x[i] * u[i % nu] for i in range(nx)]

    def jac(self, x, u):
        nx, nu = self.nx, self.nu
        Ax = [[self.A[i * nx + j] + (self.E[i] * u[i % nu] if i == j else 0) for j in range(nx)] for i in range(nx)]
        Bu = [[self.B[i * nu + k] + (self.E[i] * x[i] if k == i % nu else 0) for k in range(nu)] for i in range(nx)]
        return Ax, Bu

    def stage_cost_grad(self, x, u):
        xu = list(x) + list(u)
        h = [sum(self.Jh(r, c) * xu[c] for c in range(self.nxu)) for r in range(self.nl)]
        l = sum(self.W[i] * h[i] * h[i] / 2 + self.cl[i] * h[i] for i in range(self.nl))
        gl = [self.W[i] * h[i] + self.cl[i] for i in range(self.nl)]
        g = [sum(self.Jh(r, c) * gl[r] for r in range(self.nl)) for c in range(self.nxu)]
        return l, g[:self.nx], g[self.nx:]

    def term_cost_grad(self, x):
        h = [sum(self.JhN(r, c) * x[c] for c in range(self.nx)) for r in range(self.nlN)]
        l = sum(self.WN[i] * h[i] * h[i] / 2 + self.clN[i] * h[i] for i in range(self.nlN))
        gl = [self.WN[i] * h[i] + self.clN[i] for i in range(self.nlN)]
        return l, [sum(self.JhN(r, c) * gl[r] for r in range(self.nlN)) for c in range(self.nx)]

    @staticmethod
    def constr(Cm, d, m, nx, x):
        xx = sum(a * a for a in x)
        return [sum(Cm[j * nx + i] * x[i] for i in range(nx)) + d[j] * xx / 2 for j in range(m)]

    @staticmethod
    def proj(v, lb, ub):
        if lb != -INF and v < Fr(lb):
            return Fr(lb)
        if ub != INF and v > Fr(ub):
            return Fr(ub)
        return v

    def penalty(self, Cm, d, m, lb, ub, x, y, mu):
        """½ dist²_μ(c + y/μ, D) and its x-gradient; also returns c."""
        nx = self.nx
        c = self.constr(Cm, d, m, nx, x)
        val = Fr(0)
        gx = [Fr(0)] * nx
        for j in range(m):
            z = c[j] + y[j] / mu[j]
            e = z - self.proj(z, lb[j], ub[j])
            val += mu[j] * e * e / 2
            for i in range(nx):
                gx[i] += (Cm[j * nx + i] + d[j] * x[i]) * mu[j] * e
        return val, gx, c

    def rollout(self, u):
        """states x_0..x_N for the flat input sequence u (Fractions)."""
        xs = [list(self.xinit)]
        for t in range(self.N):
            xs.append(self.f(xs[-1], u[t * self.nu:(t + 1) * self.nu]))
        return xs

    def psi_grad(self, u, y, mu):
        """(ψ(u), ∇ψ(u), xs, [c_0..c_{N-1}], c_N) exactly."""
        N, nx, nu, nc = self.N, self.nx, self.nu, self.nc
        n = N * nu
        xs = self.rollout(u)
        Sx = [[Fr(0)] * n for _ in range(nx)]     # ∂x_t/∂u
        psi = Fr(0)
        g = [Fr(0)] * n
        cs = []
        for t in range(N):
            ut = u[t * nu:(t + 1) * nu]
            l, gx, gu = self.stage_cost_grad(xs[t], ut)
            psi += l
            if nc:
                pv, pgx, c = self.penalty(self.Cc, self.dc, nc, self.Dlb, self.Dub, xs[t], y[t * nc:(t + 1) * nc],
                                          mu[t * nc:(t + 1) * nc])
                psi += pv
                gx = [a + b for a, b in zip(gx, pgx)]
                cs.append(c)
            else:
                cs.append([])
            for j in range(n):
                g[j] += sum(gx[i] * Sx[i][j] for i in range(nx))
            for k in range(nu):
                g[t * nu + k] += gu[k]
            Ax, Bu = self.jac(xs[t], ut)
            Sn = [[sum(Ax[i][l2] * Sx[l2][j] for l2 in range(nx)) for j in range(n)] for i in range(nx)]
            for i in range(nx):
                for k in range(nu):
                    Sn[i][t * nu + k] += Bu[i][k]
            Sx = Sn
        l, gx = self.term_cost_grad(xs[N])
        psi += l
        cN = []
        if self.ncN:
            pv, pgx, cN = self.penalty(self.CN, self.dN, self.ncN, self.DNlb, self.DNub, xs[N], y[N * nc:],
                                       mu[N * nc:])
            psi += pv
            gx = [a + b for a, b in zip(gx, pgx)]
        for j in range(n):
            g[j] += sum(gx[i] * Sx[i][j] for i in range(nx))
        return psi, g, xs, cs, cN

    def proj_step(self, gamma, u, g):
        """p = Π_U(u − γ g) − u, componentwise (exact)."""
        p = []
        for j in range(self.n):
            i = j % self.nu
            v = u[j] - gamma * g[j]
            p.append(self.proj(v, self.Ulb[i], self.Uub[i]) - u[j])
        return p


# ------------------------------------------------------------------ replay helpers

def driver_input(op_line, harness_out):
    return op_line + ' || ' + events_only(harness_out)


def replay(exe, drv, ops, show=3, out=sys.stdout):
    """Run ops through harness and driver; returns (n, n_bad, harness outputs)."""
    hout, rc, err = C.run_lines(exe, ops)
    if rc != 0 or len(hout) != len(ops):
        print('harness rc', rc, err[-800:], file=out)
    dops = [driver_input(o, h) for o, h in zip(ops, hout)]
    dout, rc, err = C.run_lines(drv, dops)
    if rc != 0:
        print('driver rc', rc, err[-800:], file=out)
    bad = 0
    for i, (o, h) in enumerate(zip(ops, hout)):
        d = dout[i] if i < len(dout) else '<missing>'
        hs = strip_events(h)
        if hs != d.strip():
            bad += 1
            if bad <= show:
                print('MISMATCH', i, o[:3000], file=out)
                a = hs.split(' ; '); b = d.split(' ; ')
                for k, (x, y) in enumerate(zip(a, b)):
                    if x != y:
                        print(' sec', k, file=out); print('  H', x[:1800], file=out); print('  M', y[:1800], file=out)
                        break
                if len(a) != len(b):
                    print(' nsec', len(a), len(b), a[-1][:300], '|||', b[-1][:300], file=out)
    return len(ops), bad, hout


def selftest(n=40, seed=1):
    exe, log = build_harness()
    assert exe, log
    drv = C.driver_exe(DRIVER)
    rng = random.Random(seed)
    ops = [gen_run(rng).line() for _ in range(n)]
    tot, bad, hout = replay(exe, drv, ops)
    import collections
    print('total', tot, 'bad', bad, collections.Counter(parse_out(h)['stats']['status'] for h in hout))
    return bad == 0


if __name__ == '__main__':
    a = sys.argv[1:]
    sys.exit(0 if selftest(int(a[1]) if len(a) > 1 else 40, int(a[0]) if a else 1) else 1)
