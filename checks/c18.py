#!/usr/bin/env python3
"""C18 — parameter strings set exactly the addressed field, or are rejected.  See DESIGN.md §6 C18.

Flow: translator (gen/gen_c18.py: Lean tables + C++ leaf walkers, from the working tree) →
`lake build` of the table theorems (decide) and the model theorems → harness (real
`alpaqa::params::set_params`, library TUs compiled from the working tree) vs Lean driver (model over
the generated tables) on the same op lines → monitors (the property restated in Python, from the
struct *definitions* only — never from the PARAMS tables or the model).
"""
import collections
import math
import os
import re
import struct
import sys
from fractions import Fraction as Fr

sys.path.insert(0, os.path.dirname(os.path.abspath(__file__)))
sys.path.insert(0, os.path.join(os.path.dirname(os.path.dirname(os.path.abspath(__file__))), 'gen'))
import common as C
import gen_c18

HARNESS_SRC = os.path.join(C.VERIF, 'harness', 'c18.cpp')
LIB_TUS = ['params/params.cpp', 'util/demangled-typename.cpp', 'util/io/csv.cpp']

LEAF_TOPS = {
    'bool': ('bool',), 'f64': ('real',),
    'i8': ('int', -128, 127), 'u8': ('int', 0, 255), 'i16': ('int', -2 ** 15, 2 ** 15 - 1),
    'u16': ('int', 0, 2 ** 16 - 1), 'i32': ('int', -2 ** 31, 2 ** 31 - 1), 'u32': ('int', 0, 2 ** 32 - 1),
    'i64': ('int', -2 ** 63, 2 ** 63 - 1), 'u64': ('int', 0, 2 ** 64 - 1),
    'ns': ('dur', 1), 'us': ('dur', 10 ** 3), 'ms': ('dur', 10 ** 6), 's': ('dur', 10 ** 9),
    'min': ('dur', 60 * 10 ** 9), 'h': ('dur', 3600 * 10 ** 9), 'vec': ('vec',),
    # params::vec_from_file with expected_size -1 (any size) / 2; flavour D: value disengaged, P: [1.5, 2.5]
    'vff': ('vff', -1), 'vff2': ('vff', 2),
}

# ---------------------------------------------------------------- bookkeeping shared by monitor and extra_stage
COVER = set()                            # classes the monitor actually decided in this run
EXEMPT = collections.Counter()           # narrowed exemptions, by reason
FILL = {'on': False}                     # coverage is recorded for the primary run only (not the search runs)


def cover(*key):
    if FILL['on']:
        COVER.add(key)
UNITS = {'h': 3600 * 10 ** 9, 'min': 60 * 10 ** 9, 's': 10 ** 9, '': 10 ** 9, 'ms': 10 ** 6,
         'us': 10 ** 3, 'µs': 10 ** 3, 'ns': 1}          # SI, what the documentation promises


def hx(s):
    return s.encode('utf8').hex() if s else '-'


def unhx(h):
    return '' if h == '-' else bytes.fromhex(h).decode('utf8')


# ---------------------------------------------------------------- metadata from the struct definitions

class Meta:
    """Documented fields: from the struct / enum *definitions* in the headers (translator's parse)."""

    def __init__(self):
        self.strict_error = None
        try:
            _, d = gen_c18.main()
        except gen_c18.cp.TranslationError as e:
            # tables not translatable: the tie is broken (reported by the proof stage); the real
            # code can still be run and monitored from the struct definitions alone
            self.strict_error = e
            d = gen_c18.harness_only()
        self.d = d
        self.sdef = {s['name']: s for s in d['structs']}
        self.edef = {e['name']: e for e in d['enums']}
        self.tops = [i for i in d['inst'] if i in self.sdef]
        self.enum_tops = [i for i in d['inst'] if i in self.edef and '::' not in i]   # nested: via its struct
        self.leafinfo = {}
        self.nodes = {}
        for t in self.tops:
            li, nodes = {}, set()
            self._walk(t, '', li, nodes)
            self.leafinfo[t] = li
            self.nodes[t] = nodes
        for e in self.enum_tops:
            self.leafinfo[e] = {'': ('enum', e)}
            self.nodes[e] = set()
        for k, v in LEAF_TOPS.items():
            self.leafinfo[k] = {'': v}
            self.nodes[k] = set()

    def _walk(self, sname, prefix, li, nodes):
        for n, ty, k in self.sdef[sname]['fields']:
            if k[0] == 'struct':
                nodes.add(prefix + n)
                self._walk(k[1], prefix + n + '.', li, nodes)
            elif k[0] == 'opaque' and k[1].startswith('enum '):
                le = dict(self.sdef[sname]['local_enums'])[k[1][5:]]
                li[prefix + n] = ('localenum', sname + '.' + n, le)
            else:
                li[prefix + n] = k

    def enumerators(self, ename):
        return self.edef[ename]['enumerators']


# ---------------------------------------------------------------- from_chars contract (oracle for the driver)

RE_REAL = re.compile(r'-?(?:(?:\d+\.?\d*|\.\d+)(?:[eE][+-]?\d+)?|[iI][nN][fF](?:[iI][nN][iI][tT][yY])?|'
                     r'[nN][aA][nN](?:\([A-Za-z0-9_]*\))?)')


def from_chars_real(s):
    """libstdc++ `std::from_chars(double, chars_format::general)` as documented: longest valid
    prefix, correctly rounded, `result_out_of_range` on overflow / underflow to zero."""
    m = RE_REAL.match(s)
    if not m:
        return ('inv',)
    txt = m.group(0)
    low = txt.lower().lstrip('-')
    if low.startswith('nan'):
        return ('ok', math.nan, len(s) - m.end())
    if low.startswith('inf'):
        return ('ok', -math.inf if txt[0] == '-' else math.inf, len(s) - m.end())
    v = float(txt)
    mant = re.split(r'[eE]', low)[0]
    if math.isinf(v) or (v == 0 and re.search(r'[1-9]', mant)):
        return ('rng',)
    return ('ok', v, len(s) - m.end())


def oracle_entries(strings):
    out = []
    seen = set()
    for s in strings:
        if s in seen:
            continue
        seen.add(s)
        r = from_chars_real(s)
        if r[0] == 'ok':
            out.append(f'{hx(s)} ok:{C.f2h(r[1])}:{r[2]}')
        else:
            out.append(f'{hx(s)} {r[0]}')
    return out


def tok_real(v):
    return 'r' + C.f2h(v)


def csv_first_row_tokens(content):
    """What the CSV reader is documented to hand to from_chars for the files this check writes:
    the fields of the first line, separated by ','.  (Reader details — comments, trailing
    separators, line ends — are property C17 and are not generated here.)"""
    line = content.split('\n')[0]
    return line.split(',') if line != '' else []


def parse_op(op):
    t = op.split()
    top, fl, n = t[1], t[2], int(t[3])
    pre = [(unhx(t[4 + 2 * i]), t[5 + 2 * i]) for i in range(n)]
    p = 4 + 2 * n
    prefix = unhx(t[p]); k = int(t[p + 1])
    opts = [unhx(x) for x in t[p + 2:p + 2 + k]]
    q = p + 2 + k
    files = {}
    if q < len(t):
        m = int(t[q]); q += 1 + 2 * m
        if q < len(t):
            f = int(t[q]); q += 1
            for i in range(f):
                files[unhx(t[q + 3 * i])] = unhx(t[q + 3 * i + 1])
    return top, fl, pre, prefix, opts, files


# ---------------------------------------------------------------- op construction

class Ctx:
    def __init__(self, meta, pre):
        self.meta = meta
        self.pre = pre            # (top, flavour) -> [(path, tok)]

    def op(self, top, flavour, prefix, opts, files=()):
        """files: (name, content) pairs created for the op (`@name`); anything else does not exist"""
        pre = self.pre[(top, flavour)]
        li = self.meta.leafinfo[top]
        need = []
        for o in opts:
            key, _, val = o.partition('=')
            pfx, _, rest = key.partition('.')
            k = li.get(rest) or li.get(rest.rstrip('.'))
            if top == 'vec':
                k = ('vec',)
            need.append(val)          # cheap; covers keys that resolve differently in the model
            if k is None:
                continue
            if k[0] == 'real':
                pass
            elif k[0] in ('vec', 'vff'):
                need += val.split(',')
            elif k[0] == 'dur':
                need += [val[i:] for i in range(len(val))]
        fsec = []
        for name, content in files:
            toks = csv_first_row_tokens(content)
            need += toks
            fsec.append(f'{hx(name)} {hx(content)} row:' + ','.join(hx(t) for t in toks))
        orc = oracle_entries(need)
        return ' '.join(['set', top, flavour, str(len(pre))] + [f'{hx(p)} {v}' for p, v in pre] +
                        [hx(prefix), str(len(opts))] + [hx(o) for o in opts] + [str(len(orc))] + orc +
                        [str(len(fsec))] + fsec)


def rnd_real_text(rng):
    k = rng.random()
    if k < 0.25:
        return str(rng.randint(-1000, 1000))
    if k < 0.45:
        return repr(rng.randint(-4000, 4000) / 8.0)
    if k < 0.6:
        return repr(rng.gauss(0, 1) * 10 ** rng.uniform(-12, 12))
    if k < 0.7:
        return '%de%d' % (rng.randint(1, 99), rng.randint(-30, 30))
    if k < 0.78:
        return '%.17g' % (rng.random() * 10 ** rng.randint(-5, 5))
    return rng.choice(['.5', '5.', '-0', '0', 'inf', '-inf', 'nan', '1e308', '1E-6', '0.1', '1e-300',
                       '0012.50', '-.25e+2', 'infinity', '1.7976931348623157e308', '4.9e-324'])


def rnd_int_text(rng, lo, hi):
    k = rng.random()
    if k < 0.15:
        v = lo
    elif k < 0.3:
        v = hi
    elif k < 0.4:
        v = 0
    elif k < 0.7:
        v = rng.randint(max(lo, -1000), min(hi, 1000))
    else:
        v = rng.randint(lo, hi)
    s = str(v)
    if rng.random() < 0.1 and v >= 0:
        s = '00' + s
    return s


DUR_NUMS = ['0', '1', '2', '5', '30', '90', '500', '1500', '2500', '1.5', '2.5', '0.5', '0.25', '12.5', '1e3', '1e-3',
            '501', '499', '3', '7', '10', '100', '1234', '0.001', '60', '2.5e2', '-1', '-1.5', '-2.5']


def rnd_dur_text(rng, zero_ok=False):
    n = rng.choice([1, 1, 1, 2, 2, 3])
    parts = []
    for i in range(n):
        num = rng.choice(DUR_NUMS) if rng.random() < 0.8 else repr(round(rng.random() * 10 ** rng.randint(0, 4), rng.randint(0, 6)))
        unit = rng.choice(['h', 'min', 's', 'ms', 'us', 'µs', 'ns'] + ([''] if i == n - 1 else []))
        parts.append(num + unit)
    sep = rng.choice(['', ' ', '+', '  '])
    s = sep.join(parts)
    if rng.random() < 0.1:
        s += ' '
    return s


DUR_FIXED = ['1min30s', '500ms', '1.5h', '0s', '0ms', '1min0s', '1e30h', 'inf', 'nan', '0', '1min 12s 13ms',
             '1min+12s+13ms', '1.5min+12.5s+13ms', '501µs', '500us', '1500us', '2500us', '1min    ', '5',
             '1h1min1s1ms1us1ns', '-1.5s', '90min', '30min', '150min', '0.5ns', '1.5ns', '2.5ns', '1e-10s',
             '9e18ns', '1e19ns', '2562047h', '-inf', '1e400s', '10s', '100ms', '0.5s', '00', '1h0min', '2s0ms',
             '9e18ns9e18ns', '-9e18ns-9e18ns', '9e18ns-9e18ns', '2562047h48min', '-9.3e18ns', '0.0s', '000.5s', '0h0min0s']
DUR_BAD = ['5 parsecs', '5parsecs', '1min5parsecs', 'abc', '5m', '5sec', '5 s', 's', 'ms5', '1min30x', '5e', '--5s',
           '1,5s', '5S', '5Ms']


def valid_value(rng, meta, kind):
    if kind[0] == 'bool':
        return rng.choice(['0', '1', 'true', 'false'])
    if kind[0] == 'int':
        return rnd_int_text(rng, kind[1], kind[2])
    if kind[0] == 'real':
        return rnd_real_text(rng)
    if kind[0] == 'enum':
        return rng.choice([n for n, _, _ in meta.enumerators(kind[1])])
    if kind[0] == 'localenum':
        return rng.choice([n for n, _, _ in kind[2]])
    if kind[0] == 'dur':
        return rnd_dur_text(rng)
    if kind[0] == 'vec':
        return ','.join(rnd_real_text(rng) for _ in range(rng.randint(1, 4)))
    if kind[0] == 'vff':
        n = kind[1] if kind[1] >= 0 else rng.randint(1, 4)
        return ','.join(rnd_real_text(rng) for _ in range(n))
    return '1'


def malformed_values(rng, meta, kind):
    """(value, …) clearly malformed for the kind, per the property's list."""
    if kind[0] == 'bool':
        return ['yes', 'TRUE', '2', '', '1x', 'true ']
    if kind[0] == 'int':
        lo, hi = kind[1], kind[2]
        return ['12abc', '1.5', '99999999999999999999', str(hi + 1), str(lo - 1), '', '+1', ' 1', 'x', '0x10', '1e3', '-']
    if kind[0] == 'real':
        return ['1.5x', '1e999', '-1e999', '1e-400', '', 'abc', ' 1', '+1', '1e', '0x10', '1,5', '1.5 ', '--1']
    if kind[0] == 'enum':
        names = [n for n, _, _ in meta.enumerators(kind[1])]
        return ['Nope', names[0].lower(), names[0] + 'x', '', '0', ' ' + names[0]]
    if kind[0] == 'localenum':
        return ['Nope', '']
    if kind[0] == 'dur':
        return list(DUR_BAD)
    if kind[0] == 'vec':
        return ['1,2,x', '', '1,,2', '1,2,', '1.5x', '1e999,2', '3,1e999', 'a,b']
    if kind[0] == 'vff':
        return ['3,x', '', '1,,2', '1,2,', '1.5x,2', '1e999,2', 'a,b', '@', '@nofile.csv'] + \
               (['4,5,6', '4', '1,2,3,4'] if kind[1] >= 0 else [])
    return []


def gen_ops_factory(meta, ctx):
    def per_leaf_ops(rng, top, path, kind, thorough_mult):
        ops = []
        key = 'p' + ('.' + path if path else '')
        for fl in 'DP':
            for _ in range(thorough_mult):
                ops.append(ctx.op(top, fl, 'p', [f'{key}={valid_value(rng, meta, kind)}']))
        if kind[0] in ('enum', 'localenum'):
            names = meta.enumerators(kind[1]) if kind[0] == 'enum' else kind[2]
            for n, _, _ in names:
                ops.append(ctx.op(top, rng.choice('DP'), 'p', [f'{key}={n}']))
        if kind[0] == 'dur':
            for v in DUR_FIXED:
                ops.append(ctx.op(top, rng.choice('DP'), 'p', [f'{key}={v}']))
        if kind[0] == 'vec':
            # required classes of the vec kind must not depend on the seed: one- and multi-element vectors
            for fl in 'DP':
                for v in ('2.5', '1,2', '1.5,-2,3e0'):
                    ops.append(ctx.op(top, fl, 'p', [f'{key}={v}']))
        bad = malformed_values(rng, meta, kind)
        for v in bad:
            ops.append(ctx.op(top, rng.choice('DP'), 'p', [f'{key}={v}']))
        val = valid_value(rng, meta, kind)
        fl = rng.choice('DP')
        if kind[0] != 'vec':
            ops.append(ctx.op(top, fl, 'p', [f'{key}.sub={val}']))          # index into a scalar
            ops.append(ctx.op(top, fl, 'p', [f'{key}.={val}']))
        ops.append(ctx.op(top, fl, 'p', [f'{key}_x={val}']))                 # unknown key
        ops.append(ctx.op(top, fl, 'p', [f'{key}x={val}']))
        ops.append(ctx.op(top, fl, 'p', [f'{key}']))                         # no '=' → empty value
        # other prefixes ignored, used counted per option
        ops.append(ctx.op(top, fl, 'p', [f'q{key[1:]}={val}', f'pp{key[1:]}={val}', f'{key}={val}',
                                         f'.{key}={val}', f'P{key[1:]}={val}', f'{key}={val}']))
        ops.append(ctx.op(top, fl, 'other', [f'{key}={val}']))
        ops.append(ctx.op(top, fl, '', [f'{key[1:]}={val}', f'{key}={val}']))
        # a first key component that properly extends (or is a proper prefix of) the requested
        # prefix is a different prefix: solverx.… / solver2=… / solver_x.… / solve.… with `solver`
        # (also with keys / values that would be rejected if the option were applied)
        sk = 'solver' + key[1:]
        ops.append(ctx.op(top, fl, 'solver', [f'solverx{key[1:]}={val}', f'{sk}={val}', f'solver2={val}',
                                              f'solverx.nokey={val}', f'solverx{key[1:]}=\x01bad',
                                              f'solve{key[1:]}={val}', f'solver_x{key[1:]}={val}',
                                              f'solver={val}x' if path else f'solver.sub={val}',
                                              f'{sk}={val}']))
        ops.append(ctx.op(top, fl, 'solverx', [f'{sk}={val}', f'solverx{key[1:]}={val}', f'solverxx{key[1:]}={val}']))
        # an exception after options that were applied: state = effect of the options before it
        if bad:
            ops.append(ctx.op(top, fl, 'p', [f'{key}={val}', f'{key}={bad[0]}', f'{key}={val}']))
        if kind[0] == 'vff':
            ops += vff_ops(rng, top, kind, key)
        return ops

    def vff_ops(rng, top, kind, key):
        """vec_from_file: the `@file` form (file contents travel in the op) and the fixed corpus
        that reproduced the (fixed) finding C18-vec_from_file-half-write (direct form)."""
        ops = []
        n = kind[1] if kind[1] >= 0 else 3
        good = ','.join(str(7 + i) for i in range(n)) + '\n'
        for fl in 'DP':
            # direct form, fixed corpus (reproducer of the fixed half-write: rejected element / wrong size)
            ops.append(ctx.op(top, fl, 'p', [f'{key}=3,x']))
            ops.append(ctx.op(top, fl, 'p', [f'{key}=' + ','.join('456'[:n])]))
            if kind[1] >= 0:
                ops.append(ctx.op(top, fl, 'p', [f'{key}=4,5,6']))
                ops.append(ctx.op(top, fl, 'p', [f'{key}=1,2', f'{key}=4,5,6', f'{key}=8,9']))
            ops.append(ctx.op(top, fl, 'p', [f'{key}=1,2', f'{key}=3,x', f'{key}=8,9']))
            # @file form
            ops.append(ctx.op(top, fl, 'p', [f'{key}=@row.csv'], [('row.csv', good)]))
            ops.append(ctx.op(top, fl, 'p', [f'{key}=@row.csv'], [('row.csv', good + '1,2\n')]))
            ops.append(ctx.op(top, fl, 'p', [f'{key}=@row.csv'], [('row.csv', good.rstrip('\n'))]))
            ops.append(ctx.op(top, fl, 'p', [f'{key}=@nofile.csv'], [('row.csv', good)]))
            ops.append(ctx.op(top, fl, 'p', [f'{key}=@row.csv'], [('row.csv', '7,x\n')]))
            ops.append(ctx.op(top, fl, 'p', [f'{key}=@row.csv'], [('row.csv', '7;8\n')]))
            ops.append(ctx.op(top, fl, 'p', [f'{key}=@row.csv'], [('row.csv', '1e999,2\n')]))
            ops.append(ctx.op(top, fl, 'p', [f'{key}=@row.csv'], [('row.csv', ' 7, 8\n')]))
            if kind[1] >= 0:
                ops.append(ctx.op(top, fl, 'p', [f'{key}=@row.csv'], [('row.csv', good.rstrip('\n') + ',9\n')]))
                ops.append(ctx.op(top, fl, 'p', [f'{key}=@row.csv'], [('row.csv', '7\n')]))
            ops.append(ctx.op(top, fl, 'p', [f'{key}=@a.csv', f'{key}=@b.csv', f'{key}=@c.csv'],
                              [('a.csv', good), ('b.csv', '1,x\n')]))
            for _ in range(4):
                m = rng.randint(1, 4)
                row = ','.join(rnd_real_text(rng) for _ in range(m))
                ops.append(ctx.op(top, fl, 'p', [f'{key}=@r.csv'], [('r.csv', row + '\n')]))
        return ops

    def gen_ops(rng, n):
        mult = max(1, n)
        ops = []
        all_tops = meta.tops + meta.enum_tops + list(LEAF_TOPS)
        for top in all_tops:
            li = meta.leafinfo[top]
            for path, kind in li.items():
                ops += per_leaf_ops(rng, top, path, kind, mult)
            for node in sorted(meta.nodes[top]):
                ops.append(ctx.op(top, 'D', 'p', [f'p.{node}=1']))            # struct node used as a leaf
                ops.append(ctx.op(top, 'P', 'p', [f'p.{node}.nokey=1']))
            if top in meta.tops:
                ops.append(ctx.op(top, 'P', 'p', ['p=1']))
                ops.append(ctx.op(top, 'P', 'p', ['p.=1']))
                ops.append(ctx.op(top, 'D', 'p', []))
        # documented ASCII aliases (PARAMS_ALIAS_TABLE): only the JSON front end honours them
        for t, ents in meta.d['aliases']:
            for top in meta.tops:
                for path, kind in meta.leafinfo[top].items():
                    for a, nme in ents:
                        if path.endswith(nme) and (path == nme or path.endswith('.' + nme)):
                            holder = path[:-len(nme)]
                            sname = self_struct(meta, top, holder)
                            if sname == t:
                                ops.append(ctx.op(top, 'P', 'p', [f'p.{holder}{a}=0.25']))
        # random multi-option sequences
        nseq = 150 * mult
        for _ in range(nseq):
            top = rng.choice(meta.tops)
            li = list(meta.leafinfo[top].items())
            opts = []
            for _ in range(rng.randint(2, 6)):
                path, kind = rng.choice(li)
                k = rng.random()
                pfx = 'p' if k < 0.75 else rng.choice(['q', 'pp', '', 'P'])
                if rng.random() < 0.12:
                    bad = malformed_values(rng, meta, kind)
                    val = rng.choice(bad) if bad else 'x'
                else:
                    val = valid_value(rng, meta, kind)
                if kind[0] == 'localenum' and rng.random() < 0.8:
                    continue
                key = pfx + '.' + path
                if rng.random() < 0.05:
                    key += rng.choice(['.x', 'x', '_'])
                opts.append(f'{key}={val}')
            ops.append(ctx.op(top, rng.choice('DP'), 'p', opts))
        return ops

    return gen_ops


def self_struct(meta, top, holder):
    """Name of the struct that holds the member at dotted prefix `holder` ('' = top itself)."""
    s = top
    for comp in [c for c in holder.split('.') if c]:
        f = [k for n, _, k in meta.sdef[s]['fields'] if n == comp]
        if not f or f[0][0] != 'struct':
            return None
        s = f[0][1]
    return s


# ---------------------------------------------------------------- the property, restated (monitor)

RE_REAL_FULL = re.compile(RE_REAL.pattern + r'\Z')
RE_DUR_COMP = re.compile(r'[ +]*(-?(?:\d+\.?\d*|\.\d+)(?:[eE][+-]?\d+)?|-?inf(?:inity)?|nan)(h|min|s|ms|us|µs|ns|)(?=[ +\-0-9.]|\Z)')


def round_half_even(x: Fr) -> int:
    f = math.floor(x)
    d = x - f
    if d > Fr(1, 2) or (d == Fr(1, 2) and f % 2 == 1):
        return f + 1
    return f


def spec_real(val):
    if not RE_REAL_FULL.match(val):
        return None
    r = from_chars_real(val)
    return r[1] if r[0] == 'ok' and r[2] == 0 else None


class Spec:
    """What the property demands for one option value.
    ok=True: `tokens` = acceptable dumps of the addressed leaf after the option; `may_reject` =
    None, or the name of the one aspect the property text leaves open (then an exception is
    acceptable too — everything else about the op is still checked).  ok=False: must throw (`why`)."""

    def __init__(self, ok, tokens=None, why=None, info=None, may_reject=None, notes=()):
        self.ok, self.tokens, self.why, self.info, self.may_reject = ok, tokens, why, info, may_reject
        self.notes = list(notes)


def bad(why):
    return Spec(False, why=why)


def spec_duration(val, res):
    """Documented meaning: components <number><unit> (unit optional = s), separated by optional
    blanks or '+', summed, each rounded to the resolution."""
    if val.strip(' +') == '':
        # no component at all ("" or only separators): the property text does not say whether an
        # empty duration is an error; if it is accepted it is the empty sum
        # (Props/C18.lean `parse_duration_sum_round` with `DurComps.done`: result 0)
        return Spec(True, {'d0'}, may_reject='empty-duration')
    pos, comps = 0, []
    while pos < len(val):
        if val[pos:].strip(' +') == '':
            break
        m = RE_DUR_COMP.match(val, pos)
        if not m or m.end() == pos:
            return bad('syntax')
        comps.append((m.group(1), m.group(2)))
        pos = m.end()
    lo, hi, tot_sum = 0, 0, Fr(0)
    notes = ['dur-multi-component'] if len(comps) >= 2 else ['dur-single-component']
    for num, unit in comps:
        r = from_chars_real(num)
        if r[0] != 'ok' or r[2] != 0:
            return bad('range')
        if not math.isfinite(r[1]):
            return bad('nonfinite')
        x = Fr(r[1]) * UNITS[unit] / res
        if abs(x) >= 2 ** 63:
            return bad('overflow')
        tot_sum += x
        if x - math.floor(x) == Fr(1, 2):
            notes.append('dur-tie')
        if Fr(float(x)) == x:
            # the binary64 product / quotient is exact: nearest, ties to even, no tolerance
            t = round_half_even(x)
            lo += t; hi += t
            notes.append('dur-exact-product')
        else:
            # the code rounds v·unit/res to binary64 before rounding to an integer: the integer may
            # differ from round(x) when x is within that rounding error of a tie.  Tolerance from the
            # exact operand x only (two ulps of x), never from the code's output.
            tol = Fr(2 * math.ulp(float(x)))
            l, h = math.ceil(x - Fr(1, 2) - tol), math.floor(x + Fr(1, 2) + tol)
            if (l, h) != (round_half_even(x), round_half_even(x)):
                notes.append('exempt:dur-inexact-product-near-tie')
            lo += l; hi += h
            notes.append('dur-inexact-product')
    ok = set(range(lo, hi + 1)) | {round_half_even(tot_sum)}
    if any(abs(t) >= 2 ** 63 for t in ok):
        return bad('overflow')
    return Spec(True, {f'd{t}' for t in ok}, info=comps, notes=notes)


def vec_token(vs):
    return f'v{len(vs)}:' + ','.join(C.f2h(v) for v in vs) if vs else 'v0'


def spec_leaf(meta, kind, val, files=None):
    if kind[0] == 'bool':
        if val in ('0', 'false'):
            return Spec(True, {'b0'})
        if val in ('1', 'true'):
            return Spec(True, {'b1'})
        return bad('bool')
    if kind[0] == 'int':
        if not re.fullmatch(r'-?\d+', val) or (val.startswith('-') and kind[1] >= 0):
            return bad('int syntax')
        v = int(val)
        if v < kind[1] or v > kind[2]:
            return bad('int range')
        return Spec(True, {f'i{v}'})
    if kind[0] == 'real':
        v = spec_real(val)
        if v is None:
            return bad('real')
        return Spec(True, {tok_real(v)})
    if kind[0] == 'enum':
        for n, v, dep in meta.enumerators(kind[1]):
            if n == val:
                # a [[deprecated]] enumerator is an alias of a listed one and need not be in the
                # ENUM_TABLE (Props/C18.lean `enumerators_covered`): accepted with the alias's value, or rejected
                return Spec(True, {f'e{v}'}, info=f'{kind[1]}::{n}',
                            may_reject='deprecated-enumerator' if dep else None)
        return bad('enumerator')
    if kind[0] == 'localenum':
        for n, v, dep in kind[2]:
            if n == val:
                return Spec(True, {f'e{v}'}, info=kind[1])
        return bad('enumerator')
    if kind[0] == 'dur':
        return spec_duration(val, kind[1])
    if kind[0] == 'vec':
        vs = [spec_real(p) for p in val.split(',')]
        if any(v is None for v in vs):
            return bad('vec element')
        return Spec(True, {vec_token(vs)}, notes=['vec-multi-element'] if len(vs) >= 2 else [])
    if kind[0] == 'vff':
        exp = kind[1]
        if val.startswith('@'):
            name = val[1:]
            if files is None or name not in files:
                return bad('file missing')
            vs = [spec_real(t) for t in csv_first_row_tokens(files[name])]
            if any(v is None for v in vs):
                return bad('file row')
            if exp >= 0 and len(vs) != exp:
                return bad('file size')
            return Spec(True, {'o' + vec_token(vs)}, notes=['vff-file-ok'])
        vs = [spec_real(p) for p in val.split(',')]
        if any(v is None for v in vs):
            return bad('vec element')
        if exp >= 0 and len(vs) != exp:
            return bad('size')
        return Spec(True, {'o' + vec_token(vs)}, notes=['vff-direct-ok'])
    # a member whose type has no set_param: no option string can be well-formed for it
    return bad('member type without a setter')


SCALAR_KINDS = ('bool', 'int', 'real', 'enum', 'localenum', 'dur', 'vff')


def prefix_class(pfx, prefix):
    if pfx == '':
        return 'empty-first-component'
    if prefix != '' and pfx.startswith(prefix):
        return 'proper-extension'
    if prefix.startswith(pfx):
        return 'proper-prefix'
    if pfx.lower() == prefix.lower():
        return 'case-variant'
    return 'unrelated'


class Monitor:
    def __init__(self, meta):
        self.meta = meta

    def __call__(self, op, out, st):
        r = self.check(op, out)
        if isinstance(r, tuple) and r[1] is not None:
            # one report per identified defect (the framework stops after 5 violations; this way
            # they are 5 different defects, not 5 inputs for the same one)
            seen = st.setdefault('seen_keys', set())
            if r[1] in seen:
                return None
            seen.add(r[1])
        return r

    def resolve(self, top, rest):
        """(leaf path, kind, aspect left open by the property | None) for a key remainder, or None."""
        li = self.meta.leafinfo[top]
        if rest in li:
            return rest, li[rest], None
        if top == 'vec':
            # set_param(vec&) has no assert_key_empty; the property lists "indexing into scalars"
            # only, a vec is not a scalar: a sub-key of a vec may be ignored or rejected
            return '', li[''], 'vec-subkey'
        if rest.endswith('.') and rest[:-1] in li:
            # `field.=v`: split_key gives the same (key, "") as `field=v`; the property does not say
            # whether the trailing delimiter is an error
            return rest[:-1], li[rest[:-1]], 'empty-subkey'
        return None

    def classify_unknown(self, top, rest):
        """coverage class of a key that addresses nothing"""
        li = self.meta.leafinfo[top]
        comps = rest.split('.')
        for j in range(len(comps) - 1, -1, -1):
            head = '.'.join(comps[:j])
            if rest != '' and head in li and li[head][0] in SCALAR_KINDS:
                cover(top, head, 'indexed')
                return
        if top in self.meta.tops:
            holder = '.'.join(comps[:-1])
            sname = self_struct(self.meta, top, holder + '.' if holder else '')
            for t, ents in self.meta.d['aliases']:
                if t == sname and comps[-1] in [a for a, _ in ents]:
                    cover('alias', t, comps[-1])
            if rest in self.meta.nodes[top] or (comps[0] != '' and '.'.join(comps[:-1]) in self.meta.nodes[top]
                                               and rest not in li):
                cover('struct-node', 'as-leaf-or-unknown-member')
        cover(top, '', 'unknown-key')

    def check(self, op, out):
        if op.split()[0] != 'set':
            EXEMPT['not-a-set-op (generator fallback when the translator failed)'] += 1
            return None
        top, fl, pre, prefix, opts, files = parse_op(op)
        n, k = len(pre), len(opts)
        o = out.split()
        if not o or o[0] in ('pre-mismatch', 'bad-op', 'harness-exception', 'parse-error'):
            return f'harness could not run the op: {o[0] if o else "<no output>"}'
        status, used_s, m = o[0], o[1], int(o[2])
        post = o[3:3 + m]
        if m != n:
            return 'leaf count changed'
        used = [] if used_s == '-' else [int(x) for x in used_s.split(',')]
        if len(used) != k:
            return 'used vector has the wrong length'
        paths = [q for q, _ in pre]
        exp = {q: {v} for q, v in pre}            # path -> set of acceptable tokens
        exp_used = [0] * k
        expect_exc = None                          # (index, why, kind, value, open aspect)
        applied = 0
        pending_cover = []
        # the option the real code threw on: `used` is incremented just before `set_param`
        real_exc = max([i for i, u in enumerate(used) if u], default=None) if status != 'ok' else None
        for i, kv in enumerate(opts):
            key, _, val = kv.partition('=')
            pfx, _, rest = key.partition('.')
            if pfx != prefix:
                pending_cover.append(('prefix', prefix_class(pfx, prefix)))
                continue                           # different prefix: ignored, not counted
            pending_cover.append(('prefix', 'match'))
            exp_used[i] = 1
            res = self.resolve(top, rest)
            if res is None:
                self.classify_unknown(top, rest)
                expect_exc = (i, f'key {rest!r} is not a documented field of {top}', None, val, None)
                break
            path, kind, open_key = res
            sp = spec_leaf(self.meta, kind, val, files)
            if not sp.ok:
                pending_cover.append((top, path, 'malformed:' + sp.why))
                expect_exc = (i, f'value {val!r} is malformed for {rest!r} ({sp.why})', kind, val, None)
                break
            open_aspect = sp.may_reject or open_key
            threw_here = real_exc == i and used[:i + 1] == exp_used[:i + 1]
            if threw_here and not open_aspect:
                return self.rejected_valid(top, rest, kind, val, sp, status, pre, post, paths)
            if threw_here:
                EXEMPT[f'{open_aspect}: rejected (accept-or-reject left open by the property text; '
                       f'used counts, frame and no-half-write still checked)'] += 1
                expect_exc = (i, f'{open_aspect}', kind, val, open_aspect)
                break
            if open_aspect:
                EXEMPT[f'{open_aspect}: accepted (value, used counts and frame still checked)'] += 1
            for note in sp.notes:
                if note.startswith('exempt:'):
                    EXEMPT[note[7:] + ' (value set widened by two ulps of the exact product v·unit/res)'] += 1
                else:
                    pending_cover.append(('class', note))
            pending_cover.append((top, path, 'valid'))
            if kind[0] == 'enum' and sp.info:
                pending_cover.append(('enumerator', sp.info))
            if kind[0] == 'vff':
                pending_cover.append(('vff', sp.notes[0] + ('-from-engaged' if dict(pre)[''] != 'on' else '-from-disengaged')))
            exp[path] = sp.tokens
            applied += 1
        if used != exp_used:
            return f'used counts {used} but the options with prefix {prefix!r} are {exp_used}'
        if expect_exc is None:
            if status != 'ok':
                return f'every option is well-formed but set_params threw {status}'
            for j, q in enumerate(paths):
                if post[j] not in exp[q]:
                    if q in [x.partition('=')[0].partition('.')[2].rstrip('.') for x in opts] or top == 'vec':
                        kind = self.meta.leafinfo[top].get(q)
                        return self.wrong_value(top, q, kind, opts, post[j], exp[q])
                    return f'leaf {q!r} changed to {post[j]} although no option addresses it (was {dict(pre)[q]})'
            for c in pending_cover:
                cover(*c)
            if applied >= 2:
                cover('class', 'multi-option-all-applied')
            return None
        i, why, kind, val, open_aspect = expect_exc
        if status == 'ok':
            key = None
            kv = opts[i]
            if kind and kind[0] == 'dur' and not spec_duration(val, kind[1]).ok and \
                    spec_duration(val, kind[1]).why in ('overflow', 'nonfinite'):
                key = 'C18:duration-overflow-accepted'
            msg = f'option {kv!r} accepted although {why}'
            return (msg, key) if key else msg
        # exception as required: no half-written structure (state = effects of the options before i)
        for j, q in enumerate(paths):
            if post[j] not in exp[q]:
                rest = opts[i].partition('=')[0].partition('.')[2]
                key = None
                if q == rest.rstrip('.') and kind:
                    if kind[0] in ('int', 'real') and status == 'exc:numSuffix':
                        key = 'C18:half-write:numeric-suffix'
                    elif kind[0] == 'dur' and status in ('exc:durValue', 'exc:durUnits'):
                        key = 'C18:half-write:duration'
                    elif kind[0] == 'vec':
                        key = 'C18:half-write:vec'
                msg = (f'option {opts[i]!r} rejected ({status}) but leaf {q!r} was left as {post[j]} '
                       f'(before the option: {sorted(exp[q])})')
                return (msg, key) if key else msg
        for c in pending_cover:
            cover(*c)
        if kind and kind[0] == 'vff':
            cls = {'file missing': 'file-missing', 'file row': 'file-bad-row', 'file size': 'file-bad-size',
                   'size': 'direct-bad-size', 'vec element': 'direct-bad-element'}
            sp = spec_leaf(self.meta, kind, val, files)
            if not sp.ok and sp.why in cls:
                cover('vff', cls[sp.why] + ('-from-engaged' if dict(pre)[''] != 'on' else '-from-disengaged'))
        if applied >= 1:
            cover('class', 'throw-after-applied-options')
        return None

    def rejected_valid(self, top, rest, kind, val, sp, status, pre, post, paths):
        key = None
        if kind[0] == 'enum' and status == 'exc:badEnum':
            key = 'C18:enum-table-missing:' + sp.info
        elif kind[0] == 'localenum' and status == 'exc:invalidKey':
            key = 'C18:field-not-settable:' + sp.info
        elif kind[0] == 'dur' and status == 'exc:durValue':
            # a component whose number is written with zeros only, followed by a unit
            if any(re.fullmatch(r'0+', num) and unit for num, unit in (sp.info or [])):
                key = 'C18:duration-zero-component-rejected'
        msg = f'documented option {rest!r}={val!r} of {top} rejected with {status}'
        return (msg, key) if key else msg

    def wrong_value(self, top, q, kind, opts, got, want):
        return f'leaf {q!r} of {top} holds {got} after {opts!r}; the parsed value is {sorted(want)}'


MALFORMED_CLASSES = {
    'bool': ['bool'], 'int': ['int syntax', 'int range'], 'real': ['real'], 'enum': ['enumerator'],
    'localenum': ['enumerator'], 'dur': ['syntax', 'range', 'nonfinite', 'overflow'], 'vec': ['vec element'],
    'vff': ['vec element', 'file missing', 'file row'],
}


def required_coverage(meta):
    """Classes every run must have exercised *and the monitor must have decided* (the property's
    quantifier: all parameter structures and fields registered in the attribute tables, all
    representable value kinds, all malformed variants of keys and values)."""
    req = set()
    for top in meta.tops + meta.enum_tops + list(LEAF_TOPS):
        for path, kind in meta.leafinfo[top].items():
            req.add((top, path, 'valid'))
            for c in MALFORMED_CLASSES.get(kind[0], []):
                req.add((top, path, 'malformed:' + c))
            if kind[0] == 'vff' and kind[1] >= 0:
                req.add((top, path, 'malformed:size'))
                req.add((top, path, 'malformed:file size'))
            if kind[0] in SCALAR_KINDS:
                req.add((top, path, 'indexed'))
        if top in meta.tops:
            req.add((top, '', 'unknown-key'))
    for c in ('match', 'proper-extension', 'proper-prefix', 'empty-first-component', 'case-variant', 'unrelated'):
        req.add(('prefix', c))
    for c in ('dur-multi-component', 'dur-single-component', 'dur-tie', 'dur-exact-product', 'dur-inexact-product',
              'vec-multi-element', 'multi-option-all-applied', 'throw-after-applied-options'):
        req.add(('class', c))
    for e in meta.d['enums']:
        for n, v, dep in e['enumerators']:
            if not dep:
                req.add(('enumerator', f'{e["name"]}::{n}'))
    for t, ents in meta.d['aliases']:
        for a, _ in ents:
            req.add(('alias', t, a))
    req.add(('struct-node', 'as-leaf-or-unknown-member'))
    for c in ('vff-direct-ok', 'vff-file-ok', 'direct-bad-element', 'direct-bad-size', 'file-missing', 'file-bad-row',
              'file-bad-size'):
        for fl in ('-from-engaged', '-from-disengaged'):
            req.add(('vff', c + fl))
    return req


def nontrivial(op, out):
    o = out.split()
    if not o or o[0] in ('bad-op', 'pre-mismatch'):
        return None
    t = op.split()
    n = int(t[3])
    pre = [t[5 + 2 * i] for i in range(n)]
    post = o[3:3 + n]
    if o[0] != 'ok' or pre != post:
        return hash(op)
    return None


# ---------------------------------------------------------------- main

def main(argv):
    tier = C.tier_from_argv(argv)
    COVER.clear(); EXEMPT.clear(); FILL['on'] = True
    flags = ['-I' + gen_c18.cache_dir()]
    sources = [HARNESS_SRC] + C.repo_lib_sources(LIB_TUS)
    gen_err = None
    meta = None
    try:
        with C.Lock('lake'):
            meta = Meta()
    except Exception as e:           # translator failure: reported by proof_stage below as a broken tie
        gen_err = e
    pre = {}
    if meta is not None:
        exe, log = C.build_exe('c18', sources, flags)
        if exe:
            tops = meta.tops + meta.enum_tops + list(LEAF_TOPS)
            lines = [f'pre {t} {fl}' for t in tops for fl in 'DP']
            outs, rc, err = C.run_lines(exe, lines)
            for ln, o in zip(lines, outs):
                tk = o.split()
                if not tk or not tk[0].isdigit():
                    continue
                nn = int(tk[0])
                _, t, fl = ln.split()
                pre[(t, fl)] = [(unhx(tk[1 + 2 * i]), tk[2 + 2 * i]) for i in range(nn)]
    if meta is not None and pre:
        ctx = Ctx(meta, pre)
        gen_ops = gen_ops_factory(meta, ctx)
        monitor = Monitor(meta)
    else:
        gen_ops = lambda rng, n: ['noop -']
        monitor = lambda op, out, st: None

    def extra_stage(rep, broken, exe, tier):
        if gen_err is not None:
            broken.append(f'translator: {gen_err}')
        elif meta is not None and meta.strict_error is not None:
            broken.append(f'translator: {meta.strict_error}')
        elif not pre:
            broken.append('harness pre-pass produced no default dumps')
        if meta is not None:
            rep.cov['structs'] = len(meta.tops)
            rep.cov['leaves'] = sum(len(meta.leafinfo[t]) for t in meta.tops)
            if pre:
                req = required_coverage(meta)
                missing = sorted(map(str, req - COVER))
                rep.cov['required_coverage'] = {'required_classes': len(req), 'decided_by_the_monitor': len(req & COVER),
                                                'never_exercised': missing[:40]}
                if missing:
                    broken.append(f'required coverage: {len(missing)} of {len(req)} classes were never exercised '
                                  f'(and decided by the monitor) in this run: ' + '; '.join(missing[:6]))
        rep.cov['exemptions'] = dict(EXEMPT)
        FILL['on'] = False                  # the search runs (after a broken tie) do not count as coverage

    return C.standard_check(
        'C18', argv,
        gen_scripts=['gen_c18.py'], modules=['Alpaqa.Props.C18'], driver='drv_c18',
        extra_sources=['Alpaqa/Model/C18.lean', 'Alpaqa/Gen/C18.lean', 'Alpaqa/Proofs/C18.lean',
                       'Driver/C18.lean'],
        harness_name='c18', harness_sources=sources, harness_flags=flags,
        gen_ops=gen_ops, monitor=monitor, nontrivial=nontrivial,
        n_quick=1, n_thorough=240, extra_stage=extra_stage, search_factor=2,
        trusted_base=[
            'Lean 4.33 kernel (axioms: propext, Classical.choice, Quot.sound); Mathlib only in Props/C18.lean '
            '(helper lemmas in Proofs/C18.lean are core Lean)',
            'gen/gen_c18.py (regex/brace-matching translator: structs.ipp tables, struct and enum '
            'definitions in the headers, params.cpp instantiation list and bool literals, '
            'duration-parse.hpp unit table) and the macro-shape check of structs.hpp',
            'hand model Alpaqa/Model/C18.lean (split_key, set_params, table dispatch, leaf setters, '
            'parse_duration, chrono::round) tied by exact correspondence on the explored option strings',
            'std::from_chars(double) is an oracle: checks/c18.py::from_chars_real states its contract and '
            'feeds the driver; it is exercised against libstdc++ by the correspondence, never proved; the '
            'budget-sufficiency theorems assume of it only that a successful parse consumes >= 1 character '
            '(FromCharsConsumes, [charconv.from.chars])',
            'csv::read_row_std_vector (the @file form of vec_from_file) is an oracle: the op carries the file '
            'content for the real code and the token row for the model (checks/c18.py::csv_first_row_tokens: '
            'fields of the first line, only plain rows are generated; the reader itself is property C17)',
            'std::map lookup = first entry with an equal key; std::chrono::round / duration_cast as in '
            'libstdc++ 12; int64 conversion of out-of-range doubles is UB in C++ (driver mimics x86-64)',
        ],
        assumptions=['option strings are valid UTF-8 (the code works on bytes, the model on characters; '
                     'all delimiters are ASCII)',
                     'monitor spec of a duration: components <number><unit> separated by blanks or "+", '
                     'SI units, unit optional = s, each component rounded half-to-even to the resolution '
                     '(or the sum rounded — both accepted)',
                     'left open by the property text, accept-or-reject only (if accepted the value is fixed, all '
                     'other clauses are checked): empty duration value (then 0), [[deprecated]] enumerator alias, '
                     'sub-key of a vec, trailing delimiter `field.=v`'],
        rule='deterministic sweep: every top-level struct of the instantiation list × every leaf of its '
             'definition (incl. nested structs and members missing from the tables) × {valid value on '
             'default and perturbed object, every declared enumerator, fixed duration corpus, malformed '
             'values per kind, field.sub, unknown keys, missing "=", other prefixes + used counts}; leaf '
             'tops bool/f64/i8…u64/ns…h/vec/enums, vec_from_file (expected_size -1 / 2, value engaged / '
             'disengaged, direct and @file form with the file content in the op); documented aliases; seeded '
             'random multi-option sequences with failing options in the middle.  A required-coverage list '
             '(checks/c18.py::required_coverage: every top x leaf x {valid, each malformed class of its kind, '
             'indexed}, unknown key per struct, prefix classes, duration / vec / vec_from_file classes, every '
             'declared enumerator, every documented alias) must have been decided by the monitor in the run, '
             'else the check fails; exemptions are accept-or-reject only, counted in coverage.exemptions',
    )


def replay(r):
    """`checks/replay.py <file>`: re-run the recorded op on the real code and re-apply the monitor."""
    op = (r.get('payload') or {}).get('op')
    if not op:
        print('no input recorded (broken obligation / tie): re-run the check itself')
        return 1
    with C.Lock('lake'):
        meta = Meta()
    exe, log = C.build_exe('c18', [HARNESS_SRC] + C.repo_lib_sources(LIB_TUS), ['-I' + gen_c18.cache_dir()])
    if exe is None:
        print('harness does not build:', log[-800:])
        return 1
    out, rc, err = C.run_lines(exe, [op])
    m = Monitor(meta)(op, out[0] if out else '', {})
    t = op.split()
    n = int(t[3]); p = 4 + 2 * n
    print('top:', t[1], 'object:', 'default' if t[2] == 'D' else 'perturbed', 'prefix:', repr(unhx(t[p])),
          'options:', [unhx(x) for x in t[p + 2:p + 2 + int(t[p + 1])]])
    print('real code:', (out[0] if out else '<no output>')[:300])
    print('monitor:', m)
    return 1 if m else 0


if __name__ == '__main__':
    sys.exit(main(sys.argv))
