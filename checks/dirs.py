#!/usr/bin/env python3
"""DIRS — the PANOC direction-provider layer (NoopDirection, LBFGSDirection, StructuredLBFGSDirection,
AndersonDirection) inside the model.  Extra stage of the C09 check (`extra_stage`), also stand-alone:

    python3 checks/dirs.py --tier quick|thorough          (evidence/DIRS.json, violations as property C09)

Stages
  1. proof: gen_dirs.py (+ gen_c09 / gen_c10 / gen_c15 / gen_c05 / gen_c06, the kernels the models call) →
     lake build Alpaqa.Props.Directions drv_dirs drv_loop_full → forbidden tokens, `#print axioms`.
  2. op-sequence correspondence on the REAL provider objects (`harness/dirs.cpp` ↔ `Driver/Dirs.lean`),
     bit-exact at Float:
        new dir=<noop|lbfgs|slbfgs|anderson> <provider parameters> <PolyProblem spec> y0=… Sig=…
        init γ x x̂ p ∇ψ | hasinit | upd γk γn xk xn pk pn ∇ψk ∇ψn | app γ x x̂ p ∇ψ q0 | chg γ γold | reset
     every output line carries a dump of the accelerator inside the provider.
  3. monitors on the real providers' outputs (exact rationals): what the wrappers promise.
  4. oracle-free PANOC replay (`harness/solvers_panoc_full.cpp` ↔ `Driver/LoopFull.lean`): the whole
     PANOC run incl. the quasi-Newton directions is recomputed by the Lean side from the problem-oracle
     tables, the parameters and the stop tick; the recorded direction events are only cross-checked.
"""
import math
import os
import random
import sys
from fractions import Fraction as Fr

sys.path.insert(0, os.path.dirname(os.path.abspath(__file__)))
import common as C
import solvers as S
from common import f2h, h2f, vec2p

EPS = 2.0 ** -52
INF = float('inf')
NAN = float('nan')

HARNESS_LIBS = S.LIB_SUBSET
DRIVER = 'drv_dirs'
DRIVER_FULL = 'drv_loop_full'
GEN_SCRIPTS = ['gen_c09.py', 'gen_c10.py', 'gen_c15.py', 'gen_c05.py', 'gen_c06.py', 'gen_dirs.py']
MODULES = ['Alpaqa.Props.Directions', 'Alpaqa.Props.DirectionsLoop']
EXTRA_SOURCES = ['Alpaqa/Model/Directions.lean', 'Alpaqa/Model/DirectionsPanoc.lean', 'Alpaqa/Gen/Dirs.lean',
                 'Alpaqa/Proofs/Directions.lean', 'Alpaqa/Proofs/PanocSized.lean', 'Driver/Dirs.lean', 'Driver/DirsCommon.lean',
                 'Driver/LoopFull.lean']


def build_harness():
    return C.build_exe('dirs', [os.path.join(C.VERIF, 'harness', 'dirs.cpp')] + C.repo_lib_sources(HARNESS_LIBS))


def build_full_harness():
    srcs = [os.path.join(C.VERIF, 'harness', s) for s in ('solvers_panoc_full.cpp',)]
    return C.build_exe('solvers_full', srcs + C.repo_lib_sources(HARNESS_LIBS))


# ------------------------------------------------------------------ generation of op sequences

def dy(rng, lo=-4, hi=4, den=4):
    return rng.randint(lo * den, hi * den) / den


def vec(rng, n, exact=True, scale=1.0):
    if exact:
        return [dy(rng) * scale for _ in range(n)]
    return [rng.gauss(0, 1) * scale * 10 ** rng.uniform(-1, 1) for _ in range(n)]


def provider_kv(rng, d, exact):
    kv = {'dir': d}
    if d in ('lbfgs', 'slbfgs'):
        kv['mem'] = str(rng.choice([1, 1, 2, 2, 3, 5]))
        if rng.random() < 0.03:
            kv['mem'] = '0'                              # LBFGS::resize throws
        kv['curv'] = str(rng.randint(0, 1))
        if rng.random() < 0.3:
            kv['fpd'] = str(rng.randint(0, 1))
        if rng.random() < 0.25:
            kv['mdf'] = f2h(rng.choice([0.0, EPS, 2.0 ** -10, 0.25]))
            kv['mas'] = f2h(rng.choice([0.0, EPS * EPS, 2.0 ** -20, 0.5]))
        if rng.random() < (0.06 if d == 'slbfgs' else 0.15):
            kv['ca'] = f2h(rng.choice([2.0, 1.0, 0.0]))
            kv['ce'] = f2h(rng.choice([0.25, 1.0, 2.0 ** -6]))
    if d == 'lbfgs':
        kv['rescale'] = str(rng.randint(0, 1))
    if d == 'slbfgs':
        r = rng.random()
        if r < 0.45:
            kv['hvf'] = f2h(0.0)
        else:
            kv['hvf'] = f2h(rng.choice([1.0, 1.0, 0.5, 2.0, -1.0]) if exact or rng.random() < 0.5
                            else rng.uniform(0.1, 2.0))
        if rng.random() < 0.7:
            kv['hvfd'] = str(rng.randint(0, 1))
        if rng.random() < 0.7:
            kv['fullaug'] = str(rng.randint(0, 1))
        if rng.random() < 0.7:
            kv['fpol'] = str(rng.randint(0, 1))
        kv['hess'] = str(int(rng.random() < 0.85))
        kv['provgi'] = str(int(rng.random() < 0.8))
        kv['provhpsi'] = str(int(rng.random() < 0.4))
    if d == 'anderson':
        kv['mem'] = str(rng.choice([1, 2, 2, 3, 5]))
        kv['rescale'] = str(rng.randint(0, 1))
        if rng.random() < 0.2:
            kv['amdf'] = f2h(rng.choice([0.0, 2.0 ** -20, 0.25]))
    return kv


def init_throws(kv):
    """Does `initialize` throw for these parameters?  (LBFGS::resize: memory < 1; the argument checks of
    StructuredLBFGSDirection::initialize, restated from its documentation / error messages.)"""
    d = kv['dir']
    if d in ('lbfgs', 'slbfgs') and int(kv.get('mem', 5)) < 1:
        return True
    if d == 'slbfgs':
        hvf = h2f(kv.get('hvf', f2h(0.0)))
        fd = int(kv.get('hvfd', 1)) != 0
        full = int(kv.get('fullaug', 1)) != 0
        hessL = int(kv.get('hess', 0)) != 0
        hpsi = int(kv.get('provhpsi', 0)) != 0
        gi = int(kv.get('provgi', 0)) != 0
        if hvf != 0 and not fd:
            if not full:
                return not hessL
            if not (hessL or hpsi):
                return True
            if not hpsi and not gi:          # needs get_box_D (always there) and eval_grad_gi
                return True
    return False


def gen_sequence(rng, L, d=None):
    d = d or rng.choice(['lbfgs', 'lbfgs', 'slbfgs', 'slbfgs', 'slbfgs', 'anderson', 'anderson', 'noop'])
    exact = rng.random() < 0.6
    n = rng.choice([1, 2, 2, 3, 3, 4])
    boxkind = rng.choice(['mixed', 'mixed', 'mixed', 'none', 'fixed'])
    l1 = rng.random() < 0.25
    p = S.gen_problem(rng, n=n, exact=exact, l1=l1, box='none' if boxkind == 'none' else 'mixed')
    if boxkind == 'fixed':                               # every variable pinned: J is always empty
        p['Clb'] = [dy(rng) for _ in range(n)]
        p['Cub'] = list(p['Clb'])
    st = S.gen_start(rng, p)
    kv = provider_kv(rng, d, exact)
    kv.update(S.problem_kv(p))
    kv.update({'y0': S.kvvec(st['y0']), 'Sig': S.kvvec(st['Sig'])})
    ops = ['new ' + ' '.join(f'{k}={v}' for k, v in kv.items())]
    gam = rng.choice([0.5, 0.25, 1.0, 0.125]) if exact or rng.random() < 0.5 else rng.uniform(0.01, 2.0)
    # a smooth fake iteration: x_{k+1} = x_k + step; residual map p(x) = −D x + c (⟨y,s⟩ > 0 for the
    # L-BFGS sign convention), gradient g(x) = H x + c' (H = diag > 0, sometimes indefinite)
    D = [rng.choice([0.5, 1.0, 2.0]) for _ in range(n)]
    Hd = [rng.choice([0.5, 1.0, 2.0, 4.0]) for _ in range(n)]
    if rng.random() < 0.2:
        Hd[rng.randrange(n)] = -1.0
    c1, c2 = vec(rng, n, exact), vec(rng, n, exact)
    pf = lambda x: [-gam * D[i] * x[i] + c1[i] for i in range(n)]
    gf = lambda x: [Hd[i] * x[i] + c2[i] for i in range(n)]
    x = vec(rng, n, exact)

    def weird(v):
        r = rng.random()
        if r < 0.03:
            return [0.0] * n
        if r < 0.05:
            w = list(v); w[rng.randrange(n)] = NAN
            return w
        if r < 0.06:
            w = list(v); w[rng.randrange(n)] = rng.choice([INF, -INF])
            return w
        return v

    phist = [] if d == 'anderson' else None

    def init_line():
        pp = pf(x)
        if phist is not None:
            del phist[:]
            phist.append(list(pp))
        return f'init {f2h(gam)} {vec2p(x)} {vec2p([a + b for a, b in zip(x, pp)])} {vec2p(pp)} {vec2p(gf(x))}'
    if rng.random() < 0.06 and d != 'slbfgs':
        ops.append(app_line(rng, n, gam, x, pf, gf, exact))        # apply before initialize
    ops.append(init_line())
    if init_throws(kv):
        # the solver would propagate the exception; the object is not usable (null problem pointer /
        # unallocated storage): only the calls that do not touch them
        for _ in range(rng.randint(0, 3)):
            ops.append(rng.choice(['hasinit', 'reset', f'chg {f2h(gam / 2)} {f2h(gam)}']))
        return ops
    for _ in range(L):
        k = rng.random()
        if k < 0.36:
            mode = rng.random()
            if mode < 0.7:
                xn = [a + b for a, b in zip(x, vec(rng, n, exact, 0.5))]
            elif mode < 0.8:
                xn = list(x)                                        # s = 0: rejected
            else:
                xn = vec(rng, n, exact)
            pk, pn, gk, gn = pf(x), pf(xn), gf(x), gf(xn)
            if rng.random() < 0.2:                                  # curvature condition violated
                pn = [a + b for a, b in zip(pk, [xn[i] - x[i] for i in range(n)])]
                gn = [a - b for a, b in zip(gk, [xn[i] - x[i] for i in range(n)])]
            elif rng.random() < 0.12:                               # y = 0 (a linear ψ): zero curvature; the
                pn, gn = list(pk), list(gk)                         # structured provider forces the pair in
            gn_ = rng.choice([gam, gam, gam / 2])
            ops.append(f'upd {f2h(gam)} {f2h(gn_)} {vec2p(weird(x))} {vec2p(weird(xn))} {vec2p(weird(pk))} '
                       f'{vec2p(weird(pn))} {vec2p(weird(gk))} {vec2p(weird(gn))}')
            x = xn
        elif k < 0.72:
            ops.append(app_line(rng, n, gam, x, pf, gf, exact, weird, hist=phist))
        elif k < 0.84:
            r = rng.random()
            if r < 0.7:
                new = gam / 2
            elif r < 0.8:
                new = gam * 2
            elif r < 0.9:
                new = gam * rng.choice([0.75, 0.3, 1.0])
            else:
                new = rng.choice([0.0, -gam, NAN, INF])
            ops.append(f'chg {f2h(new)} {f2h(gam)}')
            if new == new and 0 < new < INF:
                gam = new
        elif k < 0.90:
            ops.append('reset')
        elif k < 0.95:
            ops.append('hasinit')
        else:
            ops.append(init_line())
    ops.append(app_line(rng, n, gam, x, pf, gf, exact, hist=phist))
    return ops


def app_line(rng, n, gam, x, pf, gf, exact, weird=lambda v: v, hist=None):
    """`hist` (Anderson sequences): the residuals p handed over so far, newest last; used to produce the
    points the repaired LimitedMemoryQR::add_column must survive: pₖ = p_last (zero residual difference)
    and pₖ − p_last in the span of the stored differences (dependent column)."""
    r = rng.random()
    if r < 0.75:
        pp, g = pf(x), gf(x)
    else:
        pp, g = vec(rng, n, exact), vec(rng, n, exact)
    if hist is not None:
        k = rng.random()
        if hist and k < 0.15:
            pp = list(hist[-1])                                           # r_k == r_last
        elif len(hist) >= 2 and k < 0.27:
            c = rng.choice([1.0, 2.0, -1.0, 0.5, -0.5])                   # multiple of the newest difference
            pp = [a + c * (a - b) for a, b in zip(hist[-1], hist[-2])]
        elif len(hist) >= 3 and k < 0.33:
            c1_, c2_ = rng.choice([1.0, -1.0, 0.5]), rng.choice([1.0, 2.0, -0.5])   # combination of two
            pp = [a + c1_ * (a - b) + c2_ * (b - c) for a, b, c in zip(hist[-1], hist[-2], hist[-3])]
        hist.append(list(pp))
    g_ = gam if rng.random() < 0.9 else rng.choice([0.0, -1.0, 2 * gam, NAN])
    xh = [a + b for a, b in zip(x, pp)]
    q0 = vec(rng, n, True)
    return (f'app {f2h(g_)} {vec2p(weird(x))} {vec2p(weird(xh))} {vec2p(weird(pp))} {vec2p(weird(g))} '
            f'{vec2p(q0)}')


def gen_ops(rng, n_lines):
    ops = []
    while len(ops) < n_lines:
        L = rng.choice([3, 6, 10, 20, 40]) if rng.random() < 0.95 else 120
        ops += gen_sequence(rng, L)
    return ops


# ------------------------------------------------------------------ correspondence

def strip_ev(line):
    return line.split(' ; EV ', 1)[0].rstrip()


def ev_part(line):
    i = line.find(' ; EV ')
    return '' if i < 0 else line[i + 3:]


def correspondence(exe, ops):
    """→ (harness outputs, index of first disagreement | None, driver outputs)."""
    hout, rc, err = C.run_lines(exe, ops, timeout=3000)
    if rc != 0 or len(hout) != len(ops):
        return hout, len(hout), [], f'real code crashed / aborted on op #{len(hout)} (rc={rc}): {err[-300:]}'
    drv = C.driver_exe(DRIVER)
    if not os.path.exists(drv):
        return hout, 0, [], 'driver executable missing'
    dout, rc, err = C.run_lines(drv, [o + ' || ' + ev_part(h) for o, h in zip(ops, hout)], timeout=3000)
    i = C.diff_streams(ops, [strip_ev(h) for h in hout], dout)
    return hout, i, dout, None


# ------------------------------------------------------------------ oracle-free PANOC replay

def gen_full_run(rng, d=None, **over):
    """A PANOC run (`c03.gen_run`) with one of the four shipped providers and random provider
    parameters; the extra keys are understood by harness/solvers_panoc_full.cpp only."""
    import c03
    d = d or rng.choice(['noop', 'lbfgs', 'lbfgs', 'slbfgs', 'slbfgs', 'slbfgs', 'anderson', 'anderson'])
    op = c03.gen_run(rng, solver='panoc')
    op['dir'] = d
    op.pop('advseed', None)
    if d in ('lbfgs', 'anderson'):
        op['rescale'] = str(rng.randint(0, 1))
    if d in ('lbfgs', 'slbfgs'):
        op['curv'] = str(rng.randint(0, 1))
        if rng.random() < 0.2:
            op['fpd'] = str(rng.randint(0, 1))
    if d == 'slbfgs':
        r = rng.random()
        op['hvf'] = f2h(0.0 if r < 0.4 else rng.choice([1.0, 1.0, 0.5, 2.0]))
        op['hvfd'] = str(int(rng.random() < 0.5))
        op['fullaug'] = str(rng.randint(0, 1))
        op['fpol'] = str(rng.randint(0, 1))
        op['hess'] = '1'
        op['provgi'] = '1'
        op['provhpsi'] = str(int(rng.random() < 0.4))
    if rng.random() < 0.08:
        # a linear ψ (Q = 0, no quartic term, no general constraints) on a bounded box: every pair has
        # y = ∇ψₙ − ∇ψₖ = 0 — the zero-curvature point of the L-BFGS providers (forced in by the structured one)
        n = op.nat('n')
        op.update({'m': '0', 'Q': S.kvvec([0.0] * (n * n)), 'q4': S.kvvec([0.0] * n), 'A': S.kvvec([]),
                   'b': S.kvvec([]), 'Dlb': S.kvvec([]), 'Dub': S.kvvec([]), 'y0': S.kvvec([]), 'Sig': S.kvvec([]),
                   'Clb': S.kvvec([-8.0] * n), 'Cub': S.kvvec([8.0] * n), 'l1': S.kvvec([]), 'linear': '1',
                   'nanat': '0'})
        if rng.random() < 0.6:
            # a small first step (large L₀) and some iterations, so that the iterates stay inside the box for a
            # while (J = everything: the unmasked `lbfgs.apply` is the one that runs)
            op['L0'] = f2h(rng.choice([64.0, 256.0]))
            op['maxiter'] = str(max(int(op.get('maxiter', '0')), rng.choice([4, 8, 20])))
    for k, v in over.items():
        op[k] = str(v)
    return op


INNER_EVENTS = ('igradpsi', 'ihessL', 'ihesspsi', 'ig', 'igradgi')


def nonfinite_direction_monitor(op_line, out_line):
    """C05 on the real PANOC run: a direction with a non-finite entry (e.g. from a forced zero-curvature pair
    of StructuredLBFGSDirection, ρ = 1/0) must be rejected — the iteration's τ is 0 — and the provider is reset.
    → (message | None, number of such directions)"""
    r = S.parse_out(out_line)
    evs = r['events']
    cnt = 0
    it = -1                         # index of the callback the current events belong to
    for i, e in enumerate(evs):
        if e[0] == 'cb':
            it += 1
        if e[0] != 'dapply':
            continue
        t = S.T(e[1:])
        t.flt()
        n = len(t.vec())
        # the harness appends the call's result (flag, q) after the provider returned: to the `dapply` section
        # itself, or — when the provider called the problem — to the last nested `EV i…` section that follows it
        j = i
        while j + 1 < len(evs) and evs[j + 1][0] in INNER_EVENTS:
            j += 1
        tail = evs[j][-(n + 2):]
        if len(tail) != n + 2 or tail[0] not in ('0', '1') or tail[1] != str(n):
            return f'dapply event without a readable result: {" ".join(evs[j])[:200]}', cnt
        ok = tail[0] == '1'
        q = [h2f(w) for w in tail[2:]]
        if ok and not all(math.isfinite(v) for v in q):
            cnt += 1
            nxt = next((f[0] for f in evs[j + 1:] if f[0] != 'stoptick'), None)
            if nxt != 'dreset':
                return (f'apply returned a non-finite direction {q} and PANOC did not reset the provider '
                        f'(next event: {nxt})'), cnt
            # the callback that reports this iteration is the next one
            if it + 1 < len(r['cbs']) and r['cbs'][it + 1]['status'] == 'Busy' and r['cbs'][it + 1]['tau'] != 0:
                return (f'iteration {r["cbs"][it + 1]["k"]} took τ = {r["cbs"][it + 1]["tau"]} with a non-finite '
                        f'direction {q}'), cnt
    return None, cnt


def _cb_q_span(toks):
    """(start, end) token indices of the `q` vector inside a `CB …` section."""
    p = 3                      # CB k status
    def vec_(p):
        return p + 1 + int(toks[p])
    p = vec_(p); p = vec_(p); p += 1          # x p pTp
    p = vec_(p); p = vec_(p); p += 2          # x̂ ŷ φγ ψ
    p = vec_(p); p += 1                       # ∇ψ ψ̂
    p = p + 2 if toks[p] == '0' else vec_(p + 1)
    return p, vec_(p)


def mask_garbage_q(real, model):
    """`q` is uninitialised storage in the C++ until a provider has written it (NoopDirection never
    does; an empty L-BFGS / empty J returns before writing): the model carries NaN there (`garbage`).
    Where the model's callback `q` is all-NaN the field is not compared."""
    a, b = real.split(' ; '), model.split(' ; ')
    if len(a) != len(b):
        return real, model
    for k, (x, y) in enumerate(zip(a, b)):
        if x.startswith('CB ') and y.startswith('CB '):
            tx, ty = x.split(), y.split()
            try:
                s0, e0 = _cb_q_span(ty)
                s1, e1 = _cb_q_span(tx)
            except (IndexError, ValueError):
                continue
            if (s0, e0) == (s1, e1) and e0 - s0 > 1 and all(t == 'nan' for t in ty[s0 + 1:e0]):
                tx[s0 + 1:e0] = ['*'] * (e0 - s0 - 1)
                ty[s0 + 1:e0] = ['*'] * (e0 - s0 - 1)
                a[k], b[k] = ' '.join(tx), ' '.join(ty)
    return ' ; '.join(a), ' ; '.join(b)


def replay_full(exe, ops):
    """Real PANOC runs vs. the oracle-free Lean replay.  → dict(n, bad, skipped, first=[…], hout)."""
    import multiloop
    hout, rc, err = C.run_lines(exe, ops, timeout=3000)
    res = {'n': len(ops), 'bad': 0, 'skipped': 0, 'first': [], 'hout': hout, 'crosscheck': 0}
    if rc != 0 or len(hout) != len(ops):
        res['bad'] = 1
        res['first'].append(f'real solver crashed / aborted on op #{len(hout)} (rc={rc}): {err[-300:]}')
        return res
    drv = C.driver_exe(DRIVER_FULL)
    if not os.path.exists(drv):
        res['bad'] = 1
        res['first'].append('driver executable missing')
        return res
    dout, rc, err = C.run_lines(drv, [o + ' || ' + S.events_only(h) for o, h in zip(ops, hout)], timeout=3000)
    if rc != 0 or len(dout) != len(ops):
        res['bad'] = 1
        res['first'].append(f'driver rc={rc} lines={len(dout)}/{len(ops)}: {err[-300:]}')
        return res
    for i, (o, h, dl) in enumerate(zip(ops, hout, dout)):
        hs = S.strip_events(h)
        dl = dl.strip()
        hs, dl = mask_garbage_q(hs, dl)
        if hs != dl and S.Op.parse(o).nat('nanat') and multiloop.nonpure(S.parse_out(h)['events']):
            res['skipped'] += 1
            continue
        if hs != dl:
            res['bad'] += 1
            if 'DIRECTION-CROSSCHECK' in dl:
                res['crosscheck'] += 1
            if len(res['first']) < 3:
                a, b = hs.split(' ; '), dl.split(' ; ')
                k = next((j for j, (x, y) in enumerate(zip(a, b)) if x != y), min(len(a), len(b)))
                res['first'].append(f'op #{i}: {o[:300]} … section {k}: real={a[k][:300] if k < len(a) else None} '
                                    f'model={b[k][:400] if k < len(b) else None}')
    return res


# ------------------------------------------------------------------ monitors (exact, on the real providers)

import c09 as L9            # acceptance test / dense BFGS in exact rationals (independent of the Lean model)

TOL = Fr(1, 2 ** 30)
STATS = {}


def bump(k, n=1):
    STATS[k] = STATS.get(k, 0) + n


def fin(v):
    return all(math.isfinite(a) for a in v)


def ex(name):
    """A *counted* exemption: the monitor demands nothing here, and says why (evidence: dirs_monitor_counts)."""
    bump('exempt_' + name)
    return None


def bits(v):
    return [f2h(a) for a in v]


def parse_lbfgs_dump(t):
    """`L n history cur nf fwd… rev… (s y ρ)…` → dict"""
    if t.tok() != 'L':
        raise ValueError('dump')
    n, hist, cur, nf = t.nat(), t.nat(), t.nat(), t.nat()
    fwd = [t.nat() for _ in range(nf)]
    rev = [t.nat() for _ in range(nf)]
    pairs = []
    for _ in range(nf):
        sv = t.vec(); yv = t.vec(); rho = t.flt()
        pairs.append((sv, yv, rho))
    return dict(n=n, hist=hist, cur=cur, fwd=fwd, rev=rev, pairs=pairs)


def parse_aa_dump(t):
    if t.tok() != 'A':
        raise ValueError('dump')
    init, n, m = t.nat(), t.nat(), t.nat()
    d = dict(init=init, n=n, m=m)
    if not init:
        return d
    d.update(K=t.nat(), head=t.nat(), tail=t.nat(), mineig=t.flt(), maxeig=t.flt())
    for k in ('G', 'rl', 'gam', 'R', 'Q'):
        if t.tok() != '|':
            raise ValueError('dump')
        d[k] = t.vec()
    return d


def lbfgs_P(kv):
    return dict(m=int(kv.get('mem', 5)), mdf=h2f(kv['mdf']) if 'mdf' in kv else EPS,
                mas=h2f(kv['mas']) if 'mas' in kv else EPS * EPS, ca=h2f(kv['ca']) if 'ca' in kv else 1.0,
                ce=h2f(kv['ce']) if 'ce' in kv else 0.0, fpd=int(kv.get('fpd', 1)) != 0,
                curv=int(kv.get('curv', 1)) != 0)


def box_J(kv, gam, x, g):
    """eval_inactive_indices_res_lna of BoxConstrProblem, as documented, on the doubles it is given."""
    lb, ub, l1 = S.parse_kvvec(kv['Clb']), S.parse_kvvec(kv['Cub']), S.parse_kvvec(kv['l1'])
    J = []
    for i in range(len(x)):
        xfw = x[i] - gam * g[i]
        lam = 0.0 if not l1 else (l1[0] if len(l1) == 1 else l1[i])
        if lam == 0:
            v = xfw
        elif xfw > gam * lam:
            v = xfw - gam * lam
        elif xfw < -gam * lam:
            v = xfw + gam * lam
        else:
            continue
        if lb[i] < v < ub[i]:
            J.append(i)
    return J


def dense_apply(hist, g0, q, n, who=''):
    """exact H(g0; hist)·q and its conditioning scale, or None when the dense BFGS matrix does not exist:
    a stored pair with ⟨y,s⟩ = 0 — the point excluded by `RunOK` (Props/C09) / `slbfgs_calls_runOK`
    (Props/Directions); counted, never silent."""
    if any(L9.xdot(y, s_) == 0 for s_, y in hist):
        bump('exempt_RunOK_zero_curvature_pair_in_history' + who)
        return None
    H0, H1, msg = L9.dense_pair(hist, n)
    if H0 is None:
        bump('exempt_RunOK_zero_curvature_pair_in_history' + who)
        return None
    sc = L9.two_loop_scale(hist, g0, q)
    r = [sum((H0[i][j] + g0 * (H1[i][j] - H0[i][j])) * Fr(q[j]) for j in range(n)) for i in range(n)]
    return r, sc


def in_span(cols, v):
    """Is v a linear combination of cols?  (exact rationals)"""
    if not cols:
        return all(a == 0 for a in v)
    n = len(v)
    M = [[Fr(c[i]) for c in cols] + [Fr(v[i])] for i in range(n)]
    k = len(cols)
    r = 0
    for c in range(k):
        piv = next((i for i in range(r, n) if M[i][c] != 0), None)
        if piv is None:
            continue
        M[r], M[piv] = M[piv], M[r]
        for i in range(n):
            if i != r and M[i][c] != 0:
                f = M[i][c] / M[r][c]
                M[i] = [a - f * b for a, b in zip(M[i], M[r])]
        r += 1
    return all(M[i][k] == 0 for i in range(r, n))


def exact_ls(cols, b):
    """Exact rational least squares min ‖A γ − b‖ (A = columns `cols`).  → (γ, cond estimate ‖G‖∞‖G⁻¹‖∞ of the
    Gram matrix's square root, from the exact data) | None when A is rank deficient."""
    K = len(cols)
    if K == 0:
        return None
    G = [[L9.xdot(cols[i], cols[j]) for j in range(K)] for i in range(K)]
    rhs = [L9.xdot(cols[i], b) for i in range(K)]
    M = [G[i][:] + [Fr(int(i == j)) for j in range(K)] + [rhs[i]] for i in range(K)]
    for c in range(K):
        piv = next((r for r in range(c, K) if M[r][c] != 0), None)
        if piv is None:
            return None
        M[c], M[piv] = M[piv], M[c]
        pv = M[c][c]
        M[c] = [a / pv for a in M[c]]
        for r in range(K):
            if r != c and M[r][c] != 0:
                f = M[r][c]
                M[r] = [a - f * b_ for a, b_ in zip(M[r], M[c])]
    Ginv = [row[K:2 * K] for row in M]
    gam = [row[2 * K] for row in M]
    nG = max(sum(abs(v) for v in row) for row in G)
    nGi = max(sum(abs(v) for v in row) for row in Ginv)
    return gam, math.sqrt(float(nG * nGi))


def close(got, exp, sc):
    for i, (a, e) in enumerate(zip(got, exp)):
        if not math.isfinite(a) or abs(Fr(a) - e) > TOL * max(sc, Fr(1, 2 ** 200)):
            return i
    return None


def _monitor(op, out, st):
    t = S.T(op.split())
    kind = t.tok()
    res = strip_ev(out)
    if ' | ' not in res:
        return f'harness: {res[:100]}'
    if kind == 'new':
        kv = dict(w.split('=', 1) for w in op.split()[1:])
        st.clear()
        st.update(kv=kv, d=kv['dir'], n=int(kv['n']), hist=[], inited=False, dead=False, P=lbfgs_P(kv),
                  aa=None)
        bump('new_' + kv['dir'])
        return None
    if 'kv' not in st:
        return None
    kv, d, n = st['kv'], st['d'], st['n']
    head, _, dump = res.partition(' | ')
    o = S.T(head.split())
    dt = S.T(dump.split())
    evs = [sec.split()[1:] for sec in out.split(' ; ')[1:] if sec.startswith('EV ')]
    rescale = int(kv.get('rescale', 0)) != 0
    # ---------------- has_initial_direction: none of the shipped providers has one
    if kind == 'hasinit':
        return None if head == '0' else f'{d}: has_initial_direction() returned {head}'
    if kind == 'init':
        thr = init_throws(kv)
        if (head == 'exception') != thr:
            return f'{d}: initialize {"threw" if head == "exception" else "did not throw"}; documented: throws={thr}'
        if thr:
            st['dead'] = True
            return None
        st['inited'] = True
        st['hist'] = []
        args = (t.flt(), t.vec(), t.vec(), t.vec(), t.vec())
        if d == 'anderson':
            st['aa'] = dict(g=[args[2]], dr=[], rl=args[3])
        return check_state(st, dt)
    if st['dead']:
        return None
    if d == 'noop':
        if kind == 'upd':
            return None if head == '1' else 'NoopDirection::update returned false'
        if kind == 'app':
            g_, x, xh, p, g, q0 = t.flt(), t.vec(), t.vec(), t.vec(), t.vec(), t.vec()
            ok = o.tok() == '1'
            q = o.vec()
            if ok or bits(q) != bits(q0):
                return 'NoopDirection::apply succeeded or modified q'
            bump('noop_apply')
        return None
    if kind == 'reset':
        st['hist'] = []
        if st['aa'] is not None:
            st['aa'].update(g=st['aa']['g'][-1:], dr=[], negf=False)
        return check_state(st, dt)
    if kind == 'chg':
        gam, old = t.flt(), t.flt()
        f = gam / old if old != 0 else (NAN if gam == 0 or gam != gam else math.copysign(INF, gam) * math.copysign(1, old))
        if d == 'lbfgs':
            st['hist'] = [(s_, [v * f for v in y]) for s_, y in st['hist']] if rescale else []
            bump('lbfgs_chg_rescale' if rescale else 'lbfgs_chg_flush')
        elif d == 'anderson' and st['aa'] is not None:
            if rescale:
                st['aa']['dr'] = [[v * f for v in c] for c in st['aa']['dr']]
                st['aa']['scaled'] = True
                if not (math.isfinite(f) and f != 0):
                    st['aa']['poison'] = True
                if not f > 0:
                    # `scale_R` multiplies min_eig / max_eig by the factor too: on a fresh buffer max_eig = −∞
                    # becomes +∞ (NaN for 0), so the pivot threshold max_eig·min_div_fac is +∞ and `solve_col`
                    # skips every pivot until the next reset.  PANOC / ZeroFPR only pass step sizes γ > 0.
                    st['aa']['negf'] = True
                # documented: "rescale the buffer by a factor γ_k / γ_{k-1}" — every entry of R (and min/max_eig)
                # multiplied by γ_new/γ_old, recomputed here from the op's own arguments
                prev = st['aa'].get('last')
                try:
                    cur = parse_aa_dump(S.T(dump.split()))
                except (ValueError, IndexError):
                    cur = None
                if prev and cur and cur.get('init') and prev.get('K') == cur.get('K') and prev['K'] > 0:
                    Kk = prev['K']
                    want = [prev['R'][k_ * Kk + i_] * f if i_ <= k_ else 0.0
                            for k_ in range(Kk) for i_ in range(Kk)]
                    if bits(cur['R']) != bits(want):
                        return (f'AndersonDirection::changed_γ(γ={gam!r}, old={old!r}) with rescale_on_step_size_changes: '
                                f'R = {cur["R"]}, expected the previous R times γ/γ_old = {f!r}: {want}')
                    bump('anderson_chg_rescale_R_checked')
            else:
                st['aa'].update(g=st['aa']['g'][-1:], dr=[], negf=False)
            bump('anderson_chg_rescale' if rescale else 'anderson_chg_flush')
        # structured: nothing happens
        return check_state(st, dt)
    if kind == 'upd':
        gk_, gn_ = t.flt(), t.flt()
        xk, xn, pk, pn, gk, gn = (t.vec() for _ in range(6))
        stored = head == '1'
        if d == 'anderson':
            return None if stored else 'AndersonDirection::update returned false'
        P = st['P']
        s_ = L9.fsub(xn, xk)
        if d == 'lbfgs':
            y = L9.fsub(pk, pn)
            pTp = float(L9.xdot(pn, pn)) if P['ce'] > 0 and fin(pn) else 0.0
            if fin(s_) and fin(y):
                dec, amb = L9.accept_exact(P, s_, y, pTp)
                if not amb and stored != dec:
                    return (f'LBFGSDirection::update stored={stored}, documented curvature test on '
                            f's = xₙₑₓₜ−xₖ, y = pₖ−pₙₑₓₜ says {dec} (yᵀs={float(L9.xdot(y, s_))!r}, '
                            f'sᵀs={float(L9.xdot(s_, s_))!r})')
                bump('lbfgs_upd_rejected' if not stored else 'lbfgs_upd_stored')
        else:
            y = L9.fsub(gn, gk)
            if not stored:
                return 'StructuredLBFGSDirection::update did not store the (forced) pair'
            bump('slbfgs_upd')
        if stored:
            st['hist'].append((s_, y))
            if len(st['hist']) > P['m']:
                del st['hist'][0]
                bump(d + '_wraparound')
        return check_state(st, dt)
    if kind == 'app':
        gam, x, xh, p, g, q0 = t.flt(), t.vec(), t.vec(), t.vec(), t.vec(), t.vec()
        if head == 'exception':
            if d == 'anderson' and not st['inited']:
                bump('anderson_apply_before_init')
                return None
            if d == 'slbfgs' and st['P']['ce'] > 0 and st['hist']:
                bump('slbfgs_cbfgs_throw')
                return None
            return f'{d}: apply threw'
        ok = o.tok() == '1'
        q = o.vec()
        hist = st['hist']
        P = st['P']
        allfin = fin(x) and fin(xh) and fin(p) and fin(g) and math.isfinite(gam) and \
            all(fin(a) and fin(b) for a, b in hist)
        if d == 'lbfgs':
            m = check_state(st, dt)
            if m:
                return m
            if ok != bool(hist):
                return f'LBFGSDirection::apply returned {ok} with {len(hist)} stored pairs'
            if not hist:
                bump('lbfgs_apply_empty')
                return None if bits(q) == bits(p) else 'LBFGSDirection::apply (empty buffer) did not leave q = p'
            if not allfin:
                return ex('lbfgs_nonfinite_input_or_history')
            s_n, y_n = hist[-1]
            if P['curv'] or gam < 0:
                yy = L9.xdot(y_n, y_n)
                if yy == 0:
                    return ex('RunOK_zero_curvature_pair_in_history_lbfgs')
                g0 = L9.xdot(y_n, s_n) / yy
            else:
                g0 = Fr(gam)
            da = dense_apply(hist, g0, p, n, '_lbfgs')
            if da is None:
                return None
            i = close(q, *da)
            bump('lbfgs_apply_dense')
            if i is not None:
                return (f'LBFGSDirection::apply: q[{i}] = {q[i]!r} but dense BFGS H·p over the {len(hist)} stored pairs '
                        f'(γ₀ = {float(g0)!r}) gives {float(da[0][i])!r}')
            return None
        if d == 'slbfgs':
            m = check_state(st, dt)
            if m:
                return m
            if not (fin(x) and fin(g) and math.isfinite(gam)):
                return ex('slbfgs_nonfinite_x_grad_gamma')
            J = box_J(kv, gam, x, g)
            K = [j for j in range(n) if j not in J]
            hvf = h2f(kv.get('hvf', f2h(0.0)))
            fpol = int(kv.get('fpol', 0))
            if not J:
                bump('slbfgs_J_empty')
                if ok or bits(q) != bits(q0):
                    return 'StructuredLBFGSDirection::apply with J = ∅ succeeded or modified q'
                return None
            if len(J) == n:
                bump('slbfgs_J_full')
                if not gam > 0:
                    return ex('slbfgs_gamma_nonpositive')
                rhs = [(1.0 / gam) * v for v in p]
                if ok != bool(hist):
                    return f'StructuredLBFGSDirection::apply (all indices free) returned {ok} with {len(hist)} pairs'
                if not hist:
                    return None if bits(q) == bits(rhs) else 'all indices free, empty buffer: q ≠ p/γ'
                if not allfin:
                    return ex('slbfgs_nonfinite_input_or_history')
                if any(L9.xdot(y_, s_) == 0 for s_, y_ in hist):
                    # THE reachable excluded point (audit-2 #3): the structured provider *forces* every pair in;
                    # a pair with ⟨y,s⟩ = 0 (linear ψ: y = 0; zero step: s = 0) is stored with ρ = 1/0 and the
                    # un-masked apply of the all-free branch returns a non-finite direction (PANOC's
                    # q.allFinite() test rejects it and resets the provider: nonfinite_direction_monitor).
                    # Hypothesis `hcurv` of Props/Directions.slbfgs_calls_runOK / C09 `RunOK`.
                    bump('slbfgs_forced_zero_curvature_all_free_apply')
                    bump('slbfgs_forced_zero_curvature_direction_nonfinite', int(not fin(q)))
                    bump('slbfgs_forced_zero_curvature_direction_finite', int(fin(q)))
                    return ex('RunOK_slbfgs_forced_zero_curvature')
                s_n, y_n = hist[-1]
                if P['curv'] or gam < 0:
                    yy = L9.xdot(y_n, y_n)
                    if yy == 0:
                        return ex('RunOK_slbfgs_forced_zero_curvature')
                    g0 = L9.xdot(y_n, s_n) / yy
                else:
                    g0 = Fr(gam)
                da = dense_apply(hist, g0, rhs, n, '_slbfgs_all_free')
                if da is None:
                    return None
                i = close(q, *da)
                if i is not None:
                    return (f'StructuredLBFGSDirection::apply (all free): q[{i}] = {q[i]!r}, dense H·(p/γ) = '
                            f'{float(da[0][i])!r}')
                return None
            bump('slbfgs_J_partial')
            # fixed part: q_K = p_K exactly
            for j in K:
                if f2h(q[j]) != f2h(p[j]):
                    return (f'StructuredLBFGSDirection::apply: active index {j} ∉ J={J}: q[{j}] = {q[j]!r} ≠ p[{j}] = '
                            f'{p[j]!r}')
            if not gam > 0:
                return ex('slbfgs_gamma_nonpositive')
            # right-hand side on J (the Hessian-vector product is what the problem returned: last inner call)
            Hq = None
            rhsJ = [(1.0 / gam) * p[j] for j in J]
            if hvf != 0:
                prod = [e for e in evs if e and e[0] in ('igradpsi', 'ihessL', 'ihesspsi')]
                if not prod:
                    return 'hessian_vec_factor ≠ 0 but no Hessian-vector product / gradient was evaluated'
                bump('slbfgs_hv_' + prod[0][0])
                # the vector the product is taken with must be p on K and 0 on J
                want = [0.0 if j in J else p[j] for j in range(n)]
                tt = S.T(prod[0][1:])
                Hq = None
                if prod[0][0] in ('ihessL', 'ihesspsi'):
                    tt.vec(); tt.tok(); v = tt.vec(); Hv = tt.vec()
                    if bits(v) != bits(want):
                        return f'Hessian-vector product taken with {v}, expected p on K and 0 on J: {want}'
                    fd_, fa_ = int(kv.get('hvfd', 1)) != 0, int(kv.get('fullaug', 1)) != 0
                    if prod[0][0] == 'ihesspsi' or not fa_:
                        Hq = Hv            # otherwise the penalty terms are still added to it
                else:
                    # finite differences: ∇ψ evaluated at x + h·q_K, h = ∛ε·(1 + ‖x‖)  (documented step)
                    xe = tt.vec(); ge = tt.vec()
                    nx = 0.0
                    for k_, a in enumerate(x):
                        nx = a * a if k_ == 0 else nx + a * a
                    h = math.cbrt(EPS) * (1 + math.sqrt(nx))
                    wantx = [x[j] + h * want[j] for j in range(n)]
                    if fin(wantx) and any(abs(a - b) > 4 * math.ulp(max(abs(b), abs(x[j]), 1e-300))
                                          for j, (a, b) in enumerate(zip(xe, wantx))):
                        return (f'finite-difference Hessian product: ∇ψ evaluated at {xe}, expected '
                                f'x + ∛ε(1+‖x‖)·q_K = {wantx}')
                    Hq = [(ge[j] - g[j]) / h for j in range(n)]
                    bump('slbfgs_fd_point')
                rhsJ = None if Hq is None else [(1.0 / gam) * p[j] - hvf * Hq[j] for j in J]
            if not hist:
                # apply_masked fails on an empty buffer; the failure policy decides
                bump('slbfgs_failure_policy_%d' % fpol)
                if ok != (fpol == 1):
                    return f'empty buffer, failure_policy={fpol}, but apply returned {ok}'
                if rhsJ is not None and fin(rhsJ):
                    exp = [v * gam for v in rhsJ] if fpol == 1 else rhsJ
                    if bits([q[j] for j in J]) != bits(exp):
                        return (f'empty buffer, failure_policy={fpol}: q_J = {[q[j] for j in J]}, documented '
                                f'{"γ·" if fpol == 1 else ""}(p_J/γ − hvf·(∇²ψ q_K)_J) = {exp}')
                    bump('slbfgs_fallback_exact')
                return None
            if P['ce'] > 0:
                return 'apply_masked did not throw although CBFGS is enabled'
            if not allfin or not fin(q):
                return ex('slbfgs_partial_nonfinite_input_history_or_result')
            decs = [L9.accept_exact(P, s_, y, 0.0, J) for s_, y in hist]
            if any(a for _, a in decs):
                return ex('slbfgs_partial_acceptance_threshold_within_rounding')
            if P['mdf'] < 0:
                return ex('slbfgs_partial_negative_min_div_fac')
            # (also without force_pos_def — repaired apply_masked: the scaling is that of the newest pair valid on
            # J whatever its sign, and the call fails only when no pair is valid on J)
            sub = [([s_[j] for j in J], [y[j] for j in J]) for (s_, y), (dd, _) in zip(hist, decs) if dd]
            if P['curv'] or gam < 0:
                if not sub:
                    bump('slbfgs_failure_policy_%d' % fpol)
                    if ok != (fpol == 1):
                        return (f'apply_masked had no pair valid on J={J}; failure_policy={fpol} but apply returned {ok}')
                    return None
                g0 = L9.xdot(sub[-1][1], sub[-1][0]) / L9.xdot(sub[-1][1], sub[-1][1])
            else:
                g0 = Fr(gam)
            if g0 < 0:
                bump('slbfgs_partial_negative_scaling')
            if not ok:
                return f'StructuredLBFGSDirection::apply failed although {len(sub)} pairs are valid on J={J}'
            if rhsJ is None or not fin(rhsJ):
                # penalty terms added by hand: the J-part is covered by the correspondence only
                return ex('slbfgs_partial_penalty_terms_added_by_hand')
            da = dense_apply(sub, g0, rhsJ, len(J), '_slbfgs_masked')
            if da is None:
                return None
            i = close([q[j] for j in J], *da)
            bump('slbfgs_partial_dense')
            if i is not None:
                return (f'StructuredLBFGSDirection::apply: q[{J[i]}] = {q[J[i]]!r} but the dense BFGS operator of the '
                        f'{len(sub)} pairs valid on J={J}, restricted to J, applied to p_J/γ − hvf·(∇²ψ q_K)_J gives '
                        f'{float(da[0][i])!r}')
            return None
        if d == 'anderson':
            A = st['aa']
            if not ok:
                return 'AndersonDirection::apply returned false'
            mAA = min(n, int(kv.get('mem', 5)))
            newcol = [a - b for a, b in zip(p, A['rl'])]
            if len(A['dr']) == mAA:
                A['dr'] = A['dr'][1:]; A['g'] = A['g'][1:]
            window = list(A['dr'])
            A['dr'].append(newcol); A['g'].append(xh); A['rl'] = p
            if not (fin(p) and fin(xh) and fin(x)):
                A['poison'] = True
            m = check_state(st, dt)
            if m:
                return m
            dd = parse_aa_dump(S.T(dump.split()))
            K = len(A['dr'])
            gam_ls = dd['gam']
            # the formerly excluded points: zero / linearly dependent residual difference (finite, moderate data)
            tame = (not A.get('poison') and all(fin(c) and max(map(abs, c), default=0) < 1e100
                                               for c in A['dr'] + A['g']) and fin(x))
            if tame:
                zero = all(v == 0 for v in newcol)
                dep = zero or in_span(window, newcol)
                if dep:
                    bump('anderson_zero_difference' if zero else 'anderson_dependent_difference')
                    if not (fin(q) and fin(gam_ls) and fin(dd['R']) and fin(dd['Q'])):
                        return (f'AndersonDirection::apply with a {"repeated residual (pₖ = p_last)" if zero else "linearly dependent residual difference"} '
                                f'returned non-finite data: q = {q}, γ_LS = {gam_ls}')
                    if zero and gam_ls[K - 1] != 0.0:
                        return f'zero residual difference (zero pivot) but γ_LS[{K - 1}] = {gam_ls[K - 1]!r} ≠ 0'
            if not (fin(gam_ls) and fin(q) and fin(x) and all(fin(c) for c in A['g'])):
                return ex('anderson_nonfinite_data')
            # ---- γ_LS recomputed independently: exact rational least squares on the residual history the
            #      monitor recorded from the op lines (never the object's own R / Q / γ_LS)
            mdf = h2f(kv['amdf']) if 'amdf' in kv else 100 * EPS
            if not tame:
                bump('exempt_anderson_ls_untame_history')
            elif A.get('negf'):
                # hypothesis of `anderson_apply_least_squares_no_truncation` (no pivot at or below
                # max_eig·min_div_fac) fails by construction: threshold +∞ / NaN after a factor γ/γ_old ≤ 0
                bump('exempt_anderson_ls_nonpositive_rescale_factor')
            elif mdf > 2.0 ** -19:
                bump('exempt_anderson_ls_large_min_div_fac')       # pivots are truncated on purpose
            else:
                ref = exact_ls(A['dr'], p)
                if ref is None:
                    bump('exempt_anderson_ls_rank_deficient_window')   # minimiser not unique (C10: deflated window)
                else:
                    gs_, cond = ref
                    if cond > 1e6:
                        bump('exempt_anderson_ls_illconditioned_window')
                    else:
                        bump('anderson_gamma_ls_independent')
                        # error scale that does not vanish when the exact solution does (p orthogonal to the
                        # window: γ_exact = 0 while the computed γ is rounding noise of size ε·‖p‖/σ_min):
                        # |δγ| ≲ ε·cond·(max|γ| + ‖p‖/σ_max) with σ_max ≥ ‖ΔR‖_F/√K
                        fro = math.sqrt(sum(float(v) ** 2 for col in A['dr'][-K:] for v in col)) or 1.0
                        pn = math.sqrt(sum(float(v) ** 2 for v in p))
                        gmax = max([abs(v) for v in gs_] + [Fr(0)])
                        sc = gmax + Fr(math.sqrt(K) * pn / fro) + Fr(1, 2 ** 60)
                        for i_, (a, b) in enumerate(zip(gam_ls, gs_)):
                            if abs(Fr(a) - b) > Fr(1, 2 ** 30) * Fr(cond) * sc:
                                return (f'γ_LS[{i_}] = {a!r}, but the least-squares solution of min ‖ΔR γ − p‖ over the '
                                        f'last {K} residual differences (exact rationals, from the op history) is '
                                        f'{float(b)!r} (cond ≈ {cond:.3g})')
                        # … and the direction from those independent coefficients (error of every α_i is bounded by
                        # the γ error above, so the scale uses (1 + max|γ| + ‖p‖/σ_max-term)·Σ|x̂_i|, not |α_i|·|x̂_i|)
                        alr = [gs_[0]] + [gs_[i] - gs_[i - 1] for i in range(1, K)] + [1 - gs_[K - 1]]
                        Gr = A['g'][-(K + 1):]
                        for j in range(n):
                            e_ = sum(alr[i] * Fr(Gr[i][j]) for i in range(K + 1)) - Fr(x[j])
                            mg = (1 + sc) * sum(abs(Fr(Gr[i][j])) for i in range(K + 1)) + abs(Fr(x[j]))
                            if abs(Fr(q[j]) - e_) > Fr(1, 2 ** 30) * Fr(cond) * max(mg, Fr(1, 2 ** 200)):
                                return (f'AndersonDirection::apply: q[{j}] = {q[j]!r}, but Σ αᵢ x̂ᵢ − x with the independently '
                                        f'computed least-squares coefficients gives {float(e_)!r}')
            gq = [Fr(v) for v in gam_ls]
            al = [gq[0]] + [gq[i] - gq[i - 1] for i in range(1, K)] + [1 - gq[K - 1]]
            G = A['g'][-(K + 1):]
            for j in range(n):
                exq = sum(al[i] * Fr(G[i][j]) for i in range(K + 1)) - Fr(x[j])
                mag = sum(abs(al[i]) * abs(Fr(G[i][j])) for i in range(K + 1)) + abs(Fr(x[j])) + \
                    sum(abs(v) for v in gq) * max(abs(Fr(G[i][j])) for i in range(K + 1))
                if abs(Fr(q[j]) - exq) > 8 * (K + 3) * EPS * float(mag) + 1e-300:
                    return (f'AndersonDirection::apply: q[{j}] = {q[j]!r} is not (Σ αᵢ x̂ᵢ − x)[{j}] = {float(exq)!r} '
                            f'with α from γ_LS = {gam_ls}')
            bump('anderson_apply_affine')
            return None
    return None


def check_state(st, dt):
    """The accelerator inside the provider holds what the documented bookkeeping says."""
    m = _check_state(st, dt)
    if st['d'] == 'anderson' and st.get('aa') is not None:
        try:
            st['aa']['last'] = parse_aa_dump(S.T(list(dt.t)))
        except (ValueError, IndexError):
            st['aa']['last'] = None
    return m


def _check_state(st, dt):
    d = st['d']
    if d in ('lbfgs', 'slbfgs'):
        try:
            dd = parse_lbfgs_dump(dt)
        except (ValueError, IndexError):
            return 'unreadable L-BFGS dump'
        if not st['inited']:
            return None
        hist = st['hist']
        if dd['cur'] != len(hist) or len(dd['pairs']) != len(hist):
            return (f'{d}: buffer holds {dd["cur"]} pairs, {len(hist)} expected '
                    f'(accepted updates since the last flush, at most memory={st["P"]["m"]})')
        if dd['fwd'] != dd['rev'][::-1]:
            return 'foreach_fwd / foreach_rev orders differ'
        for k, ((s_, y), (s2, y2, rho)) in enumerate(zip(hist, dd['pairs'])):
            if bits(s2) != bits(s_) or bits(y2) != bits(y):
                return (f'{d}: stored pair #{k} (oldest first) is s={s2} y={y2}, expected s={s_} y={y}')
        return None
    if d == 'anderson':
        try:
            dd = parse_aa_dump(dt)
        except (ValueError, IndexError):
            return 'unreadable Anderson dump'
        A = st['aa']
        if A is None:
            return None if not dd['init'] else 'accelerator initialised before initialize()'
        n = st['n']
        mAA = min(n, int(st['kv'].get('mem', 5)))
        if (dd['n'], dd['m']) != (n, mAA):
            return f'AndersonAccel sizes {(dd["n"], dd["m"])}, expected {(n, mAA)}'
        K = len(A['dr'])
        if dd['K'] != K:
            return f'Anderson window holds {dd["K"]} residual differences, expected {K}'
        cols = [dd['G'][i * n:(i + 1) * n] for i in range(K + 1)]
        exp = [list(c) for c in A['g'][-(K + 1):]]
        if K == mAA and K > 0:
            exp[0] = exp[-1]
        if len(cols) != len(exp) or any(bits(a) != bits(b) for a, b in zip(cols, exp)):
            return f'Anderson G ring holds {cols}, expected the last function values x̂: {exp}'
        if bits(dd['rl']) != bits(A['rl']):
            return f'Anderson r_last = {dd["rl"]}, expected the last residual p = {A["rl"]}'
        return None
    return None


def monitor(op, out, st):
    if op.startswith('new '):
        st['seq'] = []
    seq = st.get('seq') or []
    try:
        m = _monitor(op, out, st)
    except (IndexError, ValueError, KeyError, ZeroDivisionError, OverflowError) as e:
        m = f'monitor could not read the output {strip_ev(out)[:120]!r}: {e!r}'
    st['seq'] = seq
    seq.append(op)
    if m:
        shown = seq if len(seq) <= 40 else seq[:1] + ['…'] + seq[-39:]
        return m + ' || op sequence: ' + ' ; '.join(x[:400] for x in shown)
    return None


# ------------------------------------------------------------------ the check

# classes the op-sequence generator must reach in every run (audit-2 addendum: a class that was never exercised
# is a broken tie, not a pass)
REQUIRED_COVERAGE = [
    'noop_apply', 'lbfgs_apply_dense', 'lbfgs_apply_empty', 'lbfgs_upd_rejected', 'lbfgs_wraparound',
    'lbfgs_chg_rescale', 'lbfgs_chg_flush',
    'slbfgs_J_empty', 'slbfgs_J_full', 'slbfgs_J_partial', 'slbfgs_partial_dense', 'slbfgs_fd_point',
    'slbfgs_hv_ihessL', 'slbfgs_hv_ihesspsi', 'slbfgs_failure_policy_0', 'slbfgs_failure_policy_1',
    'slbfgs_fallback_exact', 'slbfgs_wraparound', 'slbfgs_cbfgs_throw',
    'slbfgs_forced_zero_curvature_all_free_apply',
    'anderson_apply_affine', 'anderson_gamma_ls_independent', 'anderson_zero_difference',
    'anderson_dependent_difference', 'anderson_chg_rescale_R_checked', 'anderson_chg_flush',
    'anderson_apply_before_init',
]

TRUSTED = [
    'Lean 4.33 kernel + Mathlib (axioms: propext, Classical.choice, Quot.sound)',
    'gen/cxxparse.py + gen/lean_emit.py + gen/gen_dirs.py (translator: every argument list, branch condition and '
    'componentwise statement of noop.hpp / lbfgs.hpp / anderson.hpp / structured-lbfgs.hpp / structured-lbfgs.tpp and '
    'calc_augmented_lagrangian_hessian_prod_fd → Lean; control skeleton of StructuredLBFGSDirection::apply / '
    'approximate_hessian_vec_term shape-checked)',
    'hand-written skeleton Alpaqa/Model/Directions.lean on top of the C09 (LBFGS), C10 (AndersonAccel) and C15 '
    '(inactive indices) models; tied by bit-exact op-sequence correspondence on the real provider objects and by the '
    'oracle-free PANOC replay, on the explored sequences / runs only',
    'the problem functions the structured provider calls inside apply (eval_grad_ψ, eval_hess_L_prod, eval_hess_ψ_prod, '
    'eval_g, eval_grad_gi) are oracles; std::cbrt(ε) is a parameter of the model (Float.cbrt in the drivers)',
    'theorems over ordered fields (real-number semantics): IEEE rounding, NaN markers and exceptions are covered by '
    'the correspondence, not by the theorems',
]


def extra_stage(rep, broken, exe, tier, *, with_proof=False):
    """Stages 2–4 (and, stand-alone, stage 1).  Appends to `broken`, records violations in `rep`."""
    thorough = tier == 'thorough'
    if with_proof:
        ps = C.proof_stage(rep, rep.pid, GEN_SCRIPTS, MODULES, driver=DRIVER, extra_sources=EXTRA_SOURCES,
                           extra_targets=[DRIVER_FULL])
        broken.extend(ps['broken'])
    else:
        _attached_proof_stage(rep, broken)
    return _run_stages(rep, broken, thorough)


def _attached_proof_stage(rep, broken):
    """Attached to another check (C09): its own proof stage has set the counters; add ours.  One critical
    section (regenerate → build → snapshot of the drivers → audit), as `common.proof_stage`."""
    import contextlib
    # (the lock of common.py is re-entrant when it has the `_held` table; otherwise nesting would deadlock)
    outer = C.Lock('lake') if hasattr(C.Lock, '_held') else contextlib.nullcontext()
    with outer:
        for gsc in GEN_SCRIPTS:
            r = C.run_gen(gsc)
            if not r.get('ok'):
                broken.append(f'translator {gsc}: {r.get("error")}')
            rep.cov.setdefault('translator_regions', {})[gsc] = r.get('regions') if r.get('ok') else r.get('error')
        ok, out = C.lake_build(MODULES + [DRIVER, DRIVER_FULL])
        rep.note(f'[dirs] lake build {" ".join(MODULES + [DRIVER, DRIVER_FULL])}: {"ok" if ok else "FAILED"}')
        if not ok:
            broken.extend('lake build: ' + e for e in C.failing_decls(out))
            for drv in (DRIVER, DRIVER_FULL):
                C.lake_build([drv])
        if hasattr(C, 'snapshot_drivers'):
            C.snapshot_drivers([DRIVER, DRIVER_FULL])
        files = [os.path.join(C.LEAN, x) for x in EXTRA_SOURCES]
        n_obl = n_dis = 0
        for mod in MODULES:
            lf = os.path.join(C.LEAN, mod.replace('.', '/') + '.lean')
            files.append(lf)
            ns, names, n_ex = C.theorem_names(lf)
            n_obl += len(names) + n_ex
            if ok:
                aok, res, raw, bad, missing = C.audit_axioms(mod, names, ns)
                for k, v in bad.items():
                    broken.append(f'axiom audit: {k} depends on {v}')
                for m_ in missing:
                    broken.append(f'axiom audit: no report for {m_}')
                if not aok and not bad and not missing:
                    broken.append('axiom audit: lean failed: ' + raw[-400:])
                n_dis += len(names) + n_ex - len(bad) - len(missing)
                rep.cov['axioms_used'] = sorted(set(rep.cov.get('axioms_used', [])) | {a for v in res.values() for a in v})
        for h in C.forbidden_hits(files):
            broken.append('forbidden token: ' + h)
        rep.cov['obligations'] = rep.cov.get('obligations', 0) + n_obl
        rep.cov['discharged'] = rep.cov.get('discharged', 0) + (n_dis if ok else 0)


def _run_stages(rep, broken, thorough):
    found = False
    # ---- op-sequence correspondence + monitors on the real providers
    dexe, log = build_harness()
    if dexe is None:
        broken.append('dirs harness does not compile against the working tree: ' + (log or '')[-1200:])
    else:
        rng = random.Random(C.seed() * 1000003 + (29 if thorough else 11))
        ops = gen_ops(rng, 200000 if thorough else 30000)
        hout, i, dout, err = correspondence(dexe, ops)
        rep.cov['evaluations'] += len(hout)
        if err:
            if 'crashed' in err:
                rep.violation('[dirs] ' + err, {'op': ops[i] if i < len(ops) else None}, True)
                found = True
            else:
                broken.append('[dirs] ' + err)
        elif i is not None:
            j = max(k for k in range(min(i, len(ops) - 1) + 1) if ops[k].startswith('new '))
            broken.append(f'[dirs] correspondence: provider model and real provider differ on op #{i}: '
                          f'{ops[i][:160] if i < len(ops) else "<eof>"} real={strip_ev(hout[i])[:200] if i < len(hout) else None} '
                          f'model={dout[i][:200] if i < len(dout) else None} (sequence starts at op #{j}: {ops[j][:120]})')
            rep.cov['dirs_first_disagreement'] = {'sequence': ops[j:i + 1], 'real': strip_ev(hout[i]) if i < len(hout) else None,
                                                  'model': dout[i] if i < len(dout) else None}
        rep.cov['dirs_ops_validated'] = len(ops) if (i is None and not err) else (i or 0)
        st = {}
        bad = 0
        for k, (o, h) in enumerate(zip(ops, hout)):
            m = monitor(o, h, st)
            if m:
                rep.violation('[dirs] monitor: ' + m[:3000], {'op': o, 'impl_out': h, 'index': k}, True)
                found = True
                bad += 1
                if bad >= 3:
                    break
        rep.cov['dirs_monitor_counts'] = dict(sorted(STATS.items()))
        rep.cov['dirs_exemptions'] = {k: v for k, v in sorted(STATS.items()) if k.startswith('exempt_')}
        missing = [k for k in REQUIRED_COVERAGE if STATS.get(k, 0) == 0]
        rep.cov['dirs_required_coverage'] = {k: STATS.get(k, 0) for k in REQUIRED_COVERAGE}
        if missing and not err and i is None:
            broken.append('[dirs] required coverage classes never exercised by the generated op sequences: '
                          + ', '.join(missing))
        per = {}
        for o in ops:
            if o.startswith('new '):
                cur = dict(w.split('=', 1) for w in o.split()[1:])['dir']
            per[cur] = per.get(cur, 0) + 1
        rep.cov['dirs_ops_per_provider'] = per
        rep.note(f'[dirs] op-sequence correspondence on the real providers: {len(ops)} ops {per}, '
                 f'first disagreement: {i}')
    # ---- oracle-free PANOC replay
    fexe, log = build_full_harness()
    if fexe is None:
        broken.append('solvers_panoc_full harness does not compile against the working tree: ' + (log or '')[-1200:])
    else:
        rng = random.Random(C.seed() * 7919 + (5 if thorough else 3))
        ops = [gen_full_run(rng).line() for _ in range(8000 if thorough else 1200)]
        r = replay_full(fexe, ops)
        rep.cov['evaluations'] += len(r['hout'])
        rep.cov['loopfull'] = {k: v for k, v in r.items() if k != 'hout'}
        per = {}
        its = 0
        inner = 0
        for o, h in zip(ops, r['hout']):
            dname = S.Op.parse(o)['dir']
            per[dname] = per.get(dname, 0) + 1
            try:
                its += S.parse_out(h)['stats'].get('iterations', 0)
            except Exception:
                pass
            inner += h.count(' ; EV i')
        nonfin = 0
        linear = 0
        for o, h in zip(ops, r['hout']):
            linear += ' linear=1' in o
            try:
                msg, c_ = nonfinite_direction_monitor(o, h)
            except Exception as e:
                msg, c_ = f'monitor could not read the run output: {e!r}', 0
            nonfin += c_
            if msg:
                rep.violation('[dirs] monitor (PANOC run): ' + msg, {'op': o, 'impl_out': h[:4000]}, True)
                found = True
                break
        rep.cov['loopfull'].update(per_provider=per, iterations=its, inner_problem_calls=inner,
                                   linear_psi_runs=linear, nonfinite_directions_rejected=nonfin)
        if nonfin == 0 and not r['bad']:
            broken.append('[dirs] required coverage: no PANOC run produced a non-finite direction (forced '
                          'zero-curvature pair of StructuredLBFGSDirection on a linear ψ)')
        rep.cov['traces_validated_against_impl'] = rep.cov.get('traces_validated_against_impl', 0) + \
            (r['n'] - r['bad'] - r['skipped'])
        rep.note(f'[dirs] oracle-free PANOC replay: {r["n"]} runs {per}, {its} iterations, {inner} problem calls inside '
                 f'directions, bad={r["bad"]} (cross-check {r["crosscheck"]}), skipped={r["skipped"]}')
        if r['bad']:
            if any('crashed' in f for f in r['first']):
                rep.violation('[dirs] ' + r['first'][0], {'first': r['first']}, True)
                found = True
            else:
                broken.append(f'[dirs] oracle-free PANOC replay: model and real solver differ on {r["bad"]} of {r["n"]} '
                              f'runs; first: {r["first"][0][:900]}')
    return found


def make_report(tier):
    import loops

    class DirsReport(loops.LoopReport):
        """violations are reported as property C09; evidence and replay files are named DIRS"""

        def violation(self, what, payload, has_input=True, key=None):
            pid = self.pid
            try:
                self.pid = self.evid_name
                return super().violation(what, payload, has_input, key)
            finally:
                self.pid = pid
    return DirsReport('C09', tier, 'DIRS')


def main(argv):
    tier = C.tier_from_argv(argv)
    rep = make_report(tier)
    rep.cov['trusted_base'] = TRUSTED
    rep.cov['rule'] = ('seeded op sequences on the four real provider objects (memory 0..5, n 1..4, both step-size policies, '
                       'rescale on/off, CBFGS on/off, hessian_vec_factor 0 / ≠ 0 with finite differences / Lagrangian / '
                       'eval_hess_ψ_prod / manual penalty terms, both failure policies, boxes mixed / none / pinned, ℓ1, '
                       'rejected updates, wrap-around, γ changes, NaN / inf / zero vectors, apply before initialize, '
                       'throwing initialize); PANOC runs of checks/c03.gen_run with dir ∈ {noop, lbfgs, slbfgs, anderson} '
                       'and random provider parameters, replayed without direction oracle')
    rep.assumptions = ['harness flags pin Eigen evaluation order; Lean Float.cbrt = std::cbrt on ε',
                       'the providers are used as PANOC uses them (initialize first; after a throwing initialize the '
                       'object is not used)']
    broken = []
    found = extra_stage(rep, broken, None, tier, with_proof=True)
    for b in broken:
        rep.note('BROKEN: ' + b[:700])
    if broken and not found:
        rep.violation('direction-provider layer no longer shown to match its model / theorems: ' +
                      '; '.join(b[:300] for b in broken[:4]), {'broken': broken}, has_input=False)
    if broken:
        rep.cov['discharged'] = min(rep.cov.get('discharged', 0), max(0, rep.cov['obligations'] - 1))
    return rep.finish()


if __name__ == '__main__':
    if '--dev' in sys.argv:
        exe, log = build_harness()
        assert exe, log
        a = [x for x in sys.argv[1:] if x != '--dev']
        rng = random.Random(int(a[0]) if a else 1)
        ops = gen_ops(rng, int(a[1]) if len(a) > 1 else 2000)
        hout, i, dout, err = correspondence(exe, ops)
        print('ops', len(ops), 'first diff', i, err)
        if i is not None and i < len(ops) and i < len(hout):
            j = max(k for k in range(i + 1) if ops[k].startswith('new '))
            for k in range(j, i + 1):
                print('OP', ops[k][:1500]); print('  H', strip_ev(hout[k])[:1500])
                print('  M', dout[k][:1500] if k < len(dout) else None)
        st = {}
        nb = 0
        for o, h in zip(ops, hout):
            m = monitor(o, h, st)
            if m:
                print('MONITOR', m[:2500]); nb += 1
                if nb > 3:
                    break
        print(dict(sorted(STATS.items())))
        sys.exit(0)
    sys.exit(main(sys.argv))
