#!/usr/bin/env python3
"""DIRS — the PANOC direction-provider layer (NoopDirection, LBFGSDirection, StructuredLBFGSDirection,
AndersonDirection) inside the model.  Extra stage of the C09 check (`extra_stage`), also stand-alone:

    python3 checks/dirs.py --tier quick|thorough          (evidence/DIRS.json, violations as property C09)

Stages
  1. proof: gen_dirs.py (+ gen_c09 / gen_c10 / gen_c15 / gen_c05 / gen_c06, the kernels the models call) →
     lake build Alpaqa.Props.Directions drv_dirs drv_loop_full → forbidden tokens, `#print axioms`.
  2. op-sequence correspondence on the REAL provider objects (`harness/dirs.cpp` ↔ `Driver/Dirs.lean`),
     bit-exact at Float:
        new dir=<noop|lbfgs|slbfgs|anderson> <provider parameters> <PolyProblem spec> y0=… Sig=…
        init γ x x̂ p ∇ψ | hasinit | upd γk γn xk xn pk pn ∇ψk ∇ψn | app γ x x̂ p ∇ψ q0 | chg γ γold | reset
     every output line carries a dump of the accelerator inside the provider.
  3. monitors on the real providers' outputs (exact rationals): what the wrappers promise.
  4. oracle-free PANOC replay (`harness/solvers_panoc_full.cpp` ↔ `Driver/LoopFull.lean`): the whole
     PANOC run incl. the quasi-Newton directions is recomputed by the Lean side from the problem-oracle
     tables, the parameters and the stop tick; the recorded direction events are only cross-checked.
"""
import math
import os
import random
import sys
from fractions import Fraction as Fr

sys.path.insert(0, os.path.dirname(os.path.abspath(__file__)))
import common as C
import solvers as S
from common import f2h, h2f, vec2p

EPS = 2.0 ** -52
INF = float('inf')
NAN = float('nan')

HARNESS_LIBS = S.LIB_SUBSET
DRIVER = 'drv_dirs'
DRIVER_FULL = 'drv_loop_full'
GEN_SCRIPTS = ['gen_c09.py', 'gen_c10.py', 'gen_c15.py', 'gen_c05.py', 'gen_c06.py', 'gen_dirs.py']
MODULES = ['Alpaqa.Props.Directions']
EXTRA_SOURCES = ['Alpaqa/Model/Directions.lean', 'Alpaqa/Model/DirectionsPanoc.lean', 'Alpaqa/Gen/Dirs.lean',
                 'Alpaqa/Proofs/Directions.lean', 'Driver/Dirs.lean', 'Driver/DirsCommon.lean',
                 'Driver/LoopFull.lean']


def build_harness():
    return C.build_exe('dirs', [os.path.join(C.VERIF, 'harness', 'dirs.cpp')] + C.repo_lib_sources(HARNESS_LIBS))


def build_full_harness():
    srcs = [os.path.join(C.VERIF, 'harness', s) for s in ('solvers_panoc_full.cpp',)]
    return C.build_exe('solvers_full', srcs + C.repo_lib_sources(HARNESS_LIBS))


# ------------------------------------------------------------------ generation of op sequences

def dy(rng, lo=-4, hi=4, den=4):
    return rng.randint(lo * den, hi * den) / den


def vec(rng, n, exact=True, scale=1.0):
    if exact:
        return [dy(rng) * scale for _ in range(n)]
    return [rng.gauss(0, 1) * scale * 10 ** rng.uniform(-1, 1) for _ in range(n)]


def provider_kv(rng, d, exact):
    kv = {'dir': d}
    if d in ('lbfgs', 'slbfgs'):
        kv['mem'] = str(rng.choice([1, 1, 2, 2, 3, 5]))
        if rng.random() < 0.03:
            kv['mem'] = '0'                              # LBFGS::resize throws
        kv['curv'] = str(rng.randint(0, 1))
        if rng.random() < 0.3:
            kv['fpd'] = str(rng.randint(0, 1))
        if rng.random() < 0.25:
            kv['mdf'] = f2h(rng.choice([0.0, EPS, 2.0 ** -10, 0.25]))
            kv['mas'] = f2h(rng.choice([0.0, EPS * EPS, 2.0 ** -20, 0.5]))
        if rng.random() < (0.06 if d == 'slbfgs' else 0.15):
            kv['ca'] = f2h(rng.choice([2.0, 1.0, 0.0]))
            kv['ce'] = f2h(rng.choice([0.25, 1.0, 2.0 ** -6]))
    if d == 'lbfgs':
        kv['rescale'] = str(rng.randint(0, 1))
    if d == 'slbfgs':
        r = rng.random()
        if r < 0.45:
            kv['hvf'] = f2h(0.0)
        else:
            kv['hvf'] = f2h(rng.choice([1.0, 1.0, 0.5, 2.0, -1.0]) if exact or rng.random() < 0.5
                            else rng.uniform(0.1, 2.0))
        if rng.random() < 0.7:
            kv['hvfd'] = str(rng.randint(0, 1))
        if rng.random() < 0.7:
            kv['fullaug'] = str(rng.randint(0, 1))
        if rng.random() < 0.7:
            kv['fpol'] = str(rng.randint(0, 1))
        kv['hess'] = str(int(rng.random() < 0.85))
        kv['provgi'] = str(int(rng.random() < 0.8))
        kv['provhpsi'] = str(int(rng.random() < 0.4))
    if d == 'anderson':
        kv['mem'] = str(rng.choice([1, 2, 2, 3, 5]))
        kv['rescale'] = str(rng.randint(0, 1))
        if rng.random() < 0.2:
            kv['amdf'] = f2h(rng.choice([0.0, 2.0 ** -20, 0.25]))
    return kv


def init_throws(kv):
    """Does `initialize` throw for these parameters?  (LBFGS::resize: memory < 1; the argument checks of
    StructuredLBFGSDirection::initialize, restated from its documentation / error messages.)"""
    d = kv['dir']
    if d in ('lbfgs', 'slbfgs') and int(kv.get('mem', 5)) < 1:
        return True
    if d == 'slbfgs':
        hvf = h2f(kv.get('hvf', f2h(0.0)))
        fd = int(kv.get('hvfd', 1)) != 0
        full = int(kv.get('fullaug', 1)) != 0
        hessL = int(kv.get('hess', 0)) != 0
        hpsi = int(kv.get('provhpsi', 0)) != 0
        gi = int(kv.get('provgi', 0)) != 0
        if hvf != 0 and not fd:
            if not full:
                return not hessL
            if not (hessL or hpsi):
                return True
            if not hpsi and not gi:          # needs get_box_D (always there) and eval_grad_gi
                return True
    return False


def gen_sequence(rng, L, d=None):
    d = d or rng.choice(['lbfgs', 'lbfgs', 'slbfgs', 'slbfgs', 'slbfgs', 'anderson', 'anderson', 'noop'])
    exact = rng.random() < 0.6
    n = rng.choice([1, 2, 2, 3, 3, 4])
    boxkind = rng.choice(['mixed', 'mixed', 'mixed', 'none', 'fixed'])
    l1 = rng.random() < 0.25
    p = S.gen_problem(rng, n=n, exact=exact, l1=l1, box='none' if boxkind == 'none' else 'mixed')
    if boxkind == 'fixed':                               # every variable pinned: J is always empty
        p['Clb'] = [dy(rng) for _ in range(n)]
        p['Cub'] = list(p['Clb'])
    st = S.gen_start(rng, p)
    kv = provider_kv(rng, d, exact)
    kv.update(S.problem_kv(p))
    kv.update({'y0': S.kvvec(st['y0']), 'Sig': S.kvvec(st['Sig'])})
    ops = ['new ' + ' '.join(f'{k}={v}' for k, v in kv.items())]
    gam = rng.choice([0.5, 0.25, 1.0, 0.125]) if exact or rng.random() < 0.5 else rng.uniform(0.01, 2.0)
    # a smooth fake iteration: x_{k+1} = x_k + step; residual map p(x) = −D x + c (⟨y,s⟩ > 0 for the
    # L-BFGS sign convention), gradient g(x) = H x + c' (H = diag > 0, sometimes indefinite)
    D = [rng.choice([0.5, 1.0, 2.0]) for _ in range(n)]
    Hd = [rng.choice([0.5, 1.0, 2.0, 4.0]) for _ in range(n)]
    if rng.random() < 0.2:
        Hd[rng.randrange(n)] = -1.0
    c1, c2 = vec(rng, n, exact), vec(rng, n, exact)
    pf = lambda x: [-gam * D[i] * x[i] + c1[i] for i in range(n)]
    gf = lambda x: [Hd[i] * x[i] + c2[i] for i in range(n)]
    x = vec(rng, n, exact)

    def weird(v):
        r = rng.random()
        if r < 0.03:
            return [0.0] * n
        if r < 0.05:
            w = list(v); w[rng.randrange(n)] = NAN
            return w
        if r < 0.06:
            w = list(v); w[rng.randrange(n)] = rng.choice([INF, -INF])
            return w
        return v

    def init_line():
        pp = pf(x)
        return f'init {f2h(gam)} {vec2p(x)} {vec2p([a + b for a, b in zip(x, pp)])} {vec2p(pp)} {vec2p(gf(x))}'
    if rng.random() < 0.06 and d != 'slbfgs':
        ops.append(app_line(rng, n, gam, x, pf, gf, exact))        # apply before initialize
    ops.append(init_line())
    if init_throws(kv):
        # the solver would propagate the exception; the object is not usable (null problem pointer /
        # unallocated storage): only the calls that do not touch them
        for _ in range(rng.randint(0, 3)):
            ops.append(rng.choice(['hasinit', 'reset', f'chg {f2h(gam / 2)} {f2h(gam)}']))
        return ops
    for _ in range(L):
        k = rng.random()
        if k < 0.36:
            mode = rng.random()
            if mode < 0.7:
                xn = [a + b for a, b in zip(x, vec(rng, n, exact, 0.5))]
            elif mode < 0.8:
                xn = list(x)                                        # s = 0: rejected
            else:
                xn = vec(rng, n, exact)
            pk, pn, gk, gn = pf(x), pf(xn), gf(x), gf(xn)
            if rng.random() < 0.2:                                  # curvature condition violated
                pn = [a + b for a, b in zip(pk, [xn[i] - x[i] for i in range(n)])]
                gn = [a - b for a, b in zip(gk, [xn[i] - x[i] for i in range(n)])]
            gn_ = rng.choice([gam, gam, gam / 2])
            ops.append(f'upd {f2h(gam)} {f2h(gn_)} {vec2p(weird(x))} {vec2p(weird(xn))} {vec2p(weird(pk))} '
                       f'{vec2p(weird(pn))} {vec2p(weird(gk))} {vec2p(weird(gn))}')
            x = xn
        elif k < 0.72:
            ops.append(app_line(rng, n, gam, x, pf, gf, exact, weird))
        elif k < 0.84:
            r = rng.random()
            if r < 0.7:
                new = gam / 2
            elif r < 0.8:
                new = gam * 2
            elif r < 0.9:
                new = gam * rng.choice([0.75, 0.3, 1.0])
            else:
                new = rng.choice([0.0, -gam, NAN, INF])
            ops.append(f'chg {f2h(new)} {f2h(gam)}')
            if new == new and 0 < new < INF:
                gam = new
        elif k < 0.90:
            ops.append('reset')
        elif k < 0.95:
            ops.append('hasinit')
        else:
            ops.append(init_line())
    ops.append(app_line(rng, n, gam, x, pf, gf, exact))
    return ops


def app_line(rng, n, gam, x, pf, gf, exact, weird=lambda v: v):
    r = rng.random()
    if r < 0.75:
        pp, g = pf(x), gf(x)
    else:
        pp, g = vec(rng, n, exact), vec(rng, n, exact)
    g_ = gam if rng.random() < 0.9 else rng.choice([0.0, -1.0, 2 * gam, NAN])
    xh = [a + b for a, b in zip(x, pp)]
    q0 = vec(rng, n, True)
    return (f'app {f2h(g_)} {vec2p(weird(x))} {vec2p(weird(xh))} {vec2p(weird(pp))} {vec2p(weird(g))} '
            f'{vec2p(q0)}')


def gen_ops(rng, n_lines):
    ops = []
    while len(ops) < n_lines:
        L = rng.choice([3, 6, 10, 20, 40]) if rng.random() < 0.95 else 120
        ops += gen_sequence(rng, L)
    return ops


# ------------------------------------------------------------------ correspondence

def strip_ev(line):
    return line.split(' ; EV ', 1)[0].rstrip()


def ev_part(line):
    i = line.find(' ; EV ')
    return '' if i < 0 else line[i + 3:]


def correspondence(exe, ops):
    """→ (harness outputs, index of first disagreement | None, driver outputs)."""
    hout, rc, err = C.run_lines(exe, ops, timeout=3000)
    if rc != 0 or len(hout) != len(ops):
        return hout, len(hout), [], f'real code crashed / aborted on op #{len(hout)} (rc={rc}): {err[-300:]}'
    drv = C.driver_exe(DRIVER)
    if not os.path.exists(drv):
        return hout, 0, [], 'driver executable missing'
    dout, rc, err = C.run_lines(drv, [o + ' || ' + ev_part(h) for o, h in zip(ops, hout)], timeout=3000)
    i = C.diff_streams(ops, [strip_ev(h) for h in hout], dout)
    return hout, i, dout, None


# ------------------------------------------------------------------ oracle-free PANOC replay

def gen_full_run(rng, d=None, **over):
    """A PANOC run (`c03.gen_run`) with one of the four shipped providers and random provider
    parameters; the extra keys are understood by harness/solvers_panoc_full.cpp only."""
    import c03
    d = d or rng.choice(['noop', 'lbfgs', 'lbfgs', 'slbfgs', 'slbfgs', 'slbfgs', 'anderson', 'anderson'])
    op = c03.gen_run(rng, solver='panoc')
    op['dir'] = d
    op.pop('advseed', None)
    if d in ('lbfgs', 'anderson'):
        op['rescale'] = str(rng.randint(0, 1))
    if d in ('lbfgs', 'slbfgs'):
        op['curv'] = str(rng.randint(0, 1))
        if rng.random() < 0.2:
            op['fpd'] = str(rng.randint(0, 1))
    if d == 'slbfgs':
        r = rng.random()
        op['hvf'] = f2h(0.0 if r < 0.4 else rng.choice([1.0, 1.0, 0.5, 2.0]))
        op['hvfd'] = str(int(rng.random() < 0.5))
        op['fullaug'] = str(rng.randint(0, 1))
        op['fpol'] = str(rng.randint(0, 1))
        op['hess'] = '1'
        op['provgi'] = '1'
        op['provhpsi'] = str(int(rng.random() < 0.4))
    for k, v in over.items():
        op[k] = str(v)
    return op


def _cb_q_span(toks):
    """(start, end) token indices of the `q` vector inside a `CB …` section."""
    p = 3                      # CB k status
    def vec_(p):
        return p + 1 + int(toks[p])
    p = vec_(p); p = vec_(p); p += 1          # x p pTp
    p = vec_(p); p = vec_(p); p += 2          # x̂ ŷ φγ ψ
    p = vec_(p); p += 1                       # ∇ψ ψ̂
    p = p + 2 if toks[p] == '0' else vec_(p + 1)
    return p, vec_(p)


def mask_garbage_q(real, model):
    """`q` is uninitialised storage in the C++ until a provider has written it (NoopDirection never
    does; an empty L-BFGS / empty J returns before writing): the model carries NaN there (`garbage`).
    Where the model's callback `q` is all-NaN the field is not compared."""
    a, b = real.split(' ; '), model.split(' ; ')
    if len(a) != len(b):
        return real, model
    for k, (x, y) in enumerate(zip(a, b)):
        if x.startswith('CB ') and y.startswith('CB '):
            tx, ty = x.split(), y.split()
            try:
                s0, e0 = _cb_q_span(ty)
                s1, e1 = _cb_q_span(tx)
            except (IndexError, ValueError):
                continue
            if (s0, e0) == (s1, e1) and e0 - s0 > 1 and all(t == 'nan' for t in ty[s0 + 1:e0]):
                tx[s0 + 1:e0] = ['*'] * (e0 - s0 - 1)
                ty[s0 + 1:e0] = ['*'] * (e0 - s0 - 1)
                a[k], b[k] = ' '.join(tx), ' '.join(ty)
    return ' ; '.join(a), ' ; '.join(b)


def replay_full(exe, ops):
    """Real PANOC runs vs. the oracle-free Lean replay.  → dict(n, bad, skipped, first=[…], hout)."""
    import multiloop
    hout, rc, err = C.run_lines(exe, ops, timeout=3000)
    res = {'n': len(ops), 'bad': 0, 'skipped': 0, 'first': [], 'hout': hout, 'crosscheck': 0}
    if rc != 0 or len(hout) != len(ops):
        res['bad'] = 1
        res['first'].append(f'real solver crashed / aborted on op #{len(hout)} (rc={rc}): {err[-300:]}')
        return res
    drv = C.driver_exe(DRIVER_FULL)
    if not os.path.exists(drv):
        res['bad'] = 1
        res['first'].append('driver executable missing')
        return res
    dout, rc, err = C.run_lines(drv, [o + ' || ' + S.events_only(h) for o, h in zip(ops, hout)], timeout=3000)
    if rc != 0 or len(dout) != len(ops):
        res['bad'] = 1
        res['first'].append(f'driver rc={rc} lines={len(dout)}/{len(ops)}: {err[-300:]}')
        return res
    for i, (o, h, dl) in enumerate(zip(ops, hout, dout)):
        hs = multiloop.canon_early(S.strip_events(h))
        dl = multiloop.canon_early(dl.strip())
        hs, dl = mask_garbage_q(hs, dl)
        if hs != dl and S.Op.parse(o).nat('nanat') and multiloop.nonpure(S.parse_out(h)['events']):
            res['skipped'] += 1
            continue
        if hs != dl:
            res['bad'] += 1
            if 'DIRECTION-CROSSCHECK' in dl:
                res['crosscheck'] += 1
            if len(res['first']) < 3:
                a, b = hs.split(' ; '), dl.split(' ; ')
                k = next((j for j, (x, y) in enumerate(zip(a, b)) if x != y), min(len(a), len(b)))
                res['first'].append(f'op #{i}: {o[:300]} … section {k}: real={a[k][:300] if k < len(a) else None} '
                                    f'model={b[k][:400] if k < len(b) else None}')
    return res


if __name__ == '__main__':
    # development entry: correspondence only
    exe, log = build_harness()
    assert exe, log
    seed = int(sys.argv[1]) if len(sys.argv) > 1 else 1
    N = int(sys.argv[2]) if len(sys.argv) > 2 else 2000
    rng = random.Random(seed)
    ops = gen_ops(rng, N)
    hout, i, dout, err = correspondence(exe, ops)
    print('ops', len(ops), 'first diff', i, err)
    if i is not None and i < len(ops):
        j = max(k for k in range(i + 1) if ops[k].startswith('new '))
        for k in range(j, i + 1):
            print('OP', ops[k][:1500])
            print('  H', strip_ev(hout[k])[:1500])
            print('  M', dout[k][:1500] if k < len(dout) else None)
    import collections
    print(collections.Counter((o.split()[0], strip_ev(h).split(' ', 1)[0]) for o, h in zip(ops, hout)))
