#!/usr/bin/env python3
"""C19 — stop() interrupts the solver promptly, from any thread, leaving valid results.
DESIGN.md §6 C19.  Proof stage on Props/C19_Panoc.lean (+ the generated stop-flag tables),
trace-replay correspondence, exhaustive stop injection at every event index and every callback
index of fixed runs, and a real-thread test (ThreadSanitizer in the thorough tier).
ALM propagation (`Interrupted` returned without another inner solve) is checked by C07."""
import math
import os
import random
import subprocess
import sys

sys.path.insert(0, os.path.dirname(os.path.abspath(__file__)))
import common as C
import solvers as S
import c03
import c06_loop
import loops as LP

SOLVERS = ['panoc']
COUNTS = {}
HUNG = []

# inputs kept from earlier failures, run first
CORPUS = [
    # L_0 = 2^-12: 16 un-polled initial step-size backtracks; stop() from inside event 2
    # (known finding C19-init-stepsize-loop-not-interruptible)
    'run solver=panoc dir=lbfgs n=4 m=0 Q=16:401a000000000000,3fe0000000000000,4014000000000000,4004000000000000,'
    '3fe0000000000000,4008000000000000,0000000000000000,3ff0000000000000,4014000000000000,0000000000000000,'
    '401d000000000000,4006000000000000,4004000000000000,3ff0000000000000,4006000000000000,4006000000000000 '
    'c=4:c018000000000000,c008000000000000,c01b000000000000,3ff8000000000000 '
    'q4=4:0000000000000000,0000000000000000,3ff0000000000000,0000000000000000 A=0: b=0: '
    'Clb=4:3fd0000000000000,4000000000000000,c000000000000000,c00c000000000000 '
    'Cub=4:400c000000000000,4000000000000000,7ff0000000000000,c004000000000000 Dlb=0: Dub=0: l1=0: '
    'x0=4:c000000000000000,3fe8000000000000,bff8000000000000,bff0000000000000 y0=0: Sig=0: maxiter=3 '
    'tol=3fb999999999999a crit=6 maxnp=10 overwrite=1 updcand=1 recomp=1 eager=0 force=0 mem=5 advseed=938 '
    'L0=3f30000000000000 stopat=2 stopcb=0 nanat=0 oot=0 wmscratch=1',
]

# Bound proved for the model (Props/C19_Panoc.at_most_one_iteration_after_stop): with the flag
# visible from tick t₀ the solve ends at tick ≤ max(init_ticks + 4, t₀ + 7).
AFTER_STOP = 7          # one stage in flight (≤ 3 more calls) + head (≤ 2) + exit block (≤ 2)
AFTER_INIT = 4          # head (≤ 2) + exit block (≤ 2)


def bump(k, n=1):
    COUNTS[k] = COUNTS.get(k, 0) + n


@C.tolerant
def sweep_ops(rng, exe, n_problems, solver='panoc'):
    """Exhaustive stop injection on fixed runs: stop() from inside every problem / direction call
    (event index 1…T, checks/c03.sweep_ops) *and* from inside every progress callback (1…#callbacks)."""
    ops = []
    for _ in range(n_problems):
        base = LP.LOOPS[solver]['gen_run'](rng, solver=solver, stop=False, maxiter=rng.choice([2, 3, 4]),
                                           nanat=0, oot=0, trace=0, tol=C.f2h(1e-12))
        try:
            out, rc, err = C.run_lines(exe, [base.line()], timeout=30)
        except subprocess.TimeoutExpired:
            HUNG.append(base.line())
            continue
        if rc != 0 or not out:
            continue
        r = S.parse_out(out[0])
        base.pop('trace')
        for t in range(1, r.get('ticks', 0) + 1):
            o = S.Op(base); o['stopat'] = str(t)
            ops.append(o.line())
        for j in range(1, len(r['cbs']) + 1):
            o = S.Op(base); o['stopcb'] = str(j)
            ops.append(o.line())
        bump('sweep_base_runs')
    return ops


def monitor(op_line, out_line, st):
    if out_line.startswith('exception') or out_line in ('bad-op', 'bad-direction'):
        return f'harness: {out_line[:100]}'
    op = S.Op.parse(op_line)
    r = S.parse_out(out_line)
    stx = r['stats']
    if stx['status'] == 'exception':
        return 'solver threw'
    # outputs: same consistency relations as any other exit (C03), status conditions (C06)
    m = c03.monitor(op_line, out_line, st)
    if m:
        return m
    m = c06_loop.monitor(op_line, out_line, st)
    if m:
        return m
    T = r.get('ticks', 0)
    t0 = LP.stoptick(r)
    want = op.nat('stopat', 0) or op.nat('stopcb', 0)
    if t0 is None:
        if stx['status'] == 'Interrupted':
            return 'Interrupted although stop() was never called'
        bump('runs_finished_before_stop' if want else 'runs_without_stop')
        return None
    bump('stops_landed')
    init = LP.init_ticks(r)
    status = stx['status']
    # promptness: tick bound
    if T > max(init + AFTER_INIT, t0 + AFTER_STOP):
        return (f'stop() landed at event {t0} but the solve made {T - t0} further calls (total {T}; '
                f'initialisation {init}); bound: {AFTER_STOP} after the stop or {AFTER_INIT} after the '
                f'initialisation')
    # at most one more progress callback with status Busy after the stop
    names = LP.event_names(r)
    cb_after = sum(1 for n in names[t0:] if n == 'cb')
    if cb_after > 2:
        return f'{cb_after} progress callbacks after stop() landed at event {t0}'
    # the flag was visible at the last head (which precedes at most 2 calls) -> Interrupted unless a
    # higher-priority condition held there (those are checked by the C06 monitor above)
    if t0 <= T - 2 and status not in ('Interrupted', 'Converged', 'MaxTime', 'MaxIter', 'NotFinite',
                                      'NoProgress'):
        return f'stop() landed at event {t0} of {T} but the status is {status}'
    if t0 <= T - 2:
        bump('status_after_stop_' + status)
    if status == 'Interrupted':
        bump('interrupted')
        if r['out']['untouched'] and not r['cbs']:
            return 'Interrupted without any callback'
    if T - t0 > AFTER_STOP:
        # only possible for a stop that landed during the initialisation: the initial step-size
        # backtracking loop does not poll the flag
        nb = max(0, (init - (4 if op.flt('L0', 0.0) <= 0 else 3)) // 2)
        bump('stops_during_unpolled_init_backtracking')
        return (f'stop() landed at event {t0} during the initialisation; the initial step-size loop '
                f'({nb} backtracks, {init} calls in total) is not interruptible: {T - t0} further calls '
                f'> {AFTER_STOP}', 'C19-init-stepsize-loop-not-interruptible')
    return None


def nontrivial(op_line, out_line):
    try:
        r = S.parse_out(out_line)
        if LP.stoptick(r) is not None:
            return hash(op_line)
    except Exception:
        return None
    return None


# ------------------------------------------------------------------ real threads

THREAD_LIB = S.LIB_SUBSET


def build_thread_harness(tsan):
    srcs = [os.path.join(C.VERIF, 'harness', 'c19_threads.cpp')] + C.repo_lib_sources(THREAD_LIB)
    if tsan:
        return C.build_exe('c19_threads_tsan', srcs, flags=['-fsanitize=thread', '-g'],
                           ldflags=['-fsanitize=thread'])
    return C.build_exe('c19_threads', srcs)


def thread_ops(rng, n):
    ops = []
    for _ in range(n):
        p = S.gen_problem(rng, convex=rng.random() < 0.5)
        st = S.gen_start(rng, p)
        op = S.Op({'_op': 'threadstop', 'dir': rng.choice(['lbfgs', 'lbfgs', 'noop', 'anderson']),
                   **S.problem_kv(p), **{k: S.kvvec(v) for k, v in st.items()},
                   'maxiter': str(rng.choice([50, 200, 1000])), 'tol': C.f2h(rng.choice([1e-300, 1e-300, 1e-14, 1e-3])),
                   'crit': str(rng.randrange(10)), 'maxnp': '1000', 'overwrite': str(rng.randint(0, 1)),
                   'updcand': str(rng.randint(0, 1)), 'recomp': str(rng.randint(0, 1)),
                   'eager': str(rng.randint(0, 1)), 'mem': str(rng.choice([1, 5])),
                   'L0': C.f2h(rng.choice([0.0, 0.0, 1.0])),
                   'stopeval': str(rng.choice([1, 2, 3, 5, 8, 9, 10, 11, 12, 13, 17, 21, 30, 40, 80, 200])),
                   'delay_us': str(rng.choice([0, 0, 0, 1, 10, 100, 1000])),
                   'spin': str(rng.choice([0, 200, 2000, 20000]))})
        ops.append(op.line())
    return ops


def thread_monitor(op_line, out_line):
    if out_line.startswith('exception') or out_line in ('bad-op',):
        return f'thread harness: {out_line[:100]}'
    r = S.parse_out(out_line)
    if r['stats']['status'] == 'exception':
        return 'solver threw'
    a = [s.split() for s in out_line.split(' ; ') if s.startswith('A ')]
    at_stop, total, in_time = int(a[0][1]), int(a[0][2]), a[0][3] == '1'
    status = r['stats']['status']
    if status not in ('Interrupted', 'Converged', 'MaxIter', 'NoProgress', 'NotFinite'):
        return f'status {status}'
    if in_time and at_stop < 6 + 2 * r['stats']['stepsize_backtracks']:
        bump('thread_stop_possibly_during_init')     # promptness bound not applied (see the finding)
    if status == 'Interrupted':
        bump('thread_interrupted')
        if not in_time and at_stop < 0:
            return 'Interrupted but stop() was not called'
        if total - at_stop > AFTER_STOP and at_stop >= 6 + 2 * r['stats']['stepsize_backtracks']:
            return (f'stop() returned when {at_stop} evaluations had begun, the solve made '
                    f'{total - at_stop} more (> {AFTER_STOP})')
    else:
        bump('thread_natural_' + status)
        if in_time and total - at_stop > AFTER_STOP and at_stop >= 6 + 2 * r['stats']['stepsize_backtracks']:
            return (f'stop() was called in time ({at_stop} evaluations begun) but the solve went on for '
                    f'{total - at_stop} evaluations and returned {status}')
    # outputs consistent (same relations as any other exit)
    op = S.Op.parse(op_line)
    return c03.monitor(op_line, out_line, {})


def thread_stage(rep, broken, exe_, tier):
    tsan = tier == 'thorough'
    texe, log = build_thread_harness(tsan)
    if texe is None:
        broken.append('thread harness does not compile against the working tree: ' + log[-1200:])
        return
    rng = random.Random(C.seed() * 7717 + 19)
    ops = thread_ops(rng, 40 if tier == 'quick' else 400)
    env = dict(os.environ, TSAN_OPTIONS='halt_on_error=0 report_signal_unsafe=0 exitcode=0')
    r = subprocess.run([texe], input='\n'.join(ops) + '\n', stdout=subprocess.PIPE, stderr=subprocess.PIPE,
                       text=True, timeout=1500, env=env)
    out = r.stdout.splitlines()
    rep.cov['evaluations'] += len(out)
    rep.cov['thread_runs'] = len(out)
    rep.cov['thread_sanitizer'] = 'ThreadSanitizer (-fsanitize=thread)' if tsan else 'none (quick tier)'
    if r.returncode != 0 or len(out) != len(ops):
        rep.violation(f'thread harness crashed / aborted on op #{len(out)} (rc={r.returncode}): {r.stderr[-400:]}',
                      {'op': ops[len(out)] if len(out) < len(ops) else None, 'stderr': r.stderr[-3000:]}, True)
        return
    if tsan and r.stderr.strip():
        rep.violation('ThreadSanitizer reported: ' + r.stderr.strip()[:600],
                      {'ops': ops[:5], 'stderr': r.stderr[-6000:]}, True)
    bad = 0
    for o, h in zip(ops, out):
        try:
            m = thread_monitor(o, h)
        except Exception as e:
            m = f'thread monitor crashed on {h[:80]!r}: {e!r}'
        if m:
            rep.violation('real-thread stop(): ' + m, {'op': o, 'impl_out': h}, True)
            bad += 1
            if bad >= 3:
                break
    if COUNTS.get('thread_interrupted', 0) == 0:
        broken.append('real-thread test never produced an Interrupted run')


def main(argv):
    exe, log = LP.LOOPS['panoc']['build']()
    tier = C.tier_from_argv(argv)

    def gen_ops(rng, n):
        if HUNG:
            return []          # a run already failed to terminate: no point in searching further
        first = not COUNTS.get('_gen_calls')
        bump('_gen_calls')
        ops = (CORPUS if first else []) + \
            [LP.LOOPS['panoc']['gen_run'](rng, solver='panoc', nanat=0).line() for _ in range(n)]
        if exe:
            ops += sweep_ops(rng, exe, 8 if tier == 'quick' else 60)
        ops, _, hung = LP.prescreen(exe, ops)
        HUNG.extend(hung)
        return ops

    def extra(rep, broken, exe_, tier_):
        LP.report_hung(rep, HUNG, 'PANOC')
        thread_stage(rep, broken, exe_, tier_)
        rep.cov['monitor_counts'] = dict(sorted(COUNTS.items()))
        rep.note('monitor coverage: ' + ', '.join(f'{k}={v}' for k, v in sorted(COUNTS.items())))
        if exe_ and COUNTS.get('interrupted', 0) == 0:
            broken.append('stop injection never produced an Interrupted run')

    return C.standard_check(
        'C19', argv,
        gen_scripts=['gen_c19.py', 'gen_c05.py', 'gen_c06.py', 'gen_c15.py'],
        modules=['Alpaqa.Props.C19_Panoc'], driver=LP.LOOPS['panoc']['driver'],
        extra_sources=['Alpaqa/Model/Panoc.lean', 'Alpaqa/Gen/C19.lean', 'Alpaqa/Gen/C06.lean',
                       'Alpaqa/Proofs/PanocLoop.lean', 'Alpaqa/Proofs/PanocInv.lean',
                       'Alpaqa/Props/C06_Panoc.lean', 'Alpaqa/Props/C03.lean',
                       'Alpaqa/Proofs/PanocLoopExample.lean'],
        harness_name='solvers', harness_sources=[], harness_builder=lambda: (exe, log),
        gen_ops=gen_ops, monitor=monitor, nontrivial=nontrivial, extra_stage=extra,
        driver_input=lambda o, h: o + ' || ' + S.events_only(h), impl_view=S.strip_events,
        n_quick=150, n_thorough=3000,
        trusted_base=[
            'Lean 4.33 kernel + Mathlib (axioms: propext, Classical.choice, Quot.sound)',
            'translator gen_c19 (declaration / accesses of stop_flag in atomic-stop-signal.hpp, uses of '
            'stop_signal in the solvers), gen_c06 (status chain)',
            'hand-written loop model Alpaqa/Model/Panoc.lean tied by bit-exact trace replay incl. the '
            'number of oracle calls, with stop() injected at every event / callback index of fixed runs',
            'the stop flag enters the model as a monotone function of the tick; data-race freedom is the '
            'C++ memory model\'s guarantee for std::atomic and is NOT proved — validated by the '
            'ThreadSanitizer run (thorough tier) only',
            'ALM propagation of Interrupted: see C07; ZeroFPR / PANTR / FISTA / PANOC-OCP: not covered here',
        ],
        assumptions=['stop() lands between two polls: the granularity of the model is one oracle call',
                     'x86-64 total store order in the real-thread test (relaxed load sees the store promptly)'],
        rule='exhaustive: for fixed PANOC runs (max_iter 2–4, all direction providers) stop() from inside '
             'every problem / direction call and every progress callback; plus seeded random runs with '
             'random stop points; plus real std::thread calling stop() after the k-th evaluation / a random '
             'delay on a slowed-down problem; non-trivial = the stop landed before the solve ended',
    )


if __name__ == '__main__':
    sys.exit(main(sys.argv))
