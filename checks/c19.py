#!/usr/bin/env python3
"""C19 — stop() interrupts the solver promptly, from any thread, leaving valid results.  DESIGN.md §6 C19.

One proof stage over Props/C19_{Panoc,Zerofpr,Pantr,Fista,Ocp} (+ the generated stop-flag tables of gen_c19,
+ Props/C07: ALM returns Interrupted at once when the inner solver was interrupted, and when its own stop
flag is visible after an inner solve that did not report the request), then

  per inner solver   exhaustive stop injection on fixed runs — stop() from inside *every* event (problem call,
                     direction call) and *every* progress callback —, seeded random stop points, bit-exact
                     trace replay against the loop model, and the monitor below;
  real threads       another std::thread calls stop() after the k-th evaluation / a random delay on a slowed-down
                     problem (PANOC, ZeroFPR, PANTR, FISTA); ThreadSanitizer build in the thorough tier;
  ALM level          checks/c19_alm.py: the real ALMSolver over each of the four inner solvers, alm.stop() from
                     inside every event of fixed ALM runs (≥ 2 outer iterations).

Monitor (real solver's outputs only).  With T = total number of events, t₀ = the event during which stop()
was called, init = events of the initialisation (Lipschitz estimate, first prox step, 2 per initial step-size
backtrack), b = step-size backtracks performed after t₀ in loops that do not poll the flag:

  PANOC, ZeroFPR   T ≤ max(init + 4, t₀ + 7)        (Props/C19_Panoc.at_most_one_iteration_after_stop; ZeroFPR:
                                                     same count derived from zerofpr.tpp: ≤ 3 calls of the stage in
                                                     flight, head ≤ 3, final callback)
  PANTR            T ≤ max(init + 3, t₀ + 17 + 2b)  (C19_Pantr: iteration ≤ 15 + 2b events, exit ≤ 3; the only poll
                                                     is the loop head)
  FISTA            T ≤ max(init + 5, t₀ + 6) + 2b   (fista.tpp: one pass = prox, ψ, 2b, ∇ψ(x̂), unit prox, callback,
                                                     ψ∇ψ; the poll is at the end of the pass)
  PANOC-OCP        T ≤ (tick of the first progress callback at or after t₀ in the *unstopped* run) + 1
                                                    (events are raw problem calls, their number per stage depends
                                                     on N; the rest of the iteration in flight + the final callback)
  all              ≤ 2 progress callbacks after t₀; status Interrupted or the natural one (C06 loop monitor);
                   Interrupted only if stop() was called; outputs satisfy the C03 monitor.
A stop that lands during the initialisation and is honoured only after more than the per-iteration bound is the
open finding C19-init-stepsize-loop-not-interruptible (initial step-size loop does not poll the flag).
"""
import math
import os
import random
import subprocess
import sys
import zlib

sys.path.insert(0, os.path.dirname(os.path.abspath(__file__)))
import common as C
import solvers as S
import c03
import c06_loop
import loops as LP
import loopmon as LM

SOLVERS = ['panoc', 'zerofpr', 'pantr', 'fista', 'ocp']
COUNTS = {}
PER = {}

# inputs kept from earlier failures, run first
CORPUS = [
    # L_0 = 2^-12: 16 initial step-size backtracks; stop() from inside event 2 (finding
    # C19-init-stepsize-loop-not-interruptible, fixed by fixes/C19-init-loop-stop-poll.diff: the
    # initial loop polls the flag — this run now ends after 8 calls, status Interrupted)
    'run solver=panoc dir=lbfgs n=4 m=0 Q=16:401a000000000000,3fe0000000000000,4014000000000000,4004000000000000,'
    '3fe0000000000000,4008000000000000,0000000000000000,3ff0000000000000,4014000000000000,0000000000000000,'
    '401d000000000000,4006000000000000,4004000000000000,3ff0000000000000,4006000000000000,4006000000000000 '
    'c=4:c018000000000000,c008000000000000,c01b000000000000,3ff8000000000000 '
    'q4=4:0000000000000000,0000000000000000,3ff0000000000000,0000000000000000 A=0: b=0: '
    'Clb=4:3fd0000000000000,4000000000000000,c000000000000000,c00c000000000000 '
    'Cub=4:400c000000000000,4000000000000000,7ff0000000000000,c004000000000000 Dlb=0: Dub=0: l1=0: '
    'x0=4:c000000000000000,3fe8000000000000,bff8000000000000,bff0000000000000 y0=0: Sig=0: maxiter=3 '
    'tol=3fb999999999999a crit=6 maxnp=10 overwrite=1 updcand=1 recomp=1 eager=0 force=0 mem=5 advseed=938 '
    'L0=3f30000000000000 stopat=2 stopcb=0 nanat=0 oot=0 wmscratch=1',
]

# Bounds proved for the models (every step-size / line-search loop polls the flag since /repo c4ffee185):
# with the flag visible from tick t₀ the solve ends at tick ≤ max(first_poll, t₀ + after_stop), wherever the
# request lands, the initialisation included.
#   C19_Panoc.at_most_one_iteration_after_stop, C19_Zerofpr.zerofpr_at_most_one_iteration_after_stop,
#   C19_Fista.fista_ticks_after_stop: max(8, t₀+7);  C19_Pantr.pantr_ticks_after_stop_max: max(7, t₀+17)
#   (any carrier; t₀+13 over ordered fields);  PANOC-OCP: C19_Ocp.ocp_ticks_after_stop via loop_ocp.tick_bound.
BOUNDS = {
    'panoc': dict(first_poll=8, after_stop=7),
    'zerofpr': dict(first_poll=8, after_stop=7),
    'pantr': dict(first_poll=7, after_stop=17),
    'fista': dict(first_poll=8, after_stop=7),
}
AFTER_STOP = BOUNDS['panoc']['after_stop']

# unstopped runs of the PANOC-OCP sweep bases: op line (stopat = stopcb = 0) -> names of all its problem calls
BASE_CALLS = {}


def bump(k, n=1):
    COUNTS[k] = COUNTS.get(k, 0) + n


def base_key(op):
    o = S.Op(op)
    o['stopat'] = '0'; o['stopcb'] = '0'
    o.pop('trace', None)
    return o.line()


# ------------------------------------------------------------------ generators

def gen_base(name, rng, mod):
    """A fixed run without stop injection (max_iter 2–4, tolerance 1e-12, no NaN / time limit)."""
    mi = rng.choice([2, 3, 4])
    if name == 'panoc':
        return c03.gen_run(rng, solver='panoc', stop=False, maxiter=mi, nanat=0, oot=0, tol=C.f2h(1e-12))
    if name == 'ocp':
        return mod.gen_run(rng, stop=False, scenario='plain', maxiter=mi, oot=0, tol=C.f2h(1e-12),
                           N=rng.choice([1, 2, 3]), crit=rng.choice([2, 3, 4, 5, 6, 7]))
    return mod.gen_run(rng, stop=False, maxiter=mi, nanat=0, oot=0, tol=C.f2h(1e-12))


def random_run(name, rng, mod):
    if name == 'panoc':
        op = c03.gen_run(rng, solver='panoc', nanat=0)
    elif name == 'ocp':
        op = mod.gen_run(rng)
    else:
        op = mod.gen_run(rng, nanat=0)
    stop = (op.get('stopat', '0'), op.get('stopcb', '0'))
    S.vary_all(rng, op, name)                  # every parameter, tolerance class, Σ class (the stop point is kept)
    op['stopat'], op['stopcb'] = stop
    return op


@C.tolerant
def sweep_ops(name, rng, exe, n_problems, mod=None):
    """Exhaustive stop injection on fixed runs: stop() from inside every event (index 1…T) *and* from inside
    every progress callback (1…#callbacks).  PANOC-OCP: the unstopped run's call names are kept in BASE_CALLS."""
    ops = []
    for i in range(n_problems):
        base = gen_base(name, rng, mod)
        if i == 0:
            # the first base run of every solver has many initial step-size backtracks: stop() lands inside that
            # loop (REQUIRED: `stops_during_initialisation` must be > 0 for every solver)
            base.update(S.init_sweep_overrides(rng))
        elif i % 2:
            S.vary_params(rng, base, name)
        probe = S.Op(base)
        probe['trace'] = '2' if name == 'ocp' else '1'
        try:
            out, rc, err = C.run_lines(exe, [probe.line()], timeout=30)
        except subprocess.TimeoutExpired:
            continue                       # reported by the pre-screening of the generated ops
        if rc != 0 or not out or out[0].startswith('S exception'):
            continue
        secs = out[0].split(' ; ')
        T = next(int(s.split()[1]) for s in secs if s.startswith('T '))
        ncb = sum(1 for s in secs if s.startswith('CB '))
        if name == 'ocp':
            # raw call names are recorded in the stopped runs as well (trace=2): the reference is compared call by call
            BASE_CALLS[base_key(base)] = next((e[1:] for e in LM.ev_list(out[0]) if e and e[0] == 'calls'), [])
            base['trace'] = '2'
        for t in range(1, T + 1):
            o = S.Op(base); o['stopat'] = str(t)
            ops.append(o.line())
        for j in range(1, ncb + 1):
            o = S.Op(base); o['stopcb'] = str(j)
            ops.append(o.line())
        bump('sweep_base_runs')
    return ops


# ------------------------------------------------------------------ monitor

def init_ticks(names, flavor):
    """Events of the initialisation, read off the event names of the run."""
    if flavor == 'fista':
        if names[:1] == ['gradpsi']:
            return 1
        if names[:1] == ['psigradpsi']:
            return 2 if names[1:2] == ['gradpsi'] else 1
        return 0
    if not names or names[0] != 'psigradpsi':
        return 0
    i = 1
    if i < len(names) and names[i] == 'gradpsi':
        i += 1
    second = ('psi', 'psigradpsi') if flavor == 'panoc' else ('psi',)
    while i + 1 < len(names) and names[i] == 'prox' and names[i + 1] in second:
        i += 2
    return i


def backtracks_after(names, t0):
    """Step-size backtracks (`prox, ψ` right after a ψ evaluation) that begin after event t0."""
    return sum(1 for i in range(max(t0, 1), len(names) - 1)
               if names[i] == 'prox' and names[i - 1] == 'psi' and names[i + 1] == 'psi')


def c03_part(solver, op_line, out_line, st):
    """The C03 monitor through the solver's view (as checks/c03.py applies it)."""
    if solver.name == 'ocp':
        return LM.c13_part(op_line, out_line, st)
    if solver.name == 'fista':
        m = c03.monitor(op_line, out_line, st, parse=solver.mod.parse_out)
    else:
        o2, h2 = solver.c03_view(op_line, out_line)
        m = c03.monitor(o2, h2, st)
    return LM.own_findings_only(m, 'C19', bump)          # C03's own open findings are C03's


def monitor(op_line, out_line, st, solver=None):
    flavor = solver.name if solver is not None else 'panoc'
    if out_line.startswith('exception') or out_line in ('bad-op', 'bad-direction'):
        return f'harness: {out_line[:100]}'
    op = S.Op.parse(op_line)
    want = op.nat('stopat', 0) or op.nat('stopcb', 0)
    if out_line.startswith('S exception'):
        if flavor == 'ocp':
            return LM.c13_part(op_line, out_line, st)       # unsupported criterion must throw, outputs untouched
        # a violation unless the op is in a declared throwing class (PANTR + NewtonTR handed a non-finite
        # trust radius on a diverging run), in which case the outputs must be untouched
        return LM.exception_monitor(flavor, op_line, out_line, bump)
    # outputs: same consistency relations as any other exit (C03), status conditions (C06)
    if solver is None:
        m = c03.monitor(op_line, out_line, st)
    elif flavor == 'zerofpr' and solver.mod.is_wild(op_line):
        m = None                           # diverging tiny-L_max runs: the C03 tolerance is not meaningful there
    else:
        m = c03_part(solver, op_line, out_line, st)
    if m:
        return m
    m = LM.own_findings_only(c06_loop.monitor(op_line, out_line, st, flavor=flavor), 'C19', bump)
    if m:
        return m
    m = LM.iterate_consistency(flavor, op_line, out_line, 'C19', bump)
    if m:
        return m
    r = c06_loop.parse(flavor, out_line)
    stx = r['stats']
    evs = r['events']
    T = r.get('ticks', 0)
    t0 = LM.ev_stoptick(evs)
    status = stx['status']
    if t0 is None:
        if status == 'Interrupted':
            return 'Interrupted although stop() was never called'
        bump('runs_finished_before_stop' if want else 'runs_without_stop')
        return None
    bump('stops_landed')
    if status not in LM.NATURAL:
        return f'stop() landed at event {t0} of {T} but the status is {status}'
    if status == 'Interrupted':
        bump('interrupted')
        if r['out']['untouched'] and not r['cbs']:
            return 'Interrupted without any callback'
    else:
        bump('status_after_stop_' + status)
    if flavor == 'ocp':
        import loop_ocp
        m = loop_ocp.tick_bound(op_line, out_line)      # C19_Ocp.ocp_ticks_after_stop on the real run
        if m:
            return m
        if len(r['cbs']) == 1 and t0 <= T - 1:
            bump('stops_during_initialisation')          # the loop head makes no problem call: see c05.init_interrupted
        ref = BASE_CALLS.get(base_key(op))
        calls = next((e[1:] for e in evs if e and e[0] == 'calls'), None)
        if ref is None or calls is None:
            bump('ocp_runs_without_unstopped_reference')
            return None
        if len(calls) != T:
            return f'{len(calls)} recorded problem calls, tick counter {T}'
        if calls[:t0] != ref[:t0]:
            # with disable_acceleration the solver tests `q.allFinite()` on a never-written q: whether it then
            # calls lbfgs.reset() depends on uninitialised memory (no effect on any result) — the two runs are
            # not comparable call by call
            bump('ocp_reference_diverged_before_stop')
            return None
        if sum(1 for c in calls[t0:] if c == 'cb') > 2:
            return f'more than 2 progress callbacks after stop() landed at event {t0}'
        nxt = next((i + 1 for i, c in enumerate(ref) if c == 'cb' and i + 1 >= t0), None)
        if nxt is None:
            return f'stop() landed at event {t0}, after the last callback of the unstopped run ({len(ref)} calls)'
        if T > nxt + 1:
            return (f'stop() landed at event {t0}; the unstopped run finishes the iteration in flight at event '
                    f'{nxt}, but the stopped run made {T} calls (> {nxt} + final callback)')
        bump('ocp_bound_checked')
        return None
    names = LM.ev_names(evs)
    B = BOUNDS[flavor]
    init = init_ticks(names, flavor)
    # promptness: the theorem's event bound
    bound = max(B['first_poll'], t0 + B['after_stop'])
    if t0 <= init:
        bump('stops_during_initialisation')
    if T > bound:
        return (f'stop() landed at event {t0} but the solve made {T - t0} further calls (total {T}; '
                f'initialisation {init}); bound: max({B["first_poll"]}, t0 + {B["after_stop"]}) = {bound}')
    # at most one more progress callback with status Busy after the stop
    cb_after = sum(1 for n in names[t0:] if n == 'cb')
    if cb_after > 2:
        return f'{cb_after} progress callbacks after stop() landed at event {t0}'
    bump('bound_checked')
    return None


def nontrivial(op_line, out_line):
    return zlib.crc32(op_line.encode()) if ' ; EV stoptick ' in out_line else None


# ------------------------------------------------------------------ real threads

THREAD_SOLVERS = ['panoc', 'zerofpr', 'pantr', 'fista']
THREAD_LIB = S.LIB_SUBSET + ['inner/fista.cpp', 'outer/internal/alm-helpers.cpp']


def build_thread_harness(tsan):
    srcs = [os.path.join(C.VERIF, 'harness', 'c19_threads.cpp')] + C.repo_lib_sources(THREAD_LIB)
    if tsan:
        return C.build_exe('c19_threads_tsan', srcs, flags=['-fsanitize=thread', '-g'],
                           ldflags=['-fsanitize=thread'])
    return C.build_exe('c19_threads', srcs)


def thread_ops(rng, n):
    ops = []
    for k in range(n):
        solver = ('panoc', 'zerofpr', 'alm', 'pantr', 'panoc', 'fista', 'zerofpr', 'pantr', 'alm', 'panoc')[k % 10]
        if solver == 'alm':
            import c01
            p = c01.gen_feasible_problem(rng, convex=True, m=rng.choice([1, 2, 3]))
            st = S.gen_start(rng, p)
            ops.append(S.Op({'_op': 'threadstop', 'solver': 'alm', **S.problem_kv(p),
                             **{k2: S.kvvec(v) for k2, v in st.items()}, 'tol': C.f2h(rng.choice([1e-10, 1e-6])),
                             'dtol': C.f2h(rng.choice([1e-10, 1e-6])), 'almiter': str(rng.choice([5, 30])),
                             'maxiter': str(rng.choice([5, 50, 500])), 'mem': str(rng.choice([1, 5])),
                             'stopeval': str(rng.choice([1, 2, 3, 5, 8, 9, 10, 13, 17, 21, 30, 40, 80, 200])),
                             'delay_us': str(rng.choice([0, 0, 0, 1, 10, 100])),
                             'spin': str(rng.choice([0, 200, 2000, 20000]))}).line())
            continue
        p = S.gen_problem(rng, convex=rng.random() < 0.5)
        st = S.gen_start(rng, p)
        op = S.Op({'_op': 'threadstop', 'solver': solver,
                   'dir': rng.choice(['lbfgs', 'lbfgs', 'noop', 'anderson']),
                   **S.problem_kv(p), **{k: S.kvvec(v) for k, v in st.items()},
                   'maxiter': str(rng.choice([50, 200, 1000])), 'tol': C.f2h(rng.choice([1e-300, 1e-300, 1e-14, 1e-3])),
                   'crit': str(rng.randrange(10)), 'maxnp': '1000', 'overwrite': str(rng.randint(0, 1)),
                   'updcand': str(rng.randint(0, 1)), 'recomp': str(rng.randint(0, 1)),
                   'eager': str(rng.randint(0, 1)), 'mem': str(rng.choice([1, 5])),
                   'advseed': str(rng.randint(1, 1000)),
                   'L0': C.f2h(rng.choice([0.0, 0.0, 1.0])),
                   'stopeval': str(rng.choice([1, 2, 3, 5, 8, 9, 10, 11, 12, 13, 17, 21, 30, 40, 80, 200])),
                   'delay_us': str(rng.choice([0, 0, 0, 1, 10, 100, 1000])),
                   'spin': str(rng.choice([0, 200, 2000, 20000]))})
        ops.append(op.line())
    # one forced op per solver so that "an Interrupted run of every solver was seen" does not depend on the scheduler
    # (quick tier: 8 FISTA ops, 4–6 of them interrupted on an idle machine; a `spin=0` solve on a 1-vCPU runner ends
    # before the stopper thread is scheduled): stop at the first evaluation, slow evaluations, unreachable tolerance
    for s in THREAD_SOLVERS + ['alm']:
        first = next((o for o in ops if S.Op.parse(o).get('solver') == s), None)
        if first is not None:
            f = S.Op.parse(first)
            f.update({'stopeval': '1', 'delay_us': '0', 'spin': '400000', 'tol': C.f2h(1e-300),
                         'maxiter': '1000'})
            if s == 'alm':
                f.update({'dtol': C.f2h(1e-300), 'almiter': '30'})
            ops.append(f.line())
    return ops


def thread_monitor(op_line, out_line):
    if out_line.startswith('exception') or out_line in ('bad-op',):
        return f'thread harness: {out_line[:100]}'
    r = S.parse_out(out_line)
    if r['stats']['status'] == 'exception':
        return 'solver threw'     # no declared throwing class here: PANTR runs with the adversarial direction, not NewtonTR
    op = S.Op.parse(op_line)
    solver = op.get('solver', 'panoc')
    if solver == 'alm':
        return thread_monitor_alm(op, r, out_line)
    B = BOUNDS[solver]
    a = [s.split() for s in out_line.split(' ; ') if s.startswith('A ')]
    at_stop, total, in_time = int(a[0][1]), int(a[0][2]), a[0][3] == '1'
    status = r['stats']['status']
    if status not in ('Interrupted', 'Converged', 'MaxIter', 'NoProgress', 'NotFinite'):
        return f'status {status}'
    sb = r['stats']['stepsize_backtracks']
    # evaluations (problem calls only) ≤ events; un-polled backtracks are not located in time here: all count
    after = max(B['after_stop'], B['first_poll'])       # every step-size loop polls the flag
    maybe_init = False
    if in_time and at_stop < 6 + 2 * sb:
        bump('thread_stop_possibly_during_init')
    if status == 'Interrupted':
        bump('thread_interrupted'); bump('thread_interrupted_' + solver)
        if not in_time and at_stop < 0:
            return 'Interrupted but stop() was not called'
        if total - at_stop > after and not maybe_init:
            return (f'[{solver}] stop() returned when {at_stop} evaluations had begun, the solve made '
                    f'{total - at_stop} more (> {after})')
    else:
        bump('thread_natural_' + status)
        if in_time and total - at_stop > after and not maybe_init:
            return (f'[{solver}] stop() was called in time ({at_stop} evaluations begun) but the solve went on '
                    f'for {total - at_stop} evaluations and returned {status}')
    # outputs consistent (same relations as any other exit)
    return LM.own_findings_only(c03.monitor(op_line, out_line, {}), 'C19', bump)


def thread_monitor_alm(op, r, out_line):
    """ALM over PANOC, alm.stop() from another thread: ALM looks at its own flag after every inner solve (alm.tpp since
    /repo 02b663b30) and the inner solver polls at every loop head / step-size / line-search pass, so once stop() has
    returned at most max(first_poll, after_stop) = 8 further evaluations begin (the rest of the inner solve in flight,
    or the initialisation + first head of an inner solve that had just been started)."""
    a = [s.split() for s in out_line.split(' ; ') if s.startswith('A ')]
    at_stop, total, in_time = int(a[0][1]), int(a[0][2]), a[0][3] == '1'
    status = r['stats']['status']
    B = BOUNDS['panoc']
    after = max(B['after_stop'], B['first_poll'])
    if status not in ('Interrupted', 'Converged', 'MaxIter', 'MaxTime'):
        return f'[alm] status {status}'
    if status == 'Interrupted':
        bump('thread_interrupted'); bump('thread_interrupted_alm')
        if at_stop < 0:
            return '[alm] Interrupted but stop() was not called'
    else:
        bump('thread_natural_' + status)
    if in_time and total - at_stop > after:
        return (f'[alm] alm.stop() returned when {at_stop} evaluations had begun, the ALM solve made {total - at_stop} '
                f'more (> {after}) and returned {status}')
    if in_time and status != 'Interrupted' and total - at_stop > 0:
        # within the bound the solve may still finish on its own: ALM's Converged outranks a pending request
        # (C07.interrupted_iff), and the property allows "the natural final status if it finished first"
        bump('thread_alm_natural_status_within_bound_' + status)
    return None


def thread_stage(rep, broken, tier):
    tsan = tier == 'thorough'
    texe, log = build_thread_harness(tsan)
    if texe is None:
        broken.append('thread harness does not compile against the working tree: ' + log[-1200:])
        return
    rng = random.Random(C.seed() * 7717 + 19)
    ops = thread_ops(rng, 80 if tier == 'quick' else 500)
    env = dict(os.environ, TSAN_OPTIONS='halt_on_error=0 report_signal_unsafe=0 exitcode=0')
    try:
        r = subprocess.run([texe], input='\n'.join(ops) + '\n', stdout=subprocess.PIPE, stderr=subprocess.PIPE,
                           text=True, timeout=1500, env=env)
    except subprocess.TimeoutExpired:
        rep.violation('real-thread runs did not return within the time limit (stop() not honoured?)',
                      {'ops': ops[:5]}, True)
        return
    out = r.stdout.splitlines()
    rep.cov['evaluations'] += len(out)
    rep.cov['thread_runs'] = len(out)
    rep.cov['thread_sanitizer'] = 'ThreadSanitizer (-fsanitize=thread)' if tsan else 'none (quick tier)'
    if r.returncode != 0 or len(out) != len(ops):
        rep.violation(f'thread harness crashed / aborted on op #{len(out)} (rc={r.returncode}): {r.stderr[-400:]}',
                      {'op': ops[len(out)] if len(out) < len(ops) else None, 'stderr': r.stderr[-3000:]}, True)
        return
    if tsan and r.stderr.strip():
        rep.violation('ThreadSanitizer reported: ' + r.stderr.strip()[:600],
                      {'ops': ops[:5], 'stderr': r.stderr[-6000:]}, True)
    bad = 0
    for o, h in zip(ops, out):
        try:
            m = thread_monitor(o, h)
        except Exception as e:
            m = f'thread monitor crashed on {h[:80]!r}: {e!r}'
        if m:
            rep.violation('real-thread stop(): ' + m, {'op': o, 'impl_out': h}, True)
            bad += 1
            if bad >= 3:
                break
    for s in THREAD_SOLVERS + ['alm']:
        if COUNTS.get('thread_interrupted_' + s, 0) == 0:
            broken.append(f'real-thread test never produced an Interrupted {s} run')


# ------------------------------------------------------------------ check

def adapters():
    import multiloop
    out = []
    for s in multiloop.registry():
        def gen(a, rng, n, exe, nsweep):
            mod = getattr(a, 'mod', None)
            ops = list(CORPUS) if a.name == 'panoc' else []
            ops += [random_run(a.name, rng, mod).line() for _ in range(n)]
            if exe and nsweep:
                ops += sweep_ops(a.name, rng, exe, nsweep, mod=mod)
            return ops
        extra = ['Alpaqa/Proofs/PanocLoop.lean', 'Alpaqa/Proofs/PanocLoopExample.lean',
                 'Alpaqa/Props/C06_Panoc.lean', 'Alpaqa/Props/C03.lean'] if s.name == 'panoc' else []
        out.append(LM.Adapter(s, gen, extra_sources=extra, skip_monitor=lambda op: False))
    return out


COVER = S.Coverage()


def solver_monitor(solver, o, h, st):
    before = dict(COUNTS)
    COVER.add(solver.name, o, h)
    try:
        return monitor(o, h, st, solver=solver)
    finally:
        d = PER.setdefault(solver.name, {})
        for k, v in COUNTS.items():
            if v != before.get(k, 0):
                d[k] = d.get(k, 0) + v - before.get(k, 0)


def main(argv):
    import multiloop
    import c19_alm
    sols = adapters()

    def extra(rep, broken, tier):
        LM.report_hung(rep, sols)
        thread_stage(rep, broken, tier)
        c19_alm.alm_stage(rep, broken, tier)
        rep.cov['monitor_counts'] = {k: dict(sorted(v.items())) for k, v in PER.items()}
        rep.cov['thread_counts'] = {k: v for k, v in sorted(COUNTS.items()) if k.startswith('thread_')}
        for name, d in PER.items():
            rep.note(f'monitor coverage [{name}]: ' + ', '.join(f'{k}={v}' for k, v in sorted(d.items())))
        rep.note('thread coverage: ' + ', '.join(f'{k}={v}' for k, v in rep.cov['thread_counts'].items()))
        for s in sols:
            if not rep.cov.get('per_solver', {}).get(s.name, {}).get('runs'):
                continue
            if PER.get(s.name, {}).get('interrupted', 0) == 0:
                broken.append(f'[{s.name}] stop injection never produced an Interrupted run')
            if PER.get(s.name, {}).get('stops_during_initialisation', 0) == 0:
                broken.append(f'[{s.name}] no stop request landed during the initialisation (required: the first '
                              f'sweep base of every solver uses solvers.init_sweep_overrides)')
        COVER.report(rep, broken, tier, [s.name for s in sols if rep.cov.get('per_solver', {}).get(s.name, {}).get('runs')])

    return multiloop.loop_check(
        'C19', argv, monitor=solver_monitor, nontrivial=nontrivial, solvers=sols, extra_stage=extra,
        extra_modules=['Alpaqa.Props.C19_Panoc', 'Alpaqa.Props.C07'],
        extra_gens=['gen_c19.py', 'gen_c15.py', 'gen_c07.py'],
        extra_sources=['Alpaqa/Gen/C19.lean', 'Alpaqa/Gen/C07.lean', 'Alpaqa/Model/C07.lean',
                       'Alpaqa/Proofs/C07.lean', 'Alpaqa/Proofs/C07Run.lean'],
        n_quick=400, n_thorough=6000, sweep_quick=6, sweep_thorough=100,
        trusted_base=[
            'Lean 4.33 kernel + Mathlib (axioms: propext, Classical.choice, Quot.sound)',
            'translator gen_c19 (declaration / accesses of stop_flag in atomic-stop-signal.hpp, uses of '
            'stop_signal in the solvers), gen_c06 (status chain), gen_c07 (ALM loop: early return on Interrupted, '
            'ALMSolver::stop() sets ALM\'s own flag and forwards, the flag is read once after each inner solve)',
            'hand-written loop models Alpaqa/Model/{Panoc,Zerofpr,Pantr,Fista,Ocp}.lean tied by bit-exact trace '
            'replay incl. the number of oracle calls, with stop() injected at every event / callback index of '
            'fixed runs',
            'the stop flag enters the models as a monotone function of the tick; data-race freedom is the '
            'C++ memory model\'s guarantee for std::atomic and is NOT proved — validated by the '
            'ThreadSanitizer run (thorough tier) only',
            'ALM level: Props/C07 (scripted inner solver) + monitors on the real ALMSolver over the four real '
            'inner solvers (checks/c19_alm.py); there is no Lean model of ALM composed with a real inner loop',
        ],
        assumptions=['stop() lands between two polls: the granularity of the model is one oracle call',
                     'x86-64 total store order in the real-thread test (relaxed load sees the store promptly)',
                     'event bounds for ZeroFPR / FISTA / PANOC-OCP are derived from the source and checked by the '
                     'monitor; only PANOC (ticks ≤ max(init+4, t₀+7)) and PANTR (iteration ≤ 15+2b, exit ≤ 3) '
                     'have a machine-checked event count'],
        rule='exhaustive: for fixed runs of each of the five inner solvers (max_iter 2–4, all direction providers) '
             'stop() from inside every problem / direction call and every progress callback; plus seeded random '
             'runs with random stop points; plus real std::thread calling stop() after the k-th evaluation / a '
             'random delay on a slowed-down problem (PANOC, ZeroFPR, PANTR, FISTA); plus alm.stop() from inside '
             'every event of fixed ALM runs over PANOC / ZeroFPR / PANTR / FISTA; non-trivial = the stop landed '
             'before the solve ended',
    )


if __name__ == '__main__':
    sys.exit(main(sys.argv))
