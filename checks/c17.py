#!/usr/bin/env python3
"""C17 — numeric text I/O round-trips exactly and rejects malformed input.  See DESIGN.md §6 C17.

Op lines (stateful; harness = real alpaqa code, driver = Lean model):
  S <hex>                 new std::istringstream over the text
  R                       fresh CSVReader<double>
  skip | read <sep> | nl | done          the reader's member functions
  row <n> <sep> | rowv <sep>             alpaqa::csv::read_row / read_row_std_vector<double>
  resync / resyncerr      is.clear(); is.ignore(max, '\\n')   (what a caller has to do after a read_error
                          as long as the row functions leave the stream inside the rejected line)
  pcsv <fmt> r c <sep> bits… toks…       print_csv / print_python / print_matlab framing
  rt <sep> r c bits… toks…               print_csv then read every row back with both readers
  rtf / rtl (harness only)               float / long double round trip
  rowT <d|f|l|i> n sep text calls (harness only)   outcome signature of consecutive row calls per scalar type

Monitor, malformed rows: every listed class must be rejected (never numbers), and the rejected call must
leave the stream at the start of the next line with failbit clear ("no partial consumption that corrupts
the next row"): the op after a rejected row is judged against the *next line of the text*.  A single
trailing separator is the library's (unit-tested) terminated form of a row, not an empty field.
"""
import math
import os
import re
import struct
import sys

sys.path.insert(0, os.path.dirname(os.path.abspath(__file__)))
import common as C
from common import f2h, h2f

SEPS = [',', ';', ' ', '\t', '|', ':']
WINDOW = 64


def hx(s):
    return s.encode('latin-1').hex() if s else '-'


def unhx(h):
    return '' if h == '-' else bytes.fromhex(h).decode('latin-1')


# ---------------------------------------------------------------- printing oracle (python side)

def bits2f(b):
    return struct.unpack('>d', struct.pack('>Q', b))[0]


def f2bits(x):
    return struct.unpack('>Q', struct.pack('>d', x))[0]


def tok_of_bits(b):
    """Token the library's default-precision printer produces for the double with bit pattern b
    ('+' for non-negative non-NaN, scientific, max_digits10 = 17 digits after the point)."""
    x = bits2f(b)
    if x != x:
        return '-nan' if b >> 63 else 'nan'
    if math.isinf(x):
        return '+inf' if x > 0 else '-inf'
    return '%+.17e' % x


def hbits(b):
    x = bits2f(b)
    return 'nan' if x != x else '%016x' % b


def rnd_bits(rng):
    k = rng.random()
    if k < 0.08:
        return rng.choice([0, 1 << 63, 0x7ff0000000000000, 0xfff0000000000000, 0x7ff8000000000000,
                           0xfff8000000000001, 0x7ff0000000000001, 1, 0x8000000000000001,
                           0x000fffffffffffff, 0x0010000000000000, 0x7fefffffffffffff,
                           0xffefffffffffffff, 0x3ff0000000000000])
    if k < 0.2:
        return (rng.getrandbits(1) << 63) | rng.getrandbits(52)          # subnormal
    if k < 0.5:
        return f2bits(rng.choice([-1, 1]) * rng.randint(0, 4000) / rng.choice([1, 2, 4, 8, 1000]))
    return (rng.getrandbits(1) << 63) | (rng.randint(0, 2046) << 52) | rng.getrandbits(52)


# ---------------------------------------------------------------- the number grammar (spec side)

NUMRE = re.compile(r'\+?-?(?:inf(?:inity)?|nan(?:\([0-9a-z_]*\))?|(?:[0-9]+\.?[0-9]*|\.[0-9]+)(?:e[+-]?[0-9]+)?)',
                   re.I)


def tok_value(t):
    """(bits-string, in_range) of a grammatical token, by exact decimal → binary64 rounding
    (CPython's float() is correctly rounded)."""
    s = t[1:] if t.startswith('+') else t
    neg = s.startswith('-')
    body = s[1:] if neg else s
    low = body.lower()
    if low.startswith('nan'):
        return 'nan', True
    if low.startswith('inf'):
        return f2h(-math.inf if neg else math.inf), True
    v = float(body)
    mant = re.match(r'[0-9.]*', body).group(0)
    nonzero = any(ch in '123456789' for ch in mant)
    in_range = not math.isinf(v) and not (v == 0.0 and nonzero)
    return f2h(-v if neg else v), in_range


def current_line(text, pos):
    """Skip comment lines from pos; return (line, line_start, line_end, has_newline)."""
    while pos < len(text) and text[pos] == '#':
        j = text.find('\n', pos)
        if j < 0:
            return '', len(text), len(text), False
        pos = j + 1
    j = text.find('\n', pos)
    if j < 0:
        return text[pos:], pos, len(text), False
    return text[pos:j], pos, j, True


# ---------------------------------------------------------------- generators

def long_token(rng, n):
    """A grammatical number token of exactly n characters."""
    kind = rng.randrange(4)
    if kind == 0:                       # 0.000…0ddd  (the §7-B shape)
        tail = str(rng.randint(1, 999999))
        if n >= len(tail) + 3:
            return '0.' + '0' * (n - 2 - len(tail)) + tail
    if kind == 1:                       # ±d.ddd…e±xx
        sgn = rng.choice(['-', '+', ''])
        ex = 'e' + rng.choice(['+', '-']) + '%02d' % rng.randint(0, 30)
        k = n - len(sgn) - len(ex) - 2
        if k >= 1:
            return sgn + str(rng.randint(1, 9)) + '.' + ''.join(rng.choice('0123456789') for _ in range(k)) + ex
    if kind == 2:                       # long integer
        return str(rng.randint(1, 9)) + ''.join(rng.choice('0123456789') for _ in range(n - 1))
    # ddd.000…0
    head = str(rng.randint(1, 99999))
    if n >= len(head) + 2:
        return head + '.' + '0' * (n - len(head) - 1)
    return '1' * n


def short_token(rng):
    k = rng.random()
    if k < 0.55:
        return tok_of_bits(rnd_bits(rng))
    if k < 0.75:
        return rng.choice(['1', '-2', '+3', '0', '1.5', '-0.25', '.5', '7.', '1e5', '2E-3', '-1.25e+10',
                           'inf', '-inf', '+inf', 'nan', '-nan', 'INF', 'Infinity', 'NaN', 'nan(12)',
                           '4.9406564584124654e-324', '1.7976931348623157e308', '-0', '+0.0', '00012',
                           '1e-320', '123456789012345678901234567890'])
    return '%.*g' % (rng.randint(1, 17), bits2f(rnd_bits(rng) & 0x7fefffffffffffff | (rng.getrandbits(1) << 63)))


def comment(rng):
    n = rng.choice([0, 1, 5, 20, 62, 63, 64, 65, 66, 127, 128, 129, 200])
    body = ''.join(rng.choice('abc ,;1#.') for _ in range(n))
    return '#' + body


def build_text(rng, rows, sep, ncomments=None, final_nl=None):
    """rows: list of token lists."""
    lines = []
    for toks in rows:
        for _ in range(ncomments if ncomments is not None else rng.choice([0, 0, 0, 1, 2])):
            lines.append(comment(rng))
        lines.append(sep.join(toks))
    text = '\n'.join(lines)
    if final_nl if final_nl is not None else rng.random() < 0.7:
        text += '\n'
    return text


def seq_boundary(rng, ltok, offset, sep, mode):
    """One long token of length ltok starting at offset `offset` (mod 64) within its line."""
    pre = []
    plen = 0
    # fill `offset` characters (tokens + separators) before the long token
    target = offset + (64 if offset < 8 and rng.random() < 0.5 else 0)
    while plen < target:
        room = target - plen - 1            # token + separator
        if room <= 0:
            break
        t = short_token(rng)
        if len(t) > room or room - len(t) == 1:
            t = long_token(rng, room) if room != 1 else str(rng.randint(0, 9))
        pre.append(t)
        plen += len(t) + 1
    post = [short_token(rng) for _ in range(rng.choice([0, 1, 3]))]
    row = pre + [long_token(rng, ltok)] + post
    row2 = [short_token(rng) for _ in range(rng.choice([1, 2, 3]))]
    text = build_text(rng, [row, row2], sep, ncomments=rng.choice([0, 0, 1]))
    ops = ['S ' + hx(text)]
    if mode == 'rowv':
        ops += [f'rowv {hx(sep)}', 'resync?', f'rowv {hx(sep)}']
    else:
        ops += [f'row {len(row)} {hx(sep)}', 'resync?', f'row {len(row2)} {hx(sep)}']
    return ops


def seq_valid(rng):
    sep = rng.choice(SEPS)
    nrows = rng.choice([1, 2, 3, 5])
    rows = [[short_token(rng) for _ in range(rng.choice([0, 1, 2, 3, 5, 8, 13, 30]))] for _ in range(nrows)]
    if rng.random() < 0.15:
        i = rng.randrange(nrows)
        if rows[i]:
            rows[i][-1] += sep               # trailing separator (accepted by design, unit-tested)
    text = build_text(rng, rows, sep)
    ops = ['S ' + hx(text)]
    for toks in rows:
        n = len([t for t in toks])
        k = rng.random()
        if k < 0.45:
            ops.append(f'row {n} {hx(sep)}')
        elif k < 0.85:
            ops.append(f'rowv {hx(sep)}')
        elif k < 0.93:
            ops.append(f'row {max(0, n + rng.choice([-2, -1, 1, 2]))} {hx(sep)}')     # too few / many
        else:
            ops.append(f'row {n} {hx(rng.choice([s for s in SEPS if s != sep]))}')       # wrong separator
        ops.append('resync?')
    ops.append(f'rowv {hx(sep)}')           # one read past the end
    return ops


CORRUPT = list('0123456789.eE+-xnaif#()_ ,;\t|:\n')


def seq_corrupt(rng, exhaustive_budget=None):
    """A valid 3-row text; one character of row 2 replaced (or deleted / inserted)."""
    sep = rng.choice(SEPS)
    rows = [[short_token(rng) for _ in range(rng.choice([1, 2, 3, 4, 6, 9]))] for _ in range(3)]
    if rng.random() < 0.3:                  # make row 2 longer than the window
        rows[1] = [short_token(rng) for _ in range(rng.choice([4, 6, 10]))]
    lines = [sep.join(r) for r in rows]
    out = []
    base = len(lines[0]) + 1
    positions = range(len(lines[1]) + 1) if exhaustive_budget else [rng.randrange(len(lines[1]) + 1)]
    for p in positions:
        chars = CORRUPT if exhaustive_budget == 'all' else [rng.choice(CORRUPT)]
        for ch in chars:
            l1 = lines[1]
            kind = rng.random()
            if p == len(l1) or kind < 0.1:
                l1c = l1[:p] + ch + l1[p:]                  # insertion
            elif kind < 0.2:
                l1c = l1[:p] + l1[p + 1:]                   # deletion
            else:
                l1c = l1[:p] + ch + l1[p + 1:]              # replacement
            text = '\n'.join([lines[0], l1c, lines[2]]) + '\n'
            mode = rng.random() < 0.5
            ops = ['S ' + hx(text)]
            for i, r in enumerate(rows):
                ops.append(f'rowv {hx(sep)}' if mode else f'row {len(r)} {hx(sep)}')
                ops.append('resync?')
            out.append(ops)
    return out


def seq_lowlevel(rng):
    sep = rng.choice(SEPS)
    rows = [[short_token(rng) for _ in range(rng.choice([0, 1, 2, 4, 8]))] for _ in range(rng.choice([1, 2, 3]))]
    if rng.random() < 0.3:
        rows[0] = rows[0] + [long_token(rng, rng.randint(55, 75))] + rows[0]
    text = build_text(rng, rows, sep)
    if rng.random() < 0.15 and text:
        p = rng.randrange(len(text))
        text = text[:p] + rng.choice(CORRUPT) + text[p + 1:]
    ops = ['S ' + hx(text), 'R']
    if rng.random() < 0.85:
        ops.append('skip')
    for _ in range(rng.randint(1, 14)):
        k = rng.random()
        if k < 0.6:
            ops.append(f'read {hx(sep)}')
        elif k < 0.75:
            ops.append('done')
        elif k < 0.87:
            ops += ['nl', 'R', 'skip'] if rng.random() < 0.7 else ['nl']
        elif k < 0.93:
            ops.append('skip')
        else:
            ops.append('R')
    return ops


def seq_print(rng):
    fmt = rng.choice(['csv', 'csvs', 'py', 'ml'])
    rows, cols = rng.choice([0, 1, 2, 3, 5]), rng.choice([0, 1, 1, 2, 3])
    sep = rng.choice([',', ';', ', ', ' ', '\t']) if fmt == 'csvs' else ','
    bits = [rnd_bits(rng) for _ in range(rows * cols)]
    toks = ['nan' if bits2f(b) != bits2f(b) else tok_of_bits(b) for b in bits]      # NaN crosses as std::nan("")
    return [f'pcsv {fmt} {rows} {cols} {hx(sep)} ' + ' '.join([hbits(b) for b in bits] + [hx(t) for t in toks])]


def rt_line(bits, rows, cols, sep):
    # NaN bit patterns cross as 'nan' (harness: std::nan("")), so the token is the positive NaN's
    toks = ['nan' if bits2f(b) != bits2f(b) else tok_of_bits(b) for b in bits]
    return f'rt {hx(sep)} {rows} {cols} ' + ' '.join([hbits(b) for b in bits] + [hx(t) for t in toks])


def seq_rt(rng, exps=None):
    if exps is not None:
        bits = [((rng.getrandbits(1) << 63) | (e << 52) | rng.getrandbits(52)) for e in exps]
        return [rt_line(bits, len(bits), 1, rng.choice(SEPS))]
    rows, cols = rng.choice([0, 1, 2, 3, 6, 12]), rng.choice([0, 1, 1, 1, 2, 3, 5])
    bits = [rnd_bits(rng) for _ in range(rows * cols)]
    return [rt_line(bits, rows, cols, rng.choice(SEPS))]


def gen_ops(rng, n):
    seqs = []
    thorough = n >= 20000
    # chunk-boundary sweep: token lengths 55..75 × every offset mod 64
    combos = [(l, o) for l in range(55, 76) for o in range(64)]
    if not thorough:
        combos = rng.sample(combos, min(len(combos), max(64, n // 6)))
        # every offset occurs at least once with an over-window and an under-window token
        combos += [(rng.choice([60, 61, 62, 63]), o) for o in range(64)]
        combos += [(rng.choice([64, 65, 66, 70]), o) for o in range(0, 64, 2)]
    for l, o in combos:
        for mode in (['rowv', 'row'] if thorough else [rng.choice(['rowv', 'row'])]):
            seqs.append(seq_boundary(rng, l, o, rng.choice(SEPS), mode))
    for _ in range(n // 4):
        seqs.append(seq_valid(rng))
    if thorough:
        for _ in range(40):
            seqs += seq_corrupt(rng, exhaustive_budget='all')        # every position × every char
        for _ in range(n // 8):
            seqs += seq_corrupt(rng)
    else:
        for _ in range(6):
            seqs += seq_corrupt(rng, exhaustive_budget='pos')        # every position, one char
        for _ in range(n // 3):
            seqs += seq_corrupt(rng)
    for _ in range(n // 5):
        seqs.append(seq_lowlevel(rng))
    for _ in range(n // 12):
        seqs.append(seq_print(rng))
    # round trip: every exponent (one random mantissa each; thorough: 8) + random matrices
    reps = 8 if thorough else 1
    for _ in range(reps):
        ex = list(range(0, 2047))
        for i in range(0, len(ex), 16):
            seqs.append(seq_rt(rng, ex[i:i + 16]))
    for _ in range(n // 10):
        seqs.append(seq_rt(rng))
    rng.shuffle(seqs)
    # half of the sequences without the caller-side resync: the call after a rejected row is then judged
    # against the next line of the text (property: a rejected row leaves no partial consumption)
    seqs = [[o for o in q if o != 'resync?'] if rng.random() < 0.5 else q for q in seqs]
    # corpus first: the DESIGN §7-B reproduction and the unit-test shapes
    tok70 = '0.' + '0' * 62 + '125777'
    head = [['S ' + hx(tok70 + '\n1,2\n'), 'rowv 2c', 'resync?', 'rowv 2c'],
            ['S ' + hx('# c\n\n1,2\n'), 'row 0 2c', 'resync?', 'row 2 2c'],
            ['S ' + hx('#' + 'y' * 64 + '\n# d\n'), 'rowv 2c'],
            ['S ' + hx('1.0,2.0,3.0,4.0,5.0,6.0'), 'row 5 2c'],
            ['S ' + hx('# c\n' + '#' + 'x' * 300 + '\n1,+2,-3\nfoobar'), 'row 3 2c', 'resync?', 'rowv 2c'],
            ['S -', 'rowv 2c', 'row 0 2c', 'row 1 2c'],
            ['S ' + hx('\n\n1\n'), 'rowv 2c', 'row 0 2c', 'row 1 2c']]
    head += corpus_empty_fields() + corpus_after_error()
    return [o for s in head + seqs for o in s]


def corpus_empty_fields():
    """Audit F5 (a): trailing separator and its relatives, every separator, both readers, n below / at /
    above the field count; each followed by reads of the next rows *without* resync."""
    out = []
    for sp in SEPS:
        h = hx(sp)
        nxt = f'7{sp}8\n9\n'
        for line, k in ((f'1{sp}2{sp}', 2),            # terminated row: accepted (unit-tested grammar)
                        (f'1{sp}2{sp}{sp}', 3),         # empty field at the end
                        (f'{sp}1{sp}2', 3),             # … at the front
                        (f'1{sp}{sp}2', 3),             # … in the middle
                        (f'{sp}', 1), (f'{sp}{sp}', 2), (f'1{sp}{sp}', 2)):
            for first in ([f'rowv {h}'] + [f'row {n} {h}' for n in sorted({max(0, k - 1), k, k + 1})]):
                out.append(['S ' + hx(line + '\n' + nxt), first, f'row 2 {h}', f'rowv {h}'])
        out.append(['S ' + hx(f'1{sp}2{sp}'), f'row 2 {h}'])                   # terminated row at EOF
        out.append(['S ' + hx(f'1{sp}2{sp}'), f'rowv {h}', f'rowv {h}'])
        out.append(['S ' + hx(f'1{sp}2{sp}{sp}'), f'rowv {h}', f'rowv {h}'])
    return out


def corpus_after_error():
    """Audit F5 (b): one sequence per rejection cause (and per reader), the next rows read without resync;
    short lines (whole line in the window) and lines longer than the window."""
    out = []
    long_ok = ','.join(str(i) for i in range(10, 40))          # 89 characters
    causes = [('1' * 64 + '2', 1),                             # over-long token (65 digits)
              ('1,' + '1' * 70 + ',3', 3),
              ('1,2x,3', 3), ('1,k2,3', 3),                     # invalid character
              ('1,2,3,4', 3),                                   # too many
              ('1,2', 3),                                       # too few
              ('1;2;3', 3),                                     # wrong separator
              ('', 2),                                          # empty line where data are expected
              ('1,,3', 3),                                      # empty field
              (long_ok + ',x', 31), (long_ok + ';5', 31), (long_ok, 29), (long_ok, 31)]
    for line, n in causes:
        for pre in ('', '# c\n'):
            text = pre + line + '\n4,5\n6\n'
            out.append(['S ' + hx(text), f'row {n} 2c', 'row 2 2c', 'row 1 2c', 'rowv 2c'])
            out.append(['S ' + hx(text), 'rowv 2c', 'rowv 2c', 'rowv 2c', 'rowv 2c'])
            out.append(['S ' + hx(text), f'row {n} 2c', 'rowv 2c', 'row 1 2c'])
        out.append(['S ' + hx(line), f'row {n} 2c', 'row 0 2c', 'rowv 2c'])      # … at the end of the file
        out.append(['S ' + hx(line), 'rowv 2c', 'rowv 2c'])
    # two rejected rows in a row, then a good one
    out.append(['S ' + hx('1,x\n2,y\n3,4\n'), 'row 2 2c', 'row 2 2c', 'row 2 2c'])
    out.append(['S ' + hx('1,x\n2,y\n3,4\n'), 'rowv 2c', 'rowv 2c', 'rowv 2c'])
    return out


# `resync?` in the sequences above becomes the op `resyncerr`: "if the previous row op threw, do what
# a caller does after a read_error — is.clear(); is.ignore(max, '\\n')" (harness and driver alike).


# ---------------------------------------------------------------- monitors

def parse_state(seg):
    m = re.fullmatch(r'p(-?\d+) e([01]) f([01])', seg.strip())
    return int(m.group(1)), m.group(2) == '1', m.group(3) == '1'


MIDLINE = 'csv-error-leaves-stream-mid-line'


def next_line_start(text, pos):
    """Start of the line after the (non-comment) line the row call at `pos` is about."""
    _, _, le, has_nl = current_line(text, pos)
    return le + 1 if has_nl else len(text)


def judge_row(op, res, st, pos=None):
    """The property restated on one row read from a clean line start (`pos`: where the property says the
    stream is — the start of the line after a rejected row — when that differs from where it really is)."""
    text = st['text']
    pos = st['pos'] if pos is None else pos
    parts = op.split()
    vec = parts[0] == 'rowv'
    sep = unhx(parts[-1])
    n = None if vec else int(parts[1])
    line, ls, le, has_nl = current_line(text, pos)
    fields = [] if line == '' else line.split(sep)
    if len(fields) > 1 and fields[-1] == '':
        fields = fields[:-1]                 # trailing separator: accepted by design (unit tests)
    gram = all(NUMRE.fullmatch(f) for f in fields)
    seg = res.split(' | ')
    ok = seg[0].startswith('ok')
    p2, e2, f2 = parse_state(seg[-1])
    here = f'row {line[:80]!r} (sep {sep!r}, {"vector" if vec else f"n={n}"})'
    if not ok and not seg[0].startswith('E_'):
        return f'unexpected output {seg[0][:60]!r}'
    if not ok:
        if seg[0] in ('E_other', 'E_read'):
            return f'{here}: not a csv read_error: {seg[0]}'
        if p2 > (le + 1 if has_nl else len(text)):
            return f'{here}: rejected, but the stream was consumed past the end of that line (pos {p2} > {le})'
    finding = None
    if not ok:
        want = le + 1 if has_nl else len(text)
        if p2 != want or f2:
            where = 'inside the rejected line' if p2 <= le else 'elsewhere'
            finding = (f'{here}: rejected with {seg[0]}, but the stream is left {where} (pos {p2}, failbit '
                       f'{int(f2)}; the next row starts at {want}): the next read_row call does not read '
                       f'the next row', MIDLINE)
    maxlen = max([len(f) for f in fields] + [0])
    vals = seg[0].split()[2:] if ok else None
    if ok and maxlen > WINDOW:
        return (f'{here}: a token of {maxlen} characters (longer than the reader\'s {WINDOW}-byte window) was '
                f'not rejected: returned {len(vals)} numbers', 'csv-overlong-token-split')
    count_ok = vec or n == len(fields)
    if gram and count_ok:
        exp = [tok_value(f) for f in fields]
        in_range = all(r for _, r in exp)
        if maxlen <= WINDOW - 1 and in_range:
            if not ok:
                if line == '' and text[pos:pos + 1] == '#' and seg[0] == 'E_ext':
                    return (f'{here}: an empty row that follows a comment line is rejected with {seg[0]} '
                            f'(and failbit is set); the same row without the comment is accepted',
                            'csv-empty-row-after-comment')
                return f'{here}: valid row rejected with {seg[0]}'
        if ok:
            if vals != [b for b, _ in exp]:
                return f'{here}: returned {vals[:6]}, the text denotes {[b for b, _ in exp][:6]}'
            want = le + 1 if has_nl else len(text)
            if p2 != want:
                return f'{here}: accepted, but the stream is at {p2}, next line starts at {want}'
        return finding
    # malformed (bad token / empty field / wrong count / over-long)
    if ok:
        why = 'field count' if gram else 'bad token / empty field / wrong separator'
        return f'{here}: malformed ({why}) but returned numbers {vals[:6]}'
    return finding


def monitor(op, out, st):
    if out.startswith('exception') or out == 'bad-op':
        return f'harness: {out[:100]}'
    k = op.split()[0]
    if k == 'S':
        st.clear()
        st['text'] = unhx(op.split()[1])
        st['pos'] = 0
        st['clean'] = True
        st['flags'] = (False, False)
        return None
    if k in ('row', 'rowv'):
        seg = out.split(' | ')
        r = None
        judged_from = None
        if st.get('clean') and not st['flags'][1] and not st['flags'][0]:
            judged_from = st['pos']
            r = judge_row(op, out, st)
        elif st.get('expect') is not None:
            # the previous row call was rejected and nothing happened in between: the property puts
            # the stream at the start of the following line, the call is judged against that line
            judged_from = st['expect']
            r = judge_row(op, out, st, pos=judged_from)
            if r is not None:
                msg = r[0] if isinstance(r, tuple) else r
                r = ('after a rejected row, the next call: ' + msg, MIDLINE)
        p2, e2, f2 = parse_state(seg[-1])
        okk = seg[0].startswith('ok')
        st['clean'] = okk
        st['pos'], st['flags'] = p2, (e2, f2)
        st['lasterr'] = not okk
        st['expect'] = next_line_start(st['text'], judged_from) if (not okk and judged_from is not None) else None
        return r
    if k == 'resyncerr':
        seg = out.split(' | ')
        p2, e2, f2 = parse_state(seg[-1])
        if seg[0] == 'ok':          # resync performed
            st['clean'] = True
            st['expect'] = None
        st['pos'], st['flags'] = p2, (e2, f2)
        return None
    if k in ('skip', 'read', 'nl', 'done', 'R', 'resync'):
        st['clean'] = False
        st['expect'] = None
        return None
    if k == 'rt':
        parts = op.split()
        sep = unhx(parts[1])
        rows, cols = int(parts[2]), int(parts[3])
        bits = parts[4:4 + rows * cols]
        seg = out.split(' | ')
        text = unhx(seg[0])
        nrows, ncols = (1, rows) if cols == 1 else (rows, cols)
        want = [bits[r * ncols:(r + 1) * ncols] for r in range(nrows)] if cols != 1 else [bits]
        i = 1
        for ps in range(2):
            for r in range(nrows):
                s = seg[i]; i += 1
                if not s.startswith('ok'):
                    return (f'round trip: row {r} printed as {text[:120]!r} is rejected with {s} by '
                            f'{"read_row_std_vector" if ps else "read_row"}')
                got = s.split()[2:]
                if got != want[r]:
                    bad = [(a, b) for a, b in zip(want[r], got) if a != b][:3]
                    return (f'round trip not bit-identical ({"read_row_std_vector" if ps else "read_row"}): '
                            f'wrote/read {bad or (len(want[r]), len(got))}, text {text[:100]!r}')
            p2, e2, f2 = parse_state(seg[i]); i += 1
            if p2 != len(text):
                return f'round trip: {p2} of {len(text)} characters consumed'
        return None
    return None


def nontrivial(op, out):
    k = op.split()[0]
    if k in ('row', 'rowv', 'read', 'rt', 'pcsv', 'skip'):
        return (op, out[:60])
    return None


def gen_ops_final(rng, n):
    return [('resyncerr' if o == 'resync?' else o) for o in gen_ops(rng, n)]


# ---------------------------------------------------------------- float / long double round trip

def extra_stage(rep, broken, exe, tier):
    if exe is None:
        return
    import random
    rng = random.Random(C.seed() * 31337 + 5)
    reps = 6 if tier == 'thorough' else 1
    lines, meta = [], []
    for _ in range(reps):
        vals = [(rng.getrandbits(1) << 31) | (e << 23) | rng.getrandbits(23) for e in range(0, 255)]
        vals += [0, 1 << 31, 0x7f800000, 0xff800000, 0x7fc00000, 1, 0x007fffff, 0x00800000, 0x7f7fffff]
        vals += [(rng.getrandbits(1) << 31) | rng.getrandbits(23) for _ in range(32)]
        for i in range(0, len(vals), 8):
            ch = vals[i:i + 8]
            lines.append('rtf %d ' % len(ch) + ' '.join('%08x' % v for v in ch))
            meta.append(('f', ch))
        # long double (x87 80-bit): sign/exponent 16 bits, explicit integer bit + 63 fraction bits
        lv = []
        exps = list(range(1, 0x7fff, 257 if tier != 'thorough' else 17)) + [1, 2, 0x3fff, 0x7ffe]
        for e in exps:
            lv.append(((rng.getrandbits(1) << 15) | e, (1 << 63) | rng.getrandbits(63)))
        lv += [(0, 0), (0x8000, 0), (0x7fff, 1 << 63), (0xffff, 1 << 63), (0x7fff, 3 << 62)]
        lv += [((rng.getrandbits(1) << 15), rng.getrandbits(63) | 1) for _ in range(24)]     # subnormals
        lv += [(0, 1), (0, (1 << 63) - 1)]
        for i in range(0, len(lv), 4):
            ch = lv[i:i + 4]
            lines.append('rtl %d ' % len(ch) + ' '.join('%04x%016x' % v for v in ch))
            meta.append(('l', ch))
    out, rc, err = C.run_lines(exe, lines)
    rep.cov['evaluations'] += len(out)
    stats = {'float_values': 0, 'longdouble_values': 0, 'longdouble_subnormal_rejected': 0}
    if rc != 0 or len(out) != len(lines):
        rep.violation(f'real code crashed in float/long double round trip (rc={rc}): {err[-200:]}',
                      {'op': lines[len(out)] if len(out) < len(lines) else None}, True)
        return
    nviol = 0
    for ln, (kind, ch), o in zip(lines, meta, out):
        seg = o.split(' | ')
        text = unhx(seg[0].split()[0])
        if kind == 'f':
            want = ['nan' if ((v >> 23) & 0xff) == 0xff and (v & 0x7fffff) else '%08x' % v for v in ch]
            stats['float_values'] += len(ch)
        else:
            want = ['nan' if (se & 0x7fff) == 0x7fff and (m << 1) & ((1 << 64) - 1) else '%04x%016x' % (se, m)
                    for se, m in ch]
            stats['longdouble_values'] += len(ch)
        msg = key = None
        if not seg[0].endswith('same'):
            msg = f'print_csv and float_to_str disagree at default precision: {text!r}'
        for ps in (1, 2):
            s = seg[ps]
            if s.startswith('ok'):
                got = s.split()[2:]
                if got != want and msg is None:
                    msg = f'{"float" if kind == "f" else "long double"} round trip not bit-identical: wrote {want}, read {got}, text {text!r}'
            elif msg is None:
                sub = kind == 'l' and any((se & 0x7fff) == 0 and m != 0 for se, m in ch)
                if sub:
                    stats['longdouble_subnormal_rejected'] += 1
                    key = 'csv-longdouble-subnormal-rejected'
                msg = (f'{"float" if kind == "f" else "long double"} value printed at default precision '
                       f'({text.strip()!r}) is rejected by the CSV reader with {s}')
        if msg:
            before = len(rep.violations)
            rep.violation('monitor: ' + msg, {'op': ln, 'impl_out': o}, True, key=key)
            if len(rep.violations) > before:
                nviol += 1
                if nviol >= 5:
                    break
    rep.cov['float_longdouble_roundtrip'] = stats
    scalar_type_stage(rep, exe)


def scalar_type_stage(rep, exe):
    """Accept / reject, values and stream positions of the row functions do not depend on the scalar type:
    the corpora of the audit items (empty fields, trailing separator, every rejection cause, the calls after
    a rejected row) with integer-valued tokens, read as double, float, long double and Eigen::Index; the
    double instance is the one judged by the monitor in the main run."""
    cases = []
    for q in corpus_empty_fields() + corpus_after_error():
        text = q[0].split()[1]
        if '.' in unhx(text) or len(q) < 2:
            continue
        first = q[1].split()
        n = -1 if first[0] == 'rowv' else int(first[1])
        cases.append((n, first[-1], text, min(3, len(q) - 1)))
    cases = sorted(set(cases))
    lines = [f'rowT {ty} {n} {sp} {text} {calls}' for (n, sp, text, calls) in cases for ty in 'dfli']
    out, rc, err = C.run_lines(exe, lines)
    rep.cov['evaluations'] += len(out)
    if rc != 0 or len(out) != len(lines):
        rep.violation(f'real code crashed in the scalar-type stage (rc={rc}): {err[-200:]}',
                      {'op': lines[len(out)] if len(out) < len(lines) else None}, True)
        return
    bad = 0
    for i in range(0, len(lines), 4):
        sigs = out[i:i + 4]
        if any(sg.startswith('exception') or sg == 'bad-op' for sg in sigs):
            rep.violation(f'harness: {sigs}', {'op': lines[i]}, True)
            return
        # the *kind* of read_error may differ (a 64-digit token is out of range for float / Index:
        # "conversion failed", and too long for double: "number too long"); rejection itself may not
        if len(set(re.sub(r'E_[a-z]+', 'E', sg) for sg in sigs)) != 1:
            bad += 1
            if bad <= 3:
                rep.violation('monitor: the outcome of the row functions depends on the scalar type '
                              f'(double / float / long double / Index): {sigs}', {'op': lines[i], 'impl_out': sigs},
                              True)
    rep.cov['scalar_type_independence'] = {'texts': len(cases), 'types': 4, 'disagreements': bad}


if __name__ == '__main__':
    sys.exit(C.standard_check(
        'C17', sys.argv,
        gen_scripts=['gen_c17.py'], modules=['Alpaqa.Props.C17'], driver='drv_c17',
        extra_sources=['Alpaqa/Model/C17.lean', 'Alpaqa/Gen/C17.lean', 'Alpaqa/Proofs/C17.lean',
                       'Alpaqa/Proofs/C17Row.lean',
                       'Driver/C17.lean'],
        harness_name='c17', harness_sources=[os.path.join(C.VERIF, 'harness', 'c17.cpp')],
        gen_ops=gen_ops_final, monitor=monitor, nontrivial=nontrivial, extra_stage=extra_stage,
        n_quick=600, n_thorough=96000, search_factor=3,
        trusted_base=[
            'Lean 4.33 kernel + Mathlib (axioms: propext, Classical.choice, Quot.sound)',
            'gen/cxxparse.py + gen/gen_c17.py (translator: constants, decision / update expressions, '
            'short-circuit guards and statement skeletons of CSVReader in csv.tpp; framing literals of '
            'print.tpp) → Lean',
            'hand model Alpaqa/Model/C17.lean: control skeleton of the reader and the libstdc++ istream '
            'semantics (sentry / peek / get / get(s,n,delim) / ignore / clear / eofbit / failbit; no badbit), '
            'tied by exact op-sequence correspondence (values, error kind, window, bufidx, keep_reading, '
            'stream position and flags after every op) on the explored inputs only',
            'row functions: the translator accepts exactly two statement shapes of read_row_impl / '
            'read_row_std_vector (plain body; body wrapped in `catch (read_error &) { if (resync) '
            'reader.discard_line(is); throw; }` with resync = !is.fail() and the exact discard_line body) and '
            'reports which one is present (Gen rowImplResyncs / rowVecResyncs); the model runs that one; '
            'Props/C17.lean rows_current states which one the theorems about the current code are for',
            'std::from_chars / std::to_chars are oracles: theorems assume the longest-valid-prefix '
            'contract and parse(print v) = v; exercised (not proved) by the round-trip monitor over '
            'bit patterns for double, float and long double',
            'Driver/C17.lean re-implements from_chars<double> (grammar + exact rounding) only for the '
            'correspondence run; no theorem depends on it',
        ],
        assumptions=['libstdc++ (GCC 12) istream semantics as read from bits/istream.tcc',
                     'row grammar = the library\'s unit-tested one: a separator terminates a field, the last '
                     'field may be terminated or not (csv.readEndWithSep, readEndWithSepEOF, stdvecReadEndWithSep, '
                     'stdvecReadEndWithSepEOF): monitor and theorems (read_row_terminated) treat `1,2,` as the row '
                     '(1, 2); every other empty field must be rejected',
                     'a 64-character token is accepted-or-rejected (fits the window only when it ends the line)',
                     'after a rejected row the monitor demands the stream at the start of the next line with '
                     'failbit clear and judges the following call against the next line of the text'],
        rule='seeded op sequences over a real std::istringstream: (a) one long token of length 55..75 at '
             'every offset mod 64 of its line, rows before/after, comment lines of length around 0/64/128; '
             '(b) valid multi-row files with all separators, wrong n, wrong separator, trailing separator; '
             '(b\') fixed corpora: trailing separator and empty field at the front / middle / end × every '
             'separator × both readers × n below / at / above the field count; every rejection cause (over-long, '
             'invalid character, too many, too few, wrong separator, empty line, empty field; lines shorter and '
             'longer than the window; with / without a comment line; at the end of the file) followed by further '
             'row calls without resync; half of all generated sequences run without the caller-side resync; the '
             'corpora again for float / long double / Eigen::Index (harness-only, outcome signatures equal); '
             '(c) single-character replacement / insertion / deletion in a valid row (quick: all positions '
             '× 1 char for 6 files + random; thorough: all positions × 33 chars) followed by '
             'resync-on-error and the next rows; (d) random member-function sequences on CSVReader; '
             '(e) printer framing; (f) print→read over all 2047 exponents × random mantissas, subnormals, '
             '±0, ±inf, NaN (double via correspondence; float / long double harness-only); '
             'distinct = distinct (op, outcome) pairs',
    ))
