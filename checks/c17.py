#!/usr/bin/env python3
"""C17 — numeric text I/O round-trips exactly and rejects malformed input.  See DESIGN.md §6 C17.

Op lines (stateful; harness = real alpaqa code, driver = Lean model):
  S <hex>                 new std::istringstream over the text
  R                       fresh CSVReader<double>
  skip | read <sep> | nl | done          the reader's member functions
  row <n> <sep> | rowv <sep>             alpaqa::csv::read_row / read_row_std_vector<double>
  resync / resyncerr      is.clear(); is.ignore(max, '\\n')   (what a caller has to do after a read_error
                          as long as the row functions leave the stream inside the rejected line)
  pcsv <fmt> r c <sep> bits… toks…       print_csv / print_python / print_matlab framing
  rt <sep> r c bits… toks…               print_csv then read every row back with both readers
  rtf / rtl (harness only)               float / long double round trip
  rowT <d|f|l|i> n sep text calls (harness only)   outcome signature of consecutive row calls per scalar type
  rowX <d|f|l> n sep text (harness only)  one row call of that scalar type, values as raw bit patterns
  fts <d|f|l> precision bits (harness only)        float_to_str<F>(value[, precision])

All values cross the protocol as raw bit patterns (NaN sign and payload included).  What the property can
promise for NaN: the printers write `nan` / `-nan`, so the sign survives print -> read and nothing else does
(`canon_bits`); every other pattern, the sign of zero included, must come back bit-identically.
The grammar of a valid number (`STRICT`) is C's strtod decimal subject sequence with one optional sign, the
values come from exact integer rounding (`round_decimal`) in the format of the scalar type — neither shares
anything with the reader.

Monitor, malformed rows: every listed class must be rejected (never numbers), and the rejected call must
leave the stream at the start of the next line with failbit clear ("no partial consumption that corrupts
the next row"): the op after a rejected row is judged against the *next line of the text*.  A single
trailing separator is the library's (unit-tested) terminated form of a row, not an empty field.
"""
import math
import os
import re
import struct
import sys

sys.path.insert(0, os.path.dirname(os.path.abspath(__file__)))
import common as C
from common import f2h, h2f

SEPS = [',', ';', ' ', '\t', '|', ':']
WINDOW = 64


def hx(s):
    return s.encode('latin-1').hex() if s else '-'


def unhx(h):
    return '' if h == '-' else bytes.fromhex(h).decode('latin-1')


# ---------------------------------------------------------------- printing oracle (python side)

def bits2f(b):
    return struct.unpack('>d', struct.pack('>Q', b))[0]


def f2bits(x):
    return struct.unpack('>Q', struct.pack('>d', x))[0]


def tok_of_bits(b):
    """Token the library's default-precision printer produces for the double with bit pattern b
    ('+' for non-negative non-NaN, scientific, max_digits10 = 17 digits after the point)."""
    x = bits2f(b)
    if x != x:
        return '-nan' if b >> 63 else 'nan'
    if math.isinf(x):
        return '+inf' if x > 0 else '-inf'
    return '%+.17e' % x


def hbits(b):
    """Raw bit pattern: NaNs cross the protocol with their sign and payload."""
    return '%016x' % b


QNAN = 0x7ff8000000000000


def is_nan_bits(b):
    return (b >> 52) & 0x7ff == 0x7ff and b & ((1 << 52) - 1) != 0


def canon_bits(b):
    """What the property can promise for the value with bit pattern b after print -> read: every non-NaN
    pattern identically (the sign of zero included); for a NaN the printers write `nan` / `-nan`, i.e. the
    sign and nothing else, so the sign is kept and the result is the quiet NaN without payload."""
    return (b & (1 << 63)) | QNAN if is_nan_bits(b) else b


def value_class(b):
    s = '-' if b >> 63 else '+'
    e, m = (b >> 52) & 0x7ff, b & ((1 << 52) - 1)
    if e == 0x7ff:
        if m == 0:
            return s + 'inf'
        if m == 1 << 51:
            return s + 'qnan'
        return s + ('qnan-payload' if m >> 51 else 'snan')
    if e == 0:
        return s + ('0' if m == 0 else 'subnormal')
    return s + 'normal'


# classes of the property's quantifier ("normal, subnormal, +/-0, +/-inf, NaN") that every run must have
# sent through print -> read (checked at the end of the run: a class never exercised is a broken tie)
REQUIRED_CLASSES = [s + c for s in '+-' for c in ('0', 'subnormal', 'normal', 'inf', 'qnan', 'qnan-payload', 'snan')]
COVER = {'rt_classes': {}, 'pcsv': {}, 'exempt': {}}


def count(group, key, n=1):
    COVER[group][key] = COVER[group].get(key, 0) + n


def rnd_bits(rng):
    k = rng.random()
    if k < 0.08:
        return rng.choice([0, 1 << 63, 0x7ff0000000000000, 0xfff0000000000000, 0x7ff8000000000000,
                           0xfff8000000000000, 0xfff8000000000001, 0x7ff8000000000123, 0x7ff0000000000001,
                           0xfff0000000000001, 0x7ff4000000000000, 0xffffffffffffffff, 1, 0x8000000000000001,
                           0x000fffffffffffff, 0x0010000000000000, 0x7fefffffffffffff,
                           0xffefffffffffffff, 0x3ff0000000000000])
    if k < 0.2:
        return (rng.getrandbits(1) << 63) | rng.getrandbits(52)          # subnormal
    if k < 0.5:
        return f2bits(rng.choice([-1, 1]) * rng.randint(0, 4000) / rng.choice([1, 2, 4, 8, 1000]))
    return (rng.getrandbits(1) << 63) | (rng.randint(0, 2046) << 52) | rng.getrandbits(52)


# ---------------------------------------------------------------- the number grammar (spec side)

# Independent of the reader: the decimal floating-point subject sequence of C's strtod (C17 7.22.1.3: a
# nonempty digit sequence optionally containing a radix character, an optional exponent part; INF / INFINITY /
# NAN / NAN(n-char-sequence), case-insensitive) with ONE optional sign (the printers write '+' or '-'; the
# library's unit tests read `+2.0`).  The hexadecimal form is excluded (from_chars' general format has no 0x).
STRICT = re.compile(r'([+-]?)(?:(inf(?:inity)?)|(nan)(?:\(([0-9A-Za-z_]*)\))?|([0-9]+\.?[0-9]*|\.[0-9]+)(?:e([+-]?[0-9]+))?)',
                    re.I)
# what the reader additionally lets through (open finding): a '+' in front of an otherwise valid negative token
PLUSMINUS = 'csv-plus-minus-sign-accepted'

#        precision, emin, emax
FORMATS = {'d': (53, -1022, 1023), 'f': (24, -126, 127), 'l': (64, -16382, 16383)}


def encode(fmt, neg, kind, e2=0, q=0):
    """Bit-pattern string of a value of format fmt: kind in zero / inf / nan / finite (q·2^(e2-p+1), q < 2^p;
    q < 2^(p-1) only with e2 = emin: subnormal)."""
    p, emin, emax = FORMATS[fmt]
    ebits = {'d': 11, 'f': 8, 'l': 15}[fmt]
    emask = (1 << ebits) - 1
    if kind == 'zero':
        be, m = 0, 0
    elif kind == 'inf':
        be, m = emask, (1 << 63 if fmt == 'l' else 0)
    elif kind == 'nan':
        be, m = emask, (3 << 62 if fmt == 'l' else 1 << (p - 2))
    else:
        normal = q >> (p - 1)
        be = e2 + emax if normal else 0
        m = q if fmt == 'l' else q & ((1 << (p - 1)) - 1)
    if fmt == 'l':
        return '%04x%016x' % ((int(neg) << ebits) | be, m)
    width = 1 + ebits + p - 1
    return '%0*x' % (width // 4, (int(neg) << (width - 1)) | (be << (p - 1)) | m)


def round_decimal(neg, digits, exp10, fmt):
    """Correctly rounded (nearest, ties to even) value of ±digits·10^exp10 in format fmt, by exact integer
    arithmetic.  Returns (bits, in_range, tiny) — tiny: the exact value is below the smallest normal number
    (the result is subnormal, or rounds up to the smallest normal)."""
    p, emin, emax = FORMATS[fmt]
    m = int(digits) if digits else 0
    if m == 0:
        return encode(fmt, neg, 'zero'), True, False
    nd = len(str(m))
    if nd + exp10 > 5200:
        return encode(fmt, neg, 'inf'), False, False
    if nd + exp10 < -5200:
        return encode(fmt, neg, 'zero'), False, False
    num, den = (m * 10 ** exp10, 1) if exp10 >= 0 else (m, 10 ** (-exp10))
    e2 = num.bit_length() - den.bit_length()
    if (num << max(0, -e2)) < (den << max(0, e2)):      # num / den < 2^e2
        e2 -= 1
    tiny = e2 < emin                                     # exact value below the normal range
    e2 = max(e2, emin)
    sh = e2 - p + 1                                      # value = q · 2^sh
    n2, d2 = (num, den << sh) if sh >= 0 else (num << -sh, den)
    q, r = divmod(n2, d2)
    if 2 * r > d2 or (2 * r == d2 and q & 1):
        q += 1
    if q == 1 << p:
        q >>= 1
        e2 += 1
    if e2 > emax:
        return encode(fmt, neg, 'inf'), False, False
    if q == 0:
        return encode(fmt, neg, 'zero'), False, False
    return encode(fmt, neg, 'finite', e2, q), True, tiny


def tok_value(t, fmt='d'):
    """(expected, in_range, subnormal) of a token of the strict grammar; expected is a bit-pattern string, or
    ('nan', neg) for `nan(n-char-sequence)` with a non-empty sequence (any NaN of that sign: the meaning of the
    sequence is implementation-defined)."""
    m = STRICT.fullmatch(t)
    sign, inf, nan, seq, mant, ex = m.groups()
    neg = sign == '-'
    if inf:
        return encode(fmt, neg, 'inf'), True, False
    if nan:
        return (('nan', neg) if seq else encode(fmt, neg, 'nan')), True, False
    ip, _, fp = mant.partition('.')
    return round_decimal(neg, ip + fp, int(ex or 0) - len(fp), fmt)


def is_nan_str(b, fmt):
    v = int(b, 16)
    if fmt == 'l':
        return (v >> 64) & 0x7fff == 0x7fff and v & ((1 << 63) - 1) != 0
    p = FORMATS[fmt][0]
    eb = {'d': 11, 'f': 8}[fmt]
    return (v >> (p - 1)) & ((1 << eb) - 1) == (1 << eb) - 1 and v & ((1 << (p - 1)) - 1) != 0


def value_matches(got, exp, fmt):
    if isinstance(exp, tuple):
        width = {'d': 64, 'f': 32, 'l': 80}[fmt]
        return is_nan_str(got, fmt) and bool(int(got, 16) >> (width - 1)) == exp[1]
    return got == exp


def current_line(text, pos):
    """Skip comment lines from pos; return (line, line_start, line_end, has_newline)."""
    while pos < len(text) and text[pos] == '#':
        j = text.find('\n', pos)
        if j < 0:
            return '', len(text), len(text), False
        pos = j + 1
    j = text.find('\n', pos)
    if j < 0:
        return text[pos:], pos, len(text), False
    return text[pos:j], pos, j, True


# ---------------------------------------------------------------- generators

def long_token(rng, n):
    """A grammatical number token of exactly n characters."""
    kind = rng.randrange(4)
    if kind == 0:                       # 0.000…0ddd  (the §7-B shape)
        tail = str(rng.randint(1, 999999))
        if n >= len(tail) + 3:
            return '0.' + '0' * (n - 2 - len(tail)) + tail
    if kind == 1:                       # ±d.ddd…e±xx
        sgn = rng.choice(['-', '+', ''])
        ex = 'e' + rng.choice(['+', '-']) + '%02d' % rng.randint(0, 30)
        k = n - len(sgn) - len(ex) - 2
        if k >= 1:
            return sgn + str(rng.randint(1, 9)) + '.' + ''.join(rng.choice('0123456789') for _ in range(k)) + ex
    if kind == 2:                       # long integer
        return str(rng.randint(1, 9)) + ''.join(rng.choice('0123456789') for _ in range(n - 1))
    # ddd.000…0
    head = str(rng.randint(1, 99999))
    if n >= len(head) + 2:
        return head + '.' + '0' * (n - len(head) - 1)
    return '1' * n


def short_token(rng):
    k = rng.random()
    if k < 0.55:
        return tok_of_bits(rnd_bits(rng))
    if k < 0.75:
        return rng.choice(['1', '-2', '+3', '0', '1.5', '-0.25', '.5', '7.', '1e5', '2E-3', '-1.25e+10',
                           'inf', '-inf', '+inf', 'nan', '-nan', 'INF', 'Infinity', 'NaN', 'nan(12)',
                           '4.9406564584124654e-324', '1.7976931348623157e308', '-0', '+0.0', '00012',
                           '1e-320', '123456789012345678901234567890'])
    return '%.*g' % (rng.randint(1, 17), bits2f(rnd_bits(rng) & 0x7fefffffffffffff | (rng.getrandbits(1) << 63)))


def comment(rng):
    n = rng.choice([0, 1, 5, 20, 62, 63, 64, 65, 66, 127, 128, 129, 200])
    body = ''.join(rng.choice('abc ,;1#.') for _ in range(n))
    return '#' + body


def build_text(rng, rows, sep, ncomments=None, final_nl=None):
    """rows: list of token lists."""
    lines = []
    for toks in rows:
        for _ in range(ncomments if ncomments is not None else rng.choice([0, 0, 0, 1, 2])):
            lines.append(comment(rng))
        lines.append(sep.join(toks))
    text = '\n'.join(lines)
    if final_nl if final_nl is not None else rng.random() < 0.7:
        text += '\n'
    return text


def seq_boundary(rng, ltok, offset, sep, mode):
    """One long token of length ltok starting at offset `offset` (mod 64) within its line."""
    pre = []
    plen = 0
    # fill `offset` characters (tokens + separators) before the long token
    target = offset + (64 if offset < 8 and rng.random() < 0.5 else 0)
    while plen < target:
        room = target - plen - 1            # token + separator
        if room <= 0:
            break
        t = short_token(rng)
        if len(t) > room or room - len(t) == 1:
            t = long_token(rng, room) if room != 1 else str(rng.randint(0, 9))
        pre.append(t)
        plen += len(t) + 1
    post = [short_token(rng) for _ in range(rng.choice([0, 1, 3]))]
    row = pre + [long_token(rng, ltok)] + post
    row2 = [short_token(rng) for _ in range(rng.choice([1, 2, 3]))]
    text = build_text(rng, [row, row2], sep, ncomments=rng.choice([0, 0, 1]))
    ops = ['S ' + hx(text)]
    if mode == 'rowv':
        ops += [f'rowv {hx(sep)}', 'resync?', f'rowv {hx(sep)}']
    else:
        ops += [f'row {len(row)} {hx(sep)}', 'resync?', f'row {len(row2)} {hx(sep)}']
    return ops


def seq_valid(rng):
    sep = rng.choice(SEPS)
    nrows = rng.choice([1, 2, 3, 5])
    rows = [[short_token(rng) for _ in range(rng.choice([0, 1, 2, 3, 5, 8, 13, 30]))] for _ in range(nrows)]
    if rng.random() < 0.15:
        i = rng.randrange(nrows)
        if rows[i]:
            rows[i][-1] += sep               # trailing separator (accepted by design, unit-tested)
    text = build_text(rng, rows, sep)
    ops = ['S ' + hx(text)]
    for toks in rows:
        n = len([t for t in toks])
        k = rng.random()
        if k < 0.45:
            ops.append(f'row {n} {hx(sep)}')
        elif k < 0.85:
            ops.append(f'rowv {hx(sep)}')
        elif k < 0.93:
            ops.append(f'row {max(0, n + rng.choice([-2, -1, 1, 2]))} {hx(sep)}')     # too few / many
        else:
            ops.append(f'row {n} {hx(rng.choice([s for s in SEPS if s != sep]))}')       # wrong separator
        ops.append('resync?')
    ops.append(f'rowv {hx(sep)}')           # one read past the end
    return ops


CORRUPT = list('0123456789.eE+-xnaif#()_ ,;\t|:\n')


def seq_corrupt(rng, exhaustive_budget=None):
    """A valid 3-row text; one character of row 2 replaced (or deleted / inserted)."""
    sep = rng.choice(SEPS)
    rows = [[short_token(rng) for _ in range(rng.choice([1, 2, 3, 4, 6, 9]))] for _ in range(3)]
    if rng.random() < 0.3:                  # make row 2 longer than the window
        rows[1] = [short_token(rng) for _ in range(rng.choice([4, 6, 10]))]
    lines = [sep.join(r) for r in rows]
    out = []
    base = len(lines[0]) + 1
    positions = range(len(lines[1]) + 1) if exhaustive_budget else [rng.randrange(len(lines[1]) + 1)]
    for p in positions:
        chars = CORRUPT if exhaustive_budget == 'all' else [rng.choice(CORRUPT)]
        for ch in chars:
            l1 = lines[1]
            kind = rng.random()
            if p == len(l1) or kind < 0.1:
                l1c = l1[:p] + ch + l1[p:]                  # insertion
            elif kind < 0.2:
                l1c = l1[:p] + l1[p + 1:]                   # deletion
            else:
                l1c = l1[:p] + ch + l1[p + 1:]              # replacement
            text = '\n'.join([lines[0], l1c, lines[2]]) + '\n'
            mode = rng.random() < 0.5
            ops = ['S ' + hx(text)]
            for i, r in enumerate(rows):
                ops.append(f'rowv {hx(sep)}' if mode else f'row {len(r)} {hx(sep)}')
                ops.append('resync?')
            out.append(ops)
    return out


def seq_lowlevel(rng):
    sep = rng.choice(SEPS)
    rows = [[short_token(rng) for _ in range(rng.choice([0, 1, 2, 4, 8]))] for _ in range(rng.choice([1, 2, 3]))]
    if rng.random() < 0.3:
        rows[0] = rows[0] + [long_token(rng, rng.randint(55, 75))] + rows[0]
    text = build_text(rng, rows, sep)
    if rng.random() < 0.15 and text:
        p = rng.randrange(len(text))
        text = text[:p] + rng.choice(CORRUPT) + text[p + 1:]
    ops = ['S ' + hx(text), 'R']
    if rng.random() < 0.85:
        ops.append('skip')
    for _ in range(rng.randint(1, 14)):
        k = rng.random()
        if k < 0.6:
            ops.append(f'read {hx(sep)}')
        elif k < 0.75:
            ops.append('done')
        elif k < 0.87:
            ops += ['nl', 'R', 'skip'] if rng.random() < 0.7 else ['nl']
        elif k < 0.93:
            ops.append('skip')
        else:
            ops.append('R')
    return ops


def seq_print(rng):
    fmt = rng.choice(['csv', 'csvs', 'py', 'ml'])
    rows, cols = rng.choice([0, 1, 2, 3, 5]), rng.choice([0, 1, 1, 2, 3])
    sep = rng.choice([',', ';', ', ', ' ', '\t']) if fmt == 'csvs' else ','
    bits = [rnd_bits(rng) for _ in range(rows * cols)]
    toks = [tok_of_bits(b) for b in bits]
    return [f'pcsv {fmt} {rows} {cols} {hx(sep)} ' + ' '.join([hbits(b) for b in bits] + [hx(t) for t in toks])]


def rt_line(bits, rows, cols, sep):
    toks = [tok_of_bits(b) for b in bits]
    return f'rt {hx(sep)} {rows} {cols} ' + ' '.join([hbits(b) for b in bits] + [hx(t) for t in toks])


def seq_rt(rng, exps=None):
    if exps is not None:
        bits = [((rng.getrandbits(1) << 63) | (e << 52) | rng.getrandbits(52)) for e in exps]
        return [rt_line(bits, len(bits), 1, rng.choice(SEPS))]
    rows, cols = rng.choice([0, 1, 2, 3, 6, 12]), rng.choice([0, 1, 1, 1, 2, 3, 5])
    bits = [rnd_bits(rng) for _ in range(rows * cols)]
    return [rt_line(bits, rows, cols, rng.choice(SEPS))]


def gen_ops(rng, n):
    seqs = []
    thorough = n >= 20000
    # chunk-boundary sweep: token lengths 55..75 × every offset mod 64
    combos = [(l, o) for l in range(55, 76) for o in range(64)]
    if not thorough:
        combos = rng.sample(combos, min(len(combos), max(64, n // 6)))
        # every offset occurs at least once with an over-window and an under-window token
        combos += [(rng.choice([60, 61, 62, 63]), o) for o in range(64)]
        combos += [(rng.choice([64, 65, 66, 70]), o) for o in range(0, 64, 2)]
    for l, o in combos:
        for mode in (['rowv', 'row'] if thorough else [rng.choice(['rowv', 'row'])]):
            seqs.append(seq_boundary(rng, l, o, rng.choice(SEPS), mode))
    for _ in range(n // 4):
        seqs.append(seq_valid(rng))
    if thorough:
        for _ in range(40):
            seqs += seq_corrupt(rng, exhaustive_budget='all')        # every position × every char
        for _ in range(n // 8):
            seqs += seq_corrupt(rng)
    else:
        for _ in range(6):
            seqs += seq_corrupt(rng, exhaustive_budget='pos')        # every position, one char
        for _ in range(n // 3):
            seqs += seq_corrupt(rng)
    for _ in range(n // 5):
        seqs.append(seq_lowlevel(rng))
    for _ in range(n // 12):
        seqs.append(seq_print(rng))
    # round trip: every exponent (one random mantissa each; thorough: 8) + random matrices
    reps = 8 if thorough else 1
    for _ in range(reps):
        ex = list(range(0, 2047))
        for i in range(0, len(ex), 16):
            seqs.append(seq_rt(rng, ex[i:i + 16]))
    for _ in range(n // 10):
        seqs.append(seq_rt(rng))
    rng.shuffle(seqs)
    # half of the sequences without the caller-side resync: the call after a rejected row is then judged
    # against the next line of the text (property: a rejected row leaves no partial consumption)
    seqs = [[o for o in q if o != 'resync?'] if rng.random() < 0.5 else q for q in seqs]
    # corpus first: the DESIGN §7-B reproduction and the unit-test shapes
    tok70 = '0.' + '0' * 62 + '125777'
    head = [['S ' + hx(tok70 + '\n1,2\n'), 'rowv 2c', 'resync?', 'rowv 2c'],
            ['S ' + hx('# c\n\n1,2\n'), 'row 0 2c', 'resync?', 'row 2 2c'],
            ['S ' + hx('#' + 'y' * 64 + '\n# d\n'), 'rowv 2c'],
            ['S ' + hx('1.0,2.0,3.0,4.0,5.0,6.0'), 'row 5 2c'],
            ['S ' + hx('# c\n' + '#' + 'x' * 300 + '\n1,+2,-3\nfoobar'), 'row 3 2c', 'resync?', 'rowv 2c'],
            ['S -', 'rowv 2c', 'row 0 2c', 'row 1 2c'],
            ['S ' + hx('\n\n1\n'), 'rowv 2c', 'row 0 2c', 'row 1 2c']]
    head += corpus_empty_fields() + corpus_after_error() + corpus_value_classes() + corpus_tokens()
    return [o for s in head + seqs for o in s]


CLASS_REPS = [0, 1 << 63, 1, (1 << 63) | 0x000fffffffffffff, 0x3ff8000000000000, 0xc00921fb54442d18,
              0x7ff0000000000000, 0xfff0000000000000, QNAN, QNAN | 1 << 63, QNAN | 0x123, (QNAN | 1 << 63) | 0x7,
              0x7ff0000000000001, 0xfff4000000000000, 0x7fefffffffffffff, 0x0010000000000000]


def corpus_value_classes():
    """One representative of every class of the property's quantifier (REQUIRED_CLASSES) through print -> read,
    as a vector and as a matrix, and through every printer format."""
    assert {value_class(b) for b in CLASS_REPS} >= set(REQUIRED_CLASSES)
    n = len(CLASS_REPS)
    out = [[rt_line(CLASS_REPS, n, 1, ',')], [rt_line(CLASS_REPS, 4, 4, ';')]]
    for fmt in ('csv', 'csvs', 'py', 'ml'):
        for rows, cols in ((n, 1), (4, 4), (1, 3), (0, 1), (0, 3), (2, 0)):
            bits = CLASS_REPS[:rows * cols]
            out.append([f'pcsv {fmt} {rows} {cols} {hx("; " if fmt == "csvs" else ",")} ' +
                        ' '.join([hbits(b) for b in bits] + [hx(tok_of_bits(b)) for b in bits])])
    return out


TOKEN_ZOO = ['+-3', '+-inf', '+-nan', '+-.5', '+ 3', '0x10', '1e', '1e+', '1e5', '.5', '5.', 'inf', '-inf', '+inf', 'nan',
             '-nan', '+nan', 'NaN', 'NAN', 'infinity', 'INFINITY', '-Infinity', 'infinit', 'nan(12)', 'nan()', 'nan(',
             '1_000', ' 3', '3 ', '\t3', '3\r', '+', '-', '++3', '--3', '-+3', '+.5', '-.5', '.', 'e5', '1e5.', '1.5E5',
             '0b1', '1d5', '0x1p3', "1'000", '1e400', '1e-400', '-0', '+0', '00', '1e+05', '1e-05', '1.e5', '.e5']


def corpus_tokens():
    """Audit 2 item 3: what the reader does with each token of the zoo (alone on a line, and as the middle
    field), both readers; CRLF line ends."""
    out = []
    for t in TOKEN_ZOO:
        out.append(['S ' + hx(t + '\n7\n'), 'rowv 3b', 'rowv 3b'])
        out.append(['S ' + hx(t + '\n7\n'), 'row 1 3b', 'row 1 3b'])
        out.append(['S ' + hx('1;' + t + ';2\n7\n'), 'row 3 3b', 'rowv 3b'])
    out.append(['S ' + hx('1;2\r\n3;4\r\n'), 'row 2 3b', 'row 2 3b'])
    out.append(['S ' + hx('1;2\r\n3;4\r\n'), 'rowv 3b', 'rowv 3b'])
    return out


def corpus_empty_fields():
    """Audit F5 (a): trailing separator and its relatives, every separator, both readers, n below / at /
    above the field count; each followed by reads of the next rows *without* resync."""
    out = []
    for sp in SEPS:
        h = hx(sp)
        nxt = f'7{sp}8\n9\n'
        for line, k in ((f'1{sp}2{sp}', 2),            # terminated row: accepted (unit-tested grammar)
                        (f'1{sp}2{sp}{sp}', 3),         # empty field at the end
                        (f'{sp}1{sp}2', 3),             # … at the front
                        (f'1{sp}{sp}2', 3),             # … in the middle
                        (f'{sp}', 1), (f'{sp}{sp}', 2), (f'1{sp}{sp}', 2)):
            for first in ([f'rowv {h}'] + [f'row {n} {h}' for n in sorted({max(0, k - 1), k, k + 1})]):
                out.append(['S ' + hx(line + '\n' + nxt), first, f'row 2 {h}', f'rowv {h}'])
        out.append(['S ' + hx(f'1{sp}2{sp}'), f'row 2 {h}'])                   # terminated row at EOF
        out.append(['S ' + hx(f'1{sp}2{sp}'), f'rowv {h}', f'rowv {h}'])
        out.append(['S ' + hx(f'1{sp}2{sp}{sp}'), f'rowv {h}', f'rowv {h}'])
    return out


def corpus_after_error():
    """Audit F5 (b): one sequence per rejection cause (and per reader), the next rows read without resync;
    short lines (whole line in the window) and lines longer than the window."""
    out = []
    long_ok = ','.join(str(i) for i in range(10, 40))          # 89 characters
    causes = [('1' * 64 + '2', 1),                             # over-long token (65 digits)
              ('1,' + '1' * 70 + ',3', 3),
              ('1,2x,3', 3), ('1,k2,3', 3),                     # invalid character
              ('1,2,3,4', 3),                                   # too many
              ('1,2', 3),                                       # too few
              ('1;2;3', 3),                                     # wrong separator
              ('', 2),                                          # empty line where data are expected
              ('1,,3', 3),                                      # empty field
              (long_ok + ',x', 31), (long_ok + ';5', 31), (long_ok, 29), (long_ok, 31)]
    for line, n in causes:
        for pre in ('', '# c\n'):
            text = pre + line + '\n4,5\n6\n'
            out.append(['S ' + hx(text), f'row {n} 2c', 'row 2 2c', 'row 1 2c', 'rowv 2c'])
            out.append(['S ' + hx(text), 'rowv 2c', 'rowv 2c', 'rowv 2c', 'rowv 2c'])
            out.append(['S ' + hx(text), f'row {n} 2c', 'rowv 2c', 'row 1 2c'])
        out.append(['S ' + hx(line), f'row {n} 2c', 'row 0 2c', 'rowv 2c'])      # … at the end of the file
        out.append(['S ' + hx(line), 'rowv 2c', 'rowv 2c'])
    # two rejected rows in a row, then a good one
    out.append(['S ' + hx('1,x\n2,y\n3,4\n'), 'row 2 2c', 'row 2 2c', 'row 2 2c'])
    out.append(['S ' + hx('1,x\n2,y\n3,4\n'), 'rowv 2c', 'rowv 2c', 'rowv 2c'])
    return out


# `resync?` in the sequences above becomes the op `resyncerr`: "if the previous row op threw, do what
# a caller does after a read_error — is.clear(); is.ignore(max, '\\n')" (harness and driver alike).


# ---------------------------------------------------------------- monitors

def parse_state(seg):
    m = re.fullmatch(r'p(-?\d+) e([01]) f([01])', seg.strip())
    return int(m.group(1)), m.group(2) == '1', m.group(3) == '1'


MIDLINE = 'csv-error-leaves-stream-mid-line'


def next_line_start(text, pos):
    """Start of the line after the (non-comment) line the row call at `pos` is about."""
    _, _, le, has_nl = current_line(text, pos)
    return le + 1 if has_nl else len(text)


LDSUB = 'csv-longdouble-subnormal-rejected'


def plusminus_only(fields):
    """Every field is in the strict grammar, or is '+' followed by a strict token that starts with '-'."""
    hit = False
    for f in fields:
        if STRICT.fullmatch(f):
            continue
        if f.startswith('+-') and STRICT.fullmatch(f[1:]):
            hit = True
            continue
        return False
    return hit


def judge(text, pos, vec, n, sep, res, fmt='d'):
    """The property restated on one row call (scalar format fmt) made at the clean line start `pos` of `text`:
    strict grammar, exact values, stream position.  Independent of the reader (see STRICT, round_decimal)."""
    line, ls, le, has_nl = current_line(text, pos)
    fields = [] if line == '' else line.split(sep)
    if len(fields) > 1 and fields[-1] == '':
        fields = fields[:-1]                 # a separator terminates a field (read_row_terminated, unit tests)
    gram = all(STRICT.fullmatch(f) for f in fields)
    seg = res.split(' | ')
    ok = seg[0].startswith('ok')
    p2, e2, f2 = parse_state(seg[-1])
    here = f'row {line[:80]!r} (sep {sep!r}, {"vector" if vec else f"n={n}"}, {fmt})'
    if not ok and not seg[0].startswith('E_'):
        return f'unexpected output {seg[0][:60]!r}'
    want = le + 1 if has_nl else len(text)
    if not ok:
        if seg[0] in ('E_other', 'E_read'):
            return f'{here}: not a csv read_error: {seg[0]}'
        if p2 != want or f2:
            where = 'inside the rejected line' if p2 <= le else 'past the end of that line'
            return (f'{here}: rejected with {seg[0]}, but the stream is left {where} (pos {p2}, failbit '
                    f'{int(f2)}; the next row starts at {want}): the next read_row call does not read '
                    f'the next row', MIDLINE)
    maxlen = max([len(f) for f in fields] + [0])
    vals = seg[0].split()[2:] if ok else None
    if ok and maxlen > WINDOW:
        return (f'{here}: a token of {maxlen} characters (longer than the reader\'s {WINDOW}-byte window) was '
                f'not rejected: returned {len(vals)} numbers', 'csv-overlong-token-split')
    count_ok = vec or n == len(fields)
    if gram and count_ok:
        exp = [tok_value(f, fmt) for f in fields]
        in_range = all(r for _, r, _ in exp)
        if not in_range:
            count('exempt', 'value_out_of_range: accepted (correctly rounded) or rejected')
        if maxlen == WINDOW:
            count('exempt', 'token_of_exactly_64_chars: hypothesis hlen <= 63 of read_token_any_offset')
        if maxlen <= WINDOW - 1 and in_range:
            if not ok:
                if line == '' and text[pos:pos + 1] == '#' and seg[0] == 'E_ext':
                    return (f'{here}: an empty row that follows a comment line is rejected with {seg[0]} '
                            f'(and failbit is set); the same row without the comment is accepted',
                            'csv-empty-row-after-comment')
                if fmt == 'l' and seg[0] == 'E_conv' and any(sub for _, _, sub in exp):
                    return (f'{here}: a row with a long double value below LDBL_MIN is rejected with {seg[0]}', LDSUB)
                return f'{here}: valid row rejected with {seg[0]}'
        if ok:
            if len(vals) != len(exp) or not all(value_matches(g, e, fmt) for g, (e, _, _) in zip(vals, exp)):
                return f'{here}: returned {vals[:6]}, the text denotes {[e for e, _, _ in exp][:6]}'
            if p2 != want:
                return f'{here}: accepted, but the stream is at {p2}, next line starts at {want}'
        return None
    # malformed (bad token / empty field / wrong count / over-long)
    if ok:
        if (vec or n == len(fields)) and plusminus_only(fields):
            return (f'{here}: a token that starts with "+-" is not a number, but the row is accepted and the '
                    f'token read as the negative value: returned {vals[:6]}', PLUSMINUS)
        why = 'field count' if gram else 'bad token / empty field / wrong separator'
        return f'{here}: malformed ({why}) but returned numbers {vals[:6]}'
    return None


def judge_row(op, res, st, pos=None):
    """`judge` for the `row` / `rowv` ops of the main run (`pos`: where the property says the stream is — the
    start of the line after a rejected row — when that differs from where it really is)."""
    parts = op.split()
    vec = parts[0] == 'rowv'
    return judge(st['text'], st['pos'] if pos is None else pos, vec, None if vec else int(parts[1]),
                 unhx(parts[-1]), res)


def monitor(op, out, st):
    if out.startswith('exception') or out == 'bad-op':
        return f'harness: {out[:100]}'
    k = op.split()[0]
    if k == 'S':
        st.clear()
        st['text'] = unhx(op.split()[1])
        st['pos'] = 0
        st['clean'] = True
        st['flags'] = (False, False)
        return None
    if k in ('row', 'rowv'):
        seg = out.split(' | ')
        r = None
        judged_from = None
        if st.get('clean') and not st['flags'][1] and not st['flags'][0]:
            judged_from = st['pos']
            r = judge_row(op, out, st)
        elif st.get('expect') is not None:
            # the previous row call was rejected and nothing happened in between: the property puts
            # the stream at the start of the following line, the call is judged against that line
            judged_from = st['expect']
            r = judge_row(op, out, st, pos=judged_from)
            if r is not None:
                pre = 'after a rejected row, the next call: '
                r = (pre + r[0], r[1]) if isinstance(r, tuple) else pre + r
        p2, e2, f2 = parse_state(seg[-1])
        okk = seg[0].startswith('ok')
        st['clean'] = okk
        st['pos'], st['flags'] = p2, (e2, f2)
        st['lasterr'] = not okk
        st['expect'] = next_line_start(st['text'], judged_from) if (not okk and judged_from is not None) else None
        return r
    if k == 'resyncerr':
        seg = out.split(' | ')
        p2, e2, f2 = parse_state(seg[-1])
        if seg[0] == 'ok':          # resync performed
            st['clean'] = True
            st['expect'] = None
        st['pos'], st['flags'] = p2, (e2, f2)
        return None
    if k in ('skip', 'read', 'nl', 'done', 'R', 'resync'):
        st['clean'] = False
        st['expect'] = None
        return None
    if k == 'rt':
        parts = op.split()
        sep = unhx(parts[1])
        rows, cols = int(parts[2]), int(parts[3])
        bits = [int(b, 16) for b in parts[4:4 + rows * cols]]
        for b in bits:
            count('rt_classes', value_class(b))
        seg = out.split(' | ')
        text = unhx(seg[0])
        nrows, ncols = (1, rows) if cols == 1 else (rows, cols)
        exp_text = expected_print('csvs', rows, cols, sep, bits)
        if text != exp_text:
            return f'print_csv wrote {text[:120]!r}, the format says {exp_text[:120]!r}'
        # the property for print -> read: bit-identical, the sign of zero included; NaN: sign only (canon_bits)
        want = [[hbits(canon_bits(b)) for b in bits[r * ncols:(r + 1) * ncols]] for r in range(nrows)]
        i = 1
        for ps in range(2):
            for r in range(nrows):
                s = seg[i]; i += 1
                if not s.startswith('ok'):
                    return (f'round trip: row {r} printed as {text[:120]!r} is rejected with {s} by '
                            f'{"read_row_std_vector" if ps else "read_row"}')
                got = s.split()[2:]
                if got != want[r]:
                    bad = [(a, b) for a, b in zip(want[r], got) if a != b][:3]
                    return (f'round trip not bit-identical ({"read_row_std_vector" if ps else "read_row"}): '
                            f'wrote/read {bad or (len(want[r]), len(got))}, text {text[:100]!r}')
            p2, e2, f2 = parse_state(seg[i]); i += 1
            if p2 != len(text):
                return f'round trip: {p2} of {len(text)} characters consumed'
        return None
    if k == 'pcsv':
        parts = op.split()
        fmt, rows, cols, sep = parts[1], int(parts[2]), int(parts[3]), unhx(parts[4])
        bits = [int(b, 16) for b in parts[5:5 + rows * cols]]
        text = unhx(out.strip())
        shape = 'empty' if rows * cols == 0 else ('vector' if cols == 1 else 'matrix')
        count('pcsv', f'{fmt}:{shape}')
        exp_text = expected_print(fmt, rows, cols, sep, bits)
        if text != exp_text:
            return f'print ({fmt}, {rows}x{cols}) wrote {text[:120]!r}, the format says {exp_text[:120]!r}'
        # read the text back with a reader that shares nothing with the library: the format's own grammar
        try:
            back = parse_printed(fmt, text, sep)
        except Exception as e:
            return f'print ({fmt}, {rows}x{cols}) wrote {text[:120]!r}, which is not valid {fmt} text: {e!r}'
        want = [hbits(canon_bits(b)) for b in bits]
        if cols == 1 or rows * cols == 0:
            flat = [x for r in back for x in r] if back and isinstance(back[0], list) else list(back)
        else:
            if [len(r) for r in back] != [cols] * rows:
                return f'print ({fmt}): {rows}x{cols} matrix printed with row lengths {[len(r) for r in back]}'
            flat = [x for r in back for x in r]
        if flat != want:
            bad = [(a, b) for a, b in zip(want, flat) if a != b][:3]
            return (f'print ({fmt}, {rows}x{cols}): the text {text[:100]!r} denotes other values than were printed: '
                    f'wrote/denoted {bad or (len(want), len(flat))}')
        return None
    return None


def expected_print(fmt, rows, cols, sep, bits):
    """Text of a rows×cols matrix in the given format: elements in scientific notation with max_digits10
    significant digits, '+' for non-negative non-NaN (tok_of_bits = printf '%+.17e'); csv: one line per row,
    a column vector on one line; python: nested list literal; matlab: `[a b;\n c d];`."""
    t = [tok_of_bits(b) for b in bits]
    R = [t[r * cols:(r + 1) * cols] for r in range(rows)]
    if fmt in ('csv', 'csvs'):
        sp = ',' if fmt == 'csv' else sep
        if cols == 1:
            return sp.join(t) + '\n'
        return ''.join(sp.join(r) + '\n' for r in R)
    if fmt == 'py':
        if cols == 1:
            return '[' + ', '.join(t) + ']\n'
        return '[[' + '],\n ['.join(', '.join(r) for r in R) + ']]\n'
    if fmt == 'ml':
        if cols == 1:
            return '[' + ' '.join(t) + '];\n'
        return '[' + ';\n '.join(' '.join(r) for r in R) + '];\n'
    raise ValueError(fmt)


def parse_printed(fmt, text, sep):
    """Independent reader of the three formats -> (nested) lists of bit-pattern strings."""
    def val(tok):
        if not STRICT.fullmatch(tok):
            raise ValueError(f'token {tok!r}')
        e, in_range, _ = tok_value(tok, 'd')
        if not in_range or isinstance(e, tuple):
            raise ValueError(f'token {tok!r} out of range')
        return e
    if fmt in ('csv', 'csvs'):
        sp = ',' if fmt == 'csv' else sep
        if not text.endswith('\n') and text != '':
            raise ValueError('no final newline')
        return [[val(x) for x in ln.split(sp)] if ln else [] for ln in text.split('\n')[:-1]]
    if fmt == 'py':
        # a Python literal: evaluate it with Python itself (nan / inf as names, unary signs)
        if not text.endswith('\n'):
            raise ValueError('no final newline')
        obj = eval(text, {'__builtins__': {}}, {'nan': math.nan, 'inf': math.inf})
        def conv(o):
            return [conv(x) for x in o] if isinstance(o, list) else '%016x' % f2bits(o)
        return conv(obj)
    if fmt == 'ml':
        if not (text.startswith('[') and text.endswith('];\n')):
            raise ValueError('brackets')
        body = text[1:-3]
        if body == '':
            return []
        return [[val(x) for x in r.split()] for r in body.split(';\n')]
    raise ValueError(fmt)


def nontrivial(op, out):
    k = op.split()[0]
    if k in ('row', 'rowv', 'read', 'rt', 'pcsv', 'skip'):
        return (op, out[:60])
    return None


def gen_ops_final(rng, n):
    return [('resyncerr' if o == 'resync?' else o) for o in gen_ops(rng, n)]


# ---------------------------------------------------------------- float / long double round trip

def extra_stage(rep, broken, exe, tier):
    if exe is None:
        return
    import random
    rng = random.Random(C.seed() * 31337 + 5)
    reps = 6 if tier == 'thorough' else 1
    lines, meta = [], []
    for _ in range(reps):
        vals = [(rng.getrandbits(1) << 31) | (e << 23) | rng.getrandbits(23) for e in range(0, 255)]
        vals += [0, 1 << 31, 0x7f800000, 0xff800000, 0x7fc00000, 0xffc00000, 0x7fc00123, 0xff800001, 0x7fa00000,
                 0xffffffff, 1, 0x80000001, 0x007fffff, 0x00800000, 0x7f7fffff, 0xff7fffff]
        vals += [(rng.getrandbits(1) << 31) | rng.getrandbits(23) for _ in range(32)]
        for i in range(0, len(vals), 8):
            ch = vals[i:i + 8]
            lines.append('rtf %d ' % len(ch) + ' '.join('%08x' % v for v in ch))
            meta.append(('f', ch))
        # long double (x87 80-bit): sign/exponent 16 bits, explicit integer bit + 63 fraction bits
        lv = []
        exps = list(range(1, 0x7fff, 257 if tier != 'thorough' else 17)) + [1, 2, 0x3fff, 0x7ffe]
        for e in exps:
            lv.append(((rng.getrandbits(1) << 15) | e, (1 << 63) | rng.getrandbits(63)))
        lv += [(0, 0), (0x8000, 0), (0x7fff, 1 << 63), (0xffff, 1 << 63), (0x7fff, 3 << 62), (0xffff, 3 << 62),
               (0x7fff, (3 << 62) | 0x123), (0xffff, (1 << 63) | 1), (0x7fff, (1 << 64) - 1),
               (0x7ffe, (1 << 64) - 1), (0xfffe, (1 << 64) - 1), (1, 1 << 63), (0x8001, 1 << 63)]
        lv += [((rng.getrandbits(1) << 15), rng.getrandbits(63) | 1) for _ in range(24)]     # subnormals
        lv += [(0, 1), (0, (1 << 63) - 1)]
        for i in range(0, len(lv), 4):
            ch = lv[i:i + 4]
            lines.append('rtl %d ' % len(ch) + ' '.join('%04x%016x' % v for v in ch))
            meta.append(('l', ch))
    out, rc, err = C.run_lines(exe, lines)
    rep.cov['evaluations'] += len(out)
    stats = {'float_values': 0, 'longdouble_values': 0, 'longdouble_subnormal_rejected': 0}
    if rc != 0 or len(out) != len(lines):
        rep.violation(f'real code crashed in float/long double round trip (rc={rc}): {err[-200:]}',
                      {'op': lines[len(out)] if len(out) < len(lines) else None}, True)
        return
    nviol = 0
    for ln, (kind, ch), o in zip(lines, meta, out):
        seg = o.split(' | ')
        text = unhx(seg[0].split()[0])
        # NaN: the sign and nothing else survives (the printers write `nan` / `-nan`)
        if kind == 'f':
            want = ['%08x' % ((v & 0x80000000) | 0x7fc00000) if ((v >> 23) & 0xff) == 0xff and (v & 0x7fffff)
                    else '%08x' % v for v in ch]
            stats['float_values'] += len(ch)
            stats['float_nan'] = stats.get('float_nan', 0) + sum(w[1:] == 'fc00000' for w in want)
        else:
            want = ['%04x%016x' % ((se & 0x8000) | 0x7fff, 3 << 62)
                    if (se & 0x7fff) == 0x7fff and (m << 1) & ((1 << 64) - 1) else '%04x%016x' % (se, m)
                    for se, m in ch]
            stats['longdouble_values'] += len(ch)
            stats['longdouble_nan'] = stats.get('longdouble_nan', 0) + sum(w[1:4] == 'fff' and w[4] == 'c' for w in want)
        msg = key = None
        if not seg[0].endswith('same'):
            msg = f'print_csv and float_to_str disagree at default precision: {text!r}'
        for ps in (1, 2):
            s = seg[ps]
            if s.startswith('ok'):
                got = s.split()[2:]
                if got != want and msg is None:
                    msg = f'{"float" if kind == "f" else "long double"} round trip not bit-identical: wrote {want}, read {got}, text {text!r}'
            elif msg is None:
                sub = kind == 'l' and any((se & 0x7fff) == 0 and m != 0 for se, m in ch)
                if sub:
                    stats['longdouble_subnormal_rejected'] += 1
                    key = 'csv-longdouble-subnormal-rejected'
                msg = (f'{"float" if kind == "f" else "long double"} value printed at default precision '
                       f'({text.strip()!r}) is rejected by the CSV reader with {s}')
        if msg:
            before = len(rep.violations)
            rep.violation('monitor: ' + msg, {'op': ln, 'impl_out': o}, True, key=key)
            if len(rep.violations) > before:
                nviol += 1
                if nviol >= 5:
                    break
    rep.cov['float_longdouble_roundtrip'] = stats
    scalar_type_stage(rep, exe)
    printer_stage(rep, exe, tier, rng)
    corruption_stage(rep, exe, tier, rng)
    coverage_stage(rep, broken)


# ---------------------------------------------------------------- printers: extreme values, precision overrides

MAXDIG = {'d': 17, 'f': 9, 'l': 21}          # numeric_limits<F>::max_digits10
EXPDIG = {'d': 3, 'f': 2, 'l': 4}            # digits of the largest decimal exponent
PRECBUF = 'print-precision-overflows-buffer'


def longest_token(fmt, prec=None):
    """sign, digit, point, `prec` digits, 'e', exponent sign, exponent digits"""
    return 3 + (MAXDIG[fmt] if prec is None else prec) + 2 + EXPDIG[fmt]


def fmt_bits(fmt, b):
    return {'d': '%016x', 'f': '%08x'}[fmt] % b if fmt != 'l' else '%04x%016x' % b


def as_double(fmt, b):
    """The value of a float / double bit pattern as a Python float (exact)."""
    return bits2f(b) if fmt == 'd' else struct.unpack('>f', struct.pack('>I', b))[0]


def extreme_values(fmt, rng, k):
    if fmt == 'd':
        ex = [0x7fefffffffffffff, 0xffefffffffffffff, 0x0010000000000000, 1, 0x8000000000000001, 0x000fffffffffffff,
              0, 1 << 63, 0x7ff0000000000000, 0xfff0000000000000, QNAN, QNAN | 1 << 63, 0x7ff0000000000001,
              f2bits(1e100), f2bits(-9.999999999999999e99), f2bits(1e-99), f2bits(-9.99e-100), f2bits(1.0)]
        return ex + [rng.getrandbits(64) for _ in range(k)]
    if fmt == 'f':
        ex = [0x7f7fffff, 0xff7fffff, 0x00800000, 1, 0x80000001, 0x007fffff, 0, 1 << 31, 0x7f800000, 0xff800000,
              0x7fc00000, 0xffc00000, 0x7f800001, 0x3f800000]
        return ex + [rng.getrandbits(32) for _ in range(k)]
    ex = [(0x7ffe, (1 << 64) - 1), (0xfffe, (1 << 64) - 1), (1, 1 << 63), (0, 1), (0x8000, 1), (0, (1 << 63) - 1),
          (0, 0), (0x8000, 0), (0x7fff, 1 << 63), (0xffff, 1 << 63), (0x7fff, 3 << 62), (0xffff, 3 << 62),
          (0x3fff, 1 << 63)]
    return ex + [((rng.getrandbits(1) << 15) | rng.randint(1, 0x7ffe), (1 << 63) | rng.getrandbits(63)) for _ in range(k)]


def expected_after_read(fmt, b):
    """canon_bits for the three formats, as bit-pattern strings"""
    if fmt == 'd':
        return hbits(canon_bits(b))
    if fmt == 'f':
        return '%08x' % ((b & 0x80000000) | 0x7fc00000 if (b >> 23) & 0xff == 0xff and b & 0x7fffff else b)
    se, m = b
    if se & 0x7fff == 0x7fff and (m << 1) & ((1 << 64) - 1):
        return '%04x%016x' % ((se & 0x8000) | 0x7fff, 3 << 62)
    return '%04x%016x' % b


def printer_stage(rep, exe, tier, rng):
    """float_to_str<F> for double / float / long double: (a) default precision on the extreme values of each
    type (largest, smallest normal, smallest / largest subnormal, +/-0, +/-inf, +/-NaN, three-digit exponents)
    and random patterns: the token is in the strict grammar, no longer than the longest token of the type
    (which is below every printer buffer, `printer_buffers_fit`), equals printf's `%+.{max_digits10}e` (double,
    float) and denotes the printed value exactly (all three); (b) the precision argument of the public
    float_to_str(value, precision): every precision from 0 to 80 (and negative ones) against printf."""
    k = 400 if tier == 'thorough' else 40
    lines, meta = [], []
    for fmt in 'dfl':
        for b in extreme_values(fmt, rng, k):
            lines.append(f'fts {fmt} -999 {fmt_bits(fmt, b)}')
            meta.append((fmt, b, None))
    precs = list(range(0, 81)) + [100, 1000, -1, -7]
    for fmt in 'dfl':
        vals = extreme_values(fmt, rng, 0)[:5] + extreme_values(fmt, rng, 2)[-2:]
        for b in vals:
            for pr in precs:
                lines.append(f'fts {fmt} {pr} {fmt_bits(fmt, b)}')
                meta.append((fmt, b, pr))
    out, rc, err = C.run_lines(exe, lines)
    rep.cov['evaluations'] += len(out)
    if rc != 0 or len(out) != len(lines):
        rep.violation(f'real code crashed in the printer stage (rc={rc}): {err[-200:]}',
                      {'op': lines[len(out)] if len(out) < len(lines) else None}, True)
        return
    stats = {'default_precision_tokens': 0, 'longest_default_token': {}, 'precision_override_tokens': 0,
             'precision_does_not_fit_buffer': 0}
    nviol = 0
    for ln, (fmt, b, pr), o in zip(lines, meta, out):
        msg = key = None
        if o.startswith('exception'):
            if pr is not None and longest_token(fmt, pr if pr >= 0 else 6) > 56 and 'does not fit' in o:
                stats['precision_does_not_fit_buffer'] += 1       # repaired printer: refuses loudly
                continue
            msg = f'float_to_str: {o[:120]}'
        else:
            try:
                tok = unhx(o)
            except Exception:
                tok = None
            p_eff = MAXDIG[fmt] if pr is None else (6 if pr < 0 else pr)
            finite = STRICT.fullmatch(tok) is not None and STRICT.fullmatch(tok).group(5) is not None if tok else False
            if fmt in 'df':
                x = as_double(fmt, b)
                ref = ('-nan' if (b >> (63 if fmt == 'd' else 31)) else 'nan') if x != x else \
                      ('+inf' if x > 0 else '-inf') if math.isinf(x) else '%+.*e' % (p_eff, x)
            else:
                ref = None
            if pr is None:
                stats['default_precision_tokens'] += 1
                if tok is not None:
                    stats['longest_default_token'][fmt] = max(stats['longest_default_token'].get(fmt, 0), len(tok))
                if tok is None or not STRICT.fullmatch(tok):
                    msg = f'float_to_str<{fmt}> of {fmt_bits(fmt, b)} at default precision wrote {o[:80]!r}: not a number token'
                elif len(tok) > longest_token(fmt):
                    msg = f'float_to_str<{fmt}>: token {tok!r} longer than {longest_token(fmt)} characters'
                elif ref is not None and tok != ref:
                    msg = f'float_to_str<{fmt}> of {fmt_bits(fmt, b)} wrote {tok!r}, printf says {ref!r}'
                else:
                    e, in_range, _ = tok_value(tok, fmt)
                    if not in_range or not value_matches(expected_after_read(fmt, b), e, fmt) \
                            or (not isinstance(e, tuple) and e != expected_after_read(fmt, b)):
                        msg = (f'float_to_str<{fmt}> of {fmt_bits(fmt, b)} wrote {tok!r}, which denotes {e} '
                               f'(max_digits10 digits must identify the value)')
            else:
                stats['precision_override_tokens'] += 1
                good = tok is not None and STRICT.fullmatch(tok) and (ref is None or tok == ref) and \
                    (not finite or len(tok) <= longest_token(fmt, p_eff))
                if not good:
                    if longest_token(fmt, p_eff) > 64 or (tok is not None and len(tok) == 64 and not STRICT.fullmatch(tok)):
                        stats['precision_does_not_fit_buffer'] += 1
                        msg = (f'float_to_str<{fmt}>(value, precision = {pr}): the {longest_token(fmt, p_eff)}-character '
                               f'result does not fit the 64-byte buffer, the error of std::to_chars is ignored and '
                               f'64 bytes of the uninitialised buffer are returned as the number')
                        key = PRECBUF
                    else:
                        msg = f'float_to_str<{fmt}>({fmt_bits(fmt, b)}, {pr}) wrote {o[:80]!r}, printf says {ref!r}'
        if msg:
            before = len(rep.violations)
            rep.violation('monitor: ' + msg, {'op': ln, 'impl_out': o}, True, key=key)
            if len(rep.violations) > before:
                nviol += 1
                if nviol >= 5:
                    break
    rep.cov['printer_stage'] = stats


# ---------------------------------------------------------------- exhaustive single-character corruptions

CORRUPT_ALL = list('0123456789.eE+-xnaifNIty#()_ ,;\t|:\n\r')


def corruptions(line):
    """Every single-character replacement, insertion and deletion of `line` over CORRUPT_ALL."""
    seen = set()
    for p in range(len(line) + 1):
        for ch in CORRUPT_ALL:
            for c in ((line[:p] + ch + line[p + 1:]) if p < len(line) else None, line[:p] + ch + line[p:]):
                if c is not None and c != line and c not in seen:
                    seen.add(c)
                    yield c
        if p < len(line):
            c = line[:p] + line[p + 1:]
            if c not in seen:
                seen.add(c)
                yield c


def corruption_stage(rep, exe, tier, rng):
    """The property's quantifier "all single-character corruptions of valid rows": rows printed by the library's
    own printer (float_to_str at default precision) for double, float and long double; every replacement /
    insertion / deletion over CORRUPT_ALL at every position; read with read_row(n) (n = the number of fields
    printed) and read_row_std_vector of the same scalar type; judged by `judge` (strict grammar, exact values in
    the format of the scalar type, stream position)."""
    nrows = 5 if tier == 'thorough' else 1
    stats = {'rows': 0, 'texts': 0, 'calls': 0, 'accepted': 0, 'rejected': 0}
    nviol = 0
    for fmt in 'dfl':
        for _ in range(nrows):
            # a valid printed row: a negative normal, a special (inf / nan / zero) or positive normal, a third
            ev = extreme_values(fmt, rng, 6)
            pool = [v for v in ev if not (fmt == 'l' and (v[0] & 0x7fff) == 0)]     # LDSUB: open finding
            if fmt == 'l':
                count('exempt', 'long_double_subnormals_not_in_corruption_rows: open finding ' + LDSUB)
            vals = [rng.choice(pool[-6:]), rng.choice(pool[:-6]), rng.choice(pool)]
            rng.shuffle(vals)
            out, rc, err = C.run_lines(exe, [f'fts {fmt} -999 {fmt_bits(fmt, v)}' for v in vals])
            if rc != 0 or len(out) != 3 or any(o.startswith('exception') for o in out):
                rep.violation(f'printer failed in the corruption stage: {out} {err[-100:]}', {}, True)
                return
            toks = [unhx(o) for o in out]
            sep = rng.choice(SEPS)
            line = sep.join(toks)
            tail = '\n' + sep.join(['7', '8']) + '\n'
            texts = [line + tail] + [c + tail for c in corruptions(line)]
            lines = []
            for t in texts:
                lines.append(f'rowX {fmt} 3 {hx(sep)} {hx(t)}')
                lines.append(f'rowX {fmt} -1 {hx(sep)} {hx(t)}')
            res, rc, err = C.run_lines(exe, lines)
            rep.cov['evaluations'] += len(res)
            if rc != 0 or len(res) != len(lines):
                rep.violation(f'real code crashed in the corruption stage (rc={rc}): {err[-200:]}',
                              {'op': lines[len(res)] if len(res) < len(lines) else None}, True)
                return
            stats['rows'] += 1
            stats['texts'] += len(texts)
            stats['calls'] += len(lines)
            for i, (ln, o) in enumerate(zip(lines, res)):
                if o.startswith('exception') or o == 'bad-op':
                    rep.violation(f'harness: {o[:100]}', {'op': ln}, True)
                    return
                stats['accepted' if o.startswith('ok') else 'rejected'] += 1
                r = judge(texts[i // 2], 0, i % 2 == 1, 3, sep, o, fmt)
                if i < 2 and (r is not None or not o.startswith('ok')):
                    r = r or f'the uncorrupted printed row {line!r} is rejected: {o}'
                if r is not None:
                    msg, key = r if isinstance(r, tuple) else (r, None)
                    before = len(rep.violations)
                    rep.violation('monitor (single-character corruption of a printed row): ' + msg,
                                  {'op': ln, 'impl_out': o}, True, key=key)
                    if len(rep.violations) > before:
                        nviol += 1
                        if nviol >= 5:
                            rep.cov['corruption_stage'] = stats
                            return
    rep.cov['corruption_stage'] = stats


def coverage_stage(rep, broken):
    """Required coverage: what the property quantifies over must have been exercised in this run."""
    missing = [c for c in REQUIRED_CLASSES if not COVER['rt_classes'].get(c)]
    if missing:
        broken.append(f'required coverage: value classes never sent through print -> read in this run: {missing}')
    need = [f'{f}:{sh}' for f in ('csv', 'csvs', 'py', 'ml') for sh in ('vector', 'matrix')]
    missing = [c for c in need if not COVER['pcsv'].get(c)]
    if missing:
        broken.append(f'required coverage: printer formats / shapes never exercised in this run: {missing}')
    rep.cov['required_coverage'] = {'rt_value_classes': dict(sorted(COVER['rt_classes'].items())),
                                    'printer_shapes': dict(sorted(COVER['pcsv'].items()))}
    rep.cov['exemptions'] = dict(sorted(COVER['exempt'].items()))



def scalar_type_stage(rep, exe):
    """Accept / reject, values and stream positions of the row functions do not depend on the scalar type:
    the corpora of the audit items (empty fields, trailing separator, every rejection cause, the calls after
    a rejected row) with integer-valued tokens, read as double, float, long double and Eigen::Index; the
    double instance is the one judged by the monitor in the main run."""
    cases = []
    for q in corpus_empty_fields() + corpus_after_error():
        text = q[0].split()[1]
        if '.' in unhx(text) or len(q) < 2:
            continue
        first = q[1].split()
        n = -1 if first[0] == 'rowv' else int(first[1])
        cases.append((n, first[-1], text, min(3, len(q) - 1)))
    cases = sorted(set(cases))
    lines = [f'rowT {ty} {n} {sp} {text} {calls}' for (n, sp, text, calls) in cases for ty in 'dfli']
    out, rc, err = C.run_lines(exe, lines)
    rep.cov['evaluations'] += len(out)
    if rc != 0 or len(out) != len(lines):
        rep.violation(f'real code crashed in the scalar-type stage (rc={rc}): {err[-200:]}',
                      {'op': lines[len(out)] if len(out) < len(lines) else None}, True)
        return
    bad = 0
    for i in range(0, len(lines), 4):
        sigs = out[i:i + 4]
        if any(sg.startswith('exception') or sg == 'bad-op' for sg in sigs):
            rep.violation(f'harness: {sigs}', {'op': lines[i]}, True)
            return
        # the *kind* of read_error may differ (a 64-digit token is out of range for float / Index:
        # "conversion failed", and too long for double: "number too long"); rejection itself may not
        if len(set(re.sub(r'E_[a-z]+', 'E', sg) for sg in sigs)) != 1:
            bad += 1
            if bad <= 3:
                rep.violation('monitor: the outcome of the row functions depends on the scalar type '
                              f'(double / float / long double / Index): {sigs}', {'op': lines[i], 'impl_out': sigs},
                              True)
    rep.cov['scalar_type_independence'] = {'texts': len(cases), 'types': 4, 'disagreements': bad}


if __name__ == '__main__':
    sys.exit(C.standard_check(
        'C17', sys.argv,
        gen_scripts=['gen_c17.py'], modules=['Alpaqa.Props.C17'], driver='drv_c17',
        extra_sources=['Alpaqa/Model/C17.lean', 'Alpaqa/Gen/C17.lean', 'Alpaqa/Proofs/C17.lean',
                       'Alpaqa/Proofs/C17Row.lean',
                       'Driver/C17.lean'],
        harness_name='c17', harness_sources=[os.path.join(C.VERIF, 'harness', 'c17.cpp')],
        gen_ops=gen_ops_final, monitor=monitor, nontrivial=nontrivial, extra_stage=extra_stage,
        n_quick=600, n_thorough=96000, search_factor=3,
        trusted_base=[
            'Lean 4.33 kernel + Mathlib (axioms: propext, Classical.choice, Quot.sound)',
            'gen/cxxparse.py + gen/gen_c17.py (translator: constants, decision / update expressions, '
            'short-circuit guards and statement skeletons of CSVReader in csv.tpp; framing literals of '
            'print.tpp) → Lean',
            'hand model Alpaqa/Model/C17.lean: control skeleton of the reader and the libstdc++ istream '
            'semantics (sentry / peek / get / get(s,n,delim) / ignore / clear / eofbit / failbit; no badbit), '
            'tied by exact op-sequence correspondence (values, error kind, window, bufidx, keep_reading, '
            'stream position and flags after every op) on the explored inputs only',
            'row functions: the translator accepts exactly two statement shapes of read_row_impl / '
            'read_row_std_vector (plain body; body wrapped in `catch (read_error &) { if (resync) '
            'reader.discard_line(is); throw; }` with resync = !is.fail() and the exact discard_line body) and '
            'reports which one is present (Gen rowImplResyncs / rowVecResyncs); the model runs that one; '
            'Props/C17.lean rows_current states which one the theorems about the current code are for',
            'std::from_chars / std::to_chars are oracles: theorems assume the longest-valid-prefix '
            'contract and parse(print v) = v; exercised (not proved) by the round-trip monitor over '
            'bit patterns for double, float and long double',
            'print.tpp float_to_str_vw drops the error code of std::to_chars (Gen floatToStrChecksEc, Props '
            'printer_error_code_current): harmless at default precision because every element buffer (Gen '
            'printBufSizes, literal sizes required by the translator) holds the longest default-precision token '
            '(Props printer_buffers_fit; max_digits10 = 21 / 17 / 9 and 4 / 3 / 2 exponent digits are platform '
            'facts, exercised on LDBL_MAX, LDBL_MIN, denormals, random patterns by the printer stage); not '
            'harmless for the precision argument of float_to_str (open finding print-precision-overflows-buffer)',
            'monitor references: strict number grammar = C strtod decimal subject sequence with one optional '
            'sign; values by exact integer round-to-nearest-even into binary64 / binary32 / x87-80 (validated '
            'against CPython float() on 200000 tokens); printer formats = printf %+.{max_digits10}e and the '
            'framings pinned by the library\'s own test-print.cpp; python output evaluated by Python itself',
            'Driver/C17.lean re-implements from_chars<double> (grammar + exact rounding) only for the '
            'correspondence run; no theorem depends on it',
        ],
        assumptions=['libstdc++ (GCC 12) istream semantics as read from bits/istream.tcc',
                     'row grammar = the library\'s unit-tested one: a separator terminates a field, the last '
                     'field may be terminated or not (csv.readEndWithSep, readEndWithSepEOF, stdvecReadEndWithSep, '
                     'stdvecReadEndWithSepEOF): monitor and theorems (read_row_terminated) treat `1,2,` as the row '
                     '(1, 2); every other empty field must be rejected',
                     'a 64-character token is accepted-or-rejected (fits the window only when it ends the line)',
                     'after a rejected row the monitor demands the stream at the start of the next line with '
                     'failbit clear and judges the following call against the next line of the text'],
        rule='seeded op sequences over a real std::istringstream: (a) one long token of length 55..75 at '
             'every offset mod 64 of its line, rows before/after, comment lines of length around 0/64/128; '
             '(b) valid multi-row files with all separators, wrong n, wrong separator, trailing separator; '
             '(b\') fixed corpora: trailing separator and empty field at the front / middle / end × every '
             'separator × both readers × n below / at / above the field count; every rejection cause (over-long, '
             'invalid character, too many, too few, wrong separator, empty line, empty field; lines shorter and '
             'longer than the window; with / without a comment line; at the end of the file) followed by further '
             'row calls without resync; half of all generated sequences run without the caller-side resync; the '
             'corpora again for float / long double / Eigen::Index (harness-only, outcome signatures equal); '
             '(c) single-character replacement / insertion / deletion in a valid row (quick: all positions '
             '× 1 char for 6 files + random; thorough: all positions × 33 chars) followed by '
             'resync-on-error and the next rows; (d) random member-function sequences on CSVReader; '
             '(e) printer framing; (f) print→read over all 2047 exponents × random mantissas, subnormals, '
             '±0, ±inf, NaN (double via correspondence; float / long double harness-only); '
             '(g) token zoo (+-3, "+ 3", 0x10, 1e, 1e+, .5, 5., inf / nan spellings, nan(n-char-seq), 1_000, blanks, '
             'CR, double signs …) alone and as middle field, CRLF files; (h) one representative of every value '
             'class of the quantifier (+/-0, +/-subnormal, +/-normal, +/-inf, +/-qNaN, +/-payload NaN, +/-sNaN) '
             'through print -> read as vector and matrix and through every printer format and shape (required '
             'coverage, checked at the end of the run); (i) harness-only: rows printed by float_to_str for double, '
             'float, long double × every single-character replacement / insertion / deletion over a 40-character '
             'alphabet × read_row(n) and read_row_std_vector of that type, judged by the strict grammar with '
             'exact values of that format (quick 1 row per type, thorough 5); (j) float_to_str at default '
             'precision on the extreme values of each type and at every precision 0..80, 100, 1000, <0 against '
             'printf; distinct = distinct (op, outcome) pairs',
    ))
