#!/usr/bin/env python3
"""setup_cmd: build the Lean library + drivers from files on disk (offline)."""
import os, subprocess, sys
sys.path.insert(0, os.path.dirname(os.path.abspath(__file__)))
import common as C
import glob
# regenerate every Gen file first so that the library builds against the current tree
for g in sorted(glob.glob(os.path.join(C.VERIF, 'gen', 'gen_c*.py'))):
    r = C.run_gen(os.path.basename(g))
    print(os.path.basename(g), 'ok' if r.get('ok') else r.get('error'))
mods = ['Alpaqa.Props.' + os.path.basename(f)[:-5] for f in sorted(glob.glob(os.path.join(C.LEAN, 'Alpaqa', 'Props', '*.lean')))]
ok, out = C.lake_build(mods)
print(out[-3000:])
exes = ['drv_' + os.path.basename(f)[:-5].lower() for f in sorted(glob.glob(os.path.join(C.LEAN, 'Driver', 'C*.lean')))]
if exes:
    ok2, out2 = C.lake_build(exes)
    print(out2[-2000:])
    ok = ok and ok2
sys.exit(0 if ok else 1)
