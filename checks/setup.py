#!/usr/bin/env python3
"""setup_cmd: warm-up build of the Lean library + drivers from files on disk (offline).

Every check rebuilds what it needs itself; this only has to succeed for the modules of the checks
registered in MANIFEST.json.  Other modules under lean/ (work in progress) are built best-effort.
"""
import glob
import json
import os
import re
import sys
sys.path.insert(0, os.path.dirname(os.path.abspath(__file__)))
import common as C

claimed = [c['property_id'] for c in json.load(open(os.path.join(C.VERIF, 'MANIFEST.json')))['checks']]
# regenerate every Gen file first so that the library builds against the current tree
for g in sorted(glob.glob(os.path.join(C.VERIF, 'gen', 'gen_c*.py'))):
    r = C.run_gen(os.path.basename(g))
    print(os.path.basename(g), 'ok' if r.get('ok') else r.get('error'))

def targets_of(pid):
    mods = [m for m in ['Alpaqa.Props.' + os.path.basename(f)[:-5]
                        for f in sorted(glob.glob(os.path.join(C.LEAN, 'Alpaqa', 'Props', pid + '*.lean')))]]
    drv = 'drv_' + pid.lower()
    if os.path.exists(os.path.join(C.LEAN, 'Driver', pid + '.lean')):
        mods.append(drv)
    return mods

ok = True
strict = []
for pid in claimed:
    strict += targets_of(pid)
strict += ['drv_loop']
good, out = C.lake_build(strict)
print(out[-2500:])
ok = ok and good
# best effort for everything else
allmods = ['Alpaqa.Props.' + os.path.basename(f)[:-5]
           for f in sorted(glob.glob(os.path.join(C.LEAN, 'Alpaqa', 'Props', '*.lean')))]
rest = [m for m in allmods if m not in strict]
exes = re.findall(r'^name = "(drv_[a-z0-9_]+)"', open(os.path.join(C.LEAN, 'lakefile.toml')).read(), re.M)
rest += [e for e in exes if e not in strict and os.path.exists(
    os.path.join(C.LEAN, *re.search(r'name = "%s"\nroot = "([^"]+)"' % e,
                                    open(os.path.join(C.LEAN, 'lakefile.toml')).read()).group(1).split('.')) + '.lean')]
for t in rest:
    g, o = C.lake_build([t])
    print(('ok   ' if g else 'WIP  ') + t)
sys.exit(0 if ok else 1)
