#!/usr/bin/env python3
"""C07 — ALM outer-loop invariants: penalties, multiplier bounds, tolerances, accounting.
See DESIGN.md §6 C07 and §7-H.

Op line (one ALM solve against a scripted inner solver):
  run  tol dtol puf ip ipf itol tuf θ M maxpen minpen  max_iter single
       m split lb[m] ub[m] f0 g0[m]  hasΣ Σ  x y  prestop  N { status ε errz dy dx iters extra oot stop }×N
  (`stop`: the scripted inner solver calls alm.stop() — ALMSolver's own stop(), which also forwards to the
  inner solver — from inside that inner solve and still returns the scripted status, i.e. the inner outcome
  does not report the request; `prestop`: alm.stop() is called before the solve starts.  The flag is never
  cleared.)
Output line (harness = real alpaqa::ALMSolver<ScriptedInner>, driver = Lean model at Float):
  status outer_iters inner_failures ε δ ‖Σ‖/√m  Σiters Σextra count  x y  hasΣ [Σ]  ncalls
       { Σ y x errbuf tol always_overwrite outer_iter check }×ncalls
"""
import itertools
import math
import os
import sys
from fractions import Fraction as Fr

sys.path.insert(0, os.path.dirname(os.path.abspath(__file__)))
import common as C
from common import f2h, h2f, vec2p

INF = float('inf')
NAN = float('nan')
STATUSES = ['Busy', 'Converged', 'MaxTime', 'MaxIter', 'NotFinite', 'NoProgress', 'Interrupted',
            'Exception']
SI = {n: i for i, n in enumerate(STATUSES)}
ALPHABET = ['Converged', 'MaxIter', 'NotFinite', 'NoProgress', 'Interrupted', 'MaxTime']

PARAM_NAMES = ['tolerance', 'dual_tolerance', 'penalty_update_factor', 'initial_penalty',
               'initial_penalty_factor', 'initial_tolerance', 'tolerance_update_factor',
               'rel_penalty_increase_threshold', 'max_multiplier', 'max_penalty', 'min_penalty']

K_PARAMS = 'C07-alm-params-not-validated'
K_M0 = 'C07-m0-converged-trusts-inner-status'


# ---------------------------------------------------------------- op construction

def default_params():
    return dict(tolerance=2.0 ** -10, dual_tolerance=2.0 ** -8, penalty_update_factor=4.0,
                initial_penalty=1.0, initial_penalty_factor=4.0, initial_tolerance=1.0,
                tolerance_update_factor=0.25, rel_penalty_increase_threshold=0.25,
                max_multiplier=16.0, max_penalty=2.0 ** 8, min_penalty=2.0 ** -10)


def entry(status, eps, errz, dy=None, dx=0.0, iters=1, extra=0, oot=False, stop=False):
    dy = [0.0] * len(errz) if dy is None else dy
    return dict(status=status, eps=eps, errz=list(errz), dy=list(dy), dx=dx, iters=iters,
                extra=extra, oot=oot, stop=stop)


def op_line(P, max_iter, single, m, split, lb, ub, f0, g0, sig, x, y, script, prestop=False):
    ps = ' '.join(f2h(P[k]) for k in PARAM_NAMES)
    s = (f'run {ps} {max_iter} {int(single)} {m} {split} {vec2p(lb)} {vec2p(ub)} {f2h(f0)} '
         f'{vec2p(g0)} {0 if sig is None else 1} {vec2p(sig or [])} {vec2p(x)} {vec2p(y)} {int(prestop)} '
         f'{len(script)}')
    for e in script:
        s += (f' {SI[e["status"]]} {f2h(e["eps"])} {vec2p(e["errz"])} {vec2p(e["dy"])} {f2h(e["dx"])} '
              f'{e["iters"]} {e["extra"]} {int(e["oot"])} {int(e.get("stop", False))}')
    return s


def gen_D(rng, m):
    lb, ub = [], []
    for _ in range(m):
        k = rng.random()
        a = rng.randint(-8, 8) / 2.0
        b = a + rng.randint(0, 8) / 2.0
        if k < 0.25:
            lb.append(-INF); ub.append(b)
        elif k < 0.5:
            lb.append(a); ub.append(INF)
        elif k < 0.6:
            lb.append(-INF); ub.append(INF)
        elif k < 0.7:
            lb.append(a); ub.append(a)
        else:
            lb.append(a); ub.append(b)
    return lb, ub


def pow2(rng, lo, hi):
    return 2.0 ** rng.randint(lo, hi)


def sgn(rng):
    return rng.choice([1.0, -1.0])


def gen_errz(rng, P, m, prev, kind=None):
    """slack-error vector relative to the previous one: ties on both thresholds included."""
    θ, δ = P['rel_penalty_increase_threshold'], P['dual_tolerance']
    kind = kind or rng.choice(['small', 'tie_dual', 'big', 'shrink', 'tie_theta', 'mixed', 'zero', 'resurge',
                               'resurge'])
    out = []
    if kind == 'resurge':
        # after a (possibly small, non-terminating) iteration: one component large again, the others
        # shrunk by more than the ratio relative to the *previous* iteration — whether they grow depends
        # on which earlier error vector the update compares with
        hot = rng.randrange(m) if m else 0
        for i in range(m):
            pe = abs(prev[i]) if prev and math.isfinite(prev[i]) and prev[i] != 0 else 1.0
            v = max(4 * δ, pe) * pow2(rng, 0, 2) if i == hot else pe * θ * pow2(rng, -3, 0)
            out.append(v * sgn(rng))
        return out
    for i in range(m):
        pe = abs(prev[i]) if prev and math.isfinite(prev[i]) and prev[i] != 0 else 1.0
        if kind == 'zero':
            v = 0.0
        elif kind == 'small':
            v = δ * pow2(rng, -4, -1)
        elif kind == 'tie_dual':
            v = δ
        elif kind == 'big':
            v = pe * pow2(rng, 0, 2)
        elif kind == 'shrink':
            v = pe * θ * pow2(rng, -3, -1)
        elif kind == 'tie_theta':
            v = pe * θ
        else:
            v = rng.choice([δ, pe, pe * θ, pe * θ * 2, pe * θ / 2, 4 * δ, 0.0])
        out.append(v * sgn(rng))
    return out


def gen_random(rng, exact=True, max_len=12):
    P = default_params()
    if exact:
        P['tolerance'] = pow2(rng, -12, -3)
        P['dual_tolerance'] = pow2(rng, -10, -2)
        P['penalty_update_factor'] = rng.choice([1.0, 2.0, 4.0, 8.0, 16.0])
        P['initial_penalty'] = rng.choice([0.0, 0.0, 1.0, 0.25, 4.0, -1.0])
        P['initial_penalty_factor'] = rng.choice([1.0, 4.0, 16.0, 0.125])
        P['initial_tolerance'] = rng.choice([1.0, 0.25, P['tolerance'], 4 * P['tolerance']])
        P['tolerance_update_factor'] = rng.choice([0.5, 0.25, 1 / 16, 1.0, 2.0 ** -8])
        P['rel_penalty_increase_threshold'] = rng.choice([0.25, 0.5, 0.125, 1.0, 2.0 ** -6])
        P['max_multiplier'] = rng.choice([4.0, 16.0, 1024.0, 0.0, 1.0])
        P['max_penalty'] = rng.choice([16.0, 256.0, 2.0 ** 20, 4.0])
        P['min_penalty'] = rng.choice([2.0 ** -10, 2.0 ** -4, 1.0, 4.0])
    else:
        P['tolerance'] = 10 ** rng.uniform(-8, -1)
        P['dual_tolerance'] = 10 ** rng.uniform(-8, -1)
        P['penalty_update_factor'] = 1 + abs(rng.gauss(0, 6))
        P['initial_penalty'] = rng.choice([0.0, 10 ** rng.uniform(-3, 2)])
        P['initial_penalty_factor'] = 10 ** rng.uniform(-2, 2)
        P['initial_tolerance'] = P['tolerance'] * (1 + abs(rng.gauss(0, 100)))
        P['tolerance_update_factor'] = rng.uniform(0.01, 1.0)
        P['rel_penalty_increase_threshold'] = rng.uniform(0.01, 1.0)
        P['max_multiplier'] = 10 ** rng.uniform(-1, 9)
        P['max_penalty'] = 10 ** rng.uniform(1, 9)
        P['min_penalty'] = 10 ** rng.uniform(-9, 0)
    # stay inside what is still excluded (open finding C07-alm-params-not-validated has its own
    # generator); everything the repairs made admissible is drawn freely
    if P['min_penalty'] > P['max_penalty']:
        P['min_penalty'] = P['max_penalty']
    if rng.random() < 0.15:
        P['initial_tolerance'] = P['tolerance'] * rng.choice([0.5, 0.25, 2.0 ** -6])
    if rng.random() < 0.15:
        P['penalty_update_factor'] = rng.choice([0.5, 0.25, 0.0, -2.0])
    if rng.random() < 0.1 and P['initial_penalty'] > 0:
        P['initial_penalty'] = P['max_penalty'] * rng.choice([2.0, 16.0])
    single = rng.random() < 0.4
    m = rng.choice([0, 1, 1, 2, 2, 3])
    split = rng.choice([0, 0, 0, rng.randint(0, m)])
    lb, ub = gen_D(rng, m)
    n = rng.choice([1, 2])
    x = [rng.randint(-4, 4) / 2.0 for _ in range(n)]
    big = P['max_multiplier'] * 4 + 1
    y = [rng.choice([0.0, rng.randint(-6, 6) / 2.0, big, -big]) for _ in range(m)]
    f0 = rng.randint(-40, 40) / 4.0
    g0 = [rng.randint(-8, 8) / 2.0 for _ in range(m)]
    k = rng.random()
    if k < 0.45 or m == 0:
        sig = None if rng.random() < 0.7 else []
        if m > 0:
            sig = None
    elif k < 0.8:
        hi = int(math.log2(P['max_penalty'])) if exact else 3
        kind = rng.random()
        if kind < 0.15:
            hi += 3                                   # some components above max_penalty
        if single and kind > 0.5:
            v = pow2(rng, -4, hi)
            sig = [v] * m
        else:
            sig = [pow2(rng, -4, hi) for _ in range(m)]   # non-uniform, also in single-factor mode
        if not exact:
            sig = [s * rng.uniform(0.5, 1.0) for s in sig]
    else:
        # not used by the C++ (`allFinite && minCoeff > 0` fails) → falls back to the parameters
        sig = rng.choice([[0.0] * m, [NAN] + [1.0] * (m - 1), [INF] + [1.0] * (m - 1),
                          [1.0] * (m - 1) + [-2.0], [0.0] + [4.0] * (m - 1)])
    max_iter = rng.choice([0, 1, 2, 3, 5, 8, 100]) if max_len <= 12 else max_len
    L = rng.randint(0, max_len)
    script, prev = [], None
    for j in range(L):
        st = rng.choice(ALPHABET + ['Converged', 'Converged', 'Busy', 'Exception'])
        if exact:
            eps = rng.choice([0.0, P['tolerance'] / 2, P['tolerance'], 2 * P['tolerance'], 1.0])
        else:
            eps = P['tolerance'] * 10 ** rng.uniform(-2, 3)
        if m == 0 and st == 'Converged' and eps > P['tolerance']:
            eps = P['tolerance']        # inner contract on the m = 0 path (excluded point: K_M0)
        if rng.random() < 0.02:
            eps = rng.choice([NAN, INF])
            if m == 0 and st == 'Converged':
                st = 'NotFinite'
        ez = gen_errz(rng, P, m, prev)
        long_run = max_len > 12 and j < L - 1
        if long_run:
            # keep long histories running: no early exit before the last scripted entry
            if st in ('Interrupted', 'Busy', 'Exception'):
                st = 'NoProgress'
            if st == 'Converged' and m and rng.random() < 0.9:
                ez = gen_errz(rng, P, m, prev, kind=rng.choice(['big', 'shrink', 'tie_theta']))
                ez = [e if abs(e) > P['dual_tolerance'] else 2 * P['dual_tolerance'] for e in ez]
        if not exact:
            ez = [e * rng.uniform(0.5, 1.5) for e in ez]
        if rng.random() < 0.02 and m:
            ez[rng.randrange(m)] = rng.choice([NAN, INF])
        dy = [rng.choice([0.0, rng.randint(-8, 8) / 4.0, big, -big]) for _ in range(m)]
        if st == 'Interrupted' and rng.random() < 0.6 and j < L - 1:
            st = 'MaxIter'              # keep most long scripts running
        script.append(entry(st, eps, ez, dy, dx=rng.randint(-2, 2) / 2.0, iters=rng.randint(0, 50),
                            extra=rng.randint(0, 9),
                            oot=rng.random() < (0.002 if long_run else 0.04),
                            stop=rng.random() < (0.002 if long_run else 0.06)))
        prev = ez
    return op_line(P, max_iter, single, m, split, lb, ub, f0, g0, sig, x, y, script,
                   prestop=rng.random() < 0.03)


def exhaustive(lengths, ms=(0, 1, 2), sample=None, rng=None):
    """All histories of the given lengths over 6 statuses × 3 error patterns, m ∈ ms
    (`sample`: that many random ones per length instead).
    Error patterns: A = on the dual tolerance (tie), ε = tolerance (tie);
                    B = large, not shrinking, ε = 2·tolerance;
                    C = shrinking by exactly θ (tie on the growth threshold), ε = tolerance/2."""
    ops = []
    P = default_params()
    θ, δ, tol = P['rel_penalty_increase_threshold'], P['dual_tolerance'], P['tolerance']
    letters = [(s, p) for s in ALPHABET for p in 'ABC']
    for m in ms:
        lb = [-1.0, -INF, 0.0][:m]
        ub = [1.0, 2.0, INF][:m]
        for L in lengths:
            hs = itertools.product(letters, repeat=L)
            if sample is not None:
                hs = [tuple(rng.choice(letters) for _ in range(L)) for _ in range(sample)]
            for h in hs:
                script, mag = [], 1.0
                for j, (st, pat) in enumerate(h):
                    if pat == 'A':
                        ez, eps = [δ * (-1) ** i for i in range(m)], tol
                    elif pat == 'B':
                        ez, eps = [mag * (1 + i) for i in range(m)], 2 * tol
                    else:
                        mag *= θ
                        ez, eps = [mag * (1 + i) for i in range(m)], tol / 2
                    if m == 0 and st == 'Converged':
                        eps = min(eps, tol)   # inner contract on the m = 0 path
                    script.append(entry(st, eps, ez, [2.0 * (-1) ** (i + j) for i in range(m)],
                                        dx=0.5, iters=j + 1, extra=1, oot=(st == 'MaxTime')))
                single = (len(h) + SI[h[0][0]]) % 2 == 1
                sig = [0.5, 2.0][:m] if SI[h[-1][0]] % 2 == 0 else None
                ops.append(op_line(P, L + (SI[h[0][0]] % 2), single, m, 0, lb, ub, 3.0,
                                   [1.0, -2.0][:m], sig, [0.5], [20.0, -20.0][:m], script))
    return ops


STOP_STATUSES = ['Converged', 'MaxIter', 'NoProgress']


def stop_sweeps(lengths=(1, 2, 3, 4), ms=(0, 1, 2)):
    """alm.stop() during inner solve k (every k < L; and before the solve: `prestop`) of every history of
    length L over inner statuses that do *not* report the request (Converged / MaxIter / NoProgress), none of
    which ends ALM by itself (large slack error) — except, in the second variant, inner solve k, whose result
    passes ALM's own termination test (the natural `Converged` may win there).  max_iter = L + 1: without the
    request every run would go through all L scripted solves and one more."""
    ops = []
    P = default_params()
    δ, tol = P['dual_tolerance'], P['tolerance']
    for m in ms:
        lb = [-1.0, -INF][:m]
        ub = [1.0, 2.0][:m]
        for L in lengths:
            for h in itertools.product(STOP_STATUSES, repeat=L):
                for k in list(range(L)) + [-1]:
                    for conv_at_k in (False, True):
                        if conv_at_k and (k < 0 or h[k] != 'Converged'):
                            continue
                        script = []
                        for j, st in enumerate(h):
                            if conv_at_k and j == k:
                                ez, eps = [δ * (-1) ** i for i in range(m)], tol
                            else:
                                ez, eps = [2.0 ** -j * (1 + i) for i in range(m)], (tol if m == 0 else 2 * tol)
                            script.append(entry(st, eps, ez, [0.5 * (-1) ** (i + j) for i in range(m)], dx=0.5,
                                                iters=j + 1, extra=1, stop=(j == k)))
                        sig = [0.5, 2.0][:m] if (L + k) % 2 == 0 else None
                        ops.append(op_line(P, L + 1, (L + len(h[0])) % 2 == 1, m, 0, lb, ub, 3.0, [1.0, -2.0][:m],
                                           sig, [0.5], [1.0, -1.0][:m], script, prestop=(k < 0)))
    return ops


def _mk(P, sig, single=False, script=None, m=2, max_iter=4):
    big = entry('MaxIter', 1.0, [1.0, 2.0])
    big2 = entry('MaxIter', 1.0, [2.0, 4.0])
    return op_line(P, max_iter, single, m, 0, [-1.0, -INF][:m], [1.0, 2.0][:m], 3.0, [1.0, -2.0][:m],
                   sig, [0.5], [1.0, -1.0][:m], script or [big, big2, big, big2])


def repaired_points(rng):
    """The former excluded points that /verif/fixes/C07-*.diff repair: the property must hold there
    now (on an unpatched tree these runs are VIOLATIONs)."""
    ops = []
    # user Σ above max_penalty / initial_penalty above max_penalty: must not be decreased
    P = default_params(); P['max_penalty'] = 8.0
    ops.append(_mk(P, [32.0, 2.0]))
    P = default_params(); P['max_penalty'] = 8.0; P['initial_penalty'] = 32.0
    ops.append(_mk(P, None))
    # initial_tolerance < tolerance
    P = default_params(); P['initial_tolerance'] = 2.0 ** -12
    ops.append(_mk(P, None))
    # single-factor mode with non-uniform user Σ
    P = default_params()
    ops.append(_mk(P, [1.0, 64.0], single=True))
    ops.append(_mk(P, [64.0, 1.0], single=True))
    # user Σ with a non-positive component must not be used
    P = default_params()
    ops.append(_mk(P, [-1.0, 2.0]))
    ops.append(_mk(P, [0.0, 2.0]))
    # penalty_update_factor < 1 (single-factor and per-component mode)
    P = default_params(); P['penalty_update_factor'] = 0.5
    ops.append(_mk(P, None, single=True))
    ops.append(_mk(P, [2.0, 2.0]))
    return ops


def excluded_points(rng):
    """One run per remaining forced hypothesis of `ValidParams`, at the excluded point
    (open findings C07-alm-params-not-validated, C07-m0-converged-trusts-inner-status)."""
    ops = []
    mk = _mk
    P = default_params(); P['tolerance_update_factor'] = 2.0
    ops.append(mk(P, None))
    P = default_params(); P['tolerance'] = -4.0; P['initial_tolerance'] = -1.0; P['tolerance_update_factor'] = 0.5
    ops.append(mk(P, None))
    # (min_penalty > max_penalty is not run: std::clamp(σ, lo, hi) with hi < lo is undefined behaviour —
    #  g++ -O1 returns hi, the textbook definition lo)
    P = default_params(); P['min_penalty'] = -4.0; P['initial_penalty'] = 0.0; P['initial_penalty_factor'] = -1.0
    ops.append(mk(P, None))
    P = default_params(); P['max_multiplier'] = -2.0
    ops.append(mk(P, None))
    # m = 0: `Converged` taken from the inner solver without looking at ε / dual tolerance
    P = default_params()
    ops.append(mk(P, None, m=0, script=[entry('Converged', 1.0, [])]))
    P = default_params(); P['dual_tolerance'] = -1.0
    ops.append(mk(P, None, m=0, script=[entry('Converged', 0.0, [])]))
    return ops


def gen_stale_error_history(rng):
    """Histories in which the violation drops to ≤ dual_tolerance in an iteration that does not end the
    solve and comes back afterwards: which *earlier* error vector the next penalty update compares with
    then decides whether a component grows.  (spike → small → resurge, with arbitrary prefix)"""
    P = default_params()
    P['tolerance'] = pow2(rng, -12, -6)
    P['dual_tolerance'] = δ = pow2(rng, -10, -4)
    # growth of a component is Σ_i·max(Δ|e_i|/‖e‖∞, 1): it is visible only where Δ|e_i| > ‖e‖∞, so Δ is
    # large and the resurging component stays within a small factor of the others
    P['penalty_update_factor'] = rng.choice([16.0, 64.0, 256.0])
    P['rel_penalty_increase_threshold'] = θ = rng.choice([0.25, 0.5, 0.5])
    P['max_penalty'] = 2.0 ** 30
    m = rng.choice([2, 2, 3])
    lb, ub = gen_D(rng, m)
    hot = rng.randrange(m)
    script, prev = [], None
    for j in range(rng.choice([0, 0, 1, 2])):
        ez = gen_errz(rng, P, m, prev, kind=rng.choice(['big', 'shrink', 'tie_theta']))
        ez = [e if abs(e) > δ else 2 * δ for e in ez]
        script.append(entry(rng.choice(['Converged', 'MaxIter']), 1.0, ez)); prev = ez
    spike = [(8 * δ * pow2(rng, 0, 3) if i == hot else rng.choice([0.0, δ * 2.0 ** -12])) * sgn(rng)
             for i in range(m)]
    small = [δ * pow2(rng, -2, 0) * sgn(rng) for i in range(m)]
    res = [(δ * pow2(rng, 1, 2) if i == hot else abs(small[i]) * θ * pow2(rng, -1, 0)) * sgn(rng)
           for i in range(m)]
    script.append(entry('Converged', 1.0, spike))
    script.append(entry(rng.choice(['Converged', 'MaxIter', 'NoProgress']), 1.0, small))
    script.append(entry('Converged', 1.0, res))
    script.append(entry('Converged', 0.0, [0.0] * m))
    n = rng.choice([1, 2])
    return op_line(P, 20, rng.random() < 0.3, m, 0, lb, ub, 0.0, [0.0] * m, None, [0.0] * n, [0.0] * m, script)


def gen_mixed_above(rng):
    """Caller's Σ with some components above max_penalty and others below, large non-shrinking errors: the
    components that started ≤ max_penalty must stop at max_penalty, the others keep their value."""
    P = default_params()
    P['max_penalty'] = maxpen = pow2(rng, 2, 6)
    P['penalty_update_factor'] = rng.choice([4.0, 16.0, 64.0])
    m = rng.choice([2, 3, 3])
    above = rng.randrange(m)
    sig = [maxpen * pow2(rng, 1, 4) if i == above or rng.random() < 0.2 else maxpen * pow2(rng, -6, 0)
           for i in range(m)]
    lb, ub = gen_D(rng, m)
    script, prev = [], None
    for j in range(rng.randint(3, 6)):
        ez = [a if abs(a) > P['dual_tolerance'] else 1.0 for a in gen_errz(rng, P, m, prev, kind='big')]
        script.append(entry(rng.choice(['Converged', 'MaxIter']), 1.0, ez)); prev = ez
    return op_line(P, 8, False, m, 0, lb, ub, 1.0, [1.0] * m, sig, [0.0], [0.0] * m, script)


def gen_ops(rng, n):
    thorough = n >= 20000
    ops = repaired_points(rng) + excluded_points(rng) + stop_sweeps()
    if thorough:
        ops += exhaustive((1, 2, 3, 4))
    else:
        ops += exhaustive((1, 2, 3))
        ops += exhaustive((4,), sample=2500, rng=rng)
        ops += exhaustive((6,), sample=500, rng=rng)
    for i in range(n):
        ops.append(gen_random(rng, exact=rng.random() < 0.7))
    for i in range(max(30, n // 100)):
        ops.append(gen_random(rng, exact=rng.random() < 0.8, max_len=100))
    for i in range(max(40, n // 50)):
        ops.append(gen_stale_error_history(rng))
    for i in range(max(60, n // 50)):
        ops.append(gen_mixed_above(rng))
    return ops


# ---------------------------------------------------------------- parsing

class T:
    def __init__(self, line):
        self.t = line.split()
        self.p = 0

    def tok(self):
        self.p += 1
        return self.t[self.p - 1]

    def nat(self):
        return int(self.tok())

    def flt(self):
        return h2f(self.tok())

    def vec(self):
        n = self.nat()
        return [self.flt() for _ in range(n)]


def parse_op(op):
    t = T(op)
    assert t.tok() == 'run'
    P = {k: t.flt() for k in PARAM_NAMES}
    max_iter = t.nat(); single = t.nat() == 1
    m = t.nat(); split = t.nat(); lb = t.vec(); ub = t.vec(); f0 = t.flt(); g0 = t.vec()
    has = t.nat() == 1; sig = t.vec()
    x = t.vec(); y = t.vec()
    prestop = t.nat() == 1
    script = []
    for _ in range(t.nat()):
        script.append(dict(status=STATUSES[t.nat()], eps=t.flt(), errz=t.vec(), dy=t.vec(), dx=t.flt(),
                           iters=t.nat(), extra=t.nat(), oot=t.nat() == 1, stop=t.nat() == 1))
    return dict(P=P, max_iter=max_iter, single=single, m=m, split=split, lb=lb, ub=ub, f0=f0, g0=g0,
                sig=sig if has else None, x=x, y=y, script=script, prestop=prestop)


def parse_out(out):
    t = T(out)
    r = dict(status=t.tok(), outer=t.nat(), fail=t.nat(), eps=t.flt(), delta=t.flt(), normpen=t.flt(),
             iters=t.nat(), extra=t.nat(), count=t.nat(), x=t.vec(), y=t.vec())
    r['sig'] = t.vec() if t.nat() == 1 else None
    r['calls'] = []
    for _ in range(t.nat()):
        r['calls'].append(dict(sigma=t.vec(), y=t.vec(), x=t.vec(), errbuf=t.vec(), tol=t.flt(),
                               aor=t.nat() == 1, oi=t.nat(), check=t.nat() == 1))
    return r


def norm_inf(v):
    return max([abs(a) for a in v], default=0.0)


def finite(*vs):
    return all(math.isfinite(a) for v in vs for a in (v if isinstance(v, list) else [v]))


# ---------------------------------------------------------------- monitor

DIST = {}


def count(k):
    DIST[k] = DIST.get(k, 0) + 1


def monitor(op, out, st):
    r = monitor_(op, out, st)
    if r:
        count('monitor hit: ' + (r[1] if isinstance(r, tuple) else 'VIOLATION'))
    return r


def monitor_(op, out, st):
    """The property's clauses, evaluated on what the real ALMSolver called the inner solver with and
    on what it returned — no reference to the model."""
    out = out.strip()
    if out in ('exception', 'bad-op', 'parse-error'):
        return f'unexpected {out}'
    if out == 'stop-not-forwarded':
        return 'ALMSolver::stop() did not forward the request to the inner solver (or forwarded one never made)'
    if out == 'logic_error':
        return 'ALM threw logic_error("loop error"): the loop ran past max_iter without returning'
    I = parse_op(op)
    R = parse_out(out)
    P, m, script, calls = I['P'], I['m'], I['script'], R['calls']
    tol, dtol, θ, M, maxpen = (P['tolerance'], P['dual_tolerance'], P['rel_penalty_increase_threshold'],
                               P['max_multiplier'], P['max_penalty'])
    n = len(calls)
    count(f'final status {R["status"]}')
    count(f'm = {m}')
    count('inner solves: ' + ('0' if n == 0 else '1' if n == 1 else '2-4' if n <= 4 else '5-20' if n <= 20 else '>20'))
    count('user Σ ' + ('none' if I['sig'] is None else 'given'))
    count('single_penalty_factor' if I['single'] else 'per-component penalties')

    def ent(k):
        if k < len(script):
            return script[k]
        return dict(status='Converged', eps=0.0, errz=[0.0] * m, iters=1, extra=0, oot=False, stop=False)

    def flag_after(k):
        """ALM's stop flag as set when inner solve k has returned (never cleared)."""
        return I['prestop'] or any(ent(j)['stop'] for j in range(k + 1))

    # ---- accounting ----------------------------------------------------------------------
    if n > I['max_iter']:
        return f'{n} inner solves with max_iter = {I["max_iter"]}'
    if R['outer'] != n or R['count'] != n:
        return f'outer_iterations = {R["outer"]}, accumulated count = {R["count"]}, inner solves = {n}'
    if I['max_iter'] == 0:
        return None if R['status'] == 'MaxIter' else f'max_iter = 0 reports {R["status"]}'
    if n == 0:
        return 'no inner solve although max_iter > 0'
    if R['iters'] != sum(ent(k)['iters'] for k in range(n)) or \
            R['extra'] != sum(ent(k)['extra'] for k in range(n)):
        return (f'accumulated inner statistics ({R["iters"]}, {R["extra"]}) are not the sums of the '
                f'inner ones')
    nfail = sum(1 for k in range(n) if ent(k)['status'] != 'Converged')
    if R['fail'] != nfail:
        return f'inner_convergence_failures = {R["fail"]}, inner solves that did not converge = {nfail}'
    for k in range(n - 1):
        if ent(k)['status'] == 'Interrupted':
            return f'inner solve {k} was Interrupted but {n - 1 - k} more inner solve(s) followed'
    last = ent(n - 1)
    # ---- Converged exactly when … ----------------------------------------------------------
    e_last = last['errz'] if m > 0 else []
    want = (last['status'] == 'Converged' and last['eps'] <= tol and norm_inf(e_last) <= dtol
            and not any(a != a for a in e_last))
    if any(a != a for a in e_last):
        want = None     # NaN slack error: max-reduction with NaN is implementation-defined
    # ---- stop request (C19 at the ALM level; m = 0: a single inner solve, nothing left to stop) ---------
    if m > 0:
        for k in range(n - 1):
            if flag_after(k):
                where = 'before the solve' if I['prestop'] else \
                    f'during inner solve {min(j for j in range(k + 1) if ent(j)["stop"])}'
                return (f'alm.stop() was called {where}; inner solve {k} returned {ent(k)["status"]} with the '
                        f'flag set, but ALM started {n - 1 - k} more inner solve(s)')
        seen = flag_after(n - 1)
        count('stop flag ' + (f'visible after the last inner solve ({last["status"]}) → {R["status"]}' if seen
                              else 'never set'))
        if last['status'] == 'Interrupted':
            want_int = True
        elif not seen:
            want_int = False
        else:
            want_int = None if want is None else (not want)   # natural Converged of this iteration wins
    else:
        want_int = last['status'] == 'Interrupted'
    if want_int is not None and (R['status'] == 'Interrupted') != want_int:
        return (f'status {R["status"]} but last inner status {last["status"]}, stop flag '
                f'{"visible" if m > 0 and flag_after(n - 1) else "not visible / not consulted"} after it'
                + (', ALM termination test ' + ('passed' if want else 'failed') if want is not None else ''))
    if want is not None and (R['status'] == 'Converged') != want:
        msg = (f'status {R["status"]} but last inner solve: {last["status"]}, ε = {last["eps"]!r} '
               f'(tolerance {tol!r}), ‖e‖∞ = {norm_inf(e_last)!r} (dual tolerance {dtol!r})')
        if m == 0 and R['status'] == 'Converged' and last['status'] == 'Converged':
            return (msg, K_M0)
        return msg
    if m == 0:
        if n != 1:
            return f'm = 0 but {n} inner solves'
        if calls[0]['tol'] != tol:
            return f'm = 0: inner tolerance {calls[0]["tol"]!r} ≠ tolerance {tol!r}'
        return None
    # ---- Σ handed back --------------------------------------------------------------------
    if I['sig'] is not None:
        a, b = R['sig'], calls[-1]['sigma']
        if len(a) != len(b) or any(f2h(u) != f2h(v) for u, v in zip(a, b)):
            return f'Σ handed back {a} ≠ penalties last used {b}'
    # ---- multipliers ----------------------------------------------------------------------
    params_bad = []
    if not M >= 0:
        params_bad.append('max_multiplier < 0')
    for k, c in enumerate(calls):
        for i, yi in enumerate(c['y']):
            bad = None
            if not (-M <= yi <= M):
                bad = f'|y[{i}]| = {abs(yi)!r} > max_multiplier {M!r}'
            elif I['lb'][i] == -INF and yi < 0:
                bad = f'y[{i}] = {yi!r} < 0 although constraint {i} has no lower bound'
            elif I['ub'][i] == INF and yi > 0:
                bad = f'y[{i}] = {yi!r} > 0 although constraint {i} has no upper bound'
            if bad:
                msg = f'inner solve {k}: {bad}'
                return (msg, K_PARAMS) if params_bad else msg
    # ---- tolerance sequence ---------------------------------------------------------------
    tuf = P['tolerance_update_factor']
    for k, c in enumerate(calls):
        msg = None
        if not c['tol'] >= tol:
            msg = f'inner tolerance {c["tol"]!r} of solve {k} is below the final tolerance {tol!r}'
        elif k and not c['tol'] <= calls[k - 1]['tol']:
            msg = f'inner tolerance increased: {calls[k - 1]["tol"]!r} → {c["tol"]!r} at solve {k}'
        if msg:
            if tuf > 1 or tol < 0:
                return (msg, K_PARAMS)
            return msg
    # ---- penalties ------------------------------------------------------------------------
    # the caller's Σ counts as "the caller's initial penalties" only if it is usable at all:
    # finite and componentwise positive (anything else must not reach the inner solver)
    user = I['sig'] is not None and finite(I['sig']) and all(s > 0 for s in I['sig'])
    automatic = not user and not P['initial_penalty'] > 0
    # exemptions, each as narrow as the open finding C07-alm-params-not-validated (ValidParams conjuncts
    # `0 < min_penalty`, `min_penalty ≤ max_penalty`, which concern the automatic initial penalty only)
    excuse_pos = K_PARAMS if automatic and not P['min_penalty'] > 0 else None
    excuse_max = K_PARAMS if automatic and P['min_penalty'] > maxpen else None

    def viol(msg, excuse=None):
        return (msg, excuse) if excuse else msg
    # (a) the penalties of the first inner solve are the caller's / the documented automatic ones — computed
    #     from the op line alone (user Σ, initial_penalty, or σ = clamp(initial_penalty_factor·max(1,|f(x₀)|) /
    #     max(1, ½‖g(x₀)‖²), min_penalty, max_penalty) in exact rationals), single-factor mode: the largest
    exp0, how0 = expected_initial_sigma(I, user)
    if exp0 is None:
        count('excluded: automatic initial penalty with min_penalty > max_penalty (std::clamp undefined)')
    else:
        count('initial Σ checked against ' + how0)
        if len(calls[0]['sigma']) != m:
            return f'inner solve 0 got {len(calls[0]["sigma"])} penalty factors, m = {m}'
        for i, s0 in enumerate(calls[0]['sigma']):
            ok = (Fr(s0) == exp0[i]) if how0 != 'the automatic rule' else \
                (finite(s0) and abs(Fr(s0) - exp0[i]) <= Fr(2) ** -50 * abs(exp0[i]))
            if not ok:
                return (f'penalty Σ[{i}] = {s0!r} of the first inner solve is not the expected initial penalty '
                        f'{float(exp0[i])!r} ({how0})')
    for k, c in enumerate(calls):
        if len(c['sigma']) != m:
            return f'inner solve {k} got {len(c["sigma"])} penalty factors, m = {m}'
        for i, s in enumerate(c['sigma']):
            if not s > 0:
                return viol(f'penalty Σ[{i}] = {s!r} passed to inner solve {k} is not positive', excuse_pos)
            # per component: above max_penalty only where the caller's own initial value is, and then unchanged
            if s > maxpen:
                if exp0 is not None and not exp0[i] > maxpen:
                    return viol(f'penalty Σ[{i}] = {s!r} of solve {k} exceeds max_penalty {maxpen!r} although '
                                f'the caller\'s initial penalty of that component ({float(exp0[i])!r}) does not',
                                excuse_max)
                if f2h(s) != f2h(calls[0]['sigma'][i]):
                    return viol(f'penalty Σ[{i}] above max_penalty {maxpen!r} was changed: '
                                f'{calls[0]["sigma"][i]!r} → {s!r} (solve {k})', excuse_max)
                count('component above max_penalty because the caller\'s initial one is')
            if k and s < calls[k - 1]['sigma'][i]:
                return viol(f'penalty Σ[{i}] decreased {calls[k - 1]["sigma"][i]!r} → {s!r} between solves '
                            f'{k - 1} and {k}')
        if k == 0:
            continue
        # growth only where the violation failed to shrink (e of solve k−1 against e of solve k−2)
        e, eo = ent(k - 1)['errz'], (ent(k - 2)['errz'] if k >= 2 else None)
        prev = calls[k - 1]['sigma']
        changed = [i for i in range(m) if c['sigma'][i] != prev[i]]
        count('penalty update: ' + ('some component grew' if changed else 'nothing changed'))
        if not finite(e) or (eo is not None and not finite(eo)) or not finite(prev):
            count('penalty update not checked: non-finite slack error / penalty in the history (NoNaN)')
            continue
        if norm_inf(e) <= dtol:
            if changed:
                return viol(f'penalties changed before solve {k} although ‖e‖∞ = {norm_inf(e)!r} ≤ dual '
                            f'tolerance {dtol!r}')
            continue
        # (b) the update rule (alm.hpp / alm-helpers: first update — every component; later — where the
        #     violation failed to shrink by θ; new = max(old, min(max_penalty, max(Δ·|e_i|/‖e‖∞, 1)·old)),
        #     single-factor mode: ‖e‖∞ against θ‖e_old‖∞ and factor max(Δ, 1)) in exact rationals
        bad = check_update(P, I['single'], k == 1, e, eo, prev, c['sigma'])
        if bad:
            return viol(f'penalty update before solve {k}: {bad}')
        count('penalty update checked against the documented rule' + (' (first update)' if k == 1 else ''))
        if k == 1:
            continue
        if I['single']:
            lhs, rhs = Fr(norm_inf(e)), Fr(θ) * Fr(norm_inf(eo))
            if changed and lhs <= rhs and not near(lhs, rhs):
                return viol(f'single penalty factor grew before solve {k} although ‖e‖∞ = {float(lhs)!r} '
                            f'≤ θ‖e_old‖∞ = {float(rhs)!r}')
        else:
            for i in changed:
                lhs, rhs = Fr(abs(e[i])), Fr(θ) * Fr(abs(eo[i]))
                if lhs <= rhs and not near(lhs, rhs):
                    return viol(f'penalty Σ[{i}] grew before solve {k} although |e_i| = {float(lhs)!r} ≤ '
                                f'θ|e_i_old| = {float(rhs)!r}')
    # ---- reported residuals ---------------------------------------------------------------
    if f2h(R['eps']) != f2h(last['eps']):
        return f'reported ε = {R["eps"]!r} is not the last inner ε = {last["eps"]!r}'
    if finite(e_last) and R['delta'] != norm_inf(e_last):
        return f'reported δ = {R["delta"]!r} is not ‖e‖∞ = {norm_inf(e_last)!r} of the last inner solve'
    if R['status'] == 'MaxIter' and n != I['max_iter']:
        return f'MaxIter after {n} of {I["max_iter"]} iterations'
    if R['status'] == 'MaxTime' and not last['oot']:
        return 'MaxTime although the clock oracle never expired'
    if R['status'] not in ('Converged', 'MaxIter', 'MaxTime', 'Interrupted'):
        return f'unexpected final status {R["status"]}'
    return None


def expected_initial_sigma(I, user):
    """The penalties the first inner solve must get, from the op line alone → ([Fraction]·m, description),
    or (None, …) where the documented rule is undefined (min_penalty > max_penalty in the automatic rule)."""
    P, m = I['P'], I['m']
    if user:
        base, how = [Fr(s) for s in I['sig']], 'the caller\'s Σ'
    elif P['initial_penalty'] > 0:
        base, how = [Fr(P['initial_penalty'])] * m, 'initial_penalty'
    else:
        lo, hi = Fr(P['min_penalty']), Fr(P['max_penalty'])
        if lo > hi:
            return None, 'undefined'
        sq = sum((Fr(g) * Fr(g) for g in I['g0']), Fr(0))
        sigma = Fr(P['initial_penalty_factor']) * max(Fr(1), abs(Fr(I['f0']))) / max(Fr(1), sq / 2)
        sigma = min(max(sigma, lo), hi)
        base, how = [sigma] * m, 'the automatic rule'
    if I['single'] and m:
        base = [max(base)] * m
        how += ', single_penalty_factor: the largest entry'
    return base, ('the automatic rule' if how.startswith('the automatic rule') else how)


def check_update(P, single, first, e, eo, prev, new):
    """One penalty update against the documented rule in exact rationals (‖e‖∞ > dual_tolerance is known).
    Threshold ties within 2 ulps accept both outcomes.  → None | message"""
    θ, Δ, maxpen = Fr(P['rel_penalty_increase_threshold']), Fr(P['penalty_update_factor']), Fr(P['max_penalty'])
    ne = Fr(norm_inf(e))
    m = len(prev)

    def close(a, b):
        return abs(Fr(a) - b) <= Fr(2) ** -50 * max(abs(b), abs(Fr(a)))
    for i in range(m):
        old = Fr(prev[i])
        if single:
            neo = Fr(norm_inf(eo)) if eo is not None else None
            lhs, rhs = ne, (θ * neo if neo is not None else None)
            old = Fr(prev[0])
            factor = max(Δ, Fr(1))
        else:
            lhs, rhs = Fr(abs(e[i])), (θ * Fr(abs(eo[i])) if eo is not None else None)
            factor = max(Δ * Fr(abs(e[i])) / ne, Fr(1))
        grown = max(old, min(maxpen, factor * old))
        if first:
            allowed = [grown]
        elif near(lhs, rhs):
            allowed = [grown, Fr(prev[i])]
        else:
            allowed = [grown] if lhs > rhs else [Fr(prev[i])]
        if not any(close(new[i], a) for a in allowed):
            return (f'Σ[{i}]: {prev[i]!r} → {new[i]!r}, the rule gives '
                    f'{" or ".join(repr(float(a)) for a in allowed)} '
                    f'({"first update" if first else "violation " + ("failed to shrink" if lhs > rhs else "shrank")}'
                    f', factor {float(factor)!r})')
    return None


def near(a, b):
    """products compared by the C++ in binary64: skip ties within 2 ulps of the exact product."""
    return abs(a - b) <= 4 * 2.0 ** -52 * max(abs(a), abs(b))


# classes of inputs / monitor clauses every run must have exercised (a missing one is a broken tie)
REQUIRED = [
    'initial Σ checked against the caller\'s Σ',
    'initial Σ checked against the caller\'s Σ, single_penalty_factor: the largest entry',
    'initial Σ checked against initial_penalty',
    'initial Σ checked against the automatic rule',
    'component above max_penalty because the caller\'s initial one is',
    'penalty update checked against the documented rule',
    'penalty update checked against the documented rule (first update)',
    'penalty update: some component grew',
    'penalty update: nothing changed',
    'stop flag never set',
    'stop flag visible after the last inner solve (Converged) → Converged',
    'stop flag visible after the last inner solve (Converged) → Interrupted',
    'stop flag visible after the last inner solve (MaxIter) → Interrupted',
    'stop flag visible after the last inner solve (NoProgress) → Interrupted',
    'final status Converged', 'final status MaxIter', 'final status MaxTime', 'final status Interrupted',
    'm = 0', 'm = 1', 'm = 2', 'm = 3', 'single_penalty_factor', 'per-component penalties',
    'user Σ none', 'user Σ given',
]


def extra_stage(rep, broken, exe, tier):
    rep.cov['distribution'] = dict(sorted(DIST.items()))
    if DIST:
        for k in REQUIRED:
            if not DIST.get(k):
                broken.append(f'required coverage class never exercised in this run: {k!r}')


def nontrivial(op, out):
    t = out.split()
    if len(t) < 2 or not t[1].isdigit():
        return None
    return op if int(t[1]) >= 1 else None


HARNESS_SOURCES = [os.path.join(C.VERIF, 'harness', 'c07.cpp')] + C.repo_lib_sources(
    ['outer/internal/alm-helpers.cpp', 'outer/alm.cpp', 'problem/type-erased-problem.cpp',
     'util/demangled-typename.cpp', 'util/print.cpp', 'inner/internal/solverstatus.cpp',
     'problem/problem-counters.cpp'])


def replay(r):
    """`checks/replay.py <file>`: re-run the recorded op on the current tree (harness + driver + monitor)."""
    op = (r.get('payload') or {}).get('op')
    if not op:
        print('[C07] replay: no op recorded (broken obligation / tie); re-run checks/c07.py')
        return 1
    exe, log = C.build_exe('c07', HARNESS_SOURCES)
    if exe is None:
        print('[C07] replay: harness does not build: ' + log[-800:])
        return 1
    hout, _, _ = C.run_lines(exe, [op])
    dout, _, _ = C.run_lines(C.driver_exe('drv_c07'), [op])
    print('impl :', hout[0] if hout else None)
    print('model:', dout[0] if dout else None)
    m = monitor_(op, hout[0], {}) if hout else 'no output'
    print('monitor:', m)
    return 1 if (m or hout != dout) else 0


if __name__ == '__main__':
    sys.exit(C.standard_check(
        'C07', sys.argv,
        gen_scripts=['gen_c15.py', 'gen_c06.py', 'gen_c07.py'],
        modules=['Alpaqa.Props.C07'], driver='drv_c07',
        extra_sources=['Alpaqa/Gen/C07.lean', 'Alpaqa/Gen/C06.lean', 'Alpaqa/Gen/C15.lean',
                       'Alpaqa/Model/C07.lean', 'Alpaqa/Model/C15.lean', 'Alpaqa/Proofs/C07.lean', 'Alpaqa/Proofs/C07Run.lean', 'Alpaqa/Proofs/VecLemmas.lean',
                       'Alpaqa/Proofs/Basic.lean', 'Alpaqa/Props/C15.lean'],
        harness_name='c07',
        harness_sources=HARNESS_SOURCES,
        gen_ops=gen_ops, monitor=monitor, nontrivial=nontrivial, extra_stage=extra_stage,
        n_quick=3000, n_thorough=40000,
        trusted_base=[
            'Lean 4.33 kernel + Mathlib (axioms: propext, Classical.choice, Quot.sound)',
            'gen/gen_c07.py translator: update_penalty_weights (both branches), initialize_penalty (×2), '
            'and every statement of ALMSolver::operator() except clock reads and printing '
            '(almInit, almPreCall, almInnerOpts, almIter, almM0, almMaxIter0, loop header), struct member '
            'lists of ALMParams / Stats / InnerSolveOptions',
            'hand-written control skeleton Alpaqa.C07.run (early paths, call order, data flow through the '
            'inner solver) — tied by the scripted-inner correspondence on the explored histories only',
            'the clock is an oracle bit per inner solve (`time_elapsed > max_time`); opts.max_time '
            '(time_remaining) and elapsed_time are not modelled',
            'ALM\'s own stop flag (AtomicStopSignal stop_signal) is an oracle bit per inner solve (what '
            'stop_requested() reads right after it); gen_c07 pins that stop() is `stop_signal.stop(); '
            'inner_solver.stop();` and that the flag is read exactly once, after the inner call; the scripted '
            'runs set it from inside inner solve k (every k) or before the solve',
            'eval_proj_multipliers = BoxConstrProblem::eval_proj_multipliers_box (model + theorems: C15)',
            'real-number semantics: no NaN in the theorems (`NoNaN`), IEEE rounding not modelled',
        ],
        assumptions=['the inner solver is an arbitrary function of what it is called with; the problem '
                     'passes p.check(); Σ, y, err_z have m entries'],
        rule='9 repaired former excluded points + 6 remaining excluded points of ValidParams (fixed runs); '
             'stop sweeps: alm.stop() from inside inner solve k (every k < L, and before the solve) of every history '
             'of length L ≤ 4 over inner statuses {Converged, MaxIter, NoProgress} (the inner outcome does not report '
             'the request), m ∈ {0,1,2}, with and without ALM\'s own termination test passing in iteration k; '
             'random stop bits (6% per inner solve, 3% before the solve) in the seeded histories; exhaustive histories of length ≤ 3 (quick; ≤ 4 '
             'mixed user Σ (some components above max_penalty, others growing up to it); thorough, quick samples 2500 of length 4 and 500 of length 6 per m) over {Converged, MaxIter, NotFinite, NoProgress, '
             'Interrupted, MaxTime} × 3 error patterns (ties on dual tolerance / θ-threshold / tolerance) × '
             'm ∈ {0,1,2}, (non-uniform) user Σ on/off, single_penalty_factor on/off, max_iter ∈ {L, L+1}; seeded random '
             'histories (70% exact regime: powers of two; 30% generic doubles), m ∈ {0..3}, one-sided / free / '
             'equal D rows, penalty_alm_split, user Σ valid / non-uniform in single-factor mode / above max_penalty / rejected (NaN, inf, zero, negative entry), initial_tolerance < tolerance, penalty_update_factor < 1, initial_penalty > max_penalty, NaN/inf ε and slack '
             'errors, max_iter ∈ {0..100}, histories up to length 100; distinct = distinct op lines with ≥ 1 '
             'inner solve',
    ))
