#!/usr/bin/env python3
"""Render known-findings.json and seeded/*/meta.json into DESIGN.md (between the LEDGER / SEEDS markers),
so that the document cannot drift from the files the checks actually read."""
import json
import os
import re

V = os.path.dirname(os.path.dirname(os.path.abspath(__file__)))


def esc(s):
    return (s or '').replace('|', '\\|').replace('\n', ' ')


def ledger():
    d = json.load(open(os.path.join(V, 'known-findings.json')))
    rows = ['| property | key | status | what fails (first sentence) |', '|---|---|---|---|']
    for e in sorted(d['findings'], key=lambda e: (e['property'], e['status'] != 'fixed', e['key'])):
        what = esc(e.get('what', ''))
        first = re.split(r'(?<=[a-z0-9\)])\. ', what)[0][:330]
        st = f"fixed `{e.get('commit')}`" if e['status'] == 'fixed' else '**open**'
        rows.append(f"| {e['property']} | `{esc(e['key'])}` | {st} | {first} |")
    return '\n'.join(rows)


def seeds():
    rows = ['| seeded change | needs | result |', '|---|---|---|']
    sd = os.path.join(V, 'seeded')
    for sid in sorted(os.listdir(sd)):
        mf = os.path.join(sd, sid, 'meta.json')
        if not os.path.exists(mf):
            continue
        m = json.load(open(mf))
        res = []
        for r in m.get('ran', []):
            if r['exit'] != 0:
                k = 'with failing input' if r.get('with_failing_input') else 'no-failing-input-found'
                msg = '; '.join(x.split('BROKEN: ')[-1][:90] for x in r.get('first_messages', [])[:1])
                res.append(f"**caught** by {r['check']} ({k}){': ' + esc(msg) if msg else ''}")
            else:
                res.append(f"missed by {r['check']}")
        rows.append(f"| `{sid}`: {esc(m.get('breaks', ''))} | {esc(m.get('needs_to_manifest', ''))} | "
                    f"{'; '.join(res) or 'not run yet'} |")
    return '\n'.join(rows)


def status():
    m = json.load(open(os.path.join(V, 'MANIFEST.json')))
    kf = json.load(open(os.path.join(V, 'known-findings.json')))['findings']
    claimed = {c['property_id']: c for c in m['checks']}
    na = {x['property_id']: x['reason'] for x in m['not_applicable']}
    rows = ['| property | registered | theorems (obligations) | axioms | repaired / open findings | level |', '|---|---|---|---|---|---|']
    for l in open(os.path.join(V, 'properties.jsonl')):
        pid = json.loads(l)['id']
        fx = sum(1 for e in kf if e['property'] == pid and e['status'] == 'fixed')
        op = sum(1 for e in kf if e['property'] == pid and e['status'] != 'fixed')
        ef = os.path.join(V, 'evidence', pid + '.json')
        ob = ax = ''
        if os.path.exists(ef):
            cov = json.load(open(ef)).get('coverage', {})
            ob = f"{cov.get('discharged')}/{cov.get('obligations')}"
            ax = ', '.join(cov.get('axioms_used', []) or [])
        if pid in claimed:
            c = claimed[pid]
            partial = 'partial' if 'partial' in c['level_claimed']['text'].lower() else 'full statement'
            rows.append(f"| {pid} | yes | {ob} | {esc(ax)} | {fx} / {op} | proof ({partial}; see MANIFEST level text) |")
        else:
            rows.append(f"| {pid} | not yet | {ob} | {esc(ax)} | {fx} / {op} | {esc(na.get(pid, ''))[:160]} |")
    return '\n'.join(rows)


def theorems(pid):
    import glob
    sys_path = os.path.join(V, 'lean', 'Alpaqa', 'Props')
    files = sorted(glob.glob(os.path.join(sys_path, pid + '.lean')) + glob.glob(os.path.join(sys_path, pid + '_*.lean')))
    if pid == 'C01':
        files += [os.path.join(sys_path, 'PantrNewtonTR.lean'), os.path.join(sys_path, 'ZerofprDirections.lean'), os.path.join(sys_path, 'SlbfgsPerCall.lean')]
    if pid == 'C09':
        files += [os.path.join(sys_path, 'Directions.lean'), os.path.join(sys_path, 'DirectionsLoop.lean')]
    lines = []
    for f in files:
        txt = open(f, encoding='utf8').read()
        txt = re.sub(r'/-.*?-/', '', txt, flags=re.S)
        names = re.findall(r'^\s*(?:@\[[^\]]*\]\s*)*(?:private\s+|protected\s+)?theorem\s+(\S+)', txt, flags=re.M)
        nex = len(re.findall(r'^\s*example\b', txt, flags=re.M))
        lines.append(f"- `{os.path.basename(f)}` ({len(names)} theorems, {nex} examples): " + ', '.join(f'`{n}`' for n in names))
    return '\n'.join(lines) if lines else '(none yet)'


def main():
    p = os.path.join(V, 'DESIGN.md')
    s = open(p).read()
    for tag, body in (('LEDGER', ledger()), ('SEEDS', seeds()), ('STATUS', status())):
        a, b = f'<!-- {tag}:BEGIN -->', f'<!-- {tag}:END -->'
        if a in s and b in s:
            s = s[:s.index(a) + len(a)] + '\n' + body + '\n' + s[s.index(b):]
    for l in open(os.path.join(V, 'properties.jsonl')):
        pid = json.loads(l)['id']
        a, b = f'<!-- THEOREMS:{pid}:BEGIN -->', f'<!-- THEOREMS:{pid}:END -->'
        if a in s and b in s:
            s = s[:s.index(a) + len(a)] + '\n' + theorems(pid) + '\n' + s[s.index(b):]
    open(p, 'w').write(s)


if __name__ == '__main__':
    main()
