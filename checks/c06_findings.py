#!/usr/bin/env python3
"""C06 — reproduction of two open findings on the REAL code (no Lean model involved).

  C06:max-no-progress-zero-division   `if (no_progress > 0 || k % params.max_no_progress == 0)` in panoc.tpp,
      zerofpr.tpp, fista.tpp, panoc-ocp.tpp: with max_no_progress = 0 the first evaluation of the condition is
      an integer division by zero — the process dies with SIGFPE in the first iteration (PANTR never updates
      the counter and is not affected).  Each corpus op (checks/corpus/c06_max_no_progress_zero.txt) is run in
      its own harness process.
  C06:ipopt-box-multiplier-sign       PANOCStopCrit::Ipopt in panoc-helpers.tpp: the vector whose 1-norm enters
      the scaling s_d is computed as (Π_C(v) − x̂) − ∇ψ(x̂) instead of w = v − Π_C(v) = x̂ − ∇ψ(x̂) − Π_C(v)
      (the prox step returned by eval_prox_grad_step is Π_C(v) − x̂, the source comment assumes the opposite
      sign): the returned ε differs from the documented formula whenever s_d > 1.

Interface:  stage(rep) -> number of findings reproduced (reports them on `rep` with their keys, so that an `open`
entry of known-findings.json turns them into KNOWN-FINDING lines); stand-alone: prints what was observed.
The shared checks are read-only for the author of this file; wiring = two lines in checks/c06.py, see the
function `stage`.
"""
import os
import signal
import subprocess
import sys
from fractions import Fraction as Fr

sys.path.insert(0, os.path.dirname(os.path.abspath(__file__)))
import common as C
from common import f2h, h2f, vec2p

NP0_KEY = 'C06:max-no-progress-zero-division'
IPOPT_KEY = 'C06:ipopt-box-multiplier-sign'
INF = float('inf')


def corpus_np0():
    path = os.path.join(C.VERIF, 'checks', 'corpus', 'c06_max_no_progress_zero.txt')
    out = []
    for line in open(path):
        if line.startswith('#') or not line.strip():
            continue
        name, op = line.rstrip('\n').split('\t', 1)
        out.append((name, op))
    return out


def _harness(name):
    if name == 'panoc':
        import solvers as S
        return S.build_harness()
    import importlib
    return importlib.import_module('loop_' + name).build_harness()


def np0_probe():
    """-> [(solver, returncode, op line)] for the corpus runs with max_no_progress = 0."""
    res = []
    for name, op in corpus_np0():
        exe, log = _harness(name)
        if exe is None:
            res.append((name, None, op))
            continue
        p = subprocess.run([exe], input=op + '\n', capture_output=True, text=True, timeout=120)
        res.append((name, p.returncode, op))
    return res


IPOPT_OPS = [
    # (γ, p, x, x̂, ŷ, ∇ψ(x), ∇ψ(x̂), lb, ub)
    (1.0, [0.0], [0.0], [0.0], [], [0.0], [1000.0], [-INF], [INF]),     # unconstrained: w = 0, s_d = 1
    (1.0, [0.0], [0.0], [0.0], [], [0.0], [1000.0], [-1.0], [INF]),     # lower bound active after the unit step
]


def ipopt_doc(xh, yh, gh, lb, ub):
    """The documented formula (panoc-stop-crit.hpp), exact rationals."""
    n, m = len(xh), len(yh)
    v = [Fr(xh[i]) - Fr(gh[i]) for i in range(n)]

    def proj(a, l, u):
        if l != -INF and a < Fr(l):
            a = Fr(l)
        if u != INF and a > Fr(u):
            a = Fr(u)
        return a
    pv = [proj(v[i], lb[i], ub[i]) for i in range(n)]
    w = [v[i] - pv[i] for i in range(n)]
    e1 = max([abs(Fr(xh[i]) - pv[i]) for i in range(n)], default=Fr(0))
    if m + n == 0:
        return e1
    sd = max(Fr(100), (sum(abs(Fr(a)) for a in yh) + sum(abs(a) for a in w)) / (2 * m + 2 * n)) / 100
    return e1 / sd


def ipopt_probe():
    """-> [(op line, ε returned by the real calc_error_stop_crit, ε of the documented formula)]."""
    import c06
    exe, log = C.build_exe('c06', [os.path.join(C.VERIF, 'harness', 'c06.cpp')] + C.repo_lib_sources(c06.KERNEL_LIB))
    if exe is None:
        return []
    ops = []
    for (g, p, x, xh, yh, gr, gh, lb, ub) in IPOPT_OPS:
        ops.append(f'crit 8 {f2h(g)} {vec2p(p)} {vec2p(x)} {vec2p(xh)} {vec2p(yh)} {vec2p(gr)} {vec2p(gh)} '
                   f'{vec2p(lb)} {vec2p(ub)}')
    out, rc, err = C.run_lines(exe, ops)
    res = []
    for o, h, t in zip(ops, out, IPOPT_OPS):
        res.append((o, h2f(h.strip()), float(ipopt_doc(t[3], t[4], t[6], t[7], t[8]))))
    return res


def stage(rep):
    """Report both findings on an existing Report (call from checks/c06.py main, after the kernel stage:
           import c06_findings
           c06_findings.stage(rep)
    ).  Returns the number of findings reproduced."""
    n = 0
    crashed = [(s, rc, op) for s, rc, op in np0_probe() if rc is not None and rc < 0]
    if crashed:
        n += 1
        s, rc, op = crashed[0]
        rep.violation(f'[{", ".join(c[0] for c in crashed)}] real solver killed by signal {-rc} '
                      f'({signal.Signals(-rc).name}) with max_no_progress = 0: `k % params.max_no_progress`',
                      {'solver': s, 'op': op, 'returncode': rc}, True, key=NP0_KEY)
    bad = [(o, e, d) for o, e, d in ipopt_probe() if abs(e - d) > 1e-9 * max(1.0, abs(d))]
    if bad:
        n += 1
        o, e, d = bad[0]
        rep.violation(f'Ipopt: calc_error_stop_crit returns ε={e!r}, the documented formula gives {d!r}',
                      {'op': o, 'impl': e, 'documented': d}, True, key=IPOPT_KEY)
    return n


if __name__ == '__main__':
    for s, rc, op in np0_probe():
        print(f'max_no_progress=0 [{s}]: returncode {rc}' +
              (f' ({signal.Signals(-rc).name})' if rc is not None and rc < 0 else ''))
    for o, e, d in ipopt_probe():
        print(f'Ipopt: real ε = {e!r}, documented ε = {d!r}   ({o[:60]}…)')
