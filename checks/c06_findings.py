#!/usr/bin/env python3
"""C06 — regression ops for two repaired defects of /repo, run on the REAL code (no Lean model involved).

  C06:max-no-progress-zero-division   (fixed, /repo commit f7343661f)  `if (no_progress > 0 || k %
      params.max_no_progress == 0)` in panoc.tpp, zerofpr.tpp, fista.tpp, panoc-ocp.tpp divided by zero for
      max_no_progress = 0 (SIGFPE in the first iteration).  Each corpus op
      (checks/corpus/c06_max_no_progress_zero.txt: one run per solver with maxnp=0) is run in its own harness
      process and must return normally.
  C06:ipopt-box-multiplier-sign       (fixed, /repo commit f69b0f2f3)  PANOCStopCrit::Ipopt took the 1-norm of
      (Π_C(v) − x̂) − ∇ψ(x̂) instead of w = v − Π_C(v) for the scaling s_d.  The ops of IPOPT_OPS (s_d > 1) must
      return the documented value (exact rational evaluation of the formula in panoc-stop-crit.hpp).

Interface:  stage(rep) -> number of regressions (each reported as a violation WITHOUT a known-finding key: a
reappearance is a new violation); stand-alone: prints what was observed, exit status 1 on a regression.
Wiring (coordinator): in checks/c06.py main, after kernel_stage(...):  import c06_findings; c06_findings.stage(rep)
"""
import os
import signal
import subprocess
import sys
from fractions import Fraction as Fr

sys.path.insert(0, os.path.dirname(os.path.abspath(__file__)))
import common as C
from common import f2h, h2f, vec2p

NP0_KEY = 'C06:max-no-progress-zero-division'      # names of the (fixed) findings, for messages only
IPOPT_KEY = 'C06:ipopt-box-multiplier-sign'
INF = float('inf')


def corpus_np0():
    path = os.path.join(C.VERIF, 'checks', 'corpus', 'c06_max_no_progress_zero.txt')
    out = []
    for line in open(path):
        if line.startswith('#') or not line.strip():
            continue
        name, op = line.rstrip('\n').split('\t', 1)
        out.append((name, op))
    return out


def _harness(name):
    if name == 'panoc':
        import solvers as S
        return S.build_harness()
    import importlib
    return importlib.import_module('loop_' + name).build_harness()


def np0_probe():
    """-> [(solver, returncode, op line)] for the corpus runs with max_no_progress = 0."""
    res = []
    for name, op in corpus_np0():
        exe, log = _harness(name)
        if exe is None:
            res.append((name, None, op))
            continue
        p = subprocess.run([exe], input=op + '\n', capture_output=True, text=True, timeout=120)
        res.append((name, p.returncode, op))
    return res


IPOPT_OPS = [
    # (γ, p, x, x̂, ŷ, ∇ψ(x), ∇ψ(x̂), lb, ub)
    (1.0, [0.0], [0.0], [0.0], [], [0.0], [1000.0], [-INF], [INF]),     # unconstrained: w = 0, s_d = 1
    (1.0, [0.0], [0.0], [0.0], [], [0.0], [1000.0], [-1.0], [INF]),     # lower bound active after the unit step
    (1.0, [0.0], [0.0], [0.0], [900.0, 900.0], [0.0], [1000.0], [-INF], [INF]),   # s_d = 3 from ŷ alone
    (0.5, [0.0, 0.0], [1.0, -2.0], [0.5, 0.25], [640.0], [0.0, 0.0], [-768.0, 512.0], [-1.0, -INF], [2.0, 1.0]),
]


def ipopt_doc(xh, yh, gh, lb, ub):
    """The documented formula (panoc-stop-crit.hpp), exact rationals."""
    n, m = len(xh), len(yh)
    v = [Fr(xh[i]) - Fr(gh[i]) for i in range(n)]

    def proj(a, l, u):
        if l != -INF and a < Fr(l):
            a = Fr(l)
        if u != INF and a > Fr(u):
            a = Fr(u)
        return a
    pv = [proj(v[i], lb[i], ub[i]) for i in range(n)]
    w = [v[i] - pv[i] for i in range(n)]
    e1 = max([abs(Fr(xh[i]) - pv[i]) for i in range(n)], default=Fr(0))
    if m + n == 0:
        return e1
    sd = max(Fr(100), (sum(abs(Fr(a)) for a in yh) + sum(abs(a) for a in w)) / (2 * m + 2 * n)) / 100
    return e1 / sd


def ipopt_probe():
    """-> [(op line, ε returned by the real calc_error_stop_crit, ε of the documented formula)]."""
    import c06
    exe, log = C.build_exe('c06', [os.path.join(C.VERIF, 'harness', 'c06.cpp')] + C.repo_lib_sources(c06.KERNEL_LIB))
    if exe is None:
        return []
    ops = []
    for (g, p, x, xh, yh, gr, gh, lb, ub) in IPOPT_OPS:
        ops.append(f'crit 8 {f2h(g)} {vec2p(p)} {vec2p(x)} {vec2p(xh)} {vec2p(yh)} {vec2p(gr)} {vec2p(gh)} '
                   f'{vec2p(lb)} {vec2p(ub)}')
    out, rc, err = C.run_lines(exe, ops)
    res = []
    for o, h, t in zip(ops, out, IPOPT_OPS):
        res.append((o, h2f(h.strip()), float(ipopt_doc(t[3], t[4], t[6], t[7], t[8]))))
    return res


def regressions():
    """-> [(message, payload)] for every regression op that misbehaves on the tree under test."""
    out = []
    for s_, rc, op in np0_probe():
        if rc is None:
            out.append((f'[{s_}] harness does not build', {'solver': s_}))
        elif rc != 0:
            sig = f' ({signal.Signals(-rc).name})' if rc < 0 else ''
            out.append((f'[{s_}] real solver ended with return code {rc}{sig} on a run with max_no_progress = 0 '
                        f'(regression of {NP0_KEY})', {'solver': s_, 'op': op, 'returncode': rc}))
    for o, e, d in ipopt_probe():
        if not abs(e - d) <= 8 * 2.0 ** -52 * max(1.0, abs(d)):
            out.append((f'Ipopt: calc_error_stop_crit returns ε={e!r}, the documented formula gives {d!r} '
                        f'(regression of {IPOPT_KEY})', {'op': o, 'impl': e, 'documented': d}))
    return out


def stage(rep):
    """Run the regression ops and report failures on an existing Report (checks/c06.py main, after the kernel
    stage).  Returns the number of regressions."""
    regs = regressions()
    rep.cov['regression_ops_c06_findings'] = len(corpus_np0()) + len(IPOPT_OPS)
    for msg, payload in regs:
        rep.violation(msg, payload, True)
    return len(regs)


if __name__ == '__main__':
    for s, rc, op in np0_probe():
        print(f'max_no_progress=0 [{s}]: returncode {rc}' +
              (f' ({signal.Signals(-rc).name})' if rc is not None and rc < 0 else ''))
    for o, e, d in ipopt_probe():
        print(f'Ipopt: real ε = {e!r}, documented ε = {d!r}   ({o[:60]}…)')
    regs = regressions()
    for msg, _ in regs:
        print('REGRESSION:', msg)
    sys.exit(1 if regs else 0)
