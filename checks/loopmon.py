"""
Helpers shared by the multi-solver loop-level checks C05 / C06 / C19 (checks/c05.py, c06.py, c06_loop.py,
c19.py): format-agnostic access to the event stream of a harness output line, typed parsing of recorded
problem / direction events, hang-safe pre-screening of op lines, and the solver adapters handed to
`multiloop.loop_check` (they wrap the entries of `multiloop.registry()` and only replace the op generator).

Everything here looks at *observations of the real solver* only (independent of the Lean models).
"""
import os
import subprocess
import sys

sys.path.insert(0, os.path.dirname(os.path.abspath(__file__)))
import common as C
import solvers as S

EPS = 2.0 ** -52
EPS10 = 10 * EPS
NATURAL = ('Converged', 'MaxTime', 'MaxIter', 'NotFinite', 'NoProgress', 'Interrupted')


# ------------------------------------------------------------------ event stream (any solver format)

def ev_list(out_line):
    """All `EV …` sections of a harness output line as token lists (without the `EV`)."""
    return [sec.split()[1:] for sec in out_line.split(' ; ') if sec.strip().startswith('EV ')]


def ev_names(evs):
    return [e[0] for e in evs if e and e[0] not in ('stoptick', 'calls')]


def ev_stoptick(evs):
    for e in evs:
        if e and e[0] == 'stoptick':
            return int(e[1])
    return None


def take(shape, toks, i):
    """Read items of `shape` ('s' scalar, 'v' vector `n t1 … tn`, 'b' flag) from toks[i:] → (items, next i).
    Scalars / vector entries are converted to floats."""
    items = []
    for ch in shape:
        if ch == 'v':
            n = int(toks[i])
            items.append([C.h2f(t) for t in toks[i + 1:i + n + 1]])
            i += n + 1
        elif ch == 'b':
            items.append(toks[i] == '1')
            i += 1
        else:
            items.append(C.h2f(toks[i]))
            i += 1
    return items, i


# name -> (argument shape, result shape) of the events of harness/solver_common.hpp / solver_pantr.hpp
EVENT_SHAPES = {
    'psigradpsi': ('v', 'svv'), 'psi': ('v', 'sv'), 'gradpsi': ('v', 'v'), 'gradL': ('vv', 'v'),
    'prox': ('svv', 'svv'),
}
TR_APPLY = ('svvvvs', 'sv')          # dapply of a trust-region direction: γ x x̂ p g Δ -> q_model q


def parse_event(e, shapes=EVENT_SHAPES):
    """(name, args, results) with floats, or None when the event is not a problem call / malformed."""
    sh = shapes.get(e[0])
    if sh is None:
        return None
    try:
        a, i = take(sh[0], e, 1)
        r, _ = take(sh[1], e, i)
    except (ValueError, IndexError):
        return None
    return e[0], a, r


def cb_segments(evs):
    """Events grouped by progress callback: segs[j] = events after callback j-1 up to (excluding) callback j;
    the last entry holds what follows the final callback.  `stoptick` / `calls` pseudo-events are dropped."""
    segs, cur = [], []
    for e in evs:
        if not e or e[0] in ('stoptick', 'calls'):
            continue
        if e[0] == 'cb':
            segs.append(cur)
            cur = []
        else:
            cur.append(e)
    segs.append(cur)
    return segs


def bits(v):
    return [C.f2h(a) for a in v]


# ------------------------------------------------------------------ hang-safe pre-screening

def prescreen(exe, lines, chunk=64, chunk_timeout=180, single_timeout=30, max_hung=3):
    """Run the op lines once in chunks with a time limit, so that a run on which the (possibly modified)
    solver does not terminate cannot block the whole check.  → (kept lines, hung lines)."""
    if not exe:
        return lines, []
    kept, hung = [], []

    def run(ls, to):
        try:
            out, rc, err = C.run_lines(exe, ls, timeout=to)
            return out if len(out) == len(ls) else None
        except subprocess.TimeoutExpired:
            return None

    for i in range(0, len(lines), chunk):
        if len(hung) >= max_hung:
            break
        part = lines[i:i + chunk]
        out = run(part, chunk_timeout)
        if out is None:
            out = []
            for l in part:
                if len(hung) + sum(1 for o in out if o is None) >= max_hung:
                    part = part[:len(out)]
                    break
                o = run([l], single_timeout)
                out.append(o[0] if o else None)
        for l, o in zip(part, out):
            (hung if o is None else kept).append(l)
    return kept, hung


# ------------------------------------------------------------------ adapters for multiloop.loop_check

class Adapter:
    """A solver of `multiloop.registry()` with its op generator replaced:
    gen(solver, rng, n, exe, nsweep) -> [op lines].  Runs that do not return in time are removed from
    the list (kept in `.hung`; the check reports them)."""

    def __init__(self, base, gen, extra_sources=(), skip_monitor=None):
        self.base = base
        self.gen = gen
        self.hung = []
        self.extra_sources = list(base.extra_sources) + [e for e in extra_sources if e not in base.extra_sources]
        self._skip = skip_monitor

    def __getattr__(self, k):
        return getattr(self.base, k)

    def gen_ops(self, rng, n, exe, nsweep):
        ops = list(self.gen(self, rng, n, exe, nsweep))
        ops, hung = prescreen(exe, ops)
        self.hung.extend(hung)
        return ops

    def skip_monitor(self, op):
        if self._skip is not None:
            return self._skip(op)
        return self.base.skip_monitor(op)


def report_hung(rep, adapters):
    for a in adapters:
        for l in a.hung[:3]:
            rep.violation(f'[{a.name}] solver did not return within the time limit (crash / endless loop) on '
                          f'this run', {'solver': a.name, 'op': l}, True)


def solver_parse(solver):
    """The output parser of a registry entry (PANOC / ZeroFPR share `solvers.parse_out`)."""
    mod = getattr(solver, 'mod', None)
    return getattr(mod, 'parse_out', None) or S.parse_out


def c13_part(op_line, out_line, st):
    """checks/c13.py's PANOC-OCP monitor (C03 relations for every exit, C06 facts, unsupported criteria throw)
    for use under another property: its literal-reading C13 finding (residual at the *returned* inputs) is
    C13's own open finding and is not reported under C03 / C06 / C19."""
    import c13
    m = c13.monitor(op_line, out_line, st)
    if isinstance(m, tuple) and m[1] == c13.KEY_RETURNED:
        return None
    return m


# ------------------------------------------------------------------ exact iterate consistency (audit-2 #5)
#
# What a progress callback of PANOC / ZeroFPR / PANTR / FISTA claims — (x, γ) ↦ ∇ψ(x), x̂, p, ‖p‖², ψ(x), ψ(x̂),
# ŷ(x̂), ∇ψ(x̂), φγ, ε — is recomputed from the PROBLEM DATA alone (polynomial test problem, exact rationals;
# prox of box / box+ℓ1 in closed form: clamp(soft-threshold)), never from the library's intermediate values.
#
# Tolerances (all relative, stated):
#   function values / gradients / multipliers:  |reported − exact| ≤ REL · M,  REL = 2⁻⁴⁰, M = the sum of the
#       absolute values of all terms of the exact expression at the reported point (the running-error magnitude
#       of any evaluation order; catches nothing but rounding — a double evaluation has error ≲ 50·2⁻⁵³·M)
#   prox step:  x̂ and p against the exact prox at the reported (x, γ) with the exact ∇ψ(x):
#       4 ulp of the operands (x, γ∇ψ, γλ, the bounds, x̂) + γ·REL·M(∇ψ_i)   (the prox is 1-Lipschitz)
#   ‖p‖², φγ:  against the exact expression of the reported parts, 8(n+4)·2⁻⁵³ · Σ|terms|
#   ε:  the ten DOCUMENTED criteria from x − x̂ (reported points), the exact ∇ψ(x), ∇ψ(x̂), ŷ(x̂), γ:
#       REL·M(ε) + 4 ulp(max |x_i|, |x̂_i|)·(1/γ where the formula divides by γ)
# Skipped (counted): a quantity whose magnitude M exceeds 1e300 (IEEE overflow of intermediate terms);
# under NaN injection (`nanat` ≠ 0) a reported NaN value of ψ / ψ̂ / φγ / ε (the injected answer).

REL = 2.0 ** -40
from fractions import Fraction as Fr   # noqa: E402
import math                            # noqa: E402
TINY = Fr(2) ** -1040    # subnormal floor: one ulp of a subnormal exceeds any relative bound (NoProgress runs reach φγ ~ 1e-312)


class ExactQ:
    """`solvers.Exact` plus the magnitudes the tolerances need and the closed-form prox."""

    def __init__(self, op):
        self.op = op
        self.ex = S.Exact(op)
        self.y = S.frv(op.vec('y0'))
        self.Sig = S.frv(op.vec('Sig'))
        ex = self.ex
        l1 = ex.l1
        self.lam = [Fr(0)] * ex.n if not l1 else ([Fr(l1[0])] * ex.n if len(l1) == 1 else S.frv(l1))
        self.key = None
        self.cache = {}

    # ---- values
    def at(self, pt):
        """(ψ, ∇ψ, ŷ, M_ψ, [M_∇ψ_i], [M_ŷ_j]) at a point given as a list of doubles (cached)."""
        k = tuple(C.f2h(a) for a in pt)
        if k in self.cache:
            return self.cache[k]
        ex, y, Sig = self.ex, self.y, self.Sig
        n, m = ex.n, ex.m
        x = S.frv(pt)
        ax = [abs(a) for a in x]
        yh = ex.yhat(x, y, Sig)
        psi = ex.f(x) + sum(yh[j] ** 2 / Sig[j] for j in range(m)) / 2
        gf = ex.grad_f(x); gg = ex.grad_g_prod(x, yh)
        grad = [gf[i] + gg[i] for i in range(n)]
        f_abs = sum(ax[i] * sum(abs(ex.Q[i * n + j]) * ax[j] for j in range(n)) / 2 + abs(ex.c[i]) * ax[i]
                    + abs(ex.q4[i]) * ax[i] ** 4 / 4 for i in range(n))
        xx = sum(a * a for a in ax)
        My = []
        for j in range(m):
            gabs = sum(abs(ex.A[j * n + i]) * ax[i] for i in range(n)) + abs(ex.b[j]) * xx / 2
            bnd = max([abs(Fr(v)) for v in (ex.Dlb[j], ex.Dub[j]) if math.isfinite(v)] + [Fr(0)])
            My.append(abs(Sig[j]) * (gabs + abs(y[j] / Sig[j]) + bnd))
        Mpsi = f_abs + sum(My[j] ** 2 / abs(Sig[j]) for j in range(m)) / 2
        Mg = [sum(abs(ex.Q[i * n + j] + ex.Q[j * n + i]) / 2 * ax[j] for j in range(n)) + abs(ex.c[i])
              + abs(ex.q4[i]) * ax[i] ** 3
              + sum((abs(ex.A[j * n + i]) + abs(ex.b[j]) * ax[i]) * My[j] for j in range(m)) for i in range(n)]
        self.cache[k] = (psi, grad, yh, Mpsi, Mg, My)
        return self.cache[k]

    def prox(self, gamma, x, g):
        """prox_{γh}(x − γ g), h = λ‖·‖₁ + δ_C, componentwise: clamp(soft-threshold(x − γg, γλ), lb, ub) — the
        minimiser of a one-dimensional convex function over an interval is the projection of its unconstrained
        minimiser.  Exact rationals in, exact rationals out."""
        ex = self.ex
        out = []
        for i in range(ex.n):
            v = x[i] - gamma * g[i]
            t = gamma * self.lam[i]
            s = v - t if v > t else (v + t if v < -t else Fr(0))
            out.append(ex.proj(s, ex.Clb[i], ex.Cub[i]))
        return out

    def h(self, xh):
        return sum(self.lam[i] * abs(xh[i]) for i in range(self.ex.n))


def doc_criterion(name, Q, gamma, x, xh, g, gh, yh):
    """The DOCUMENTED formula of a PANOCStopCrit (panoc-stop-crit.hpp) from x, x̂ (exact rationals of the reported
    points), γ, ∇ψ(x), ∇ψ(x̂), ŷ(x̂) (exact).  Π_C is the prox of the problem's nonsmooth term (box, box+ℓ1).
    → (value as float, magnitude M of the terms, divides by γ?)"""
    n = len(x)
    F = Fr
    d = [x[i] - xh[i] for i in range(n)]

    def ninf(v):
        return max([abs(a) for a in v] + [F(0)])

    def n2(v):
        return math.sqrt(float(sum(a * a for a in v)))

    def unit(pt, gr):
        ph = Q.prox(F(1), pt, gr)
        return [pt[i] - ph[i] for i in range(n)]
    if name in ('ApproxKKT', 'ApproxKKT2'):
        v = [d[i] / gamma + gh[i] - g[i] for i in range(n)]
        M = max([abs(d[i] / gamma) + abs(gh[i]) + abs(g[i]) for i in range(n)] + [F(0)])
        return (float(ninf(v)) if name == 'ApproxKKT' else n2(v)), M, True
    if name in ('ProjGradNorm', 'ProjGradNorm2'):
        return (float(ninf(d)) if name == 'ProjGradNorm' else n2(d)), ninf(d), False
    if name in ('FPRNorm', 'FPRNorm2'):
        return (float(ninf(d) / gamma) if name == 'FPRNorm' else n2(d) / float(gamma)), ninf(d) / gamma, True
    if name in ('ProjGradUnitNorm', 'ProjGradUnitNorm2'):
        v = unit(x, g)
        return (float(ninf(v)) if name == 'ProjGradUnitNorm' else n2(v)), ninf(v), False
    if name == 'LBFGSBpp':
        v = unit(x, g)
        nx = n2(x)
        return float(ninf(v)) / max(1.0, nx), ninf(v), False
    if name == 'Ipopt':
        vk = [xh[i] - gh[i] for i in range(n)]
        pc = Q.prox(F(1), xh, gh)                    # Π_C(v)
        err = ninf([xh[i] - pc[i] for i in range(n)])
        nn = 2 * (len(yh) + n)
        if nn == 0:
            return float(err), err, False
        w = [vk[i] - pc[i] for i in range(n)]
        D = sum(abs(a) for a in yh) + sum(abs(a) for a in w)
        sd = max(F(100), D / nn) / 100
        doc_criterion.ipopt = (D, nn)            # for the tolerance of the scaling factor (cancellation in w)
        return float(err / sd), err, False
    raise ValueError(name)


def _ulp(*mags):
    m = max([abs(float(a)) for a in mags if math.isfinite(float(a))] + [0.0])
    return math.ulp(m) if m > 0 else 5e-324


KEY_RECOMP_PANOC = 'C05-recompute-reports-stale-psi-hat'
KEY_RECOMP_ZEROFPR = 'C05-zerofpr-recompute-reports-mixed-stepsize'
KEY_OWNER = {KEY_RECOMP_PANOC: 'C05', KEY_RECOMP_ZEROFPR: 'C05'}
# Repaired finding C06-panoc-eager-workspace-as-yhat (known-findings.json, fixes/C06-panoc-eager-yhat.diff): with
# eager_gradient_eval PANOC used the m-workspace of eval_ψ_grad_ψ as ŷ(x̂).  The loop head now evaluates ŷ(x̂) where it
# is read (Ipopt criterion, ∇ψ(x̂) recomputed after an interrupted line search); ε, ∇ψ(x̂) and — for the Ipopt
# criterion — ŷ of every callback are demanded strictly.  What remains by design (documented in
# PANOCProgressInfo::ŷ): with eager evaluation and a criterion that does not read ŷ, the callback's ŷ is the
# workspace content; for a problem that uses the workspace as scratch (`wmscratch`) it is not compared
# (counter `yhat_eager_workspace_by_design`; Props/C06_Panoc.eps_is_documented states ŷ = ŷ(x̂) only for
# Ipopt, lazy evaluation, or written results).


def consistency(flavor, op, cbs, **kw):
    """See `_consistency`; exact quantities beyond the range of binary64 (diverging runs) are a counted skip."""
    try:
        return _consistency(flavor, op, cbs, **kw)
    except OverflowError:
        kw.get('bump', lambda k, n=1: None)('consistency_skipped_overflow_range')
        return None


def _consistency(flavor, op, cbs, *, pid=None, bump=lambda k, n=1: None, rewritten=(), final_only_gh=False,
                 crit=None, fixed_fista=False):
    """Exact consistency of every callback of a PANOC / ZeroFPR / PANTR / FISTA run (field names of
    `solvers.parse_out`).  Mismatches that are an *open finding* carry its key:
      rewritten[k] (callback k rewritten by recompute_last_prox_step_after_stepsize_change: the tuple mixes two
      step sizes) → KEY_RECOMP_*.
    Under a property that does not own the key the mismatch is counted and checking goes on; under the owner the
    first keyed mismatch is returned after all callbacks were checked (an un-keyed one at once).
    → None | str | (str, key)"""
    if not cbs:
        return None
    Q = ExactQ(op)
    n = Q.ex.n
    nan_inj = op.nat('nanat', 0) != 0
    crit = op.nat('crit', 0) if crit is None else crit
    cname = S.CRITS[crit]
    need_gh = cname in ('ApproxKKT', 'ApproxKKT2', 'Ipopt')
    eager_wm = flavor == 'panoc' and op.nat('eager', 0) != 0 and op.nat('wmscratch', 0) != 0
    pending = []

    class Stop(Exception):
        pass

    def fail(k, cb, field, msg):
        rw = k < len(rewritten) and rewritten[k]
        key = None
        if rw and flavor in ('panoc', 'zerofpr'):
            key = KEY_RECOMP_PANOC if flavor == 'panoc' else KEY_RECOMP_ZEROFPR
        full = f'callback {k} ({cb["status"]}): {msg}'
        if key is None:
            pending.insert(0, full)
            raise Stop()
        if pid is not None and KEY_OWNER[key] != pid:
            bump('finding_of_other_property_' + key)
        elif not any(isinstance(q, tuple) for q in pending):
            pending.append((full, key))

    def run():
        for k, cb in enumerate(cbs):
            last = k == len(cbs) - 1
            x, xh, p, g = cb['x'], cb['xhat'], cb['p'], cb['grad_psi']
            gam = cb['gamma']
            if len(x) != n or len(xh) != n or len(p) != n or len(g) != n:
                fail(k, cb, 'size', f'vector sizes {len(x)}, {len(xh)}, {len(p)}, {len(g)} ≠ n = {n}')
                continue
            if not all(math.isfinite(a) for a in x) or not (math.isfinite(gam) and gam > 0):
                bump('consistency_skipped_nonfinite_x_or_gamma')
                continue
            psi, grad, _, Mpsi, Mg, _ = Q.at(x)
            if max([Mpsi] + Mg) > Fr(10) ** 300:
                bump('consistency_skipped_overflow_range')
                continue
            # ---- ψ(x), ∇ψ(x) --------------------------------------------------------------------------
            v = cb['psi']
            if v != v and (nan_inj or fixed_fista):
                bump('psi_nan_injected_or_not_evaluated')
            elif not math.isfinite(v) or abs(Fr(v) - psi) > Fr(REL) * Mpsi + TINY:
                fail(k, cb, 'psi', f'reported ψ = {v!r}, ψ at the reported x is {float(psi)!r}')
            else:
                bump('psi_at_x_exact')
            gbad = [i for i in range(n) if not math.isfinite(g[i]) or abs(Fr(g[i]) - grad[i]) > Fr(REL) * Mg[i] + TINY]
            if gbad:
                i = gbad[0]
                fail(k, cb, 'grad', f'reported ∇ψ[{i}] = {g[i]!r}, ∇ψ at the reported x is {float(grad[i])!r}')
            else:
                bump('grad_at_x_exact')
            # ---- x̂ = prox_γ(x − γ∇ψ(x)), p = x̂ − x ----------------------------------------------------
            X = S.frv(x)
            G = Fr(gam)
            xh_ex = Q.prox(G, X, grad)
            if not all(math.isfinite(a) for a in xh + p):
                fail(k, cb, 'prox', f'x̂ / p not finite at finite x, γ (x̂={xh}, p={p})')
                continue
            ok = True
            for i in range(n):
                tol = 4 * Fr(_ulp(x[i], float(G * grad[i]), float(G * Q.lam[i]), Q.ex.Clb[i], Q.ex.Cub[i], xh[i])) \
                    + G * Fr(REL) * Mg[i] + TINY
                if abs(Fr(xh[i]) - xh_ex[i]) > tol:
                    ok = False
                    fail(k, cb, 'prox', f'reported x̂[{i}] = {xh[i]!r}, but prox_γ(x − γ∇ψ(x))[{i}] = '
                                        f'{float(xh_ex[i])!r} at the reported x, γ = {gam!r} (tolerance {float(tol):.3g})')
                    break
                if abs(Fr(p[i]) - (xh_ex[i] - X[i])) > tol:
                    ok = False
                    fail(k, cb, 'prox', f'reported p[{i}] = {p[i]!r}, but prox_γ(x − γ∇ψ(x))[{i}] − x[{i}] = '
                                        f'{float(xh_ex[i] - X[i])!r} at the reported x, γ = {gam!r} '
                                        f'(tolerance {float(tol):.3g})')
                    break
            if ok:
                bump('prox_step_exact')
            # ---- ‖p‖², φγ ----------------------------------------------------------------------------
            P = S.frv(p)
            pTp = sum(a * a for a in P)
            if not math.isfinite(cb['pTp']) or abs(Fr(cb['pTp']) - pTp) > 8 * (n + 4) * Fr(EPS) * pTp + Fr(2) ** -1040:
                fail(k, cb, 'pTp', f'reported ‖p‖² = {cb["pTp"]!r}, the reported p has ‖p‖² = {float(pTp)!r}')
            v = cb['fbe']
            if v != v and (nan_inj or fixed_fista):
                bump('fbe_nan_injected_or_not_evaluated')
            else:
                hx = Q.h(S.frv(xh))
                gp = [grad[i] * P[i] for i in range(n)]
                want = psi + hx + pTp / (2 * G) + sum(gp)
                M = Mpsi + hx + pTp / (2 * G) + sum(abs(P[i]) * Mg[i] for i in range(n))
                if M > Fr(10) ** 300:
                    bump('consistency_skipped_overflow_range')
                elif not math.isfinite(v) or abs(Fr(v) - want) > (Fr(REL) + 8 * (n + 4) * Fr(EPS)) * M + TINY:
                    fail(k, cb, 'fbe', f'reported φγ = {v!r}, but ψ(x) + h(x̂) + ‖p‖²/(2γ) + ∇ψ(x)ᵀp = {float(want)!r} '
                                       f'(ψ, ∇ψ exact at the reported x; x̂, p, γ as reported)')
                else:
                    bump('fbe_exact')
            # ---- ψ(x̂), ŷ(x̂), ∇ψ(x̂) ---------------------------------------------------------------------
            psih, gradh, yh_ex, Mpsih, Mgh, Myh = Q.at(xh)
            if max([Mpsih] + Mgh) > Fr(10) ** 300:
                bump('consistency_skipped_overflow_range')
                continue
            v = cb['psi_hat']
            if v != v and (nan_inj or fixed_fista):
                bump('psihat_nan_injected_or_not_evaluated')
            elif not math.isfinite(v) or abs(Fr(v) - psih) > Fr(REL) * Mpsih + TINY:
                fail(k, cb, 'psihat', f'reported ψ(x̂) = {v!r}, ψ at the reported x̂ is {float(psih)!r}')
            else:
                bump('psihat_exact')
            yh = cb.get('yhat') or []
            if eager_wm and cname != 'Ipopt' and Q.ex.m:
                # by design: the callback's ŷ is the workspace of eval_ψ_grad_ψ (see the note at KEY_OWNER)
                bump('yhat_eager_workspace_by_design')
            elif len(yh) == Q.ex.m and Q.ex.m:
                ybad = [j for j in range(Q.ex.m)
                        if not math.isfinite(yh[j]) or abs(Fr(yh[j]) - yh_ex[j]) > Fr(REL) * Myh[j] + TINY]
                if ybad:
                    j = ybad[0]
                    fail(k, cb, 'yhat', f'reported ŷ[{j}] = {yh[j]!r}, ŷ at the reported x̂ is {float(yh_ex[j])!r}')
                else:
                    bump('yhat_exact')
            gh = cb.get('grad_psi_hat') or []
            if cb.get('have_gh') and len(gh) == n and (not final_only_gh or (last and need_gh)):
                hb = [i for i in range(n)
                      if not math.isfinite(gh[i]) or abs(Fr(gh[i]) - gradh[i]) > Fr(REL) * Mgh[i] + TINY]
                if hb:
                    i = hb[0]
                    cb['_gradhat_bad'] = True
                    fail(k, cb, 'gradhat', f'reported ∇ψ(x̂)[{i}] = {gh[i]!r}, ∇ψ at the reported x̂ is '
                                           f'{float(gradh[i])!r}')
                else:
                    bump('gradhat_exact')
            # ---- ε: the documented criterion from exact quantities ------------------------------------
            e = cb['eps']
            if e != e and nan_inj:
                bump('eps_nan_injected')
                continue
            val, M, div = doc_criterion(cname, Q, G, X, S.frv(xh), grad, gradh, yh_ex)
            if max([M] + Mg + Mgh) > Fr(10) ** 300 or (div and M / 1 > Fr(10) ** 300):
                bump('consistency_skipped_overflow_range')
                continue
            tol = float(Fr(REL) * M) + REL * abs(val) + \
                4 * _ulp(*(x + xh)) * (1.0 / gam if div else 1.0) * (n if cname.endswith('2') else 1)
            tol += float(Fr(REL) * max(Mg + Mgh + [Fr(0)]))     # the gradients enter every formula but the γ-step ones
            if cname == 'Ipopt' and Q.ex.m + n:
                # s_d = max(100, (‖ŷ‖₁ + ‖w‖₁)/(2m+2n))/100 with w = (x̂ − ∇ψ(x̂)) − Π_C(x̂ − ∇ψ(x̂)): the subtraction
                # cancels — its rounding error is a few ulps of |∇ψ(x̂)|, |x̂|, not of w
                D, nn = doc_criterion.ipopt
                if D > 0 and D / nn > 99:
                    dD = sum(Fr(REL) * a for a in Myh) + \
                        sum(Fr(REL) * Mgh[i] + 8 * Fr(_ulp(float(gradh[i]), xh[i], Q.ex.Clb[i], Q.ex.Cub[i]))
                            for i in range(n))
                    tol += abs(val) * float(dD / D) * 2
            if not (abs(e - val) <= tol):
                fail(k, cb, 'eps', f'{cname}: reported ε = {e!r}, the documented formula from x − x̂, γ and the exact '
                                   f'∇ψ(x), ∇ψ(x̂), ŷ(x̂) gives {val!r} (tolerance {tol:.3g})')
            else:
                bump('eps_documented_exact'); bump('eps_documented_exact_' + cname)

    try:
        run()
    except Stop:
        pass
    return pending[0] if pending else None


def iterate_consistency(solver_name, op_line, out_line, pid, bump=lambda k, n=1: None):
    """`consistency` on a harness output line of PANOC / ZeroFPR / PANTR / FISTA (any of the four layouts)."""
    import c06_loop
    import loops as LP
    if solver_name not in ('panoc', 'zerofpr', 'pantr', 'fista') or not out_line.startswith('S ') or \
            out_line.startswith('S exception'):
        return None
    op = S.Op.parse(op_line)
    r = c06_loop.parse(solver_name, out_line)
    rec = LP.recomputed(r) if solver_name in ('panoc', 'zerofpr') else []
    fixed = solver_name == 'fista' and C.f2h(op.flt('Lmin', 1e-5)) == C.f2h(op.flt('Lmax', 1e20))
    return consistency(solver_name, op, r['cbs'], pid=pid, bump=bump, rewritten=rec,
                       final_only_gh=(solver_name == 'pantr'), fixed_fista=fixed)


# ------------------------------------------------------------------ exceptions of the real solver (audit-2 #12)

OCP_SUPPORTED = {'ProjGradNorm', 'ProjGradNorm2', 'ProjGradUnitNorm', 'ProjGradUnitNorm2', 'FPRNorm', 'FPRNorm2'}


def expected_exception(solver_name, op_line, out_line):
    """The op belongs to a class whose real code throws BY CONTRACT → name of the class, else None:
      * PANOC-OCP with a stopping criterion it does not implement (Props/C06_Ocp.ocp_unsupported_throws);
      * PANTR + NewtonTRDirection handed a trust radius that is not positive and finite: the provider's `apply` rejects it
        (`Invalid trust radius`) — the radius is read from the recorded `dapply` event, i.e. from what the solver passed."""
    op = S.Op.parse(op_line)
    if solver_name == 'ocp':
        crit = 'ApproxKKT' if op.nat('defaultcrit') else S.CRITS[op.nat('crit', 0)]
        return None if crit in OCP_SUPPORTED else 'ocp_unsupported_criterion'
    if solver_name == 'pantr' and op.get('dir') == 'newtontr':
        da = [e for e in ev_list(out_line) if e and e[0] == 'dapply']
        if da:
            try:
                (g, x, xh, p, gr, radius), _ = take('svvvvs', da[-1], 1)
            except (ValueError, IndexError):
                return None
            if not (math.isfinite(radius) and radius > 0):
                return 'pantr_newtontr_rejects_nonfinite_radius'
    return None


def exception_monitor(solver_name, op_line, out_line, bump=lambda k, n=1: None):
    """An exception thrown by the real solver where the property / the model expects a result is a violation, not
    a skip; in a declared throwing class the outputs must be untouched.  → None | str"""
    if not (out_line.startswith('S exception') or out_line.startswith('exception')):
        return None
    cls = expected_exception(solver_name, op_line, out_line)
    o = next((sec.split() for sec in out_line.split(' ; ') if sec.startswith('O ')), None)
    untouched = o is not None and o[1] == '1'
    if cls:
        bump('exception_' + cls)
        if not untouched:
            return f'the solver threw ({cls}) but modified its output arguments'
        return None
    return (f'the real solver threw an exception ({out_line.split(" ; ")[0][:80]}) on an op outside every throwing '
            f'class; outputs {"untouched" if untouched else "MODIFIED"}')


def own_findings_only(m, pid, bump=lambda k, n=1: None):
    """A monitor reused under property `pid`: a keyed known finding of ANOTHER property (key `Cxx-…` / `Cxx:…`)
    is counted, not reported (known findings are matched by (property, key))."""
    if isinstance(m, tuple) and m[1] and m[1][:3] != pid and m[1][:1] == 'C' and m[1][1:3].isdigit():
        bump('finding_of_other_property_' + m[1])
        return None
    return m
