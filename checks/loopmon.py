"""
Helpers shared by the multi-solver loop-level checks C05 / C06 / C19 (checks/c05.py, c06.py, c06_loop.py,
c19.py): format-agnostic access to the event stream of a harness output line, typed parsing of recorded
problem / direction events, hang-safe pre-screening of op lines, and the solver adapters handed to
`multiloop.loop_check` (they wrap the entries of `multiloop.registry()` and only replace the op generator).

Everything here looks at *observations of the real solver* only (independent of the Lean models).
"""
import os
import subprocess
import sys

sys.path.insert(0, os.path.dirname(os.path.abspath(__file__)))
import common as C
import solvers as S

EPS = 2.0 ** -52
EPS10 = 10 * EPS
NATURAL = ('Converged', 'MaxTime', 'MaxIter', 'NotFinite', 'NoProgress', 'Interrupted')


# ------------------------------------------------------------------ event stream (any solver format)

def ev_list(out_line):
    """All `EV …` sections of a harness output line as token lists (without the `EV`)."""
    return [sec.split()[1:] for sec in out_line.split(' ; ') if sec.strip().startswith('EV ')]


def ev_names(evs):
    return [e[0] for e in evs if e and e[0] not in ('stoptick', 'calls')]


def ev_stoptick(evs):
    for e in evs:
        if e and e[0] == 'stoptick':
            return int(e[1])
    return None


def take(shape, toks, i):
    """Read items of `shape` ('s' scalar, 'v' vector `n t1 … tn`, 'b' flag) from toks[i:] → (items, next i).
    Scalars / vector entries are converted to floats."""
    items = []
    for ch in shape:
        if ch == 'v':
            n = int(toks[i])
            items.append([C.h2f(t) for t in toks[i + 1:i + n + 1]])
            i += n + 1
        elif ch == 'b':
            items.append(toks[i] == '1')
            i += 1
        else:
            items.append(C.h2f(toks[i]))
            i += 1
    return items, i


# name -> (argument shape, result shape) of the events of harness/solver_common.hpp / solver_pantr.hpp
EVENT_SHAPES = {
    'psigradpsi': ('v', 'svv'), 'psi': ('v', 'sv'), 'gradpsi': ('v', 'v'), 'gradL': ('vv', 'v'),
    'prox': ('svv', 'svv'),
}
TR_APPLY = ('svvvvs', 'sv')          # dapply of a trust-region direction: γ x x̂ p g Δ -> q_model q


def parse_event(e, shapes=EVENT_SHAPES):
    """(name, args, results) with floats, or None when the event is not a problem call / malformed."""
    sh = shapes.get(e[0])
    if sh is None:
        return None
    try:
        a, i = take(sh[0], e, 1)
        r, _ = take(sh[1], e, i)
    except (ValueError, IndexError):
        return None
    return e[0], a, r


def cb_segments(evs):
    """Events grouped by progress callback: segs[j] = events after callback j-1 up to (excluding) callback j;
    the last entry holds what follows the final callback.  `stoptick` / `calls` pseudo-events are dropped."""
    segs, cur = [], []
    for e in evs:
        if not e or e[0] in ('stoptick', 'calls'):
            continue
        if e[0] == 'cb':
            segs.append(cur)
            cur = []
        else:
            cur.append(e)
    segs.append(cur)
    return segs


def bits(v):
    return [C.f2h(a) for a in v]


# ------------------------------------------------------------------ hang-safe pre-screening

def prescreen(exe, lines, chunk=64, chunk_timeout=60, single_timeout=6, max_hung=3):
    """Run the op lines once in chunks with a time limit, so that a run on which the (possibly modified)
    solver does not terminate cannot block the whole check.  → (kept lines, hung lines)."""
    if not exe:
        return lines, []
    kept, hung = [], []

    def run(ls, to):
        try:
            out, rc, err = C.run_lines(exe, ls, timeout=to)
            return out if len(out) == len(ls) else None
        except subprocess.TimeoutExpired:
            return None

    for i in range(0, len(lines), chunk):
        if len(hung) >= max_hung:
            break
        part = lines[i:i + chunk]
        out = run(part, chunk_timeout)
        if out is None:
            out = []
            for l in part:
                if len(hung) + sum(1 for o in out if o is None) >= max_hung:
                    part = part[:len(out)]
                    break
                o = run([l], single_timeout)
                out.append(o[0] if o else None)
        for l, o in zip(part, out):
            (hung if o is None else kept).append(l)
    return kept, hung


# ------------------------------------------------------------------ adapters for multiloop.loop_check

class Adapter:
    """A solver of `multiloop.registry()` with its op generator replaced:
    gen(solver, rng, n, exe, nsweep) -> [op lines].  Runs that do not return in time are removed from
    the list (kept in `.hung`; the check reports them)."""

    def __init__(self, base, gen, extra_sources=(), skip_monitor=None):
        self.base = base
        self.gen = gen
        self.hung = []
        self.extra_sources = list(base.extra_sources) + [e for e in extra_sources if e not in base.extra_sources]
        self._skip = skip_monitor

    def __getattr__(self, k):
        return getattr(self.base, k)

    def gen_ops(self, rng, n, exe, nsweep):
        ops = list(self.gen(self, rng, n, exe, nsweep))
        ops, hung = prescreen(exe, ops)
        self.hung.extend(hung)
        return ops

    def skip_monitor(self, op):
        if self._skip is not None:
            return self._skip(op)
        return self.base.skip_monitor(op)


def report_hung(rep, adapters):
    for a in adapters:
        for l in a.hung[:3]:
            rep.violation(f'[{a.name}] solver did not return within the time limit (crash / endless loop) on '
                          f'this run', {'solver': a.name, 'op': l}, True)


def solver_parse(solver):
    """The output parser of a registry entry (PANOC / ZeroFPR share `solvers.parse_out`)."""
    mod = getattr(solver, 'mod', None)
    return getattr(mod, 'parse_out', None) or S.parse_out


def c13_part(op_line, out_line, st):
    """checks/c13.py's PANOC-OCP monitor (C03 relations for every exit, C06 facts, unsupported criteria throw)
    for use under another property: its literal-reading C13 finding (residual at the *returned* inputs) is
    C13's own open finding and is not reported under C03 / C06 / C19."""
    import c13
    m = c13.monitor(op_line, out_line, st)
    if isinstance(m, tuple) and m[1] == c13.KEY_RETURNED:
        return None
    return m
