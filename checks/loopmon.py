"""
Helpers shared by the multi-solver loop-level checks C05 / C06 / C19 (checks/c05.py, c06.py, c06_loop.py,
c19.py): format-agnostic access to the event stream of a harness output line, typed parsing of recorded
problem / direction events, hang-safe pre-screening of op lines, and the solver adapters handed to
`multiloop.loop_check` (they wrap the entries of `multiloop.registry()` and only replace the op generator).

Everything here looks at *observations of the real solver* only (independent of the Lean models).
"""
import os
import subprocess
import sys

sys.path.insert(0, os.path.dirname(os.path.abspath(__file__)))
import common as C
import solvers as S

EPS = 2.0 ** -52
EPS10 = 10 * EPS
NATURAL = ('Converged', 'MaxTime', 'MaxIter', 'NotFinite', 'NoProgress', 'Interrupted')


# ------------------------------------------------------------------ event stream (any solver format)

def ev_list(out_line):
    """All `EV …` sections of a harness output line as token lists (without the `EV`)."""
    return [sec.split()[1:] for sec in out_line.split(' ; ') if sec.strip().startswith('EV ')]


def ev_names(evs):
    return [e[0] for e in evs if e and e[0] not in ('stoptick', 'calls')]


def ev_stoptick(evs):
    for e in evs:
        if e and e[0] == 'stoptick':
            return int(e[1])
    return None


def take(shape, toks, i):
    """Read items of `shape` ('s' scalar, 'v' vector `n t1 … tn`, 'b' flag) from toks[i:] → (items, next i).
    Scalars / vector entries are converted to floats."""
    items = []
    for ch in shape:
        if ch == 'v':
            n = int(toks[i])
            items.append([C.h2f(t) for t in toks[i + 1:i + n + 1]])
            i += n + 1
        elif ch == 'b':
            items.append(toks[i] == '1')
            i += 1
        else:
            items.append(C.h2f(toks[i]))
            i += 1
    return items, i


# name -> (argument shape, result shape) of the events of harness/solver_common.hpp / solver_pantr.hpp
EVENT_SHAPES = {
    'psigradpsi': ('v', 'svv'), 'psi': ('v', 'sv'), 'gradpsi': ('v', 'v'), 'gradL': ('vv', 'v'),
    'prox': ('svv', 'svv'),
}
TR_APPLY = ('svvvvs', 'sv')          # dapply of a trust-region direction: γ x x̂ p g Δ -> q_model q


def parse_event(e, shapes=EVENT_SHAPES):
    """(name, args, results) with floats, or None when the event is not a problem call / malformed."""
    sh = shapes.get(e[0])
    if sh is None:
        return None
    try:
        a, i = take(sh[0], e, 1)
        r, _ = take(sh[1], e, i)
    except (ValueError, IndexError):
        return None
    return e[0], a, r


def cb_segments(evs):
    """Events grouped by progress callback: segs[j] = events after callback j-1 up to (excluding) callback j;
    the last entry holds what follows the final callback.  `stoptick` / `calls` pseudo-events are dropped."""
    segs, cur = [], []
    for e in evs:
        if not e or e[0] in ('stoptick', 'calls'):
            continue
        if e[0] == 'cb':
            segs.append(cur)
            cur = []
        else:
            cur.append(e)
    segs.append(cur)
    return segs


def bits(v):
    return [C.f2h(a) for a in v]


# ------------------------------------------------------------------ hang-safe pre-screening

def prescreen(exe, lines, chunk=64, chunk_timeout=60, single_timeout=6, max_hung=3):
    """Run the op lines once in chunks with a time limit, so that a run on which the (possibly modified)
    solver does not terminate cannot block the whole check.  → (kept lines, hung lines)."""
    if not exe:
        return lines, []
    kept, hung = [], []

    def run(ls, to):
        try:
            out, rc, err = C.run_lines(exe, ls, timeout=to)
            return out if len(out) == len(ls) else None
        except subprocess.TimeoutExpired:
            return None

    for i in range(0, len(lines), chunk):
        if len(hung) >= max_hung:
            break
        part = lines[i:i + chunk]
        out = run(part, chunk_timeout)
        if out is None:
            out = []
            for l in part:
                if len(hung) + sum(1 for o in out if o is None) >= max_hung:
                    part = part[:len(out)]
                    break
                o = run([l], single_timeout)
                out.append(o[0] if o else None)
        for l, o in zip(part, out):
            (hung if o is None else kept).append(l)
    return kept, hung


# ------------------------------------------------------------------ adapters for multiloop.loop_check

class Adapter:
    """A solver of `multiloop.registry()` with its op generator replaced:
    gen(solver, rng, n, exe, nsweep) -> [op lines].  Runs that do not return in time are removed from
    the list (kept in `.hung`; the check reports them)."""

    def __init__(self, base, gen, extra_sources=(), skip_monitor=None):
        self.base = base
        self.gen = gen
        self.hung = []
        self.extra_sources = list(base.extra_sources) + [e for e in extra_sources if e not in base.extra_sources]
        self._skip = skip_monitor

    def __getattr__(self, k):
        return getattr(self.base, k)

    def gen_ops(self, rng, n, exe, nsweep):
        ops = list(self.gen(self, rng, n, exe, nsweep))
        ops, hung = prescreen(exe, ops)
        self.hung.extend(hung)
        return ops

    def skip_monitor(self, op):
        if self._skip is not None:
            return self._skip(op)
        return self.base.skip_monitor(op)


def report_hung(rep, adapters):
    for a in adapters:
        for l in a.hung[:3]:
            rep.violation(f'[{a.name}] solver did not return within the time limit (crash / endless loop) on '
                          f'this run', {'solver': a.name, 'op': l}, True)


def solver_parse(solver):
    """The output parser of a registry entry (PANOC / ZeroFPR share `solvers.parse_out`)."""
    mod = getattr(solver, 'mod', None)
    return getattr(mod, 'parse_out', None) or S.parse_out


def c13_part(op_line, out_line, st):
    """checks/c13.py's PANOC-OCP monitor (C03 relations for every exit, C06 facts, unsupported criteria throw)
    for use under another property: its literal-reading C13 finding (residual at the *returned* inputs) is
    C13's own open finding and is not reported under C03 / C06 / C19."""
    import c13
    m = c13.monitor(op_line, out_line, st)
    if isinstance(m, tuple) and m[1] == c13.KEY_RETURNED:
        return None
    return m


# ------------------------------------------------------------------ exact iterate consistency (audit-2 #5)
#
# What a progress callback of PANOC / ZeroFPR / PANTR / FISTA claims — (x, γ) ↦ ∇ψ(x), x̂, p, ‖p‖², ψ(x), ψ(x̂),
# ŷ(x̂), ∇ψ(x̂), φγ, ε — is recomputed from the PROBLEM DATA alone (polynomial test problem, exact rationals;
# prox of box / box+ℓ1 in closed form: clamp(soft-threshold)), never from the library's intermediate values.
#
# Tolerances (all relative, stated):
#   function values / gradients / multipliers:  |reported − exact| ≤ REL · M,  REL = 2⁻⁴⁰, M = the sum of the
#       absolute values of all terms of the exact expression at the reported point (the running-error magnitude
#       of any evaluation order; catches nothing but rounding — a double evaluation has error ≲ 50·2⁻⁵³·M)
#   prox step:  x̂ and p against the exact prox at the reported (x, γ) with the exact ∇ψ(x):
#       4 ulp of the operands (x, γ∇ψ, γλ, the bounds, x̂) + γ·REL·M(∇ψ_i)   (the prox is 1-Lipschitz)
#   ‖p‖², φγ:  against the exact expression of the reported parts, 8(n+4)·2⁻⁵³ · Σ|terms|
#   ε:  the ten DOCUMENTED criteria from x − x̂ (reported points), the exact ∇ψ(x), ∇ψ(x̂), ŷ(x̂), γ:
#       REL·M(ε) + 4 ulp(max |x_i|, |x̂_i|)·(1/γ where the formula divides by γ)
# Skipped (counted): a quantity whose magnitude M exceeds 1e300 (IEEE overflow of intermediate terms);
# under NaN injection (`nanat` ≠ 0) a reported NaN value of ψ / ψ̂ / φγ / ε (the injected answer).

REL = 2.0 ** -40
from fractions import Fraction as Fr   # noqa: E402
import math                            # noqa: E402


class ExactQ:
    """`solvers.Exact` plus the magnitudes the tolerances need and the closed-form prox."""

    def __init__(self, op):
        self.op = op
        self.ex = S.Exact(op)
        self.y = S.frv(op.vec('y0'))
        self.Sig = S.frv(op.vec('Sig'))
        ex = self.ex
        l1 = ex.l1
        self.lam = [Fr(0)] * ex.n if not l1 else ([Fr(l1[0])] * ex.n if len(l1) == 1 else S.frv(l1))
        self.key = None
        self.cache = {}

    # ---- values
    def at(self, pt):
        """(ψ, ∇ψ, ŷ, M_ψ, [M_∇ψ_i], [M_ŷ_j]) at a point given as a list of doubles (cached)."""
        k = tuple(C.f2h(a) for a in pt)
        if k in self.cache:
            return self.cache[k]
        ex, y, Sig = self.ex, self.y, self.Sig
        n, m = ex.n, ex.m
        x = S.frv(pt)
        ax = [abs(a) for a in x]
        yh = ex.yhat(x, y, Sig)
        psi = ex.f(x) + sum(yh[j] ** 2 / Sig[j] for j in range(m)) / 2
        gf = ex.grad_f(x); gg = ex.grad_g_prod(x, yh)
        grad = [gf[i] + gg[i] for i in range(n)]
        f_abs = sum(ax[i] * sum(abs(ex.Q[i * n + j]) * ax[j] for j in range(n)) / 2 + abs(ex.c[i]) * ax[i]
                    + abs(ex.q4[i]) * ax[i] ** 4 / 4 for i in range(n))
        xx = sum(a * a for a in ax)
        My = []
        for j in range(m):
            gabs = sum(abs(ex.A[j * n + i]) * ax[i] for i in range(n)) + abs(ex.b[j]) * xx / 2
            bnd = max([abs(Fr(v)) for v in (ex.Dlb[j], ex.Dub[j]) if math.isfinite(v)] + [Fr(0)])
            My.append(abs(Sig[j]) * (gabs + abs(y[j] / Sig[j]) + bnd))
        Mpsi = f_abs + sum(My[j] ** 2 / abs(Sig[j]) for j in range(m)) / 2
        Mg = [sum(abs(ex.Q[i * n + j] + ex.Q[j * n + i]) / 2 * ax[j] for j in range(n)) + abs(ex.c[i])
              + abs(ex.q4[i]) * ax[i] ** 3
              + sum((abs(ex.A[j * n + i]) + abs(ex.b[j]) * ax[i]) * My[j] for j in range(m)) for i in range(n)]
        self.cache[k] = (psi, grad, yh, Mpsi, Mg, My)
        return self.cache[k]

    def prox(self, gamma, x, g):
        """prox_{γh}(x − γ g), h = λ‖·‖₁ + δ_C, componentwise: clamp(soft-threshold(x − γg, γλ), lb, ub) — the
        minimiser of a one-dimensional convex function over an interval is the projection of its unconstrained
        minimiser.  Exact rationals in, exact rationals out."""
        ex = self.ex
        out = []
        for i in range(ex.n):
            v = x[i] - gamma * g[i]
            t = gamma * self.lam[i]
            s = v - t if v > t else (v + t if v < -t else Fr(0))
            out.append(ex.proj(s, ex.Clb[i], ex.Cub[i]))
        return out

    def h(self, xh):
        return sum(self.lam[i] * abs(xh[i]) for i in range(self.ex.n))


def doc_criterion(name, Q, gamma, x, xh, g, gh, yh):
    """The DOCUMENTED formula of a PANOCStopCrit (panoc-stop-crit.hpp) from x, x̂ (exact rationals of the reported
    points), γ, ∇ψ(x), ∇ψ(x̂), ŷ(x̂) (exact).  Π_C is the prox of the problem's nonsmooth term (box, box+ℓ1).
    → (value as float, magnitude M of the terms, divides by γ?)"""
    n = len(x)
    F = Fr
    d = [x[i] - xh[i] for i in range(n)]

    def ninf(v):
        return max([abs(a) for a in v] + [F(0)])

    def n2(v):
        return math.sqrt(float(sum(a * a for a in v)))

    def unit(pt, gr):
        ph = Q.prox(F(1), pt, gr)
        return [pt[i] - ph[i] for i in range(n)]
    if name in ('ApproxKKT', 'ApproxKKT2'):
        v = [d[i] / gamma + gh[i] - g[i] for i in range(n)]
        M = max([abs(d[i] / gamma) + abs(gh[i]) + abs(g[i]) for i in range(n)] + [F(0)])
        return (float(ninf(v)) if name == 'ApproxKKT' else n2(v)), M, True
    if name in ('ProjGradNorm', 'ProjGradNorm2'):
        return (float(ninf(d)) if name == 'ProjGradNorm' else n2(d)), ninf(d), False
    if name in ('FPRNorm', 'FPRNorm2'):
        return (float(ninf(d) / gamma) if name == 'FPRNorm' else n2(d) / float(gamma)), ninf(d) / gamma, True
    if name in ('ProjGradUnitNorm', 'ProjGradUnitNorm2'):
        v = unit(x, g)
        return (float(ninf(v)) if name == 'ProjGradUnitNorm' else n2(v)), ninf(v), False
    if name == 'LBFGSBpp':
        v = unit(x, g)
        nx = n2(x)
        return float(ninf(v)) / max(1.0, nx), ninf(v), False
    if name == 'Ipopt':
        vk = [xh[i] - gh[i] for i in range(n)]
        pc = Q.prox(F(1), xh, gh)                    # Π_C(v)
        err = ninf([xh[i] - pc[i] for i in range(n)])
        nn = 2 * (len(yh) + n)
        if nn == 0:
            return float(err), err, False
        w = [vk[i] - pc[i] for i in range(n)]
        sd = max(F(100), (sum(abs(a) for a in yh) + sum(abs(a) for a in w)) / nn) / 100
        return float(err / sd), err, False
    raise ValueError(name)


def _ulp(*mags):
    m = max([abs(float(a)) for a in mags if math.isfinite(float(a))] + [0.0])
    return math.ulp(m) if m > 0 else 5e-324


def consistency(flavor, op, cbs, **kw):
    """See `_consistency`; exact quantities beyond the range of binary64 (diverging runs) are a counted skip."""
    try:
        return _consistency(flavor, op, cbs, **kw)
    except OverflowError:
        kw.get('bump', lambda k, n=1: None)('consistency_skipped_overflow_range')
        return None


def _consistency(flavor, op, cbs, *, bump=lambda k, n=1: None, rewritten=(), final_only_gh=False, crit=None,
                 fixed_fista=False):
    """Exact consistency of every callback of a PANOC / ZeroFPR / PANTR / FISTA run (layout of `solvers.parse_out`
    field names).  `rewritten[k]`: callback k was rewritten by recompute_last_prox_step_… (its tuple mixes two
    step sizes: reported with the finding's key).  → None | str | (str, key)"""
    if not cbs:
        return None
    Q = ExactQ(op)
    n = Q.ex.n
    nan_inj = op.nat('nanat', 0) != 0
    crit = op.nat('crit', 0) if crit is None else crit
    cname = S.CRITS[crit]
    need_gh = cname in ('ApproxKKT', 'ApproxKKT2', 'Ipopt')
    for k, cb in enumerate(cbs):
        last = k == len(cbs) - 1
        x, xh, p, g = cb['x'], cb['xhat'], cb['p'], cb['grad_psi']
        gam = cb['gamma']
        tag = f'callback {k} ({cb["status"]})'
        if len(x) != n or len(xh) != n or len(p) != n or len(g) != n:
            return f'{tag}: vector sizes {len(x)}, {len(xh)}, {len(p)}, {len(g)} ≠ n = {n}'
        if not all(math.isfinite(a) for a in x) or not (math.isfinite(gam) and gam > 0):
            bump('consistency_skipped_nonfinite_x_or_gamma')
            continue
        psi, grad, _, Mpsi, Mg, _ = Q.at(x)
        if max([Mpsi] + Mg) > Fr(10) ** 300:
            bump('consistency_skipped_overflow_range')
            continue
        rw = k < len(rewritten) and rewritten[k]
        key = 'C05-recompute-reports-stale-psi-hat' if (rw and flavor == 'panoc') else \
            ('C05-zerofpr-recompute-reports-mixed-stepsize' if (rw and flavor == 'zerofpr') else None)

        def bad(msg):
            return (f'{tag}: {msg}', key) if key else f'{tag}: {msg}'
        # ---- ψ(x), ∇ψ(x) ------------------------------------------------------------------------------
        v = cb['psi']
        if v != v and (nan_inj or fixed_fista):
            bump('psi_nan_injected_or_not_evaluated')
        elif not math.isfinite(v) or abs(Fr(v) - psi) > Fr(REL) * Mpsi:
            return bad(f'reported ψ = {v!r}, ψ at the reported x is {float(psi)!r}')
        for i in range(n):
            if not math.isfinite(g[i]) or abs(Fr(g[i]) - grad[i]) > Fr(REL) * Mg[i]:
                return bad(f'reported ∇ψ[{i}] = {g[i]!r}, ∇ψ at the reported x is {float(grad[i])!r}')
        bump('psi_grad_at_x_exact')
        # ---- x̂ = prox_γ(x − γ∇ψ(x)), p = x̂ − x --------------------------------------------------------
        X = S.frv(x)
        G = Fr(gam)
        xh_ex = Q.prox(G, X, grad)
        if not all(math.isfinite(a) for a in xh + p):
            return bad(f'x̂ / p not finite at finite x, γ (x̂={xh}, p={p})')
        for i in range(n):
            tol = 4 * Fr(_ulp(x[i], float(G * grad[i]), float(G * Q.lam[i]), Q.ex.Clb[i], Q.ex.Cub[i], xh[i])) \
                + G * Fr(REL) * Mg[i]
            if abs(Fr(xh[i]) - xh_ex[i]) > tol:
                return bad(f'reported x̂[{i}] = {xh[i]!r}, but prox_γ(x − γ∇ψ(x))[{i}] = {float(xh_ex[i])!r} at the '
                           f'reported x, γ = {gam!r} (tolerance {float(tol):.3g})')
            if abs(Fr(p[i]) - (xh_ex[i] - X[i])) > tol:
                return bad(f'reported p[{i}] = {p[i]!r}, but prox_γ(x − γ∇ψ(x))[{i}] − x[{i}] = '
                           f'{float(xh_ex[i] - X[i])!r} at the reported x, γ = {gam!r} (tolerance {float(tol):.3g})')
        bump('prox_step_exact')
        # ---- ‖p‖², φγ --------------------------------------------------------------------------------
        P = S.frv(p)
        pTp = sum(a * a for a in P)
        if not math.isfinite(cb['pTp']) or abs(Fr(cb['pTp']) - pTp) > 8 * (n + 4) * Fr(EPS) * pTp:
            return bad(f'reported ‖p‖² = {cb["pTp"]!r}, the reported p has ‖p‖² = {float(pTp)!r}')
        v = cb['fbe']
        if v != v and (nan_inj or fixed_fista):
            bump('fbe_nan_injected_or_not_evaluated')
        else:
            hx = Q.h(S.frv(xh))
            gp = [Fr(g[i]) * P[i] for i in range(n)]
            want = psi + hx + pTp / (2 * G) + sum(gp)
            M = Mpsi + hx + pTp / (2 * G) + sum(abs(a) for a in gp)
            if not math.isfinite(v) or abs(Fr(v) - want) > (Fr(REL) + 8 * (n + 4) * Fr(EPS)) * M:
                return bad(f'reported φγ = {v!r}, but ψ(x) + h(x̂) + ‖p‖²/(2γ) + ∇ψ(x)ᵀp = {float(want)!r} '
                           f'(ψ exact at the reported x, the other terms from the reported x̂, p, γ)')
            bump('fbe_exact')
        # ---- ψ(x̂), ŷ(x̂), ∇ψ(x̂) -------------------------------------------------------------------------
        psih, gradh, yh_ex, Mpsih, Mgh, Myh = Q.at(xh)
        if max([Mpsih] + Mgh) > Fr(10) ** 300:
            bump('consistency_skipped_overflow_range')
            continue
        v = cb['psi_hat']
        if v != v and (nan_inj or fixed_fista):
            bump('psihat_nan_injected_or_not_evaluated')
        elif not math.isfinite(v) or abs(Fr(v) - psih) > Fr(REL) * Mpsih:
            return bad(f'reported ψ(x̂) = {v!r}, ψ at the reported x̂ is {float(psih)!r}')
        else:
            bump('psihat_exact')
        yh = cb.get('yhat') or []
        if len(yh) == Q.ex.m and Q.ex.m:
            for j in range(Q.ex.m):
                if not math.isfinite(yh[j]) or abs(Fr(yh[j]) - yh_ex[j]) > Fr(REL) * Myh[j]:
                    return bad(f'reported ŷ[{j}] = {yh[j]!r}, ŷ at the reported x̂ is {float(yh_ex[j])!r}')
            bump('yhat_exact')
        gh = cb.get('grad_psi_hat') or []
        check_gh = cb.get('have_gh') and len(gh) == n and (not final_only_gh or (last and need_gh))
        if check_gh:
            for i in range(n):
                if not math.isfinite(gh[i]) or abs(Fr(gh[i]) - gradh[i]) > Fr(REL) * Mgh[i]:
                    return bad(f'reported ∇ψ(x̂)[{i}] = {gh[i]!r}, ∇ψ at the reported x̂ is {float(gradh[i])!r}')
            bump('gradhat_exact')
        # ---- ε: the documented criterion from exact quantities ----------------------------------------
        e = cb['eps']
        if e != e and nan_inj:
            bump('eps_nan_injected')
            continue
        val, M, div = doc_criterion(cname, Q, G, X, S.frv(xh), grad, gradh, yh_ex)
        tol = float(Fr(REL) * M) + REL * abs(val) + \
            4 * _ulp(*(x + xh)) * (1.0 / gam if div else 1.0) * (n if cname.endswith('2') else 1)
        tol += float(Fr(REL) * max(Mg + Mgh + [Fr(0)]))        # the gradients enter every formula but the γ-step ones
        if not math.isfinite(e) or abs(e - val) > tol:
            return bad(f'{cname}: reported ε = {e!r}, the documented formula from x − x̂, γ and the exact ∇ψ(x), '
                       f'∇ψ(x̂), ŷ(x̂) gives {val!r} (tolerance {tol:.3g})')
        bump('eps_documented_exact'); bump('eps_documented_exact_' + cname)
    return None
