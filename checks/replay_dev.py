import sys, random
sys.path.insert(0,'checks')
import common as C, solvers as S
exe,log=S.build_harness()
assert exe, log
drv=C.driver_exe('drv_loop')
seed=int(sys.argv[1]) if len(sys.argv)>1 else 1
N=int(sys.argv[2]) if len(sys.argv)>2 else 20
rng=random.Random(seed)
ops=[]
for i in range(N):
    p=S.gen_problem(rng)
    st=S.gen_start(rng,p)
    d=rng.choice(['lbfgs','noop','adv','anderson','slbfgs'])
    if p['n']==0: d='noop'
    op=S.Op({'_op':'run','solver':'panoc','dir':d, **S.problem_kv(p), **{k:S.kvvec(v) for k,v in st.items()},
      'maxiter':str(rng.choice([0,1,2,3,5,20,60])),'tol':C.f2h(rng.choice([1e-8,1e-3,1e-1,10.0])),
      'crit':str(rng.randrange(10)),'maxnp':str(rng.choice([1,2,10])),'overwrite':str(rng.randint(0,1)),
      'updcand':str(rng.randint(0,1)),'recomp':str(rng.randint(0,1)),'eager':str(rng.randint(0,1)),
      'force':str(rng.choice([0,0,1])),'mem':str(rng.choice([1,2,5])),'advseed':str(rng.randint(1,1000)),
      'L0':C.f2h(rng.choice([0.0,0.0,1.0,64.0])),
      'stopat':str(rng.choice([0,0,0,rng.randint(1,40)])),'stopcb':str(rng.choice([0,0,0,rng.randint(1,5)]))})
    ops.append(op.line())
hout,rc,err=C.run_lines(exe,ops)
print('harness rc',rc,err[-500:])
dops=[o+' || '+S.events_only(h) for o,h in zip(ops,hout)]
dout,rc,err=C.run_lines(drv,dops)
print('driver rc',rc,err[-500:])
bad=0
for i,(o,h,d) in enumerate(zip(ops,hout,dout)):
    hs=S.strip_events(h)
    if hs!=d.strip():
        bad+=1
        if bad<=3:
            print('MISMATCH',i,o[:4000])
            a=hs.split(' ; '); b=d.split(' ; ')
            for k,(x,y) in enumerate(zip(a,b)):
                if x!=y:
                    print(' sec',k); print('  H',x[:1500]); print('  M',y[:1500]); break
            if len(a)!=len(b): print(' nsec',len(a),len(b), a[-1][:300], '|||', b[-1][:300])
print('total',len(ops),'bad',bad)
import collections
print(collections.Counter(S.parse_out(h)['stats']['status'] for h in hout))
